#!/usr/bin/env python3
"""Rewrites the seeded-change table of DESIGN.md (between the matrix markers, or the existing table) from seeded/*/meta.json."""
import json, glob, os, re
rows = []
for d in sorted(glob.glob('/verif/seeded/C*')):
    m = json.load(open(os.path.join(d, 'meta.json')))
    sid = os.path.basename(d)
    esc = lambda t: t.replace('|', '/').replace('\n', ' ')
    rows.append('| %s | %s | %s | %s |' % (sid, esc(m['summary'][:170]), esc(m.get('detected_by', '?')), esc(m.get('detection', ''))))
table = '<!-- matrix:begin -->\n| seed | change | caught by | how (predicate, family) |\n|---|---|---|---|\n' + '\n'.join(rows) + '\n<!-- matrix:end -->'
s = open('/verif/DESIGN.md').read()
if '<!-- matrix:begin -->' in s:
    s = re.sub(r'<!-- matrix:begin -->.*?<!-- matrix:end -->', lambda _: table, s, flags=re.S)
else:
    s = re.sub(r'\| seed \| change \| caught by \| how \(predicate, family\) \|\n\|---\|---\|---\|---\|\n(\|.*\n)+', lambda _: table + '\n', s)
open('/verif/DESIGN.md', 'w').write(s)
print(len(rows), 'rows')
