#!/bin/sh
# usage: tools_seed_check_alt.sh <seed-dir> <prop>... : like tools_seed_check.sh but in a scratch lane
# (/tmp/alt: worktree of /repo + copy of the harness, via VERIF_ALT), leaving /repo untouched
d=$1; shift
L=/tmp/alt
if [ ! -d $L/repo ]; then
  mkdir -p $L; git -C /repo worktree add --detach $L/repo HEAD -f >/dev/null 2>&1
fi
rsync -a --exclude target /verif/harness/ $L/harness/
sed -i "s#path = \"/repo\"#path = \"$L/repo\"#" $L/harness/Cargo.toml
git -C $L/repo checkout -q -- .
git -C $L/repo apply $d/patch.diff || { echo "patch does not apply"; exit 2; }
for p in "$@"; do
  VERIF_ALT=$L VERIF_SKIP_LEAN=1 python3 /verif/check.py $p --tier quick > /tmp/sca_$p.log 2>&1; rc=$?
  echo "== $(basename $d) check $p exit=$rc: $(grep -E '^(VIOLATION|OK|KNOWN)' /tmp/sca_$p.log | head -2 | cut -c1-160)"
  grep -E '^# ' /tmp/sca_$p.log | head -2 | cut -c1-300
done
git -C $L/repo checkout -q -- .
