#!/usr/bin/env python3
"""Systematic syntactic mutation of /repo's source (development tool, not a registered check).

usage: tools_mutate.py <lanes> <n-mutants> <seed> [result-file]

Enumerates small mutations of src/**.rs outside tests and comments (relational / logical /
arithmetic operators, integer and boolean literals, deleted `?;` statements, removed negations,
checked->wrapping arithmetic), samples n of them, and for each one, in a scratch lane under
/tmp/mut/lane<i> (a git worktree of /repo plus a copy of the harness, via check.py's VERIF_ALT):
  1. builds the crate with all features (mutants that do not compile are dropped),
  2. runs the crate's own test suite with all features (mutants the tests catch are dropped),
  3. runs the C03 quick check, which exercises every case family, and records whether ANY property
     predicate or model/implementation comparison failed.
Result lines: <id> <file>:<line> <operator> <outcome> <detail>.  Nothing is ever written to /repo.
"""
import json, os, random, re, shutil, subprocess, sys, threading

LANES = int(sys.argv[1]); N = int(sys.argv[2]); SEED = int(sys.argv[3])
RESULT = sys.argv[4] if len(sys.argv) > 4 else "/tmp/mut/result.txt"
BASE = "/tmp/mut"
FILES = ["src/lib.rs", "src/builder.rs", "src/node_id.rs", "src/error.rs", "src/keys/mod.rs", "src/keys/combined.rs",
         "src/keys/k256_key.rs", "src/keys/rust_secp256k1.rs", "src/keys/ed25519.rs"]

OPS = [
    (r" <= ", " < ", "le->lt"), (r" < ", " <= ", "lt->le"), (r" >= ", " > ", "ge->gt"), (r" > ", " >= ", "gt->ge"),
    (r" == ", " != ", "eq->ne"), (r" != ", " == ", "ne->eq"), (r" && ", " || ", "and->or"), (r" \|\| ", " && ", "or->and"),
    (r" \+ ", " - ", "plus->minus"), (r" - ", " + ", "minus->plus"),
    (r"\btrue\b", "false", "true->false"), (r"\bfalse\b", "true", "false->true"),
    (r"if !", "if ", "drop-not"), (r"\.checked_add\((\w+)\)", r".map(|x| x.wrapping_add(\1)).into()", None),
    (r"\.is_some\(\)", ".is_none()", "some->none"), (r"\.is_none\(\)", ".is_some()", "none->some"),
    (r"\.is_empty\(\)", ".len() == 1", "empty->one"),
    (r"\.is_ok\(\)", ".is_err()", "ok->err"), (r"\.is_err\(\)", ".is_ok()", "err->ok"),
]


def sites():
    out = []
    for f in FILES:
        p = os.path.join("/repo", f)
        if not os.path.exists(p):
            continue
        lines = open(p).read().split("\n")
        in_tests = False
        for i, l in enumerate(lines):
            st = l.strip()
            if st.startswith("#[cfg(test)]"):
                in_tests = True
            if in_tests:
                continue
            if st.startswith("//") or st.startswith("#[") or st.startswith("use ") or st.startswith("pub use "):
                continue
            code = l.split("//")[0]
            # operators
            for pat, rep, name in OPS:
                if name is None:
                    continue
                for m in re.finditer(pat, code):
                    # skip generics / lifetimes / arrows / strings
                    if '"' in code[:m.start()] and code[:m.start()].count('"') % 2 == 1:
                        continue
                    if name in ("lt->le", "gt->ge") and re.search(r"[A-Za-z_>]\s*<\s*[A-Z']|->|=>|impl<|fn \w+<", code):
                        continue
                    out.append((f, i, m.start(), m.end(), rep, name))
            # integer literals (not inside strings, not in attributes)
            for m in re.finditer(r"(?<![\w.\"'])(\d+)(?![\w.\"'])", code):
                if code[:m.start()].count('"') % 2 == 1:
                    continue
                v = int(m.group(1))
                for nv, name in ((v + 1, "int+1"), (v - 1, "int-1")):
                    if nv < 0:
                        continue
                    out.append((f, i, m.start(), m.end(), str(nv), name))
            # hex literals
            for m in re.finditer(r"\b0x([0-9a-fA-F]+)\b", code):
                if code[:m.start()].count('"') % 2 == 1:
                    continue
                v = int(m.group(1), 16)
                out.append((f, i, m.start(), m.end(), hex(v + 1), "hex+1"))
                if v > 0:
                    out.append((f, i, m.start(), m.end(), hex(v - 1), "hex-1"))
            # one record key constant for another (copy-and-paste slips), outside the definitions
            if not st.startswith("pub const") and not st.startswith("const"):
                names = ["IP_ENR_KEY", "IP6_ENR_KEY", "TCP_ENR_KEY", "TCP6_ENR_KEY", "UDP_ENR_KEY", "UDP6_ENR_KEY"]
                swaps = {"IP_ENR_KEY": ["IP6_ENR_KEY"], "IP6_ENR_KEY": ["IP_ENR_KEY"], "TCP_ENR_KEY": ["UDP_ENR_KEY", "TCP6_ENR_KEY"],
                         "TCP6_ENR_KEY": ["UDP6_ENR_KEY", "TCP_ENR_KEY"], "UDP_ENR_KEY": ["TCP_ENR_KEY", "UDP6_ENR_KEY"],
                         "UDP6_ENR_KEY": ["TCP6_ENR_KEY", "UDP_ENR_KEY"]}
                for m in re.finditer(r"\b(" + "|".join(names) + r")\b", code):
                    for other in swaps[m.group(1)]:
                        out.append((f, i, m.start(), m.end(), other, "key-const-swap"))
                # typed accessor / setter names called for another family or protocol
                for a, b2 in (("tcp4", "udp4"), ("udp4", "tcp4"), ("tcp6", "udp6"), ("udp6", "tcp6"), ("ip4", "ip6"), ("ip6", "ip4"),
                              ("tcp4", "tcp6"), ("udp4", "udp6")):
                    for m in re.finditer(r"self\.(" + a + r")\(\)", code):
                        out.append((f, i, m.start(1), m.end(1), b2, "accessor-swap"))
            # integer types of decoded values narrowed / widened
            for a, bs in (("u16", ["u8", "u32"]), ("u64", ["u32", "u128"]), ("u8", ["u16"]), ("usize", ["u16"])):
                for m in re.finditer(r"\b" + a + r"\b(?=::decode|>\(|>::|\)|,| )", code):
                    if code[:m.start()].count('"') % 2 == 1:
                        continue
                    for b2 in bs:
                        out.append((f, i, m.start(), m.end(), b2, "int-type-" + a + "->" + b2))
            # spelling of the names the format is made of
            for lit, reps in (('b"id"', ['b"ID"']), ('b"v4"', ['b"v5"', 'b"V4"']), ('b"ip"', ['b"ip4"']), ('b"ip6"', ['b"ipv6"']),
                              ('b"tcp"', ['b"tcp4"']), ('b"udp"', ['b"udp4"']), ('"secp256k1"', ['"secp256k"', '"Secp256k1"']),
                              ('"ed25519"', ['"ed2551"', '"Ed25519"']), ('"enr:"', ['"enr"', '"ENR:"', '"enr::"']), ('"0x"', ['"0X"', '"x"'])):
                k = code.find(lit)
                if k >= 0:
                    for r2 in reps:
                        out.append((f, i, k, k + len(lit), r2, "literal"))
            # iterator / slice adaptors
            for pat, rep, name in ((r"\.skip\((\d+)\)", ".skip(0)", "skip->0"), (r"\.take\((\d+)\)", ".take(usize::MAX)", "take->all"),
                                   (r"\.rev\(\)", "", "drop-rev"), (r"\.first\(\)", ".last()", "first->last"), (r"\.last\(\)", ".first()", "last->first"),
                                   (r"\.saturating_sub\(", ".wrapping_sub(", "sat->wrap"), (r"\.to_ascii_lowercase\(\)", "", "drop-lowercase"),
                                   (r"\.strip_prefix\(", ".strip_suffix(", "prefix->suffix"), (r"\.starts_with\(", ".ends_with(", "starts->ends"),
                                   (r"\.trim_start_matches\(", ".trim_matches(", "trimstart->trim"), (r"\.get\(4\.\.\)", ".get(3..)", "slice-start"),
                                   (r"URL_SAFE_NO_PAD", "URL_SAFE", "b64-engine-pad"), (r"URL_SAFE_NO_PAD", "STANDARD_NO_PAD", "b64-engine-std"),
                                   (r"\.zeroize\(\)", ".len()", "drop-zeroize"), (r"\.clone\(\)\.", ".", None)):
                if name is None:
                    continue
                for m in re.finditer(pat, code):
                    if code[:m.start()].count('"') % 2 == 1:
                        continue
                    out.append((f, i, m.start(), m.end(), rep, name))
            # deleted validation statement
            if st.endswith("?;") and not st.startswith("let "):
                out.append((f, i, 0, len(l), "", "delete-stmt"))
            if st.startswith("let ") and st.endswith("?;") and "=" in st:
                pass
            for m in re.finditer(r"\.to_vec\(\)|\.clone\(\)", code):
                pass
            if st.startswith("return Err(") and st.endswith(";"):
                out.append((f, i, 0, len(l), "", "delete-return-err"))
            if ".checked_add(1)" in code:
                k = code.index(".checked_add(1)")
                out.append((f, i, k, k + len(".checked_add(1)"), ".map(|x| x.wrapping_add(1))", "checked->wrapping")) if "Some" in code or "ok_or" in code else None
            if ".min(" in code:
                k = code.index(".min(")
                out.append((f, i, k, k + 5, ".max(", "min->max"))
            if ".max(" in code:
                k = code.index(".max(")
                out.append((f, i, k, k + 5, ".min(", "max->min"))
    only = os.environ.get("MUT_ONLY")
    if only:
        pats = only.split(",")
        out = [s for s in out if s is not None and any(s[5].startswith(p_) for p_ in pats)]
    return [s for s in out if s is not None]


def sh(cmd, cwd, timeout=1800, env=None):
    e = dict(os.environ, CARGO_NET_OFFLINE="true")
    if env:
        e.update(env)
    try:
        p = subprocess.run(cmd, cwd=cwd, shell=True, stdout=subprocess.PIPE, stderr=subprocess.STDOUT, timeout=timeout, env=e)
        return p.returncode, p.stdout.decode("utf-8", "replace")
    except subprocess.TimeoutExpired:
        return -9, "timeout"


def setup_lane(i):
    L = f"{BASE}/lane{i}"
    shutil.rmtree(L, ignore_errors=True)
    os.makedirs(L)
    sh(f"git -C /repo worktree add --detach {L}/repo HEAD -f", "/")
    sh(f"rsync -a --exclude target /verif/harness/ {L}/harness/", "/")
    sh(f"sed -i 's#path = \"/repo\"#path = \"{L}/repo\"#' {L}/harness/Cargo.toml", "/")
    return L


lock = threading.Lock()


def run_lane(i, work):
    L = setup_lane(i)
    while True:
        with lock:
            if not work:
                break
            mid, (f, line, a, b, rep, name) = work.pop(0)
        sh("git checkout -q -- .", f"{L}/repo")
        p = os.path.join(L, "repo", f)
        lines = open(p).read().split("\n")
        before = lines[line]
        lines[line] = before[:a] + rep + before[b:]
        open(p, "w").write("\n".join(lines))
        tag = f"{mid} {f}:{line + 1} {name}"
        detail = before.strip()[:90].replace(" ", "_")
        rc, out = sh("cargo build --offline --all-features 2>&1 | tail -3", f"{L}/repo", 900)
        if "error" in out or rc != 0:
            res = "no-compile"
        else:
            rc, out = sh("cargo test --offline --all-features 2>&1 | grep -E '^test result|panicked|error' | head -5", f"{L}/repo", 900)
            if "FAILED" in out or "failed" in out.replace("0 failed", "") or "error" in out:
                res = "killed-by-tests"
            else:
                rc, out = sh("python3 /verif/check.py C03 --tier quick", "/verif", 3000, {"VERIF_ALT": L, "VERIF_SKIP_LEAN": "1"})
                ev = {}
                try:
                    ev = json.load(open(f"{L}/out/C03/C03.json"))["coverage"]
                except Exception:
                    pass
                nfail = ev.get("property_predicate_failures", 0) + ev.get("other_property_predicate_failures", 0)
                ndiff = ev.get("model_impl_disagreements", 0)
                first = ""
                for ln in out.split("\n"):
                    if ln.startswith("# ") and ("PROP" in ln or "DIFF" in ln or "abort" in ln):
                        first = ln[2:160].replace(" ", "_")
                        break
                if rc == 0 and nfail == 0 and ndiff == 0:
                    res = "SURVIVED"
                elif rc not in (0, 1):
                    res = f"check-error-rc{rc}"
                else:
                    res = f"detected props={nfail} diffs={ndiff} {first}"
        with lock:
            with open(RESULT, "a") as fh:
                fh.write(f"{tag} {res} | {detail}\n")
    sh("git checkout -q -- .", f"{L}/repo")
    sh(f"git -C /repo worktree remove --force {L}/repo", "/")
    shutil.rmtree(L, ignore_errors=True)


def main():
    os.makedirs(BASE, exist_ok=True)
    all_sites = sites()
    rnd = random.Random(SEED)
    rnd.shuffle(all_sites)
    pick = all_sites[:N]
    with open(RESULT, "a") as fh:
        fh.write(f"# {len(all_sites)} mutation sites, {len(pick)} sampled, seed {SEED}\n")
    work = list(enumerate(pick))
    ts = [threading.Thread(target=run_lane, args=(i, work)) for i in range(LANES)]
    for t in ts:
        t.start()
    for t in ts:
        t.join()
    sh("git -C /repo worktree prune", "/")


if __name__ == "__main__":
    main()
