#!/bin/sh
# Build the framework from files on disk only (offline): the Lean library with all property
# modules, the compiled model driver, and the Rust harness against /repo's current tree.
set -e
cd "$(dirname "$0")"
export CARGO_NET_OFFLINE=true
( cd lean && lake build EnrVerif enr_model )
[ -f harness/Cargo.lock ] || cp /repo/Cargo.lock harness/Cargo.lock
( cd harness && cargo build --offline && cargo build --offline --profile nodebug )
mkdir -p out evidence
echo "setup ok"
