#!/bin/sh
# usage: tools_revert_check.sh <commit> <prop> [<prop>...]   -- validate the checks against the pre-fix code
c=$1; shift
cd /repo && git show $c | git apply -R || { echo "cannot reverse-apply $c"; exit 2; }
cd /verif
for p in "$@"; do
  python3 check.py $p --tier quick > /tmp/rc_$c_$p.log 2>&1; rc=$?
  echo "== revert $c check $p exit=$rc: $(grep -E '^(VIOLATION|OK|KNOWN)' /tmp/rc_$c_$p.log | head -2 | cut -c1-200)"
  grep -E '^# ' /tmp/rc_$c_$p.log | head -3 | cut -c1-260
done
git -C /repo checkout -- .
