#!/bin/sh
# usage: tools_seed_check.sh <seed-dir> <prop>... : applies the seeded patch to /repo, runs the checks, undoes it
d=$1; shift
git -C /repo apply $d/patch.diff || { echo "patch does not apply to /repo"; exit 2; }
for p in "$@"; do
  VERIF_SKIP_LEAN=1 python3 /verif/check.py $p --tier quick > /tmp/sc_$p.log 2>&1; rc=$?
  echo "== $(basename $d) check $p exit=$rc: $(grep -E '^(VIOLATION|OK|KNOWN)' /tmp/sc_$p.log | head -2 | cut -c1-160)"
  grep -E '^# ' /tmp/sc_$p.log | head -2 | cut -c1-300
done
git -C /repo checkout -- .
