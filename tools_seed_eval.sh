#!/bin/sh
# usage: tools_seed_eval.sh <seed-dir> <worktree> -- confirms a seeded change: compiles, existing tests pass,
# demo fails with it and passes without it
d=$1; wt=$2
cd $wt && git checkout -q -- . && rm -f tests/seeded_demo.rs
feat=$(python3 -c "import json;m=json.load(open('$d/meta.json'));f=m.get('features','').strip();print(f if f.startswith('--') else ('' if ('default' in f.lower() or f=='') else '--all-features'))")
echo "-- demo flags: [$feat]"
cp $d/seeded_demo.rs tests/seeded_demo.rs
echo "-- demo WITHOUT patch:"; CARGO_NET_OFFLINE=true cargo test --offline $feat --test seeded_demo 2>&1 | grep -E "^test result|error(\[|:)" | head -3
git apply $d/patch.diff || { echo "PATCH DOES NOT APPLY"; exit 2; }
echo "-- demo WITH patch:"; CARGO_NET_OFFLINE=true cargo test --offline $feat --test seeded_demo 2>&1 | grep -E "^test result|error(\[|:)" | head -3
rm tests/seeded_demo.rs
echo "-- existing suite WITH patch (default / all features):"
CARGO_NET_OFFLINE=true cargo test --offline 2>&1 | grep -E "^test result|error(\[|:)" | head -4
CARGO_NET_OFFLINE=true cargo test --offline --all-features 2>&1 | grep -E "^test result|error(\[|:)" | head -4
git checkout -q -- . ; rm -rf target
