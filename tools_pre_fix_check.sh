#!/bin/sh
# usage: tools_pre_fix_check.sh <fix-commit> <prop>... : puts /repo's sources at the state just before a fix
# (plus the verification hook) and runs the checks; restores afterwards
c=$1; shift
cd /repo && git checkout -q $c^ -- src Cargo.toml && git show 502611a | git apply || { echo "hook does not apply"; git checkout -q HEAD -- src Cargo.toml; exit 2; }
cd /verif
for p in "$@"; do
  VERIF_SKIP_LEAN=1 python3 check.py $p --tier quick > /tmp/pf_$p.log 2>&1; rc=$?
  echo "== before $c check $p exit=$rc: $(grep -E '^(VIOLATION|OK|KNOWN)' /tmp/pf_$p.log | head -1 | cut -c1-160)"
  grep -E '^# ' /tmp/pf_$p.log | sed 's/ctx=[^ ]* line=[0-9]*//' | cut -c1-220 | sort | uniq -c | sort -rn | head -6
done
cd /repo && git checkout -q HEAD -- src Cargo.toml && git status --short
