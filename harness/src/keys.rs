//! Key types used by the harness: a logging / fault-injecting wrapper around any `EnrKey`, the toy
//! scheme with variable-length signatures, and the independent signers.

use crate::util::*;
use bytes::Bytes;
use enr::{EnrKey, EnrPublicKey, SigningError};
use sha3::{Digest, Keccak256};
use std::collections::BTreeMap;
use std::sync::atomic::{AtomicBool, Ordering};
use std::sync::Mutex;

pub fn keccak(b: &[u8]) -> [u8; 32] {
    let mut o = [0u8; 32];
    o.copy_from_slice(&Keccak256::digest(b));
    o
}

/// Wraps a key: logs every signing request (message and answer) and can be told to fail.
pub struct HKey<K: EnrKey> {
    pub inner: K,
    pub log: Mutex<Vec<(Vec<u8>, Option<Vec<u8>>)>>,
    pub fail: AtomicBool,
    /// 0 = sign normally; 1..=3 = keep signing (the built-in signers are randomised) until the
    /// signature has a zero byte at offset 0 / 32 / 63: valid signatures with a rare byte pattern
    pub shape: std::sync::atomic::AtomicU8,
    /// answer with a signature that does not verify (a signer wired to the wrong secret)
    pub bad: AtomicBool,
}

impl<K: EnrKey> HKey<K> {
    pub fn new(inner: K) -> Self {
        HKey {
            inner,
            log: Mutex::new(Vec::new()),
            fail: AtomicBool::new(false),
            shape: std::sync::atomic::AtomicU8::new(0),
            bad: AtomicBool::new(false),
        }
    }
    pub fn take_log(&self) -> Vec<(Vec<u8>, Option<Vec<u8>>)> {
        std::mem::take(&mut *self.log.lock().unwrap_or_else(|e| e.into_inner()))
    }
}

impl<K: EnrKey> EnrKey for HKey<K> {
    type PublicKey = K::PublicKey;

    fn sign_v4(&self, msg: &[u8]) -> Result<Vec<u8>, SigningError> {
        if self.fail.load(Ordering::SeqCst) {
            self.log
                .lock()
                .unwrap_or_else(|e| e.into_inner())
                .push((msg.to_vec(), None));
            return Err(SigningError::verif_new("injected fault"));
        }
        let shape = self.shape.load(Ordering::SeqCst);
        let mut r = self.inner.sign_v4(msg);
        if shape != 0 {
            let off = match shape {
                1 => 0usize,
                2 => 32,
                _ => 63,
            };
            // deterministic signers (ed25519, toy) cannot be steered: give up after a few tries
            for _ in 0..6000 {
                match &r {
                    Ok(sg) if sg.len() > off && sg[off] != 0 => r = self.inner.sign_v4(msg),
                    _ => break,
                }
            }
        }
        if self.bad.load(Ordering::SeqCst) {
            if let Ok(sg) = r.as_mut() {
                if let Some(l) = sg.last_mut() {
                    *l ^= 0x55;
                }
            }
        }
        self.log
            .lock()
            .unwrap_or_else(|e| e.into_inner())
            .push((msg.to_vec(), r.as_ref().ok().cloned()));
        r
    }

    fn public(&self) -> Self::PublicKey {
        self.inner.public()
    }

    fn enr_to_public(
        content: &BTreeMap<Vec<u8>, Bytes>,
    ) -> Result<Self::PublicKey, alloy_rlp::Error> {
        K::enr_to_public(content)
    }
}

// ---------------------------------------------------------------------------------------------
// Toy scheme: public key = 4 configuration bytes [base, spread, id0, id1]; the signature of `msg`
// is the first `base + h[0] % (spread + 1)` bytes of the stream h ‖ keccak(h) ‖ keccak²(h) ‖ …
// where h = keccak(pk ‖ msg).  Not secure, but deterministic, verifiable and of variable length.

#[derive(Clone, Debug, PartialEq, Eq)]
pub struct ToyPub(pub [u8; 4]);

pub struct ToyKey(pub [u8; 4]);

pub fn toy_sign(pk: &[u8; 4], msg: &[u8]) -> Vec<u8> {
    let mut inp = pk.to_vec();
    inp.extend_from_slice(msg);
    let h = keccak(&inp);
    let len = pk[0] as usize + (h[0] as usize % (pk[1] as usize + 1));
    let mut out = Vec::new();
    let mut cur = h;
    while out.len() < len {
        out.extend_from_slice(&cur);
        cur = keccak(&cur);
    }
    out.truncate(len);
    out
}

impl EnrPublicKey for ToyPub {
    type Raw = [u8; 4];
    type RawUncompressed = [u8; 4];
    fn verify_v4(&self, msg: &[u8], sig: &[u8]) -> bool {
        toy_sign(&self.0, msg) == sig
    }
    fn encode(&self) -> Self::Raw {
        self.0
    }
    fn encode_uncompressed(&self) -> Self::RawUncompressed {
        self.0
    }
    fn enr_key(&self) -> Vec<u8> {
        b"toy".to_vec()
    }
}

impl EnrKey for ToyKey {
    type PublicKey = ToyPub;
    fn sign_v4(&self, msg: &[u8]) -> Result<Vec<u8>, SigningError> {
        Ok(toy_sign(&self.0, msg))
    }
    fn public(&self) -> ToyPub {
        ToyPub(self.0)
    }
    fn enr_to_public(content: &BTreeMap<Vec<u8>, Bytes>) -> Result<ToyPub, alloy_rlp::Error> {
        use alloy_rlp::Decodable;
        let raw = content
            .get(&b"toy"[..])
            .ok_or(alloy_rlp::Error::Custom("Unknown signature"))?;
        let b = Bytes::decode(&mut raw.as_ref())?;
        if b.len() != 4 {
            return Err(alloy_rlp::Error::Custom("Invalid toy key"));
        }
        let mut a = [0u8; 4];
        a.copy_from_slice(&b);
        Ok(ToyPub(a))
    }
}

// ---------------------------------------------------------------------------------------------
// Schemes

pub trait Sch: 'static {
    type K: EnrKey;
    const NAME: &'static str;
    /// the key of the public-key entry for keys made by `from_secret`
    fn from_secret(sk: &[u8]) -> Option<Self::K>;
}

pub struct SK256;
pub struct SLibsecp;
pub struct SEd;
pub struct SComb;
pub struct SToy;

impl Sch for SK256 {
    type K = enr::k256::ecdsa::SigningKey;
    const NAME: &'static str = "k256";
    fn from_secret(sk: &[u8]) -> Option<Self::K> {
        if sk.len() != 32 {
            return None;
        }
        enr::k256::ecdsa::SigningKey::from_slice(sk).ok()
    }
}

impl Sch for SLibsecp {
    type K = enr::secp256k1::SecretKey;
    const NAME: &'static str = "libsecp";
    fn from_secret(sk: &[u8]) -> Option<Self::K> {
        if sk.len() != 32 {
            return None;
        }
        #[allow(deprecated)]
        enr::secp256k1::SecretKey::from_slice(sk).ok()
    }
}

impl Sch for SEd {
    type K = enr::ed25519_dalek::SigningKey;
    const NAME: &'static str = "ed";
    fn from_secret(sk: &[u8]) -> Option<Self::K> {
        let a: [u8; 32] = sk.try_into().ok()?;
        Some(enr::ed25519_dalek::SigningKey::from_bytes(&a))
    }
}

/// CombinedKey: secrets are 33 bytes, the first byte selects the scheme (0 = secp256k1, 1 = ed25519).
impl Sch for SComb {
    type K = enr::CombinedKey;
    const NAME: &'static str = "comb";
    fn from_secret(sk: &[u8]) -> Option<Self::K> {
        if sk.len() != 33 {
            return None;
        }
        let mut b = sk[1..].to_vec();
        match sk[0] {
            0 => enr::CombinedKey::secp256k1_from_bytes(&mut b).ok(),
            _ => enr::CombinedKey::ed25519_from_bytes(&mut b).ok(),
        }
    }
}

impl Sch for SToy {
    type K = ToyKey;
    const NAME: &'static str = "toy";
    fn from_secret(sk: &[u8]) -> Option<Self::K> {
        let a: [u8; 4] = sk.try_into().ok()?;
        Some(ToyKey(a))
    }
}

// ---------------------------------------------------------------------------------------------
// Independent signer: signs byte strings with the dependency crates directly (never with the
// crate's `sign_v4`, builder or encoder).

#[derive(Clone, Copy, PartialEq, Eq, Debug)]
pub enum Kind {
    Secp,
    Ed,
    Toy,
}

#[derive(Clone, Debug)]
pub struct IndKey {
    pub kind: Kind,
    pub sk: Vec<u8>,
}

impl IndKey {
    pub fn gen(rng: &mut Rng, kind: Kind) -> IndKey {
        match kind {
            Kind::Secp => {
                // one key in three is an edge case: small scalars, n-1, and keys whose x coordinate
                // starts with 0x00 / 0x04 / 0xff (bytes that look like SEC1 tags or drop leading zeros)
                if rng.chance(1, 3) {
                    let pool = edge_secp_keys();
                    return IndKey { kind, sk: rng.pick(pool).clone() };
                }
                loop {
                    let sk = rng.bytes(32);
                    if enr::k256::ecdsa::SigningKey::from_slice(&sk).is_ok() {
                        return IndKey { kind, sk };
                    }
                }
            }
            Kind::Ed => IndKey {
                kind,
                sk: rng.bytes(32),
            },
            Kind::Toy => IndKey {
                kind,
                sk: vec![
                    // at least 8 bytes, so that tampered content cannot verify by accident
                    rng.range(8, 80) as u8,
                    rng.range(0, 3) as u8,
                    rng.next() as u8,
                    rng.next() as u8,
                ],
            },
        }
    }
    pub fn enr_key(&self) -> &'static [u8] {
        match self.kind {
            Kind::Secp => b"secp256k1",
            Kind::Ed => b"ed25519",
            Kind::Toy => b"toy",
        }
    }
    /// the public key bytes as stored in a record
    pub fn public(&self) -> Vec<u8> {
        match self.kind {
            Kind::Secp => {
                let k = enr::k256::ecdsa::SigningKey::from_slice(&self.sk).unwrap();
                k.verifying_key().to_encoded_point(true).as_bytes().to_vec()
            }
            Kind::Ed => {
                let a: [u8; 32] = self.sk.clone().try_into().unwrap();
                enr::ed25519_dalek::SigningKey::from_bytes(&a)
                    .verifying_key()
                    .to_bytes()
                    .to_vec()
            }
            Kind::Toy => self.sk.clone(),
        }
    }
    /// v4 signature over `msg` (alternating between the k256 and the libsecp signer for secp256k1)
    pub fn sign(&self, msg: &[u8], alt: bool) -> Vec<u8> {
        match self.kind {
            Kind::Secp => {
                let d = keccak(msg);
                if alt {
                    use enr::secp256k1::{Message, SecretKey, SECP256K1};
                    #[allow(deprecated)]
                    let sk = SecretKey::from_slice(&self.sk).unwrap();
                    let m = Message::from_digest(d);
                    SECP256K1.sign_ecdsa(&m, &sk).serialize_compact().to_vec()
                } else {
                    use enr::k256::ecdsa::signature::hazmat::PrehashSigner;
                    let k = enr::k256::ecdsa::SigningKey::from_slice(&self.sk).unwrap();
                    let s: enr::k256::ecdsa::Signature = k.sign_prehash(&d).unwrap();
                    s.to_vec()
                }
            }
            Kind::Ed => {
                use enr::ed25519_dalek::Signer;
                let a: [u8; 32] = self.sk.clone().try_into().unwrap();
                enr::ed25519_dalek::SigningKey::from_bytes(&a)
                    .sign(msg)
                    .to_bytes()
                    .to_vec()
            }
            Kind::Toy => {
                let a: [u8; 4] = self.sk.clone().try_into().unwrap();
                toy_sign(&a, msg)
            }
        }
    }
    /// a valid low-S secp256k1 signature made with the nonce k = 1/2 (mod n): r is then the 166-bit
    /// x coordinate of G/2, so the 64-byte form starts with eleven zero bytes (a signer is free to
    /// choose its nonce).  `None` for the other key kinds.
    pub fn sign_half_nonce(&self, msg: &[u8]) -> Option<Vec<u8>> {
        if self.kind != Kind::Secp {
            return None;
        }
        use enr::k256::ecdsa::hazmat::SignPrimitive;
        use enr::k256::{FieldBytes, Scalar};
        let z: FieldBytes = keccak(msg).into();
        let k = Scalar::from(2u64).invert().unwrap();
        let key = enr::k256::ecdsa::SigningKey::from_slice(&self.sk).ok()?;
        let d: Scalar = **key.as_nonzero_scalar();
        let (sig, _) = d.try_sign_prehashed(k, &z).ok()?;
        let sig = sig.normalize_s().unwrap_or(sig);
        Some(sig.to_vec())
    }
    /// the secret in the form `Sch::from_secret` of scheme `name` expects
    pub fn secret_for(&self, name: &str) -> Vec<u8> {
        if name == "comb" {
            let mut v = vec![if self.kind == Kind::Ed { 1 } else { 0 }];
            v.extend_from_slice(&self.sk);
            v
        } else {
            self.sk.clone()
        }
    }
}

/// secp256k1 secrets whose public keys are edge cases
pub fn edge_secp_keys() -> &'static Vec<Vec<u8>> {
    static POOL: std::sync::OnceLock<Vec<Vec<u8>>> = std::sync::OnceLock::new();
    POOL.get_or_init(|| {
        let mut out: Vec<Vec<u8>> = Vec::new();
        let scalar = |n: u64| {
            let mut v = vec![0u8; 32];
            v[24..].copy_from_slice(&n.to_be_bytes());
            v
        };
        out.push(scalar(1));
        out.push(scalar(2));
        out.push(scalar(3));
        let mut nm1 = SECP_N.to_vec();
        nm1[31] -= 1;
        out.push(nm1);
        // walk scalars until the x coordinate starts with each wanted byte
        for want in [0x00u8, 0x04, 0x02, 0x03, 0xff] {
            let mut n = 4u64;
            loop {
                let sk = scalar(n);
                let k = enr::k256::ecdsa::SigningKey::from_slice(&sk).unwrap();
                let p = k.verifying_key().to_encoded_point(true);
                if p.as_bytes()[1] == want {
                    out.push(sk);
                    break;
                }
                n += 1;
                if n > 20000 {
                    break;
                }
            }
        }
        out
    })
}

/// which independent key kinds a scheme (key type) can sign with
pub fn kinds_of(name: &str) -> &'static [Kind] {
    match name {
        "k256" | "libsecp" => &[Kind::Secp],
        "ed" => &[Kind::Ed],
        "comb" => &[Kind::Secp, Kind::Ed],
        "toy" => &[Kind::Toy],
        _ => &[],
    }
}

/// group order of secp256k1, big endian
pub const SECP_N: [u8; 32] = [
    0xff, 0xff, 0xff, 0xff, 0xff, 0xff, 0xff, 0xff, 0xff, 0xff, 0xff, 0xff, 0xff, 0xff, 0xff, 0xfe,
    0xba, 0xae, 0xdc, 0xe6, 0xaf, 0x48, 0xa0, 0x3b, 0xbf, 0xd2, 0x5e, 0x8c, 0xd0, 0x36, 0x41, 0x41,
];

/// n - s for a 32-byte big-endian s (the high-S twin of an ECDSA signature)
pub fn secp_neg(s: &[u8]) -> Vec<u8> {
    let mut out = vec![0u8; 32];
    let mut borrow = 0i32;
    for i in (0..32).rev() {
        let mut d = SECP_N[i] as i32 - s[i] as i32 - borrow;
        if d < 0 {
            d += 256;
            borrow = 1;
        } else {
            borrow = 0;
        }
        out[i] = d as u8;
    }
    out
}
