fn main() { println!("hi"); }
