//! Harness: drives the real `enr` crate on generated inputs and operation histories and writes
//! traces for the Lean model driver.
//!
//!   enr-harness gen <family> <tier> <seed> <out-prefix> [chunks]
//!   enr-harness replay <case-file> <out-file>

mod cases;
mod gen_dec;
mod gen_hist;
mod gen_misc;
mod keys;
mod obs;
mod util;

use cases::*;
use std::io::Write;
use util::*;

const ALL_SCHEMES: [&str; 5] = ["k256", "libsecp", "ed", "comb", "toy"];

fn write_chunks(prefix: &str, chunks: usize, parts: Vec<String>) {
    // distribute the parts (whole cases / blocks of lines) round-robin over the chunk files
    let mut files: Vec<std::fs::File> = (0..chunks)
        .map(|i| std::fs::File::create(format!("{prefix}.{i}.trace")).expect("create trace"))
        .collect();
    for (i, p) in parts.iter().enumerate() {
        files[i % chunks].write_all(p.as_bytes()).unwrap();
    }
}

/// split a line-oriented trace into blocks that can be replayed independently: a block starts at
/// every `dec` line whose buffer differs from the previous one, or at every other input line
fn split_blocks(text: &str) -> Vec<String> {
    let mut blocks = Vec::new();
    let mut cur = String::new();
    let mut last_buf = String::new();
    let mut n_in_block = 0usize;
    for line in text.lines() {
        let head = line.split(' ').next().unwrap_or("");
        let is_input = matches!(head, "dec" | "txt" | "json" | "jsondoc" | "decmany" | "declist" | "nid" | "ck" | "race");
        if is_input {
            let buf = if head == "dec" {
                // keep the item and its suffixed variants together (prefix locality needs both)
                let (_, m) = toks(line);
                let b = m.get("buf").cloned().unwrap_or_default();
                let il: usize = m.get("itemlen").and_then(|s| s.parse().ok()).unwrap_or(0);
                b.chars().take(2 * il).collect::<String>()
            } else {
                String::new()
            };
            let same = head == "dec" && buf == last_buf;
            if !same && n_in_block >= 16 {
                blocks.push(std::mem::take(&mut cur));
                n_in_block = 0;
            }
            if !same {
                n_in_block += 1;
            }
            last_buf = buf;
        }
        cur.push_str(line);
        cur.push('\n');
    }
    if !cur.is_empty() {
        blocks.push(cur);
    }
    blocks
}

/// A logger that accepts everything (trace level) and drops it: with it installed every argument
/// of every `log::…!` call in the library is evaluated, as it is in an application that logs.
struct SinkLogger;
impl log::Log for SinkLogger {
    fn enabled(&self, _: &log::Metadata) -> bool {
        true
    }
    fn log(&self, r: &log::Record) {
        // format the message so that lazily evaluated arguments run
        let _ = format!("{}", r.args());
    }
    fn flush(&self) {}
}
static SINK: SinkLogger = SinkLogger;

fn main() {
    let _ = log::set_logger(&SINK);
    log::set_max_level(log::LevelFilter::Trace);
    // panics inside the library are caught per call; keep their messages out of stderr
    std::panic::set_hook(Box::new(|_| {}));
    let args: Vec<String> = std::env::args().collect();
    if args.len() < 2 {
        eprintln!("usage: gen <family> <tier> <seed> <out-prefix> [chunks] | replay <case-file> <out-file>");
        std::process::exit(2);
    }
    match args[1].as_str() {
        "gen" => {
            let fam = args[2].as_str();
            let thorough = args[3] == "thorough";
            let seed: u64 = args[4].parse().unwrap_or(1);
            let prefix = &args[5];
            let chunks: usize = args.get(6).and_then(|s| s.parse().ok()).unwrap_or(1);
            let mut rng = Rng::new(seed ^ (fam.bytes().fold(0u64, |a, b| a * 131 + b as u64)));
            let parts: Vec<String> = match fam {
                "dec" | "stream" | "txt" | "nid" | "ck" => {
                    let mut out = String::new();
                    match fam {
                        "dec" => gen_dec::gen_dec(&mut rng, thorough, &mut out),
                        "stream" => gen_dec::gen_stream(&mut rng, thorough, &mut out),
                        "txt" => gen_dec::gen_txt(&mut rng, thorough, &mut out),
                        "nid" => gen_misc::gen_nid(&mut rng, thorough, &mut out),
                        _ => gen_misc::gen_ck(&mut rng, thorough, &mut out),
                    }
                    split_blocks(&out)
                }
                "deep" => {
                    // executed one case at a time, each trace flushed at once, so that a process abort
                    // (stack overflow cannot be caught) leaves the culprit identifiable
                    let mut cs = Vec::new();
                    gen_hist::gen_deep(&["k256", "ed"], &mut rng, thorough, &mut cs);
                    let mut scripts = String::new();
                    for c in &cs {
                        scripts.push_str(&c.script());
                    }
                    std::fs::write(format!("{prefix}.cases"), scripts).expect("write cases");
                    let mut f = std::fs::File::create(format!("{prefix}.0.trace")).expect("create trace");
                    for c in &cs {
                        let c2 = c.clone();
                        // a thread with an ordinary 2 MiB stack, like any thread of a user of the library
                        let h = std::thread::Builder::new()
                            .stack_size(2 * 1024 * 1024)
                            .spawn(move || {
                                let mut s = String::new();
                                exec_any(&c2, &mut s, false);
                                s
                            })
                            .expect("spawn");
                        let s = h.join().unwrap_or_default();
                        f.write_all(s.as_bytes()).unwrap();
                        f.flush().unwrap();
                    }
                    return;
                }
                "hist" | "size" | "acc" | "eq" => {
                    let mut cs = Vec::new();
                    match fam {
                        "hist" => gen_hist::gen_hist(&ALL_SCHEMES, &mut rng, thorough, &mut cs),
                        "size" => gen_hist::gen_size(&ALL_SCHEMES, &mut rng, thorough, &mut cs),
                        "acc" => gen_hist::gen_acc(&ALL_SCHEMES[..4], &mut rng, thorough, &mut cs),
                        _ => gen_hist::gen_eq(&ALL_SCHEMES, &mut rng, thorough, &mut cs),
                    }
                    // accessors after every step for hist/acc; the size and eq families only need
                    // the record itself
                    let with_acc = fam == "hist" || fam == "acc";
                    // execute the cases on all cores; the order of the parts is preserved
                    // (thread t runs cases t, t+n, t+2n, …: neighbouring cases, which use different
                    // key sets and key types, run at the same time, as several nodes in one process do)
                    let nthreads = std::thread::available_parallelism().map(|n| n.get()).unwrap_or(4).clamp(4, 16);
                    let mut parts: Vec<String> = vec![String::new(); cs.len()];
                    std::thread::scope(|sc| {
                        let cs = &cs;
                        let handles: Vec<_> = (0..nthreads)
                            .map(|t| {
                                sc.spawn(move || {
                                    let mut mine: Vec<(usize, String)> = Vec::new();
                                    let mut i = t;
                                    while i < cs.len() {
                                        let mut s = String::new();
                                        exec_any(&cs[i], &mut s, with_acc);
                                        mine.push((i, s));
                                        i += nthreads;
                                    }
                                    mine
                                })
                            })
                            .collect();
                        for h in handles {
                            for (i, s) in h.join().expect("worker thread") {
                                parts[i] = s;
                            }
                        }
                    });
                    parts
                }
                _ => {
                    eprintln!("unknown family {fam}");
                    std::process::exit(2);
                }
            };
            let mut parts = parts;
            if fam == "hist" {
                // several nodes updating their own records at the same time, per key type
                let mut s = String::new();
                for scheme in ["k256", "libsecp", "ed", "comb"] {
                    race_under(scheme, &mut s);
                }
                parts.push(s);
            }
            write_chunks(prefix, chunks, parts);
        }
        "replay" => {
            let text = std::fs::read_to_string(&args[2]).expect("read case file");
            let mut out = String::new();
            let cs = parse_cases(&text);
            for c in &cs {
                exec_any(c, &mut out, true);
            }
            // stateless input lines are re-executed as they are
            for line in text.lines() {
                let (head, m) = toks(line);
                let get = |k: &str| m.get(k).map(|s| s.as_str()).unwrap_or("-");
                match head.as_str() {
                    "dec" => {
                        out.push_str(line);
                        out.push('\n');
                        gen_dec::decode_under(get("scheme"), &unhx(get("buf")), true, &mut out);
                    }
                    "txt" | "json" => {
                        out.push_str(line);
                        out.push('\n');
                        let s = String::from_utf8_lossy(&unhx(get("s"))).to_string();
                        if head == "json" {
                            let j = serde_json::to_string(&s).unwrap();
                            gen_dec::parse_under(get("scheme"), &j, true, &mut out);
                        } else {
                            gen_dec::parse_under(get("scheme"), &s, false, &mut out);
                        }
                    }
                    "jsondoc" => {
                        out.push_str(line);
                        out.push('\n');
                        let d = String::from_utf8_lossy(&unhx(get("doc"))).to_string();
                        gen_dec::parse_doc_under(get("scheme"), &d, &mut out);
                    }
                    "alt" => {
                        if get("route") == "all" {
                            gen_dec::alt_under(get("scheme"), &unhx(get("in")), &mut out);
                        }
                    }
                    "race" => race_under(get("scheme"), &mut out),
                    "nid" => gen_misc::nid_exec(get("op"), &unhx(get("in")), &mut out),
                    "ck" => gen_misc::ck_line(get("kind"), &unhx(get("in")), &mut out),
                    "decmany" | "declist" => {
                        out.push_str(line);
                        out.push('\n');
                        gen_dec::decode_many(get("scheme"), &unhx(get("buf")), head == "declist", &mut out);
                    }
                    _ => {}
                }
            }
            std::fs::write(&args[3], out).expect("write trace");
        }
        _ => {
            eprintln!("unknown command");
            std::process::exit(2);
        }
    }
}
