//! Observations of a record: the four fields, the encoding, and every accessor / formatter /
//! conversion, each under `catch_unwind`.

use crate::util::*;
use alloy_rlp::{Decodable, Encodable};
use enr::{Enr, EnrKey, EnrPublicKey, NodeId};
use std::panic::{catch_unwind, AssertUnwindSafe};

pub fn guard<T>(f: impl FnOnce() -> T) -> Option<T> {
    catch_unwind(AssertUnwindSafe(f)).ok()
}

/// Runs `f` while the current thread is unwinding from a panic (from the destructor of a guard
/// that is dropped by the unwinding), as a shutdown guard of an application would; `None` if `f`
/// itself panicked (which aborts nothing here: the second panic is caught inside the destructor).
pub fn during_unwind<T>(f: impl FnOnce() -> T) -> Option<T> {
    struct G<'a, T, F: FnOnce() -> T>(Option<F>, &'a std::cell::RefCell<Option<T>>);
    impl<T, F: FnOnce() -> T> Drop for G<'_, T, F> {
        fn drop(&mut self) {
            if let Some(f) = self.0.take() {
                // a panic inside a destructor that runs during unwinding would abort the process
                if let Ok(v) = catch_unwind(AssertUnwindSafe(f)) {
                    *self.1.borrow_mut() = Some(v);
                }
            }
        }
    }
    let cell = std::cell::RefCell::new(None);
    let _ = catch_unwind(AssertUnwindSafe(|| {
        let _g = G(Some(f), &cell);
        std::panic::resume_unwind(Box::new("harness: unwinding on purpose"));
    }));
    cell.into_inner()
}

pub fn pairs_str<K: EnrKey>(e: &Enr<K>) -> String {
    let v: Vec<String> = e
        .iter()
        .map(|(k, v)| format!("{}:{}", hx(k), hx(v)))
        .collect();
    if v.is_empty() {
        "-".into()
    } else {
        v.join(",")
    }
}

/// `rec` line: the four fields plus the encoding
pub fn rec_line<K: EnrKey>(e: &Enr<K>) -> String {
    let enc = guard(|| {
        let mut out = Vec::new();
        e.encode(&mut out);
        out
    });
    let size = guard(|| e.size());
    format!(
        "rec seq={} nid={} sig={} pairs={} enc={} size={}",
        e.seq(),
        hx(&e.node_id().raw()),
        hx(e.signature()),
        pairs_str(e),
        enc.map(|b| hx(&b)).unwrap_or("panic".into()),
        size.map(|s| s.to_string()).unwrap_or("panic".into()),
    )
}

/// the same line built without asking the library to encode, format or measure the record (only
/// `seq`, `node_id`, `signature` and `iter` are called): the encoding is written by the harness's own
/// RLP writer.  Used for "quiet" steps, after which nothing may have observed the record's bytes.
pub fn rec_line_quiet<K: EnrKey>(e: &Enr<K>) -> String {
    let mut payload = rlp_bytes(e.signature());
    payload.extend_from_slice(&rlp_uint(e.seq()));
    for (k, v) in e.iter() {
        payload.extend_from_slice(&rlp_bytes(k));
        payload.extend_from_slice(v);
    }
    let enc = rlp_list(&payload);
    format!(
        "rec seq={} nid={} sig={} pairs={} enc={} size={}",
        e.seq(),
        hx(&e.node_id().raw()),
        hx(e.signature()),
        pairs_str(e),
        hx(&enc),
        enc.len(),
    )
}

fn opt_hex(o: Option<Vec<u8>>) -> String {
    match o {
        None => "none".into(),
        Some(b) => hx(&b),
    }
}

fn g<T>(f: impl FnOnce() -> T, show: impl FnOnce(T) -> String) -> String {
    match guard(f) {
        Some(v) => show(v),
        None => "panic".into(),
    }
}

/// `acc` line: every public accessor, formatter and conversion
pub fn acc_line<K: EnrKey>(e: &Enr<K>) -> String
where
    Enr<K>: serde::Serialize + for<'a> serde::Deserialize<'a>,
{
    let mut s = String::from("acc");
    let mut put = |k: &str, v: String| {
        s.push(' ');
        s.push_str(k);
        s.push('=');
        s.push_str(&v);
    };
    put("id", g(|| e.id(), |v| opt_hex(v.map(|x| x.into_bytes()))));
    put("ip4", g(|| e.ip4(), |v| opt_hex(v.map(|x| x.octets().to_vec()))));
    put("ip6", g(|| e.ip6(), |v| opt_hex(v.map(|x| x.octets().to_vec()))));
    let port = |v: Option<u16>| v.map(|p| p.to_string()).unwrap_or("none".into());
    put("tcp4", g(|| e.tcp4(), port));
    put("tcp6", g(|| e.tcp6(), port));
    put("udp4", g(|| e.udp4(), port));
    put("udp6", g(|| e.udp6(), port));
    let s4 = |v: Option<std::net::SocketAddrV4>| {
        v.map(|a| format!("{}/{}", hx(&a.ip().octets()), a.port()))
            .unwrap_or("none".into())
    };
    let s6 = |v: Option<std::net::SocketAddrV6>| {
        v.map(|a| format!("{}/{}", hx(&a.ip().octets()), a.port()))
            .unwrap_or("none".into())
    };
    put("udp4s", g(|| e.udp4_socket(), s4));
    put("udp6s", g(|| e.udp6_socket(), s6));
    put("tcp4s", g(|| e.tcp4_socket(), s4));
    put("tcp6s", g(|| e.tcp6_socket(), s6));
    put("udpr", g(|| e.is_udp_reachable(), |b| (b as u8).to_string()));
    put("tcpr", g(|| e.is_tcp_reachable(), |b| (b as u8).to_string()));
    put(
        "client",
        g(
            || e.client_info(),
            |v| match v {
                None => "none".into(),
                Some((a, b, c)) => format!(
                    "{};{};{}",
                    hx(a.as_bytes()),
                    hx(b.as_bytes()),
                    c.map(|x| hx(x.as_bytes())).unwrap_or("none".into())
                ),
            },
        ),
    );
    put(
        "pk",
        g(|| e.public_key().encode().as_ref().to_vec(), |v| hx(&v)),
    );
    put(
        "pkkey",
        g(|| e.public_key().enr_key(), |v| hx(&v)),
    );
    put(
        "nidpk",
        g(|| NodeId::from(e.public_key()).raw().to_vec(), |v| hx(&v)),
    );
    put("verify", g(|| e.verify(), |b| (b as u8).to_string()));
    // the deprecated get() on every key plus one absent key
    #[allow(deprecated)]
    {
        let keys: Vec<Vec<u8>> = e.iter().map(|(k, _)| k.clone()).collect();
        let mut parts = Vec::new();
        for k in &keys {
            parts.push(format!(
                "{}:{}",
                hx(k),
                g(|| e.get(k), |v| opt_hex(v.map(|b| b.to_vec())))
            ));
        }
        parts.push(format!(
            "{}:{}",
            hx(b"absent!"),
            g(|| e.get(b"absent!"), |v| opt_hex(v.map(|b| b.to_vec())))
        ));
        put("get", parts.join(","));
    }
    // get_decodable::<T> for a few T on every key: u64, Bytes, String, Vec<Bytes>
    {
        let keys: Vec<Vec<u8>> = e.iter().map(|(k, _)| k.clone()).collect();
        let mut parts = Vec::new();
        for k in &keys {
            let a = g(
                || e.get_decodable::<u64>(k),
                |r| match r {
                    Some(Ok(n)) => n.to_string(),
                    Some(Err(_)) => "e".into(),
                    None => "n".into(),
                },
            );
            let b = g(
                || e.get_decodable::<bytes::Bytes>(k),
                |r| match r {
                    Some(Ok(x)) => hx(&x),
                    Some(Err(_)) => "e".into(),
                    None => "n".into(),
                },
            );
            let c = g(
                || e.get_decodable::<String>(k),
                |r| match r {
                    Some(Ok(x)) => hx(x.as_bytes()),
                    Some(Err(_)) => "e".into(),
                    None => "n".into(),
                },
            );
            let d = g(
                || e.get_decodable::<Vec<bytes::Bytes>>(k),
                |r| match r {
                    Some(Ok(x)) => format!("[{}]", x.iter().map(|y| hx(y)).collect::<Vec<_>>().join(";")),
                    Some(Err(_)) => "e".into(),
                    None => "n".into(),
                },
            );
            parts.push(format!("{}:{}/{}/{}/{}", hx(k), a, b, c, d));
        }
        put("gd", if parts.is_empty() { "-".into() } else { parts.join(",") });
    }
    // text forms
    let text = guard(|| e.to_base64());
    put("text", text.clone().unwrap_or("panic".into()));
    put(
        "disp",
        g(
            || {
                // Display is the text form whatever the sink did before: first into sinks that fail
                // (no room, room for one byte, room for 64), then into strings
                let mut all = Vec::new();
                for cap in [0usize, 1, 64] {
                    let mut sink = LimitedSink { left: cap, got: String::new() };
                    let _ = std::fmt::Write::write_fmt(&mut sink, format_args!("{e}"));
                    all.push(format!("{e}"));
                }
                all.push(e.to_string());
                // the caller's format specification does not change the text either
                all.push(format!("{e:.16}"));
                all.push(format!("{e:>400}"));
                all.push(format!("{e:<400}"));
                all.push(format!("{e:^7}"));
                all.push(format!("{e:#}"));
                let mut big = LimitedSink { left: 4096, got: String::new() };
                let _ = std::fmt::Write::write_fmt(&mut big, format_args!("{e}"));
                all.push(big.got);
                all
            },
            |all| (all.iter().all(|d| Some(d) == text.as_ref()) as u8).to_string(),
        ),
    );
    // the encoding does not depend on the kind of sink: exactly-sized and larger fixed slices, a
    // limited growable buffer, empty growable buffers, alloy's helper; `length()` agrees
    put(
        "encs",
        g(
            || {
                use bytes::BufMut;
                let mut reference = Vec::new();
                e.encode(&mut reference);
                let n = reference.len();
                let mut ok = alloy_rlp::encode(e) == reference && e.length() == n;
                for cap in [n, n + 1, n + 7, 300.max(n), 1024] {
                    let mut buf = vec![0xa5u8; cap];
                    let left = {
                        let mut sl: &mut [u8] = &mut buf[..];
                        e.encode(&mut sl);
                        sl.len()
                    };
                    ok &= cap - left == n && buf[..n] == reference[..];
                }
                let mut bm = bytes::BytesMut::new();
                e.encode(&mut bm);
                ok &= bm[..] == reference[..];
                let mut lim = Vec::new().limit(n);
                e.encode(&mut lim);
                ok &= lim.into_inner() == reference;
                let mut pre = vec![1u8, 2, 3];
                e.encode(&mut pre);
                ok &= pre[3..] == reference[..];
                ok
            },
            |ok| (ok as u8).to_string(),
        ),
    );
    put("dbg", g(|| format!("{e:?}").len(), |_| "ok".into()));
    put(
        "json",
        g(
            || serde_json::to_string(e),
            |r| match r {
                Ok(j) => {
                    let want = format!("\"{}\"", text.clone().unwrap_or_default());
                    if j == want {
                        "1".into()
                    } else {
                        format!("0:{}", hx(j.as_bytes()))
                    }
                }
                Err(_) => "err".into(),
            },
        ),
    );
    // round trips: bytes, text, JSON; 1 = decodes to a record with identical observable fields
    let same = |o: &Enr<K>| {
        o.seq() == e.seq()
            && o.node_id() == e.node_id()
            && o.signature() == e.signature()
            && o.iter().collect::<Vec<_>>() == e.iter().collect::<Vec<_>>()
            && o == e
    };
    put(
        "rtb",
        g(
            || {
                let mut out = Vec::new();
                e.encode(&mut out);
                let mut b: &[u8] = &out;
                let r = Enr::<K>::decode(&mut b);
                (r, b.len())
            },
            |(r, left)| match r {
                Ok(o) => {
                    if same(&o) && left == 0 {
                        "1".into()
                    } else {
                        "0".into()
                    }
                }
                Err(_) => "err".into(),
            },
        ),
    );
    // the sequence number through bytes and text (C07: encoding and decoding preserve the number)
    put(
        "rtseq",
        g(
            || {
                let mut out = Vec::new();
                e.encode(&mut out);
                let mut b: &[u8] = &out;
                let a = Enr::<K>::decode(&mut b).map(|o| o.seq()).ok();
                let t = e.to_base64().parse::<Enr<K>>().map(|o| o.seq()).ok();
                (a, t)
            },
            |(a, t)| ((a == Some(e.seq()) && t == Some(e.seq())) as u8).to_string(),
        ),
    );
    put(
        "rtt",
        g(
            || e.to_base64().parse::<Enr<K>>(),
            |r| match r {
                Ok(o) => (same(&o) as u8).to_string(),
                Err(_) => "err".into(),
            },
        ),
    );
    put(
        "rtj",
        g(
            || {
                // through a Value and through a reader as well: the parser must not depend on how
                // serde hands the string over
                let j = serde_json::to_string(e).ok()?;
                let a = serde_json::from_str::<Enr<K>>(&j).ok()?;
                let v = serde_json::to_value(e).ok()?;
                let b = serde_json::from_value::<Enr<K>>(v).ok()?;
                let c = serde_json::from_reader::<_, Enr<K>>(j.as_bytes()).ok()?;
                if a == b && b == c && a.iter().collect::<Vec<_>>() == c.iter().collect::<Vec<_>>() {
                    Some(a)
                } else {
                    None
                }
            },
            |r| match r {
                Some(o) => (same(&o) as u8).to_string(),
                None => "err".into(),
            },
        ),
    );
    // accepted by every other key type that supports the scheme, with the same fields (C11)
    {
        let mut enc = Vec::new();
        e.encode(&mut enc);
        fn x<T: EnrKey>(enc: &[u8], seq: u64, nid: &NodeId, sig: &[u8], pairs: &[(Vec<u8>, Vec<u8>)]) -> &'static str {
            let r = guard(|| {
                let mut b: &[u8] = enc;
                Enr::<T>::decode(&mut b).map(|o| {
                    b.is_empty()
                        && o.seq() == seq
                        && o.node_id() == *nid
                        && o.signature() == sig
                        && o.iter().map(|(k, v)| (k.clone(), v.to_vec())).collect::<Vec<_>>() == pairs
                })
            });
            match r {
                None => "panic",
                Some(Ok(true)) => "1",
                Some(Ok(false)) => "d",
                Some(Err(_)) => "0",
            }
        }
        let pairs: Vec<(Vec<u8>, Vec<u8>)> = e.iter().map(|(k, v)| (k.clone(), v.to_vec())).collect();
        let (seq, nid, sig) = (e.seq(), e.node_id(), e.signature().to_vec());
        put(
            "xdec",
            format!(
                "k256:{},libsecp:{},ed:{},comb:{}",
                x::<enr::k256::ecdsa::SigningKey>(&enc, seq, &nid, &sig, &pairs),
                x::<enr::secp256k1::SecretKey>(&enc, seq, &nid, &sig, &pairs),
                x::<enr::ed25519_dalek::SigningKey>(&enc, seq, &nid, &sig, &pairs),
                x::<enr::CombinedKey>(&enc, seq, &nid, &sig, &pairs),
            ),
        );
    }
    // `Encodable::length` and embedding in RLP lists (`Vec<Enr>`): alloy-rlp takes list headers from
    // `length()`, so a wrong length corrupts every list the record is put in
    put(
        "rtl",
        g(
            || {
                let mut one = Vec::new();
                e.encode(&mut one);
                let len_ok = Encodable::length(e) == one.len();
                let v = vec![e.clone(), e.clone(), e.clone()];
                let listed = alloy_rlp::encode(&v);
                let mut b: &[u8] = &listed;
                let back = Vec::<Enr<K>>::decode(&mut b);
                let mut expected = Vec::new();
                let payload: Vec<u8> = [one.clone(), one.clone(), one.clone()].concat();
                alloy_rlp::Header { list: true, payload_length: payload.len() }.encode(&mut expected);
                expected.extend_from_slice(&payload);
                let list_ok = listed == expected
                    && b.is_empty()
                    && matches!(&back, Ok(r) if r.len() == 3 && r.iter().all(|o| same(o)));
                (len_ok, list_ok)
            },
            |(a, b)| format!("{}{}", a as u8, b as u8),
        ),
    );
    // every route to the node id: accessor, borrowing and owning conversions, from the public key
    put(
        "nidconv",
        g(
            || {
                let a: NodeId = e.into();
                let b: NodeId = e.clone().into();
                let c = NodeId::from(e.clone());
                let d = NodeId::from(e);
                let f = NodeId::from(e.public_key());
                let n = e.node_id();
                a == n && b == n && c == n && d == n && f == n && a.raw() == n.raw()
            },
            |b| (b as u8).to_string(),
        ),
    );
    // conversions and iteration
    put(
        "conv",
        g(
            || {
                let a: NodeId = e.into();
                let b: NodeId = e.clone().into();
                // the owning iterator yields exactly the pairs of the borrowing one, in the same order
                let owned: Vec<(Vec<u8>, Vec<u8>)> =
                    e.clone().into_iter().map(|(k, v)| (k, v.to_vec())).collect();
                let borrowed: Vec<(Vec<u8>, Vec<u8>)> =
                    e.iter().map(|(k, v)| (k.clone(), v.to_vec())).collect();
                let raw_ok = borrowed
                    .iter()
                    .all(|(k, v)| e.get_raw_rlp(k).map(|x| x.to_vec()) == Some(v.clone()));
                let c = e.clone();
                let clone_ok = c == *e
                    && c.seq() == e.seq()
                    && c.signature() == e.signature()
                    && c.iter().map(|(k, v)| (k.clone(), v.to_vec())).collect::<Vec<_>>() == borrowed;
                a == e.node_id() && b == e.node_id() && owned == borrowed && raw_ok && clone_ok
            },
            |b| (b as u8).to_string(),
        ),
    );
    s
}


/// a `fmt::Write` sink with room for `left` bytes; writing more fails (a fixed-capacity string, a
/// closed pipe)
pub struct LimitedSink {
    pub left: usize,
    pub got: String,
}

impl std::fmt::Write for LimitedSink {
    fn write_str(&mut self, s: &str) -> std::fmt::Result {
        if s.len() > self.left {
            let mut k = self.left;
            while !s.is_char_boundary(k) {
                k -= 1;
            }
            self.got.push_str(&s[..k]);
            self.left = 0;
            return Err(std::fmt::Error);
        }
        self.left -= s.len();
        self.got.push_str(s);
        Ok(())
    }
}
