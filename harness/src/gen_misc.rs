//! `nid` (NodeId value type) and `ck` (CombinedKey secret import/export) families.

use crate::keys::*;
use crate::obs::guard;
use crate::util::*;
use enr::{CombinedKey, Enr, EnrKey, EnrPublicKey, NodeId};
use std::fmt::Write;

pub fn gen_nid(rng: &mut Rng, thorough: bool, out: &mut String) {
    // parse on all slice lengths 0..=64
    let reps = if thorough { 8 } else { 2 };
    for len in 0..=64usize {
        for r in 0..reps {
            let b = match r {
                0 => vec![0u8; len],
                1 => (0..len).map(|i| i as u8 + 1).collect(),
                _ => rng.bytes(len),
            };
            let res = guard(|| NodeId::parse(&b));
            let o = match res {
                None => "panic".into(),
                Some(Ok(id)) => hx(&id.raw()),
                Some(Err(_)) => "err".into(),
            };
            writeln!(out, "nid op=parse in={} out={}", hx(&b), o).unwrap();
        }
    }
    // things that are not node ids but look related: public keys in their 33-, 64- and 65-byte
    // forms, hex text of an id (with and without prefix), longer slices
    {
        let k = IndKey::gen(rng, Kind::Secp);
        let comp = k.public();
        let unc = {
            let sk = enr::k256::ecdsa::SigningKey::from_slice(&k.sk).unwrap();
            sk.verifying_key().to_encoded_point(false).as_bytes().to_vec()
        };
        let id_hex = hex::encode(rng.bytes(32));
        let mut others: Vec<Vec<u8>> = vec![
            comp.clone(),
            unc.clone(),
            unc[1..].to_vec(),
            id_hex.clone().into_bytes(),
            format!("0x{id_hex}").into_bytes(),
            id_hex.to_uppercase().into_bytes(),
            IndKey::gen(rng, Kind::Ed).public(),
        ];
        for len in (65..=130usize).chain([256usize, 1024]) {
            others.push(rng.bytes(len));
        }
        for b in others {
            let res = guard(|| NodeId::parse(&b));
            let o = match res {
                None => "panic".into(),
                Some(Ok(id)) => hx(&id.raw()),
                Some(Err(_)) => "err".into(),
            };
            writeln!(out, "nid op=parse in={} out={}", hx(&b), o).unwrap();
        }
    }
    // 32-byte values through every accessor / conversion / formatter
    let n = if thorough { 600 } else { 80 };
    for i in 0..n {
        let raw: [u8; 32] = match i {
            0 => [0u8; 32],
            1 => [0xff; 32],
            2 => {
                let mut a = [0u8; 32];
                a[31] = 1;
                a
            }
            3 => {
                let mut a = [0u8; 32];
                a[0] = 0xab;
                a
            }
            _ => rng.bytes(32).try_into().unwrap(),
        };
        let r = guard(|| {
            let id = NodeId::new(&raw);
            let id2: NodeId = raw.into();
            let conv = id.raw() == raw
                && id.as_ref() == &raw[..]
                && id == raw
                && id2 == id
                && NodeId::parse(&raw).map(|p| p == id).unwrap_or(false);
            (id.raw(), conv)
        });
        match r {
            None => writeln!(out, "nid op=new in={} out=panic conv=0", hx(&raw)).unwrap(),
            Some((got, conv)) => writeln!(
                out,
                "nid op=new in={} out={} conv={}",
                hx(&raw),
                hx(&got),
                conv as u8
            )
            .unwrap(),
        }
        let id = NodeId::new(&raw);
        let ser = guard(|| serde_json::to_string(&id).unwrap());
        writeln!(
            out,
            "nid op=ser in={} out={}",
            hx(&raw),
            ser.map(|s| hx(s.as_bytes())).unwrap_or("panic".into())
        )
        .unwrap();
        writeln!(
            out,
            "nid op=debug in={} out={}",
            hx(&raw),
            guard(|| format!("{id:?}"))
                .map(|s| hx(s.as_bytes()))
                .unwrap_or("panic".into())
        )
        .unwrap();
        writeln!(
            out,
            "nid op=debug in={} out={}",
            hx(&raw),
            guard(|| format!("{id:#?}"))
                .map(|s| hx(s.as_bytes()))
                .unwrap_or("panic".into())
        )
        .unwrap();
        writeln!(
            out,
            "nid op=debug in={} out={}",
            hx(&raw),
            guard(|| format!("{:?}", [id]))
                .map(|s| hx(s[1..s.len() - 1].as_bytes()))
                .unwrap_or("panic".into())
        )
        .unwrap();
        writeln!(
            out,
            "nid op=display in={} out={}",
            hx(&raw),
            guard(|| format!("{id:>4}"))
                .map(|s| hx(s.as_bytes()))
                .unwrap_or("panic".into())
        )
        .unwrap();
        writeln!(
            out,
            "nid op=display in={} out={}",
            hx(&raw),
            guard(|| format!("{id}"))
                .map(|s| hx(s.as_bytes()))
                .unwrap_or("panic".into())
        )
        .unwrap();
        // the same while the thread is unwinding from a panic (an id formatted for a panic message
        // or by a shutdown guard)
        if i % 8 == 0 {
            let u = crate::obs::during_unwind(|| (format!("{id}"), format!("{id:?}"), serde_json::to_string(&id).ok()));
            match u {
                Some((d, g, j)) => {
                    writeln!(out, "nid op=display in={} out={}", hx(&raw), hx(d.as_bytes())).unwrap();
                    writeln!(out, "nid op=debug in={} out={}", hx(&raw), hx(g.as_bytes())).unwrap();
                    writeln!(out, "nid op=ser in={} out={}", hx(&raw), j.map(|s| hx(s.as_bytes())).unwrap_or("panic".into())).unwrap();
                }
                None => writeln!(out, "nid op=display in={} out=panic", hx(&raw)).unwrap(),
            }
        }
        // deserialisation of derived strings
        let h = hex::encode(raw);
        let mut strs: Vec<String> = vec![
            format!("0x{h}"),
            h.clone(),
            h.to_uppercase(),
            format!("0x{}", h.to_uppercase()),
            format!("0X{h}"),
            format!("0x0x{h}"),
            format!("0x{}", &h[..63]),
            format!("0x{h}0"),
            format!("0x{h}00"),
            h[..62].to_string(),
            format!("{h} "),
            format!(" {h}"),
            format!("0x{}g", &h[..63]),
            format!("{}x", &h[..63]),
            format!("0x{}", &h[2..]),
        ];
        // mixed case
        let mixed: String = h
            .chars()
            .enumerate()
            .map(|(i, c)| if i % 3 == 0 { c.to_ascii_uppercase() } else { c })
            .collect();
        strs.push(mixed);
        if i < 6 {
            for s in strs.clone() {
                let _ = s;
            }
        }
        let take = if thorough || i < 12 { strs.len() } else { 4 };
        for s in strs.into_iter().take(take) {
            nid_deser(&s, out);
        }
    }
    // strings of every length 0..=70 over hex and non-hex characters
    for len in 0..=70usize {
        for r in 0..(if thorough { 6 } else { 2 }) {
            let s: String = (0..len)
                .map(|_| {
                    let alphabet: &[u8] = if r % 2 == 0 {
                        b"0123456789abcdefABCDEF"
                    } else {
                        b"0123456789abcdefxXgZ -_"
                    };
                    *rng.pick(alphabet) as char
                })
                .collect();
            nid_deser(&s, out);
            nid_deser(&format!("0x{s}"), out);
        }
    }
    // every digit position replaced by a sign, blank or prefix character (integer parsers accept some)
    {
        let raw: [u8; 32] = rng.bytes(32).try_into().unwrap();
        let h = hex::encode(raw);
        for pos in 0..64usize {
            for ch in ['+', '-', ' ', '_', 'x'] {
                if !thorough && pos % 4 != 0 && pos != 32 && pos != 63 {
                    continue;
                }
                let mut t: Vec<char> = h.chars().collect();
                t[pos] = ch;
                let t: String = t.into_iter().collect();
                nid_deser(&t, out);
                nid_deser(&format!("0x{t}"), out);
            }
        }
        nid_deser(&format!("+{h}"), out);
        nid_deser(&format!("0x+{}", &h[1..]), out);
    }
    // non-JSON deserialisers: every length 0..=70 of raw bytes, and hex text as bytes
    for len in 0..=70usize {
        nid_deser_other(&rng.bytes(len), out);
        let hexs: String = (0..len).map(|_| *rng.pick(b"0123456789abcdefABCDEF") as char).collect();
        nid_deser_other(hexs.as_bytes(), out);
        nid_deser_other(format!("0x{hexs}").as_bytes(), out);
    }
    nid_deser("é", out);
    nid_deser(&format!("0x{}é", "a".repeat(62)), out);
    // longer hex strings: every length up to 300 (other things that are written in hex: 33- and
    // 65-byte public keys, 64-byte keys of enode URLs, signatures, whole records)
    for len in 71..=300usize {
        if !thorough && len % 2 == 1 && len % 7 != 0 {
            continue;
        }
        let hs: String = (0..len).map(|_| *rng.pick(b"0123456789abcdef") as char).collect();
        nid_deser(&hs, out);
        nid_deser(&format!("0x{hs}"), out);
    }
    for len in [512usize, 1024, 65536] {
        let hs: String = (0..len).map(|_| *rng.pick(b"0123456789abcdefABCDEF") as char).collect();
        nid_deser(&hs, out);
        nid_deser(&format!("0x{hs}"), out);
    }
    // the whole single-character alphabet: every code point U+0000..U+00FF in place of one digit, in a
    // high-nibble, a low-nibble and the last position (hand-written digit tables and case folds such as
    // `c | 0x20` map control characters, punctuation or Latin-1 letters onto digits)
    {
        let raw: [u8; 32] = rng.bytes(32).try_into().unwrap();
        let h = hex::encode(raw);
        for cp in 0u32..=0xff {
            let c = char::from_u32(cp).unwrap();
            for pos in [0usize, 1, 63] {
                let t: String = h.chars().enumerate().map(|(j, x)| if j == pos { c } else { x }).collect();
                nid_deser(&t, out);
                nid_deser(&format!("0x{t}"), out);
            }
        }
    }
    // characters outside ASCII that Unicode-aware operations map to hex digits or drop: ligatures
    // (upper-casing U+FB00 gives "FF"), full-width and other scripts' digits and letters, letters
    // that case-fold into ASCII, combining marks, invisible characters, byte-order mark
    {
        let raw: [u8; 32] = rng.bytes(32).try_into().unwrap();
        let h = hex::encode(raw);
        let specials = [
            '\u{fb00}', '\u{fb01}', '\u{fb02}', '\u{fb03}', '\u{fb05}', '\u{df}', '\u{ff10}', '\u{ff19}', '\u{ff21}',
            '\u{ff26}', '\u{ff41}', '\u{ff46}', '\u{660}', '\u{669}', '\u{966}', '\u{1d7ce}', '\u{1d7d7}', '\u{b2}',
            '\u{b9}', '\u{2460}', '\u{2160}', '\u{212a}', '\u{212b}', '\u{391}', '\u{410}', '\u{430}', '\u{435}',
            '\u{441}', '\u{301}', '\u{200b}', '\u{200d}', '\u{feff}', '\u{a0}', '\u{2028}', '\u{3000}', '\u{130}',
            '\u{131}', '\u{1e9e}', '\u{e9}', '\u{c9}', '\u{7f}', '\u{0}', '\t', '\r', '\n',
        ];
        for (i, c) in specials.iter().enumerate() {
            let hc: Vec<char> = h.chars().collect();
            let pos = (i * 7) % 62;
            let one: String = hc.iter().enumerate().map(|(j, x)| if j == pos { *c } else { *x }).collect();
            let two: String = hc
                .iter()
                .enumerate()
                .filter(|(j, _)| *j != pos + 1)
                .map(|(j, x)| if j == pos { *c } else { *x })
                .collect();
            let bytes64: String = format!("{}{}", c, &h[..64 - c.len_utf8()]);
            let front = format!("{c}{h}");
            let back = format!("{h}{c}");
            let all = c.to_string().repeat(32);
            for t in [one, two, bytes64, front, back, all] {
                nid_deser(&t, out);
                nid_deser(&format!("0x{t}"), out);
            }
            nid_deser(&format!("{c}0x{h}"), out);
        }
    }
}

/// re-execute one `nid` line (used by replay)
pub fn nid_exec(op: &str, inp: &[u8], out: &mut String) {
    match op {
        "parse" => {
            let res = guard(|| NodeId::parse(inp));
            let o = match res {
                None => "panic".into(),
                Some(Ok(id)) => hx(&id.raw()),
                Some(Err(_)) => "err".into(),
            };
            writeln!(out, "nid op=parse in={} out={}", hx(inp), o).unwrap();
        }
        "deser" => nid_deser(&String::from_utf8_lossy(inp), out),
        "deser_bytes" | "deser_str" | "deser_misc" => nid_deser_other(inp, out),
        "new" | "ser" | "debug" | "display" => {
            let Ok(raw) = <[u8; 32]>::try_from(inp) else { return };
            let id = NodeId::new(&raw);
            match op {
                "new" => {
                    let id2: NodeId = raw.into();
                    let conv = id.raw() == raw && id.as_ref() == &raw[..] && id == raw && id2 == id;
                    writeln!(out, "nid op=new in={} out={} conv={}", hx(&raw), hx(&id.raw()), conv as u8).unwrap();
                }
                "ser" => writeln!(out, "nid op=ser in={} out={}", hx(&raw), hx(serde_json::to_string(&id).unwrap().as_bytes())).unwrap(),
                "debug" => writeln!(out, "nid op=debug in={} out={}", hx(&raw), hx(format!("{id:?}").as_bytes())).unwrap(),
                _ => writeln!(out, "nid op=display in={} out={}", hx(&raw), hx(format!("{id}").as_bytes())).unwrap(),
            }
        }
        _ => {}
    }
}

/// `NodeId::deserialize` driven by deserialisers that are not JSON: byte strings, borrowed and
/// owned strings, numbers, units, sequences (serde::de::value)
pub fn nid_deser_other(inp: &[u8], out: &mut String) {
    use serde::de::value::{BorrowedBytesDeserializer, BytesDeserializer, Error as VErr, SeqDeserializer, StrDeserializer, StringDeserializer, U64Deserializer, UnitDeserializer};
    use serde::Deserialize;
    let show = |r: Option<Result<NodeId, VErr>>| match r {
        None => "panic".to_string(),
        Some(Ok(id)) => hx(&id.raw()),
        Some(Err(_)) => "err".to_string(),
    };
    let a = show(guard(|| NodeId::deserialize(BytesDeserializer::<VErr>::new(inp))));
    let b = show(guard(|| NodeId::deserialize(BorrowedBytesDeserializer::<VErr>::new(inp))));
    writeln!(out, "nid op=deser_bytes in={} out={} out2={}", hx(inp), a, b).unwrap();
    if let Ok(s) = std::str::from_utf8(inp) {
        let c = show(guard(|| NodeId::deserialize(StrDeserializer::<VErr>::new(s))));
        let d = show(guard(|| NodeId::deserialize(StringDeserializer::<VErr>::new(s.to_string()))));
        writeln!(out, "nid op=deser_str in={} out={} out2={}", hx(inp), c, d).unwrap();
    }
    let e = show(guard(|| NodeId::deserialize(U64Deserializer::<VErr>::new(inp.len() as u64))));
    let f = show(guard(|| NodeId::deserialize(UnitDeserializer::<VErr>::new())));
    let g2 = show(guard(|| NodeId::deserialize(SeqDeserializer::<_, VErr>::new(inp.iter().copied()))));
    writeln!(out, "nid op=deser_misc in={} out={} out2={} out3={}", hx(inp), e, f, g2).unwrap();
}

fn nid_deser(s: &str, out: &mut String) {
    let j = serde_json::to_string(s).unwrap();
    let r = guard(|| serde_json::from_str::<NodeId>(&j));
    let o = match r {
        None => "panic".into(),
        Some(Ok(id)) => hx(&id.raw()),
        Some(Err(_)) => "err".into(),
    };
    // the same JSON string by every route serde_json offers (reader, slice, Value, a document in
    // which one character is written as an escape): the outcome does not depend on the route
    let show = |r: Option<Result<NodeId, serde_json::Error>>| match r {
        None => "panic".to_string(),
        Some(Ok(id)) => hx(&id.raw()),
        Some(Err(_)) => "err".to_string(),
    };
    let mut routes = vec![
        show(guard(|| serde_json::from_reader::<_, NodeId>(j.as_bytes()))),
        show(guard(|| serde_json::from_slice::<NodeId>(j.as_bytes()))),
        show(guard(|| serde_json::from_value::<NodeId>(serde_json::Value::String(s.to_string())))),
    ];
    if let Some(c) = s.chars().next() {
        if (c as u32) < 0x80 && s.len() > 1 {
            let esc = format!("\"\\u{:04x}{}", c as u32, &j[1 + c.len_utf8().max(1).min(j.len() - 1)..]);
            // only when the first character is written plainly in `j` (no escape of its own)
            if j[1..].starts_with(c) {
                routes.push(show(guard(|| serde_json::from_str::<NodeId>(&esc))));
                routes.push(show(guard(|| serde_json::from_reader::<_, NodeId>(esc.as_bytes()))));
            }
        }
    }
    let same = routes.iter().all(|x| *x == o);
    writeln!(out, "nid op=deser in={} out={} routes={}", hx(s.as_bytes()), o, same as u8).unwrap();
}

pub fn gen_ck(rng: &mut Rng, thorough: bool, out: &mut String) {
    let mut secp_inputs: Vec<Vec<u8>> = Vec::new();
    let n = SECP_N.to_vec();
    let mut one = vec![0u8; 32];
    one[31] = 1;
    let mut two = vec![0u8; 32];
    two[31] = 2;
    let mut nm1 = n.clone();
    nm1[31] -= 1;
    let mut np1 = n.clone();
    np1[31] += 1;
    secp_inputs.push(vec![0u8; 32]);
    secp_inputs.push(one);
    secp_inputs.push(two);
    secp_inputs.push(nm1);
    secp_inputs.push(n.clone());
    secp_inputs.push(np1);
    secp_inputs.push(vec![0xff; 32]);
    let mut half = n.clone();
    half[0] = 0x7f;
    secp_inputs.push(half);
    for _ in 0..(if thorough { 300 } else { 40 }) {
        secp_inputs.push(rng.bytes(32));
    }
    // values just below / above n in the high bytes
    for _ in 0..(if thorough { 40 } else { 8 }) {
        let mut v = n.clone();
        let i = rng.range(16, 31) as usize;
        v[i] = rng.next() as u8;
        secp_inputs.push(v);
    }
    // values that compare differently limb by limb than as one number: for every split position the
    // high part of n incremented / decremented with the low part all zeros / all ones, and n's
    // high part with the low part all zeros / all ones
    for k in [1usize, 2, 4, 8, 12, 15, 16, 17, 20, 24, 28, 31] {
        let hi = &n[..k];
        let mut up = hi.to_vec();
        let mut carry = true;
        for b in up.iter_mut().rev() {
            if carry {
                let (v, c) = b.overflowing_add(1);
                *b = v;
                carry = c;
            }
        }
        let mut down = hi.to_vec();
        let mut borrow = true;
        for b in down.iter_mut().rev() {
            if borrow {
                let (v, c) = b.overflowing_sub(1);
                *b = v;
                borrow = c;
            }
        }
        for (h, ok) in [(up, !carry), (down, !borrow), (hi.to_vec(), true)] {
            if !ok {
                continue;
            }
            for fill in [0x00u8, 0xff, 0x01] {
                let mut v = h.clone();
                v.resize(32, fill);
                secp_inputs.push(v);
            }
            // the low part of n itself under a changed high part
            let mut v = h.clone();
            v.extend_from_slice(&n[k..]);
            secp_inputs.push(v);
        }
    }
    // other lengths (k256 accepts 24..=32 bytes and left-pads; everything else is refused)
    for len in [0usize, 1, 16, 23, 24, 25, 31, 33, 48, 64] {
        let mut v = rng.bytes(len);
        if len > 0 && len <= 32 {
            v[0] &= 0x7f;
        }
        secp_inputs.push(v);
        secp_inputs.push(vec![0u8; len]);
    }
    // raw secrets whose bytes happen to be ASCII hex digits / hex text of a secret
    secp_inputs.push(b"0123456789abcdef0123456789abcdef".to_vec());
    secp_inputs.push(b"ABCDEF0123456789abcdef0123456789".to_vec());
    secp_inputs.push(b"0x0123456789abcdef0123456789abcd".to_vec());
    secp_inputs.push(vec![0x30; 32]);
    secp_inputs.push(vec![0x66; 32]);
    secp_inputs.push(hex::encode(rng.bytes(32)).into_bytes());
    secp_inputs.push(format!("0x{}", hex::encode(rng.bytes(32))).into_bytes());
    for inp in secp_inputs {
        ck_line("secp", &inp, out);
    }
    let mut ed_inputs: Vec<Vec<u8>> = vec![vec![0u8; 32], vec![0xff; 32], b"0123456789abcdef0123456789abcdef".to_vec(), hex::encode(rng.bytes(32)).into_bytes(), vec![0x61; 32]];
    for _ in 0..(if thorough { 150 } else { 24 }) {
        ed_inputs.push(rng.bytes(32));
    }
    for len in [0usize, 1, 16, 31, 33, 48, 64, 65] {
        ed_inputs.push(rng.bytes(len));
    }
    // the 64-byte "keypair" encodings: secret || public (matching and not), secret || secret
    for _ in 0..3 {
        let sk = rng.bytes(32);
        let a: [u8; 32] = sk.clone().try_into().unwrap();
        let pk = enr::ed25519_dalek::SigningKey::from_bytes(&a).verifying_key().to_bytes().to_vec();
        ed_inputs.push([sk.clone(), pk.clone()].concat());
        ed_inputs.push([pk, sk.clone()].concat());
        ed_inputs.push([sk.clone(), sk.clone()].concat());
        ed_inputs.push([sk, vec![0u8; 32]].concat());
    }
    for inp in ed_inputs {
        ck_line("ed", &inp, out);
    }
    // secrets exported by keys the library generates itself
    for _ in 0..(if thorough { 64 } else { 12 }) {
        ck_generated_line("secp", out);
        ck_generated_line("ed", out);
    }
}

/// `CombinedKey::generate_*` as a source of inputs: the secret a generated key exports is imported
/// like any other 32-byte input (C17 speaks of imports; nothing is demanded of generation itself)
pub fn ck_generated_line(kind: &str, out: &mut String) {
    let exp = guard(|| {
        let g = if kind == "secp" { CombinedKey::generate_secp256k1() } else { CombinedKey::generate_ed25519() };
        g.encode()
    });
    if let Some(exp) = exp {
        ck_line(kind, &exp, out);
    }
}

/// the import alone, from a window that starts `shift` bytes past a 16-byte boundary; returns the
/// window afterwards
fn ck_import_at(kind: &str, inp: &[u8], shift: usize) -> Option<Vec<u8>> {
    let mut backing = vec![0xa5u8; inp.len() + 48];
    let base = backing.as_ptr().align_offset(16);
    let start = base + shift;
    backing[start..start + inp.len()].copy_from_slice(inp);
    let window = &mut backing[start..start + inp.len()];
    guard(|| {
        if kind == "secp" {
            let _ = CombinedKey::secp256k1_from_bytes(window);
        } else {
            let _ = CombinedKey::ed25519_from_bytes(window);
        }
    })?;
    Some(backing[start..start + inp.len()].to_vec())
}

pub fn ck_line(kind: &str, inp: &[u8], out: &mut String) {
    let mut buf = inp.to_vec();
    // the state of the caller's buffer must not depend on where the buffer lies in memory
    let mut odd: Option<Vec<u8>> = None;
    let r = guard(|| {
        let k = if kind == "secp" {
            CombinedKey::secp256k1_from_bytes(&mut buf)
        } else {
            CombinedKey::ed25519_from_bytes(&mut buf)
        };
        k.map(|k| {
            let p = k.public();
            let exp = k.encode();
            // a record signed with the imported key verifies under that public key
            let signed = Enr::<CombinedKey>::builder()
                .tcp4(30303)
                .build(&k)
                .map(|e| {
                    e.verify()
                        && e.public_key().encode() == p.encode()
                        && p.verify_v4(&rlp_content_of(&e), e.signature())
                })
                .unwrap_or(false);
            (p.encode(), exp, signed)
        })
    });
    if r.is_some() {
        for shift in 0..16usize {
            match ck_import_at(kind, inp, shift) {
                Some(w) if w == buf => {}
                Some(w) => odd = Some(w),
                None => {}
            }
        }
    }
    // ... nor on whether the thread is unwinding from a panic at that moment
    if r.is_some() {
        let w = crate::obs::during_unwind(|| {
            let mut b = inp.to_vec();
            let _ = if kind == "secp" {
                CombinedKey::secp256k1_from_bytes(&mut b).is_ok()
            } else {
                CombinedKey::ed25519_from_bytes(&mut b).is_ok()
            };
            b
        });
        match w {
            Some(w) if w != buf => odd = Some(w),
            _ => {}
        }
    }
    if let Some(w) = odd {
        buf = w;
    }
    match r {
        None => writeln!(out, "ck kind={kind} in={} res=panic", hx(inp)).unwrap(),
        Some(Err(_)) => writeln!(out, "ck kind={kind} in={} res=err buf={}", hx(inp), hx(&buf)).unwrap(),
        Some(Ok((p, exp, signed))) => writeln!(
            out,
            "ck kind={kind} in={} res=ok pub={} export={} buf={} signed={}",
            hx(inp),
            hx(&p),
            hx(&exp),
            hx(&buf),
            signed as u8
        )
        .unwrap(),
    }
}

/// the signed payload of a record, rebuilt by the harness's own RLP writer
fn rlp_content_of<K: EnrKey>(e: &Enr<K>) -> Vec<u8> {
    let mut c = rlp_uint(e.seq());
    for (k, v) in e.iter() {
        c.extend_from_slice(&rlp_bytes(k));
        c.extend_from_slice(v);
    }
    rlp_list(&c)
}
