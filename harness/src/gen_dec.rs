//! `dec`, `stream` and `txt` families: byte strings / texts built by the independent signer, their
//! structural mutants (re-signed), tampers (not re-signed) and junk, decoded under every key type.

use crate::keys::*;
use crate::obs::*;
use crate::util::*;
use alloy_rlp::Decodable;
use enr::Enr;
use std::fmt::Write;

pub const REAL_SCHEMES: [&str; 4] = ["k256", "libsecp", "ed", "comb"];

/// a key that sorts after every key the generators produce (so that a value that overruns really
/// runs into the end of the record)
const LASTKEY: &[u8] = &[0xff, 0xff, 0xff, 0xff, 0xff, 0xff, 0xff];

/// A record under construction by the independent signer: encoded key and raw value per pair.
#[derive(Clone, Debug)]
pub struct Spec {
    pub seq_enc: Vec<u8>,
    /// (encoded key item, raw value item)
    pub items: Vec<(Vec<u8>, Vec<u8>)>,
    pub key: IndKey,
}

pub fn sorted_items(mut pairs: Vec<(Vec<u8>, Vec<u8>)>) -> Vec<(Vec<u8>, Vec<u8>)> {
    pairs.sort_by(|a, b| a.0.cmp(&b.0));
    pairs.dedup_by(|a, b| a.0 == b.0);
    pairs.into_iter().map(|(k, v)| (rlp_bytes(&k), v)).collect()
}

impl Spec {
    /// seq, user pairs (plain key, raw value), plus id and the signer's public key
    pub fn new(seq: u64, mut pairs: Vec<(Vec<u8>, Vec<u8>)>, key: IndKey) -> Spec {
        pairs.retain(|(k, _)| k != b"id" && k != key.enr_key());
        pairs.push((b"id".to_vec(), rlp_bytes(b"v4")));
        pairs.push((key.enr_key().to_vec(), rlp_bytes(&key.public())));
        Spec {
            seq_enc: rlp_uint(seq),
            items: sorted_items(pairs),
            key,
        }
    }
    pub fn content(&self) -> Vec<u8> {
        let mut c = self.seq_enc.clone();
        for (k, v) in &self.items {
            c.extend_from_slice(k);
            c.extend_from_slice(v);
        }
        c
    }
    pub fn signature(&self, alt: bool) -> Vec<u8> {
        self.key.sign(&rlp_list(&self.content()), alt)
    }
    /// the signed record
    pub fn encode(&self, alt: bool) -> Vec<u8> {
        self.encode_with_sig(&rlp_bytes(&self.signature(alt)))
    }
    pub fn encode_with_sig(&self, sig_item: &[u8]) -> Vec<u8> {
        let mut p = sig_item.to_vec();
        p.extend_from_slice(&self.content());
        rlp_list(&p)
    }
}

pub fn rand_custom_value(rng: &mut Rng) -> Vec<u8> {
    if rng.chance(1, 8) {
        // lists with a long-form header (payload of 56 bytes and more), plain and nested
        let n = *rng.pick(&[56usize, 57, 72, 100, 120]);
        let strs: Vec<u8> = {
            let mut p = Vec::new();
            while p.len() + 9 <= n {
                p.extend_from_slice(&rlp_bytes(&rng.bytes(8)));
            }
            while p.len() < n {
                p.push(0x01);
            }
            p
        };
        return if rng.chance(1, 2) { rlp_list(&strs) } else { rlp_list(&[rlp_list(&strs), rlp_bytes(b"x")].concat()) };
    }
    match rng.below(10) {
        0 => vec![0x80],
        1 => vec![rng.below(0x80) as u8],
        2 => rlp_bytes(&[rng.range(0x80, 0xff) as u8]),
        3 => rlp_bytes(&rng.bytes(55)),
        4 => rlp_bytes(&rng.bytes(56)),
        5 => rlp_list(&[]),
        6 => {
            // nested list
            let inner = rlp_list(&[rlp_bytes(&rng.bytes(3)), rlp_uint(rng.next() >> 40)].concat());
            rlp_list(&[rlp_bytes(b"ab"), inner, rlp_uint(7)].concat())
        }
        7 => rlp_uint(rng.next()),
        _ => {
            let n = rng.below(20) as usize;
            rlp_bytes(&rng.bytes(n))
        }
    }
}

pub fn rand_custom_key(rng: &mut Rng) -> Vec<u8> {
    if !mined_keys().is_empty() && rng.chance(1, 5) {
        let k = rng.pick(mined_keys()).clone();
        // reserved keys keep their typed generators
        if ![&b"id"[..], b"ip", b"ip6", b"tcp", b"tcp6", b"udp", b"udp6", b"secp256k1", b"ed25519", b"client"]
            .contains(&&k[..])
        {
            return k;
        }
    }
    if rng.chance(1, 10) {
        // long keys (two-byte key headers)
        return vec![0x7a; *rng.pick(&[57usize, 64, 65, 100, 128, 150])];
    }
    match rng.below(10) {
        8 => vec![0x7a; 55],
        9 => vec![0x7a; 56],
        0 => vec![],
        1 => vec![rng.below(0x80) as u8],
        2 => vec![rng.range(0x80, 0xff) as u8],
        3 => b"eth2".to_vec(),
        4 => b"attnets".to_vec(),
        5 => b"zz".to_vec(),
        _ => {
            let n = rng.range(1, 6) as usize;
            rng.bytes(n)
        }
    }
}

pub const SEQS: [u64; 14] = [
    0,
    1,
    127,
    128,
    255,
    256,
    65535,
    65536,
    (1 << 32) - 1,
    1 << 32,
    u64::MAX - 1,
    u64::MAX,
    0x0102030405,
    42,
];

/// reserved pairs chosen by a 6-bit presence mask
pub fn reserved_pairs(rng: &mut Rng, mask: u64) -> Vec<(Vec<u8>, Vec<u8>)> {
    let mut p = Vec::new();
    let port = |rng: &mut Rng| match rng.below(6) {
        0 => 0,
        1 => 127,
        2 => 128,
        3 => 255,
        4 => 256,
        _ => rng.below(65536),
    };
    if mask & 1 != 0 {
        p.push((b"ip".to_vec(), rlp_bytes(&rng.bytes(4))));
    }
    if mask & 2 != 0 {
        p.push((b"ip6".to_vec(), rlp_bytes(&rng.bytes(16))));
    }
    if mask & 4 != 0 {
        p.push((b"tcp".to_vec(), rlp_uint(port(rng))));
    }
    if mask & 8 != 0 {
        p.push((b"tcp6".to_vec(), rlp_uint(port(rng))));
    }
    if mask & 16 != 0 {
        p.push((b"udp".to_vec(), rlp_uint(port(rng))));
    }
    if mask & 32 != 0 {
        p.push((b"udp6".to_vec(), rlp_uint(port(rng))));
    }
    p
}

pub fn rand_spec(rng: &mut Rng, kind: Kind) -> Spec {
    let key = IndKey::gen(rng, kind);
    let mask = rng.below(64);
    let mut pairs = reserved_pairs(rng, mask);
    for _ in 0..rng.below(3) {
        pairs.push((rand_custom_key(rng), rand_custom_value(rng)));
    }
    if rng.chance(1, 6) {
        pairs.push((
            b"client".to_vec(),
            rlp_list(&[rlp_bytes(b"Geth"), rlp_bytes(b"1.2.3")].concat()),
        ));
    }
    let seq = if rng.chance(1, 2) {
        *rng.pick(&SEQS)
    } else {
        rng.next() >> rng.below(64)
    };
    Spec::new(seq, pairs, key)
}

/// pad a spec with a custom value so that the encoded record has exactly `target` bytes, if possible
pub fn pad_to(spec: &Spec, target: usize, rng: &mut Rng) -> Option<Spec> {
    for extra in 0..target {
        let mut s = spec.clone();
        let mut items: Vec<(Vec<u8>, Vec<u8>)> = s.items.clone();
        items.push((rlp_bytes(b"pad"), rlp_bytes(&vec![0x78; extra])));
        items.sort_by(|a, b| {
            let ka = &a.0[if a.0.len() > 1 { 1 } else { 0 }..];
            let kb = &b.0[if b.0.len() > 1 { 1 } else { 0 }..];
            ka.cmp(kb)
        });
        s.items = items;
        let len = s.encode_with_sig(&rlp_bytes(&vec![0u8; sig_len(&s.key)])).len();
        if len == target {
            let _ = rng;
            return Some(s);
        }
        if len > target {
            return None;
        }
    }
    None
}

fn sig_len(k: &IndKey) -> usize {
    match k.kind {
        Kind::Toy => k.sk[0] as usize,
        _ => 64,
    }
}

/// One generated input with the verdict the generator expects from a key type that supports the
/// signer's scheme ("accept", "reject" or "open").
pub struct Input {
    pub tag: String,
    pub expect: &'static str,
    pub buf: Vec<u8>,
    pub kind: Kind,
    /// length of the leading item when the buffer is item ++ suffix
    pub item_len: usize,
}

fn inp(tag: &str, expect: &'static str, buf: Vec<u8>, kind: Kind) -> Input {
    let item_len = buf.len();
    // whatever else holds, a record of more than 300 bytes must be rejected
    let expect = if expect == "accept" && item_len > 300 { "reject" } else { expect };
    Input {
        tag: tag.into(),
        expect,
        buf,
        kind,
        item_len,
    }
}

/// structural mutants of a valid spec, each RE-SIGNED so that only the structural rule is violated
pub fn structural_mutants(spec: &Spec, rng: &mut Rng, out: &mut Vec<Input>) {
    let kind = spec.key.kind;
    let alt = rng.chance(1, 2);
    let mut push = |tag: &str, expect: &'static str, s: &Spec| {
        out.push(inp(tag, expect, s.encode(alt), kind));
    };
    let n = spec.items.len();
    // unsorted: swap two adjacent pairs
    if n >= 2 {
        let i = rng.below(n as u64 - 1) as usize;
        let mut s = spec.clone();
        s.items.swap(i, i + 1);
        push("m-unsorted", "reject", &s);
        // duplicate key
        let mut s = spec.clone();
        let d = s.items[i].clone();
        s.items.insert(i, d);
        push("m-dupkey", "reject", &s);
    }
    // missing value (odd number of items)
    {
        let mut s = spec.clone();
        let last = s.items.len() - 1;
        s.items[last].1 = vec![];
        push("m-missing-value", "reject", &s);
    }
    let find = |s: &Spec, k: &[u8]| s.items.iter().position(|(ek, _)| *ek == rlp_bytes(k));
    // id
    if let Some(i) = find(spec, b"id") {
        let mut s = spec.clone();
        s.items.remove(i);
        push("m-no-id", "reject", &s);
        let mut s = spec.clone();
        s.items[i].1 = rlp_bytes(b"v5");
        push("m-id-v5", "reject", &s);
        let mut s = spec.clone();
        s.items[i].1 = rlp_list(&rlp_bytes(b"v4"));
        push("m-id-list", "reject", &s);
        let mut s = spec.clone();
        s.items[i].1 = rlp_bytes(b"");
        push("m-id-empty", "reject", &s);
        // near misses of the name
        for v in [&b"V4"[..], b"v4\0", b"v4 ", b"v40", b"\0v4", b"v", b"4v", b"v44", b" v4"] {
            let mut s = spec.clone();
            s.items[i].1 = rlp_bytes(v);
            push("m-id-near-miss", "reject", &s);
        }
    }
    // public key
    if let Some(i) = find(spec, spec.key.enr_key()) {
        let mut s = spec.clone();
        s.items.remove(i);
        push("m-no-pubkey", "reject", &s);
        let pk = spec.key.public();
        let bad: Vec<(&str, Vec<u8>)> = match kind {
            Kind::Secp => {
                let mut v = vec![
                    ("m-pk-short", pk[..32].to_vec()),
                    ("m-pk-long", [pk.clone(), vec![0]].concat()),
                    ("m-pk-empty", vec![]),
                    ("m-pk-tag00", [vec![0u8], pk[1..].to_vec()].concat()),
                    ("m-pk-tag04", [vec![4u8], pk[1..].to_vec()].concat()),
                    ("m-pk-tag05", [vec![5u8], pk[1..].to_vec()].concat()),
                    ("m-pk-xff", [vec![2u8], vec![0xff; 32]].concat()),
                    ("m-pk-x0", [vec![2u8], vec![0; 32]].concat()),
                ];
                // an x that is not on the curve: search near the real x
                let mut x = pk.clone();
                for _ in 0..64 {
                    x[32] = x[32].wrapping_add(1);
                    if enr::k256::ecdsa::VerifyingKey::from_sec1_bytes(&x).is_err() {
                        v.push(("m-pk-offcurve", x.clone()));
                        break;
                    }
                }
                v
            }
            Kind::Ed => {
                let mut v = vec![
                    ("m-pk-short", pk[..31].to_vec()),
                    ("m-pk-long", [pk.clone(), vec![0]].concat()),
                    ("m-pk-empty", vec![]),
                ];
                let mut y = pk.clone();
                for _ in 0..64 {
                    y[0] = y[0].wrapping_add(1);
                    if enr::ed25519_dalek::VerifyingKey::try_from(&y[..]).is_err() {
                        v.push(("m-pk-offcurve", y.clone()));
                        break;
                    }
                }
                v
            }
            Kind::Toy => vec![("m-pk-short", pk[..3].to_vec())],
        };
        for (tag, b) in bad {
            let mut s = spec.clone();
            s.items[i].1 = rlp_bytes(&b);
            push(tag, "reject", &s);
        }
        let mut s = spec.clone();
        s.items[i].1 = rlp_list(&rlp_bytes(&pk));
        push("m-pk-list", "reject", &s);
        // 65-byte SEC1 forms: outside the verdict
        if kind == Kind::Secp {
            let k = enr::k256::ecdsa::SigningKey::from_slice(&spec.key.sk).unwrap();
            let un = k.verifying_key().to_encoded_point(false).as_bytes().to_vec();
            let mut s = spec.clone();
            s.items[i].1 = rlp_bytes(&un);
            push("o-pk-uncompressed", "open", &s);
            let mut hy = un.clone();
            hy[0] = 6 + (un[64] & 1);
            let mut s = spec.clone();
            s.items[i].1 = rlp_bytes(&hy);
            push("o-pk-hybrid", "open", &s);
        }
    }
    // ill-typed reserved values: replace or add
    let set = |s: &mut Spec, k: &[u8], v: Vec<u8>| {
        if let Some(i) = s.items.iter().position(|(ek, _)| *ek == rlp_bytes(k)) {
            s.items[i].1 = v;
        } else {
            s.items.push((rlp_bytes(k), v));
            let mut plain: Vec<(Vec<u8>, Vec<u8>)> = Vec::new();
            for (ek, v) in &s.items {
                let h = rlp_peek(ek).unwrap();
                plain.push((ek[h.1..].to_vec(), v.clone()));
            }
            s.items = sorted_items(plain);
        }
    };
    let ill: Vec<(&str, &[u8], Vec<u8>)> = vec![
        ("m-ip-3", b"ip", rlp_bytes(&[1, 2, 3])),
        ("m-ip-5", b"ip", rlp_bytes(&[1, 2, 3, 4, 5])),
        ("m-ip-list", b"ip", rlp_list(&[1, 2, 3, 4])),
        ("m-ip-16", b"ip", rlp_bytes(&[9; 16])),
        ("m-ip-6", b"ip", rlp_bytes(&[9; 6])),
        ("m-ip6-list", b"ip6", rlp_list(&[7; 16])),
        ("m-ip6-empty", b"ip6", rlp_bytes(&[])),
        ("m-tcp-4bytes", b"tcp", rlp_bytes(&[1, 0, 0, 0])),
        ("m-tcp6-65536", b"tcp6", rlp_bytes(&[1, 0, 0])),
        ("m-udp6-empty-list", b"udp6", vec![0xc0]),
        ("m-ip-empty", b"ip", rlp_bytes(&[])),
        ("m-ip6-15", b"ip6", rlp_bytes(&[7; 15])),
        ("m-ip6-17", b"ip6", rlp_bytes(&[7; 17])),
        ("m-ip6-4", b"ip6", rlp_bytes(&[7; 4])),
        ("m-tcp-3bytes", b"tcp", rlp_bytes(&[1, 0, 0])),
        ("m-tcp-leading0", b"tcp", rlp_bytes(&[0, 80])),
        ("m-tcp-zero-byte", b"tcp", vec![0x00]),
        ("m-tcp-list", b"tcp", rlp_list(&[0x50])),
        ("m-udp-3bytes", b"udp", rlp_bytes(&[1, 0, 0])),
        ("m-udp6-leading0", b"udp6", rlp_bytes(&[0, 1])),
        ("m-tcp6-noncanon", b"tcp6", vec![0x81, 0x05]),
        ("m-udp-longform", b"udp", vec![0xb8, 0x02, 0x12, 0x34]),
    ];
    for (tag, k, v) in ill {
        let mut s = spec.clone();
        set(&mut s, k, v);
        push(tag, "reject", &s);
    }
    // valid boundary values of the same keys (accepted)
    let okv: Vec<(&str, &[u8], Vec<u8>)> = vec![
        ("v-tcp-0", b"tcp", vec![0x80]),
        ("v-tcp-127", b"tcp", vec![0x7f]),
        ("v-tcp-128", b"tcp", vec![0x81, 0x80]),
        ("v-udp-65535", b"udp", vec![0x82, 0xff, 0xff]),
        ("v-ip-zero", b"ip", rlp_bytes(&[0, 0, 0, 0])),
    ];
    for (tag, k, v) in okv {
        let mut s = spec.clone();
        set(&mut s, k, v);
        push(tag, "accept", &s);
    }
    // non-canonical framing
    {
        let mut s = spec.clone();
        s.seq_enc = vec![0x82, 0x00, 0x01];
        push("m-seq-leading0", "reject", &s);
        let mut s = spec.clone();
        s.seq_enc = vec![0x81, 0x05];
        push("m-seq-noncanon-single", "reject", &s);
        let mut s = spec.clone();
        s.seq_enc = vec![0x00];
        push("m-seq-zero-byte", "reject", &s);
        let mut s = spec.clone();
        s.seq_enc = rlp_bytes(&[1, 0, 0, 0, 0, 0, 0, 0, 0]);
        push("m-seq-9bytes", "reject", &s);
        let mut s = spec.clone();
        s.seq_enc = rlp_list(&[1]);
        push("m-seq-list", "reject", &s);
        let mut s = spec.clone();
        s.seq_enc = vec![0xb8, 0x01, 0x05];
        push("m-seq-longform", "reject", &s);
        // key in long form / with leading-zero length / as list
        let i = rng.below(n as u64) as usize;
        let h = rlp_peek(&spec.items[i].0).unwrap();
        let plain = spec.items[i].0[h.1..].to_vec();
        if plain.len() < 56 && !(plain.len() == 1 && plain[0] < 0x80) {
            let mut s = spec.clone();
            s.items[i].0 = [vec![0xb8, plain.len() as u8], plain.clone()].concat();
            push("m-key-longform", "reject", &s);
            let mut s = spec.clone();
            s.items[i].0 = [vec![0xb9, 0, plain.len() as u8], plain.clone()].concat();
            push("m-key-len-leading0", "reject", &s);
        }
        let mut s = spec.clone();
        s.items[i].0 = rlp_list(&plain);
        push("m-key-list", "reject", &s);
        // custom value: non-canonical single byte, overrunning header
        let mut s = spec.clone();
        set(&mut s, LASTKEY, vec![0x81, 0x01]);
        push("m-val-noncanon-single", "reject", &s);
        let mut s = spec.clone();
        set(&mut s, LASTKEY, vec![0x85, 0x01]);
        push("m-val-overrun", "reject", &s);
        let mut s = spec.clone();
        set(&mut s, LASTKEY, vec![0xb8, 0x03, 1, 2, 3]);
        push("m-val-longform-short", "reject", &s);
        let mut s = spec.clone();
        set(&mut s, LASTKEY, vec![0xc5, 0x01]);
        push("m-val-list-overrun", "reject", &s);
        // inner bytes of a list value under an unknown key are not inspected
        let mut s = spec.clone();
        set(&mut s, LASTKEY, vec![0xc3, 0x81, 0x01, 0xff]);
        push("o-val-list-garbage", "open", &s);
        let mut s = spec.clone();
        set(&mut s, LASTKEY, rlp_list(&[rlp_bytes(b"x"), rlp_list(&rlp_uint(300))].concat()));
        push("v-val-nested", "accept", &s);
    }
    // signature item framing (signature over the unchanged content)
    {
        let sig = spec.signature(alt);
        out.push(inp(
            "m-sig-list",
            "reject",
            spec.encode_with_sig(&rlp_list(&sig)),
            kind,
        ));
        out.push(inp(
            "m-sig-longform",
            "reject",
            spec.encode_with_sig(&[vec![0xb9, 0, sig.len() as u8], sig.clone()].concat()),
            kind,
        ));
    }
    // outer framing
    {
        let good = spec.encode(alt);
        let h = rlp_peek(&good).unwrap();
        let payload = good[h.1..].to_vec();
        let mut b = rlp_header(false, payload.len());
        b.extend_from_slice(&payload);
        out.push(inp("m-outer-string", "reject", b, kind));
        let mut b = rlp_header(true, payload.len() + 1);
        b.extend_from_slice(&payload);
        out.push(inp("m-outer-too-long", "reject", b, kind));
        let mut b = rlp_header(true, payload.len() - 1);
        b.extend_from_slice(&payload[..payload.len() - 1]);
        out.push(inp("m-outer-short", "reject", b, kind));
        if payload.len() >= 56 && payload.len() < 256 {
            let mut b = vec![0xf9, 0x00, payload.len() as u8];
            b.extend_from_slice(&payload);
            out.push(inp("m-outer-len-leading0", "reject", b, kind));
        }
    }
}

/// tampers of an encoded valid record that are NOT re-signed: all must be rejected
pub fn tampers(spec: &Spec, rng: &mut Rng, all_bits: bool, out: &mut Vec<Input>) {
    let kind = spec.key.kind;
    let good = spec.encode(rng.chance(1, 2));
    // single-bit flips
    let nbits = good.len() * 8;
    let flips: Vec<usize> = if all_bits {
        (0..nbits).collect()
    } else {
        (0..24).map(|_| rng.below(nbits as u64) as usize).collect()
    };
    for bit in flips {
        let mut b = good.clone();
        b[bit / 8] ^= 1 << (bit % 8);
        out.push(inp("t-bitflip", "reject", b, kind));
    }
    let positions: Vec<usize> = if all_bits {
        (0..good.len()).collect()
    } else {
        (0..6).map(|_| rng.below(good.len() as u64) as usize).collect()
    };
    for &p in &positions {
        let mut b = good.clone();
        b[p] = b[p].wrapping_add(rng.range(1, 255) as u8);
        out.push(inp("t-byte-edit", "reject", b, kind));
        let mut b = good.clone();
        b.insert(p, rng.next() as u8);
        // (an inserted byte equal to its right neighbour at the very end would leave the record
        //  intact with one byte after it, which prefix locality requires to be accepted)
        if !b.starts_with(&good) {
            out.push(inp("t-byte-insert", "reject", b, kind));
        }
        let mut b = good.clone();
        b.remove(p);
        out.push(inp("t-byte-delete", "reject", b, kind));
        out.push(inp("t-truncate", "reject", good[..p].to_vec(), kind));
    }
    // field-level tampers: the signature stays, a field changes
    let sig_item = rlp_bytes(&spec.signature(false));
    {
        let mut s = spec.clone();
        let seq = {
            let h = rlp_peek(&s.seq_enc).unwrap();
            let mut v: u64 = 0;
            for x in &s.seq_enc[h.1..h.1 + h.2.min(8)] {
                v = (v << 8) | *x as u64;
            }
            v
        };
        s.seq_enc = rlp_uint(seq.wrapping_add(1));
        out.push(inp("t-seq-plus1", "reject", s.encode_with_sig(&sig_item), kind));
        let mut s = spec.clone();
        s.items.push((rlp_bytes(b"zzzz"), rlp_bytes(b"x")));
        out.push(inp("t-add-pair", "reject", s.encode_with_sig(&sig_item), kind));
        // a repeated key, the signature still the one over the record without the repetition (a
        // decoder that lets the later or the earlier pair win rebuilds exactly the signed content)
        for i in 0..spec.items.len() {
            let (k, v) = spec.items[i].clone();
            let mut alt = v.clone();
            if let Some(l) = alt.last_mut() {
                *l = l.wrapping_add(1);
            }
            for (tag, pos, val) in [
                ("t-repeated-pair-identical", i, v.clone()),
                ("t-repeated-key-before", i, alt.clone()),
                ("t-repeated-key-after", i + 1, alt.clone()),
            ] {
                if rng.chance(1, 2) && tag != "t-repeated-pair-identical" {
                    continue;
                }
                let mut s2 = spec.clone();
                s2.items.insert(pos, (k.clone(), val));
                out.push(inp(tag, "reject", s2.encode_with_sig(&sig_item), kind));
            }
        }
        // a dangling item: one more item inside the list after the last pair (a key without a
        // value), the signature still the one over the record without it
        let rl = rng.range(2, 40) as usize;
        for extra in [
            rlp_bytes(LASTKEY),
            rlp_bytes(b"udp6"),
            vec![0x80],
            vec![0xc0],
            vec![0x01],
            rlp_bytes(b"a"),
            rlp_bytes(&rng.bytes(rl)),
        ] {
            let mut payload = sig_item.clone();
            payload.extend_from_slice(&spec.content());
            payload.extend_from_slice(&extra);
            out.push(inp("t-dangling-item", "reject", rlp_list(&payload), kind));
        }
        if spec.items.len() > 2 {
            let mut s = spec.clone();
            let i = s
                .items
                .iter()
                .position(|(k, _)| *k != rlp_bytes(b"id") && *k != rlp_bytes(spec.key.enr_key()))
                .unwrap_or(0);
            s.items.remove(i);
            out.push(inp("t-drop-pair", "reject", s.encode_with_sig(&sig_item), kind));
        }
        // another key's public key in the record, signature by the original key
        // (a different key: the pool of edge keys is small)
        let mut other = IndKey::gen(rng, kind);
        while other.public() == spec.key.public() {
            other = IndKey::gen(rng, kind);
        }
        let mut s = spec.clone();
        if let Some(i) = s
            .items
            .iter()
            .position(|(k, _)| *k == rlp_bytes(spec.key.enr_key()))
        {
            s.items[i].1 = rlp_bytes(&other.public());
            out.push(inp("t-swap-pubkey", "reject", s.encode_with_sig(&sig_item), kind));
            // signed by a wrong key over the right content
            let wrong = other.sign(&rlp_list(&spec.content()), false);
            out.push(inp(
                "t-wrong-signer",
                "reject",
                spec.encode_with_sig(&rlp_bytes(&wrong)),
                kind,
            ));
        }
        // signatures by the right key over the wrong message: the hash of the payload (ed25519 signs
        // the list itself, ECDSA its keccak256 — one hash more or less is a classic confusion), the
        // payload without its list header, the payload with a byte appended, an empty message
        {
            let payload = rlp_list(&spec.content());
            let wrong: Vec<(&str, Vec<u8>)> = vec![
                ("t-sig-over-hash", keccak(&payload).to_vec()),
                ("t-sig-over-bare-content", spec.content()),
                ("t-sig-over-padded", [payload.clone(), vec![0]].concat()),
                ("t-sig-over-empty", vec![]),
                ("t-sig-over-record", spec.encode_with_sig(&rlp_bytes(&[]))),
            ];
            for (tag, msg) in wrong {
                let sg = spec.key.sign(&msg, false);
                out.push(inp(tag, "reject", spec.encode_with_sig(&rlp_bytes(&sg)), kind));
            }
        }
        // signature of another record of the same key
        let mut s2 = spec.clone();
        s2.items.push((rlp_bytes(b"zzzz"), rlp_bytes(b"y")));
        let sig2 = s2.signature(false);
        out.push(inp(
            "t-sig-of-other-record",
            "reject",
            spec.encode_with_sig(&rlp_bytes(&sig2)),
            kind,
        ));
    }
    // signature-level tampers
    let sig = spec.signature(true);
    if kind == Kind::Secp {
        // the same (r, s) in ASN.1 DER instead of fixed-width r||s
        let der_int = |b: &[u8]| {
            let mut v: Vec<u8> = b.iter().copied().skip_while(|x| *x == 0).collect();
            if v.is_empty() || v[0] & 0x80 != 0 {
                v.insert(0, 0);
            }
            let mut o = vec![0x02, v.len() as u8];
            o.extend_from_slice(&v);
            o
        };
        let body = [der_int(&sig[..32]), der_int(&sig[32..])].concat();
        let mut der = vec![0x30, body.len() as u8];
        der.extend_from_slice(&body);
        out.push(inp("t-sig-der", "reject", spec.encode_with_sig(&rlp_bytes(&der)), kind));
        // 65-byte signature with a recovery id appended
        out.push(inp(
            "t-sig-recid",
            "reject",
            spec.encode_with_sig(&rlp_bytes(&[sig.clone(), vec![1]].concat())),
            kind,
        ));
        // a signature whose r starts with a zero byte, with that byte dropped (63 bytes): decoders
        // that left-pad would take it.  The sequence number is varied until such a signature turns up.
        {
            let mut s2 = spec.clone();
            for n in 0..3000u64 {
                s2.seq_enc = rlp_uint(1_000_000 + n);
                let g = s2.signature(n % 2 == 0);
                if g[0] == 0 {
                    out.push(inp("v-sig-r-leading-zero", "accept", s2.encode_with_sig(&rlp_bytes(&g)), kind));
                    out.push(inp(
                        "t-sig-drop-leading-zero",
                        "reject",
                        s2.encode_with_sig(&rlp_bytes(&g[1..])),
                        kind,
                    ));
                    break;
                }
            }
        }
        let mut hs = sig[..32].to_vec();
        hs.extend_from_slice(&secp_neg(&sig[32..]));
        out.push(inp("t-high-s", "reject", spec.encode_with_sig(&rlp_bytes(&hs)), kind));
        let mut z = sig.clone();
        for b in &mut z[32..] {
            *b = 0;
        }
        out.push(inp("t-s-zero", "reject", spec.encode_with_sig(&rlp_bytes(&z)), kind));
        let mut z = sig.clone();
        z[..32].copy_from_slice(&SECP_N);
        out.push(inp("t-r-eq-n", "reject", spec.encode_with_sig(&rlp_bytes(&z)), kind));
    }
    if kind == Kind::Ed {
        // s + l (non-canonical s)
        let l: [u8; 32] = [
            0xed, 0xd3, 0xf5, 0x5c, 0x1a, 0x63, 0x12, 0x58, 0xd6, 0x9c, 0xf7, 0xa2, 0xde, 0xf9,
            0xde, 0x14, 0, 0, 0, 0, 0, 0, 0, 0, 0, 0, 0, 0, 0, 0, 0, 0x10,
        ];
        let mut z = sig.clone();
        let mut carry = 0u16;
        for i in 0..32 {
            let t = z[32 + i] as u16 + l[i] as u16 + carry;
            z[32 + i] = t as u8;
            carry = t >> 8;
        }
        out.push(inp("t-s-plus-l", "reject", spec.encode_with_sig(&rlp_bytes(&z)), kind));
    }
    if sig.len() > 1 {
        out.push(inp(
            "t-sig-short",
            "reject",
            spec.encode_with_sig(&rlp_bytes(&sig[..sig.len() - 1])),
            kind,
        ));
        out.push(inp(
            "t-sig-long",
            "reject",
            spec.encode_with_sig(&rlp_bytes(&[sig.clone(), vec![0]].concat())),
            kind,
        ));
        out.push(inp(
            "t-sig-empty",
            "reject",
            spec.encode_with_sig(&rlp_bytes(&[])),
            kind,
        ));
    }
}

pub fn junk(rng: &mut Rng, out: &mut Vec<Input>, n: usize) {
    let fixed: Vec<Vec<u8>> = vec![
        vec![],
        vec![0xc0],
        vec![0xc1, 0x80],
        vec![0xc2, 0x80, 0x01],
        vec![0xc3, 0x80, 0x01, 0x80],
        vec![0x80],
        vec![0x00],
        vec![0xf8],
        vec![0xf8, 0x00],
        vec![0xf8, 0x38],
        vec![0xff, 0xff, 0xff, 0xff, 0xff, 0xff, 0xff, 0xff, 0xff],
        vec![0xbf, 0xff, 0xff, 0xff, 0xff, 0xff, 0xff, 0xff, 0xff],
        vec![0xf9, 0x01, 0x2d],
    ];
    for b in fixed {
        out.push(inp("j-fixed", "reject", b, Kind::Secp));
    }
    for _ in 0..n {
        let len = rng.below(340) as usize;
        let mut b = rng.bytes(len);
        if rng.chance(1, 2) && len > 3 {
            // make it look like a list of the right length
            let h = rlp_header(true, len - 2);
            for (i, x) in h.iter().enumerate() {
                if i < b.len() {
                    b[i] = *x;
                }
            }
        }
        out.push(inp("j-random", "reject", b, Kind::Secp));
    }
}

fn decode_obs<S: Sch>(buf: &[u8], with_acc: bool, out: &mut String) {
    let r = guard(|| {
        let mut b: &[u8] = buf;
        let r = Enr::<S::K>::decode(&mut b);
        (r, buf.len() - b.len())
    });
    // the same bytes decoded by several threads at once (the same record arriving from several
    // peers): every decode must come out as the sequential one did; on a sample of the inputs
    let par = {
        let h = buf.iter().fold(buf.len() as u32, |a, b| a.wrapping_mul(33).wrapping_add(*b as u32));
        if h % 8 == 0 && buf.len() <= 400 {
            const T: usize = 8;
            const ROUNDS: usize = 3;
            let barrier = std::sync::Barrier::new(T);
            let oks = std::sync::atomic::AtomicUsize::new(0);
            let panics = std::sync::atomic::AtomicUsize::new(0);
            std::thread::scope(|sc| {
                for _ in 0..T {
                    sc.spawn(|| {
                        for _ in 0..ROUNDS {
                            barrier.wait();
                            match guard(|| {
                                let mut b: &[u8] = buf;
                                Enr::<S::K>::decode(&mut b).is_ok()
                            }) {
                                Some(true) => {
                                    oks.fetch_add(1, std::sync::atomic::Ordering::SeqCst);
                                }
                                Some(false) => {}
                                None => {
                                    panics.fetch_add(1, std::sync::atomic::Ordering::SeqCst);
                                }
                            }
                        }
                    });
                }
            });
            format!(
                " par={}/{}/{}",
                oks.load(std::sync::atomic::Ordering::SeqCst),
                panics.load(std::sync::atomic::Ordering::SeqCst),
                T * ROUNDS
            )
        } else {
            String::new()
        }
    };
    // the same item followed by a very long suffix (a dump of many records, a memory-mapped file):
    // same outcome, same number of bytes consumed; on a sample of the inputs
    let par = {
        let h = buf.iter().fold(buf.len() as u32, |a, b| a.wrapping_mul(37).wrapping_add(*b as u32));
        if h % 16 == 1 && buf.len() <= 320 {
            let plain: Option<(bool, usize)> = match &r {
                None => None,
                Some((Ok(_), used)) => Some((true, *used)),
                Some((Err(_), _)) => Some((false, 0)),
            };
            let sizes = [1usize << 16, 1 << 20, (1 << 24) - buf.len(), 1 << 24, (1 << 24) + 4096, 1 << 25];
            let mut same = 0usize;
            // one zeroed arena for all sizes; the item is written to its front and wiped afterwards
            static ARENA: std::sync::Mutex<Vec<u8>> = std::sync::Mutex::new(Vec::new());
            let mut arena = ARENA.lock().unwrap_or_else(|e| e.into_inner());
            if arena.len() < (1 << 25) + 512 {
                arena.resize((1 << 25) + 512, 0u8);
            }
            arena[..buf.len()].copy_from_slice(buf);
            for n in sizes {
                let big: &[u8] = &arena[..buf.len() + n];
                let got = guard(|| {
                    let mut b: &[u8] = big;
                    let r = Enr::<S::K>::decode(&mut b);
                    (r.is_ok(), big.len() - b.len())
                });
                let got = got.map(|(ok, used)| (ok, if ok { used } else { 0 }));
                if got == plain {
                    same += 1;
                }
            }
            for b in arena[..buf.len()].iter_mut() {
                *b = 0;
            }
            format!("{par} big={same}/{}", sizes.len())
        } else {
            par
        }
    };
    match r {
        None => writeln!(out, "out res=panic{par}").unwrap(),
        Some((Err(e), _)) => {
            writeln!(out, "out res=err:{}{par}", crate::cases::rlp_err_str(&e)).unwrap()
        }
        Some((Ok(e), used)) => {
            writeln!(out, "out res=ok used={used}{par}").unwrap();
            out.push_str(&rec_line(&e));
            out.push('\n');
            if with_acc {
                out.push_str(&acc_line(&e));
                out.push('\n');
            }
        }
    }
}

pub fn decode_under(scheme: &str, buf: &[u8], with_acc: bool, out: &mut String) {
    match scheme {
        "k256" => decode_obs::<SK256>(buf, with_acc, out),
        "libsecp" => decode_obs::<SLibsecp>(buf, with_acc, out),
        "ed" => decode_obs::<SEd>(buf, with_acc, out),
        "comb" => decode_obs::<SComb>(buf, with_acc, out),
        "toy" => decode_obs::<SToy>(buf, with_acc, out),
        _ => {}
    }
}

/// what a key type must do with an input whose base verdict (for a supporting type) is `expect`
pub fn expect_for(scheme: &str, kind: Kind, expect: &'static str) -> &'static str {
    if kinds_of(scheme).contains(&kind) {
        expect
    } else if expect == "open" {
        "open"
    } else {
        "reject"
    }
}

pub fn emit_dec(i: &Input, schemes: &[&str], acc_every: bool, out: &mut String) {
    for s in schemes {
        writeln!(
            out,
            "dec scheme={} tag={} expect={} itemlen={} buf={}",
            s,
            i.tag,
            expect_for(s, i.kind, i.expect),
            i.item_len,
            hx(&i.buf)
        )
        .unwrap();
        decode_under(s, &i.buf, acc_every, out);
        // other deserialisers than serde_json's, on a sample (all valid records, some of the rest)
        if kinds_of(s).contains(&i.kind) {
            let h = i.buf.iter().fold(i.buf.len() as u32, |a, b| a.wrapping_mul(31).wrapping_add(*b as u32));
            let take = if i.tag.starts_with("v-") {
                true
            } else if i.tag.starts_with("t-") {
                h % 4 == 0
            } else {
                h % 16 == 0
            };
            if take && i.buf.len() <= 400 {
                alt_under(s, &i.buf, out);
            }
        }
    }
}

/// the `dec` family
pub fn gen_dec(rng: &mut Rng, thorough: bool, out: &mut String) {
    let nrec = if thorough { 60 } else { 14 };
    let mut inputs = Vec::new();
    for r in 0..nrec {
        for kind in [Kind::Secp, Kind::Ed] {
            let spec = rand_spec(rng, kind);
            inputs.push(inp("v-random", "accept", spec.encode(r % 2 == 0), kind));
            structural_mutants(&spec, rng, &mut inputs);
            tampers(&spec, rng, thorough && r < 6, &mut inputs);
        }
    }
    // records that carry a valid key of BOTH schemes, signed by either
    for r in 0..(if thorough { 12 } else { 4 }) {
        let signer_kind = if r % 2 == 0 { Kind::Secp } else { Kind::Ed };
        let other_kind = if r % 2 == 0 { Kind::Ed } else { Kind::Secp };
        let signer = IndKey::gen(rng, signer_kind);
        let other = IndKey::gen(rng, other_kind);
        let pairs = vec![(other.enr_key().to_vec(), rlp_bytes(&other.public()))];
        let spec = Spec::new(*rng.pick(&SEQS), pairs, signer);
        // secp-signed: every secp type and comb accept, ed rejects (signature is not the ed key's);
        // ed-signed: ed accepts, comb must verify against the secp entry and reject: left open
        inputs.push(inp(
            if signer_kind == Kind::Secp { "v-both-keys-secp-signed" } else { "o-both-keys-ed-signed" },
            if signer_kind == Kind::Secp { "accept" } else { "open" },
            spec.encode(r % 4 < 2),
            signer_kind,
        ));
    }
    // long keys (two-byte key header) and list values with a long-form header, plain and nested
    for kind in [Kind::Secp, Kind::Ed] {
        for n in [57usize, 64, 65, 100, 128, 150] {
            let spec = Spec::new(1, vec![(vec![0x7a; n], vec![0x01u8])], IndKey::gen(rng, kind));
            inputs.push(inp("v-long-key", "accept", spec.encode(false), kind));
        }
        for n in [56usize, 57, 72, 100, 120] {
            let mut p = Vec::new();
            while p.len() + 9 <= n {
                p.extend_from_slice(&rlp_bytes(&rng.bytes(8)));
            }
            while p.len() < n {
                p.push(0x01);
            }
            let spec = Spec::new(1, vec![(b"topics".to_vec(), rlp_list(&p))], IndKey::gen(rng, kind));
            inputs.push(inp("v-long-list", "accept", spec.encode(false), kind));
            let nested = rlp_list(&[rlp_list(&p), rlp_bytes(b"x")].concat());
            let spec = Spec::new(1, vec![(b"topics".to_vec(), nested)], IndKey::gen(rng, kind));
            inputs.push(inp("v-long-list-nested", "accept", spec.encode(false), kind));
        }
    }
    // keys that are not well-formed UTF-8 (their lossy text images coincide or change order)
    for kind in [Kind::Secp, Kind::Ed] {
        for ks in [[vec![0x80u8], vec![0x81u8]], [vec![0x9c, 0x01], vec![0xc3, 0xa9]], [vec![0xc3, 0xa9], vec![0xff]], [vec![0xc0], vec![0xc1]]] {
            let pairs = vec![(ks[0].clone(), vec![0x01u8]), (ks[1].clone(), vec![0x02u8])];
            let spec = Spec::new(1, pairs, IndKey::gen(rng, kind));
            inputs.push(inp("v-non-utf8-keys", "accept", spec.encode(false), kind));
        }
    }
    // secp256k1 signatures with a chosen nonce (k = 1/2): r starts with eleven zero bytes
    for r in 0..(if thorough { 12 } else { 4 }) {
        // (few pairs: the record must stay below 300 bytes whatever the seed)
        let m = rng.below(64) & 0b010011;
        let pairs = reserved_pairs(rng, m);
        let spec = Spec::new(*rng.pick(&SEQS), pairs, IndKey::gen(rng, Kind::Secp));
        if let Some(sig) = spec.key.sign_half_nonce(&rlp_list(&spec.content())) {
            inputs.push(inp("v-half-nonce", "accept", spec.encode_with_sig(&rlp_bytes(&sig)), Kind::Secp));
            let _ = r;
        }
    }
    // outer headers whose length only fits after truncation to 8 or 16 bits: the header claims
    // 256 + n (65536 + n) bytes, n bytes of a valid payload follow
    for kind in [Kind::Secp, Kind::Ed] {
        let spec = rand_spec(rng, kind);
        let good = spec.encode(false);
        if let Some((_, hl, pl)) = rlp_peek(&good) {
            let payload = &good[hl..hl + pl];
            for claim in [256 + pl, 65536 + pl, 2 * 65536 + pl, (1usize << 32) + pl] {
                let lb = be_trim(claim as u64);
                let mut b = vec![0xf7 + lb.len() as u8];
                b.extend_from_slice(&lb);
                b.extend_from_slice(payload);
                inputs.push(inp("m-length-wraps", "reject", b, kind));
            }
        }
    }
    // ed25519 records under small-order public keys: ed25519-dalek's (non-strict) verification
    // accepts R = identity, s = 0 for every message when the key is the neutral element, whatever
    // encoding of it is used (canonical 0100..00, sign bit set on x = 0, y = p + 1); no secret is
    // needed to "sign" them.  The back-ends must agree on them and hash the key bytes as stored.
    {
        let mut ident = vec![0u8; 32];
        ident[0] = 1;
        let mut ident_sign = ident.clone();
        ident_sign[31] = 0x80;
        let mut ident_noncanon = vec![0xffu8; 32];
        ident_noncanon[0] = 0xee;
        ident_noncanon[31] = 0x7f;
        let mut sig = vec![0u8; 64];
        sig[0] = 1;
        for (tag, key) in [
            ("o-ed-identity-key", ident.clone()),
            ("o-ed-identity-key-signbit", ident_sign),
            ("o-ed-identity-key-noncanonical", ident_noncanon),
        ] {
            for &seq in &[1u64, 300] {
                let mut pairs = reserved_pairs(rng, 5);
                pairs.push((b"id".to_vec(), rlp_bytes(b"v4")));
                pairs.push((b"ed25519".to_vec(), rlp_bytes(&key)));
                let items = sorted_items(pairs);
                let mut content = rlp_uint(seq);
                for (k, v) in &items {
                    content.extend_from_slice(k);
                    content.extend_from_slice(v);
                }
                let mut p = rlp_bytes(&sig);
                p.extend_from_slice(&content);
                // the verdict is the back-end's business ("open"); agreement between the key types
                // and the node id are checked on whatever they decide
                inputs.push(inp(tag, "open", rlp_list(&p), Kind::Ed));
            }
        }
    }
    // as many pairs as fit: one-byte keys below 0x80 with one-byte values (two bytes per pair)
    for kind in [Kind::Secp, Kind::Ed] {
        for n in [40usize, 70, 74, 75, 76, 77, 80, 90, 100, 110, 120] {
            let mut pairs: Vec<(Vec<u8>, Vec<u8>)> = Vec::new();
            for i in 0..n {
                // keys 0x01.. (skipping nothing reserved: reserved keys are longer than one byte)
                pairs.push((vec![(i + 1) as u8], vec![(i % 0x7f) as u8 + 1]));
            }
            let spec = Spec::new(1, pairs, IndKey::gen(rng, kind));
            let b = spec.encode(false);
            inputs.push(inp("v-many-pairs", "accept", b, kind));
        }
    }
    // pairs of keys d and n-d (same x coordinate, opposite parity), decoded back to back
    for r in 0..(if thorough { 8 } else { 3 }) {
        let k = IndKey::gen(rng, Kind::Secp);
        let neg = IndKey { kind: Kind::Secp, sk: secp_neg(&k.sk) };
        for (i, key) in [k.clone(), neg.clone(), k, neg].into_iter().enumerate() {
            let spec = Spec::new(r as u64 + 1, reserved_pairs(rng, 21), key);
            inputs.push(inp("v-negated-key-pair", "accept", spec.encode(i % 2 == 0), Kind::Secp));
        }
    }
    // presence combinations of the six address/port keys
    for mask in 0..64 {
        let kind = if mask % 2 == 0 { Kind::Secp } else { Kind::Ed };
        let key = IndKey::gen(rng, kind);
        let spec = Spec::new(*rng.pick(&SEQS), reserved_pairs(rng, mask), key);
        inputs.push(inp("v-presence", "accept", spec.encode(mask % 3 == 0), kind));
    }
    // seq boundaries
    for &seq in SEQS.iter() {
        let kind = if seq % 2 == 0 { Kind::Secp } else { Kind::Ed };
        let spec = Spec::new(seq, vec![], IndKey::gen(rng, kind));
        inputs.push(inp("v-seq", "accept", spec.encode(false), kind));
    }
    // size boundaries 296..=304
    for kind in [Kind::Secp, Kind::Ed] {
        let base = Spec::new(7, reserved_pairs(rng, 5), IndKey::gen(rng, kind));
        for target in 296..=304usize {
            if let Some(s) = pad_to(&base, target, rng) {
                let b = s.encode(false);
                if b.len() == target {
                    inputs.push(inp(
                        "v-size",
                        if target <= 300 { "accept" } else { "reject" },
                        b,
                        kind,
                    ));
                }
            }
        }
    }
    // toy scheme: valid + a few mutants, decoded under the toy type only
    let mut toy_inputs = Vec::new();
    for _ in 0..(if thorough { 20 } else { 6 }) {
        let spec = rand_spec(rng, Kind::Toy);
        toy_inputs.push(inp("v-random", "accept", spec.encode(false), Kind::Toy));
        structural_mutants(&spec, rng, &mut toy_inputs);
        tampers(&spec, rng, false, &mut toy_inputs);
    }
    junk(rng, &mut inputs, if thorough { 2000 } else { 300 });
    // (appended last so that everything above keeps its place in the random stream)
    // the TEXT form of valid records handed to the binary decoder (its first byte 'e' is a complete
    // one-byte item, which is not a record whatever follows), alone and wrapped
    for kind in [Kind::Secp, Kind::Ed] {
        let spec = rand_spec(rng, kind);
        let rec = spec.encode(false);
        if rec.len() <= 300 {
            let text = format!("enr:{}", b64(&rec));
            inputs.push(inp("x-text-as-bytes", "reject", vec![0x65], kind));
            for t in [text.clone(), text[4..].to_string(), format!("{text}\n"), format!("enr:{}", hex::encode(&rec))] {
                let mut i = inp("x-text-as-bytes", "reject", t.clone().into_bytes(), kind);
                i.item_len = 1;
                inputs.push(i);
                inputs.push(inp("x-text-as-bytes-wrapped", "reject", rlp_bytes(t.as_bytes()), kind));
            }
        }
    }
    // records that use the empty key (and a one-byte key), with every tamper incl. repeated pairs
    for kind in [Kind::Secp, Kind::Ed] {
        let spec = Spec::new(3, vec![(vec![], vec![0x07u8]), (vec![0x01], rlp_bytes(b"abc"))], IndKey::gen(rng, kind));
        inputs.push(inp("v-empty-key", "accept", spec.encode(false), kind));
        tampers(&spec, rng, false, &mut inputs);
    }
    for (n, i) in inputs.iter().enumerate() {
        emit_dec(i, &REAL_SCHEMES, n % 7 == 0 || i.tag.starts_with("o-ed-identity"), out);
    }
    for i in toy_inputs.iter() {
        emit_dec(i, &["toy"], false, out);
    }
}

/// the `stream` family: records followed by suffixes, back-to-back records, lists of records
pub fn gen_stream(rng: &mut Rng, thorough: bool, out: &mut String) {
    let n = if thorough { 120 } else { 30 };
    let mut inputs: Vec<Input> = Vec::new();
    // records at the size limit (297..=300 accepted, 301..=302 rejected) come first
    let mut sized: Vec<(Spec, &'static str)> = Vec::new();
    for kind in [Kind::Secp, Kind::Ed] {
        let mask = rng.below(64);
        let seq = *rng.pick(&SEQS);
        let base = Spec::new(seq, reserved_pairs(rng, mask), IndKey::gen(rng, kind));
        for target in 297..=302usize {
            if let Some(s) = pad_to(&base, target, rng) {
                if s.encode(false).len() == target {
                    sized.push((s, if target <= 300 { "accept" } else { "reject" }));
                }
            }
        }
    }
    let n_sized = sized.len();
    for r in 0..(n + n_sized) {
        let kind = if r < n_sized { sized[r].0.key.kind } else if r % 2 == 0 { Kind::Secp } else { Kind::Ed };
        let spec = if r < n_sized { sized[r].0.clone() } else { rand_spec(rng, kind) };
        let (tag0, exp0) = if r < n_sized { ("v-size", sized[r].1) } else { ("v-random", "accept") };
        let mut base: Vec<Input> = vec![inp(tag0, exp0, spec.encode(false), kind)];
        if r % 3 == 0 || r < n_sized + 4 {
            let mut m = Vec::new();
            structural_mutants(&spec, rng, &mut m);
            // keep only complete single items (an item that overruns is not "a complete item")
            for x in m {
                if let Some((_, h, p)) = rlp_peek(&x.buf) {
                    let always = x.tag.contains("outer") || x.tag.contains("overrun") || x.tag.contains("missing");
                    if h + p == x.buf.len() && (always || rng.chance(1, 4)) {
                        base.push(x);
                    }
                }
            }
        }
        for b in base {
            let mut lens = vec![0usize, 1, 2, 17, 169, 250, 700, 1000];
            if r < 2 || (r >= n_sized && r < n_sized + 2) {
                // buffer lengths around 2^8 and 2^16 (a length kept in a narrower integer)
                let l = b.buf.len();
                lens.extend_from_slice(&[256usize.saturating_sub(l), 256, 65536 - l, 65535, 65536, 65537]);
            }
            for suffix_len in lens {
                if !thorough && suffix_len < 65000 && rng.chance(1, 2) && suffix_len != 250 && suffix_len != 0 && suffix_len != 1 {
                    continue;
                }
                let suffix = match rng.below(3) {
                    0 => vec![0u8; suffix_len],
                    1 => rng.bytes(suffix_len),
                    _ => {
                        let mut s = b.buf.clone();
                        while s.len() < suffix_len {
                            s.extend_from_slice(&b.buf);
                        }
                        s.truncate(suffix_len);
                        s
                    }
                };
                let mut buf = b.buf.clone();
                buf.extend_from_slice(&suffix);
                inputs.push(Input {
                    tag: format!("s-{}-suffix{}", b.tag, suffix_len),
                    expect: b.expect,
                    buf,
                    kind: b.kind,
                    item_len: b.buf.len(),
                });
            }
        }
    }
    // an item whose signature was made over its content *and the bytes that follow it in the buffer*:
    // invalid alone, and therefore invalid whatever follows
    for r in 0..(if thorough { 12 } else { 4 }) {
        let kind = if r % 2 == 0 { Kind::Secp } else { Kind::Ed };
        let spec = rand_spec(rng, kind);
        let content = spec.content();
        let suffix: Vec<u8> = match r % 4 {
            0 => vec![0x83, b'f', b'o', b'o', 0x83, b'b', b'a', b'r'],
            1 => vec![0x00],
            2 => vec![0xff; 40],
            _ => Spec::new(3, vec![], IndKey::gen(rng, kind)).encode(false),
        };
        // the list header announces the content only, the signed bytes run on into the suffix
        let mut msg = rlp_header(true, content.len());
        msg.extend_from_slice(&content);
        msg.extend_from_slice(&suffix);
        let sig = spec.key.sign(&msg, false);
        let item = spec.encode_with_sig(&rlp_bytes(&sig));
        if item.len() > 300 {
            continue;
        }
        let mut with = item.clone();
        with.extend_from_slice(&suffix);
        inputs.push(Input { tag: "s-t-sig-over-content-and-suffix-alone".into(), expect: "reject", buf: item.clone(), kind, item_len: item.len() });
        inputs.push(Input { tag: "s-t-sig-over-content-and-suffix".into(), expect: "reject", buf: with, kind, item_len: item.len() });
        // and over content || suffix with the header covering both
        let mut msg2 = rlp_header(true, content.len() + suffix.len());
        msg2.extend_from_slice(&content);
        msg2.extend_from_slice(&suffix);
        let sig2 = spec.key.sign(&msg2, false);
        let item2 = spec.encode_with_sig(&rlp_bytes(&sig2));
        let mut with2 = item2.clone();
        with2.extend_from_slice(&suffix);
        inputs.push(Input { tag: "s-t-sig-over-longer-list-alone".into(), expect: "reject", buf: item2.clone(), kind, item_len: item2.len() });
        inputs.push(Input { tag: "s-t-sig-over-longer-list".into(), expect: "reject", buf: with2, kind, item_len: item2.len() });
    }
    for i in inputs.iter() {
        emit_dec(i, &REAL_SCHEMES, false, out);
    }
    // back-to-back records and lists of records
    for r in 0..(if thorough { 60 } else { 16 }) {
        let kind = if r % 2 == 0 { Kind::Secp } else { Kind::Ed };
        let count = rng.range(1, 8) as usize;
        let mut recs: Vec<Vec<u8>> = Vec::new();
        for _ in 0..count {
            let mut spec = rand_spec(rng, kind);
            // keep them small enough to be interesting in number
            if spec.encode(false).len() > 300 {
                spec = Spec::new(1, vec![], IndKey::gen(rng, kind));
            }
            if rng.chance(1, 4) {
                let target = rng.range(298, 300) as usize;
                if let Some(p) = pad_to(&Spec::new(*rng.pick(&SEQS), vec![], IndKey::gen(rng, kind)), target, rng) {
                    if p.encode(false).len() == target {
                        spec = p;
                    }
                }
            }
            recs.push(spec.encode(false));
        }
        let scheme = if kind == Kind::Secp {
            *rng.pick(&["k256", "libsecp", "comb"])
        } else {
            *rng.pick(&["ed", "comb"])
        };
        let cat: Vec<u8> = recs.concat();
        let lens: Vec<String> = recs.iter().map(|r| r.len().to_string()).collect();
        writeln!(
            out,
            "decmany scheme={} lens={} buf={}",
            scheme,
            lens.join(","),
            hx(&cat)
        )
        .unwrap();
        decode_many(scheme, &cat, false, out);
        let listed = rlp_list(&cat);
        writeln!(
            out,
            "declist scheme={} lens={} buf={}",
            scheme,
            lens.join(","),
            hx(&listed)
        )
        .unwrap();
        decode_many(scheme, &listed, true, out);
    }
}

fn decode_many_g<S: Sch>(buf: &[u8], as_list: bool, out: &mut String) {
    let r = guard(|| {
        let mut b: &[u8] = buf;
        if as_list {
            Vec::<Enr<S::K>>::decode(&mut b).map(|v| (v, b.len()))
        } else {
            let mut v = Vec::new();
            while !b.is_empty() {
                match Enr::<S::K>::decode(&mut b) {
                    Ok(e) => v.push(e),
                    Err(e) => return Err(e),
                }
            }
            Ok((v, 0))
        }
    });
    match r {
        None => writeln!(out, "out res=panic").unwrap(),
        Some(Err(e)) => writeln!(out, "out res=err:{}", crate::cases::rlp_err_str(&e)).unwrap(),
        Some(Ok((v, left))) => {
            writeln!(out, "out res=ok n={} left={}", v.len(), left).unwrap();
            for e in &v {
                out.push_str(&rec_line(e));
                out.push('\n');
            }
        }
    }
}

pub fn decode_many(scheme: &str, buf: &[u8], as_list: bool, out: &mut String) {
    match scheme {
        "k256" => decode_many_g::<SK256>(buf, as_list, out),
        "libsecp" => decode_many_g::<SLibsecp>(buf, as_list, out),
        "ed" => decode_many_g::<SEd>(buf, as_list, out),
        "comb" => decode_many_g::<SComb>(buf, as_list, out),
        _ => {}
    }
}

// ---------------------------------------------------------------------------------------------
// text / JSON

const B64: &[u8; 64] = b"ABCDEFGHIJKLMNOPQRSTUVWXYZabcdefghijklmnopqrstuvwxyz0123456789-_";

/// the harness's own unpadded URL-safe base64 encoder
pub fn b64(b: &[u8]) -> String {
    let mut s = String::new();
    for c in b.chunks(3) {
        let n = (c[0] as u32) << 16
            | (*c.get(1).unwrap_or(&0) as u32) << 8
            | *c.get(2).unwrap_or(&0) as u32;
        s.push(B64[(n >> 18) as usize & 63] as char);
        s.push(B64[(n >> 12) as usize & 63] as char);
        if c.len() > 1 {
            s.push(B64[(n >> 6) as usize & 63] as char);
        }
        if c.len() > 2 {
            s.push(B64[n as usize & 63] as char);
        }
    }
    s
}

fn parse_obs<S: Sch>(text: &str, json: bool, out: &mut String) {
    if json {
        // the same JSON document through every way serde_json can hand the string over: borrowed
        // from a str, from a Value, from a reader, and with the first character written as an escape
        let escaped = {
            let inner = &text[1..text.len().saturating_sub(1).max(1)];
            match inner.chars().next() {
                Some(c) if c.is_ascii() && text.len() > 2 => {
                    format!("\"\\u{:04x}{}\"", c as u32, &inner[c.len_utf8()..])
                }
                _ => text.to_string(),
            }
        };
        let routes = guard(|| {
            let a = serde_json::from_str::<Enr<S::K>>(text).ok();
            let b = serde_json::from_str::<serde_json::Value>(text)
                .ok()
                .and_then(|v| serde_json::from_value::<Enr<S::K>>(v).ok());
            let c = serde_json::from_reader::<_, Enr<S::K>>(text.as_bytes()).ok();
            let d = serde_json::from_str::<Enr<S::K>>(&escaped).ok();
            [a, b, c, d]
        });
        if let Some(rs) = &routes {
            let oks: Vec<bool> = rs.iter().map(|r| r.is_some()).collect();
            if oks.iter().any(|x| *x) && !oks.iter().all(|x| *x) {
                writeln!(
                    out,
                    "out res=mixed:{}",
                    oks.iter().map(|b| if *b { '1' } else { '0' }).collect::<String>()
                )
                .unwrap();
                return;
            }
        }
    }
    let r = guard(|| {
        if json {
            serde_json::from_str::<Enr<S::K>>(text).map_err(|e| e.to_string())
        } else {
            text.parse::<Enr<S::K>>()
        }
    });
    match r {
        None => writeln!(out, "out res=panic").unwrap(),
        Some(Err(_)) => writeln!(out, "out res=err").unwrap(),
        Some(Ok(e)) => {
            writeln!(out, "out res=ok").unwrap();
            out.push_str(&rec_line(&e));
            out.push('\n');
        }
    }
}

fn parse_doc<S: Sch>(doc: &str, out: &mut String) {
    let r = guard(|| serde_json::from_str::<Enr<S::K>>(doc));
    match r {
        None => writeln!(out, "out res=panic").unwrap(),
        Some(Err(_)) => writeln!(out, "out res=err").unwrap(),
        Some(Ok(e)) => {
            writeln!(out, "out res=ok").unwrap();
            out.push_str(&rec_line(&e));
            out.push('\n');
        }
    }
}

/// an arbitrary JSON document through `serde_json::from_str`
pub fn parse_doc_under(scheme: &str, doc: &str, out: &mut String) {
    match scheme {
        "k256" => parse_doc::<SK256>(doc, out),
        "libsecp" => parse_doc::<SLibsecp>(doc, out),
        "ed" => parse_doc::<SEd>(doc, out),
        "comb" => parse_doc::<SComb>(doc, out),
        "toy" => parse_doc::<SToy>(doc, out),
        _ => {}
    }
}

pub fn parse_under(scheme: &str, text: &str, json: bool, out: &mut String) {
    match scheme {
        "k256" => parse_obs::<SK256>(text, json, out),
        "libsecp" => parse_obs::<SLibsecp>(text, json, out),
        "ed" => parse_obs::<SEd>(text, json, out),
        "comb" => parse_obs::<SComb>(text, json, out),
        "toy" => parse_obs::<SToy>(text, json, out),
        _ => {}
    }
}

/// the `txt` family: the text of valid records and near misses
pub fn gen_txt(rng: &mut Rng, thorough: bool, out: &mut String) {
    // unstructured strings: random printable text, random base64-alphabet text, arbitrary bytes
    // (lossily converted), with and without the prefix
    for i in 0..(if thorough { 1500 } else { 250 }) {
        let len = match i % 5 {
            0 => rng.below(8),
            1 => rng.below(40),
            _ => rng.below(420),
        } as usize;
        let body: String = match i % 3 {
            0 => (0..len).map(|_| rng.range(0x20, 0x7e) as u8 as char).collect(),
            1 => (0..len).map(|_| B64[rng.below(64) as usize] as char).collect(),
            _ => String::from_utf8_lossy(&rng.bytes(len)).to_string(),
        };
        let text = if i % 2 == 0 { format!("enr:{body}") } else { body };
        let scheme = *rng.pick(&REAL_SCHEMES);
        writeln!(out, "txt scheme={} tag=x-junk expect=reject s={}", scheme, hx(text.as_bytes())).unwrap();
        parse_under(scheme, &text, false, out);
        let j = serde_json::to_string(&text).unwrap();
        writeln!(out, "json scheme={} tag=x-junk expect=reject s={}", scheme, hx(text.as_bytes())).unwrap();
        parse_under(scheme, &j, true, out);
    }
    let n = if thorough { 150 } else { 40 };
    for r in 0..n {
        let kind = if r % 2 == 0 { Kind::Secp } else { Kind::Ed };
        let spec = rand_spec(rng, kind);
        let rec = spec.encode(false);
        if rec.len() > 300 {
            continue;
        }
        let body = b64(&rec);
        let good = format!("enr:{body}");
        let mut v: Vec<(String, &'static str, String)> = vec![
            ("x-good".into(), "accept", good.clone()),
            ("x-noprefix".into(), "accept", body.clone()),
            ("x-pad1".into(), "reject", format!("{good}=")),
            ("x-pad2".into(), "reject", format!("{good}==")),
            ("x-prefix-upper".into(), "reject", format!("ENR:{body}")),
            ("x-prefix-nocolon".into(), "reject", format!("enr{body}")),
            ("x-prefix-double".into(), "reject", format!("enr::{body}")),
            ("x-prefix-twice".into(), "reject", format!("enr:enr:{body}")),
            ("x-space-front".into(), "reject", format!(" {good}")),
            ("x-space-end".into(), "reject", format!("{good} ")),
            ("x-newline-end".into(), "reject", format!("{good}\n")),
            ("x-space-after-prefix".into(), "reject", format!("enr: {body}")),
            ("x-nonascii".into(), "reject", format!("{good}é")),
            ("x-empty".into(), "reject", String::new()),
            ("x-quoted".into(), "reject", format!("\"{good}\"")),
            ("x-quoted-noprefix".into(), "reject", format!("\"{body}\"")),
            ("x-single-quoted".into(), "reject", format!("'{good}'")),
            ("x-angle".into(), "reject", format!("<{good}>")),
            ("x-paren".into(), "reject", format!("({good})")),
            ("x-quote-front".into(), "reject", format!("\"{good}")),
            ("x-quote-end".into(), "reject", format!("{good}\"")),
            ("x-enr-slashes".into(), "reject", format!("enr://{body}")),
            ("x-prefix-title".into(), "reject", format!("Enr:{body}")),
            ("x-nul-end".into(), "reject", format!("{good}\0")),
            ("x-tab-end".into(), "reject", format!("{good}\t")),
            ("x-cr-end".into(), "reject", format!("{good}\r")),
            ("x-crlf-end".into(), "reject", format!("{good}\r\n")),
            ("x-formfeed-end".into(), "reject", format!("{good}\x0c")),
            ("x-nbsp-end".into(), "reject", format!("{good}\u{a0}")),
            ("x-zwsp-end".into(), "reject", format!("{good}\u{200b}")),
            ("x-ideographic-space-end".into(), "reject", format!("{good}\u{3000}")),
            ("x-bom-front".into(), "reject", format!("\u{feff}{good}")),
            ("x-bom-after-prefix".into(), "reject", format!("enr:\u{feff}{body}")),
            ("x-tab-front".into(), "reject", format!("\t{good}")),
            ("x-fullwidth-colon".into(), "reject", format!("enr\u{ff1a}{body}")),
            ("x-del-end".into(), "reject", format!("{good}\x7f")),
            ("x-percent".into(), "reject", format!("enr%3A{body}")),
            // other encodings of the very same valid record
            ("x-hex-0x".into(), "reject", format!("0x{}", hex::encode(&rec))),
            ("x-hex".into(), "reject", hex::encode(&rec)),
            ("x-hex-upper".into(), "reject", hex::encode(&rec).to_uppercase()),
            ("x-enr-hex-0x".into(), "reject", format!("enr:0x{}", hex::encode(&rec))),
            ("x-enr-hex".into(), "reject", format!("enr:{}", hex::encode(&rec))),
            ("x-0x-b64".into(), "reject", format!("0x{body}")),
            ("x-b64-of-text".into(), "reject", format!("enr:{}", b64(good.as_bytes()))),
            ("x-double-b64".into(), "reject", format!("enr:{}", b64(body.as_bytes()))),
            ("x-enr-only".into(), "reject", "enr:".into()),
            ("x-short".into(), "reject", body[..3].to_string()),
        ];
        // whitespace / newline inserted inside
        let p = rng.range(5, good.len() as u64 - 1) as usize;
        v.push((
            "x-space-inside".into(),
            "reject",
            format!("{} {}", &good[..p], &good[p..]),
        ));
        v.push((
            "x-newline-inside".into(),
            "reject",
            format!("{}\n{}", &good[..p], &good[p..]),
        ));
        // standard alphabet
        if body.contains('-') || body.contains('_') {
            v.push((
                "x-std-alphabet".into(),
                "reject",
                format!("enr:{}", body.replace('-', "+").replace('_', "/")),
            ));
        }
        // non-zero trailing bits: only meaningful when the last group is partial
        if rec.len() % 3 != 0 {
            let last = *body.as_bytes().last().unwrap();
            let idx = B64.iter().position(|c| *c == last).unwrap();
            let alt = B64[idx | 1] as char;
            if alt as u8 != last {
                let mut t = good.clone();
                t.pop();
                t.push(alt);
                v.push(("x-trailing-bits".into(), "reject", t));
            }
        }
        // bytes appended to the record before encoding
        // (for two records also counts at which a length truncated to 8 or 16 bits comes out right)
        let extras: Vec<usize> = if r < 2 {
            vec![1, 2, 3, 10, 255, 256, 65535, 65536, 65537, 131072]
        } else {
            vec![1, 2, 3, 10]
        };
        for extra in extras {
            let mut b = rec.clone();
            b.extend_from_slice(&rng.bytes(extra));
            v.push((
                format!("x-append{extra}"),
                "reject",
                format!("enr:{}", b64(&b)),
            ));
        }
        // a second record appended
        let mut b = rec.clone();
        b.extend_from_slice(&rec);
        if b.len() <= 600 {
            v.push(("x-two-records".into(), "reject", format!("enr:{}", b64(&b))));
        }
        let schemes: Vec<&str> = if kind == Kind::Secp {
            vec!["k256", "libsecp", "comb"]
        } else {
            vec!["ed", "comb"]
        };
        // JSON documents around the text: every spelling serde_json reads as the same string is
        // accepted, everything else is not
        {
            let scheme = *rng.pick(&schemes);
            let esc_at = rng.range(0, good.len() as u64 - 1) as usize;
            let esc_one = |upper: bool| {
                let c = good.as_bytes()[esc_at] as u32;
                let e = if upper { format!("\\u{:04X}", c) } else { format!("\\u{:04x}", c) };
                format!("\"{}{}{}\"", &good[..esc_at], e, &good[esc_at + 1..])
            };
            let all_esc: String = good.bytes().map(|c| format!("\\u{:04x}", c as u32)).collect();
            let docs: Vec<(&str, &'static str, String)> = vec![
                ("d-plain", "accept", format!("\"{good}\"")),
                ("d-escape-one", "accept", esc_one(false)),
                ("d-escape-one-upper", "accept", esc_one(true)),
                ("d-escape-all", "accept", format!("\"{all_esc}\"")),
                ("d-whitespace", "accept", format!(" \t\n\"{good}\"\r\n ")),
                ("d-noprefix", "accept", format!("\"{body}\"")),
                ("d-trailing", "reject", format!("\"{good}\"x")),
                ("d-two-strings", "reject", format!("\"{good}\" \"{good}\"")),
                ("d-no-quotes", "reject", good.clone()),
                ("d-unterminated", "reject", format!("\"{good}")),
                ("d-array", "reject", format!("[\"{good}\"]")),
                ("d-object", "reject", format!("{{\"enr\":\"{good}\"}}")),
                ("d-null", "reject", "null".into()),
                ("d-number", "reject", "12345".into()),
                ("d-control-inside", "reject", format!("\"{}\n{}\"", &good[..esc_at], &good[esc_at..])),
                ("d-escaped-newline", "reject", format!("\"{}\\n{}\"", &good[..esc_at], &good[esc_at..])),
                ("d-bad-escape", "reject", format!("\"\\x65{}\"", &good[1..])),
                ("d-lone-surrogate", "reject", format!("\"\\ud800{good}\"")),
                ("d-surrogate-pair", "reject", format!("\"\\ud83d\\ude00{good}\"")),
                ("d-nul", "reject", format!("\"{good}\\u0000\"")),
                ("d-escaped-slash-prefix", "reject", format!("\"\\/{good}\"")),
            ];
            for (tag, expect, doc) in docs {
                writeln!(
                    out,
                    "jsondoc scheme={} tag={} expect={} doc={}",
                    scheme,
                    tag,
                    expect,
                    hx(doc.as_bytes())
                )
                .unwrap();
                parse_doc_under(scheme, &doc, out);
            }
        }
        for (tag, expect, text) in v {
            let scheme = *rng.pick(&schemes);
            writeln!(
                out,
                "txt scheme={} tag={} expect={} s={}",
                scheme,
                tag,
                expect,
                hx(text.as_bytes())
            )
            .unwrap();
            parse_under(scheme, &text, false, out);
            // the same through JSON
            let j = serde_json::to_string(&text).unwrap();
            writeln!(
                out,
                "json scheme={} tag={} expect={} s={}",
                scheme,
                tag,
                expect,
                hx(text.as_bytes())
            )
            .unwrap();
            parse_under(scheme, &j, true, out);
        }
    }
}

// ---------------------------------------------------------------------------------------------
// `alt` lines: the record type driven by deserialisers other than serde_json's: byte strings,
// byte sequences, borrowed / owned strings, wrapped in newtypes and options, from formats that
// call themselves human-readable and from formats that do not.  Whatever route accepts must hand
// out an authentic record.

#[derive(Clone)]
enum AltData {
    Bytes(Vec<u8>),
    ByteBuf(Vec<u8>),
    Seq(Vec<u8>),
    Str(String),
    OwnedString(String),
    Newtype(Box<AltData>),
    Some(Box<AltData>),
}

struct AltDe {
    data: AltData,
    hr: bool,
}

impl<'de> serde::Deserializer<'de> for AltDe {
    type Error = serde::de::value::Error;
    fn deserialize_any<V: serde::de::Visitor<'de>>(self, v: V) -> Result<V::Value, Self::Error> {
        let hr = self.hr;
        match self.data {
            AltData::Bytes(b) => v.visit_bytes(&b),
            AltData::ByteBuf(b) => v.visit_byte_buf(b),
            AltData::Seq(b) => v.visit_seq(serde::de::value::SeqDeserializer::<_, Self::Error>::new(b.into_iter())),
            AltData::Str(s) => v.visit_str(&s),
            AltData::OwnedString(s) => v.visit_string(s),
            AltData::Newtype(d) => v.visit_newtype_struct(AltDe { data: *d, hr }),
            AltData::Some(d) => v.visit_some(AltDe { data: *d, hr }),
        }
    }
    fn is_human_readable(&self) -> bool {
        self.hr
    }
    serde::forward_to_deserialize_any! {
        bool i8 i16 i32 i64 i128 u8 u16 u32 u64 u128 f32 f64 char str string bytes byte_buf option
        unit unit_struct newtype_struct seq tuple tuple_struct map struct enum identifier ignored_any
    }
}

fn alt_obs<S: Sch>(scheme: &str, inp: &[u8], out: &mut String) {
    use serde::Deserialize;
    let text = String::from_utf8_lossy(inp).to_string();
    let b64text = format!("enr:{}", b64(inp));
    let mut routes: Vec<(&str, AltData)> = vec![
        ("bytes", AltData::Bytes(inp.to_vec())),
        ("bytebuf", AltData::ByteBuf(inp.to_vec())),
        ("seq", AltData::Seq(inp.to_vec())),
        ("str-lossy", AltData::Str(text.clone())),
        ("string-lossy", AltData::OwnedString(text)),
        ("str-b64", AltData::Str(b64text.clone())),
        ("bytes-b64", AltData::Bytes(b64text.clone().into_bytes())),
        ("seq-b64", AltData::Seq(b64text.clone().into_bytes())),
        ("str-hex", AltData::Str(hex::encode(inp))),
        ("str-0xhex", AltData::Str(format!("0x{}", hex::encode(inp)))),
    ];
    let wrapped: Vec<(&str, AltData)> = vec![
        ("newtype-bytes", AltData::Newtype(Box::new(AltData::Bytes(inp.to_vec())))),
        ("some-bytes", AltData::Some(Box::new(AltData::Bytes(inp.to_vec())))),
        ("newtype-str-b64", AltData::Newtype(Box::new(AltData::Str(b64text.clone())))),
        ("some-str-b64", AltData::Some(Box::new(AltData::Str(b64text)))),
    ];
    routes.extend(wrapped);
    let mut tried = 0usize;
    let mut ok = 0usize;
    let mut panics = 0usize;
    for (name, data) in routes {
        for hr in [false, true] {
            tried += 1;
            let d = data.clone();
            match guard(|| Enr::<S::K>::deserialize(AltDe { data: d, hr })) {
                None => panics += 1,
                Some(Err(_)) => {}
                Some(Ok(e)) => {
                    ok += 1;
                    writeln!(
                        out,
                        "alt scheme={scheme} route={name} hr={} in={} res=ok {}",
                        hr as u8,
                        hx(inp),
                        &rec_line(&e)[4..]
                    )
                    .unwrap();
                }
            }
        }
    }
    writeln!(out, "alt scheme={scheme} route=all in={} res=summary tried={tried} ok={ok} panics={panics}", hx(inp)).unwrap();
}

pub fn alt_under(scheme: &str, inp: &[u8], out: &mut String) {
    match scheme {
        "k256" => alt_obs::<SK256>(scheme, inp, out),
        "libsecp" => alt_obs::<SLibsecp>(scheme, inp, out),
        "ed" => alt_obs::<SEd>(scheme, inp, out),
        "comb" => alt_obs::<SComb>(scheme, inp, out),
        "toy" => alt_obs::<SToy>(scheme, inp, out),
        _ => {}
    }
}
