//! Case scripts (operation histories) and their execution against the real crate.
//!
//! A case is a list of text lines: `case`, `key` lines (the signers), one `init` line and `step`
//! lines.  Executing it prints the same lines interleaved with `out` / `rec` / `acc` observation
//! lines.  The printed trace is itself a valid case script (observation lines are ignored when a
//! trace is re-read), which is what makes every violation replayable and shrinkable.

use crate::keys::*;
use crate::obs::*;
use crate::util::*;
use alloy_rlp::{Decodable, Encodable};
use bytes::Bytes;
use enr::{Enr, EnrKey, EnrPublicKey, Error};
use std::collections::BTreeMap;
use std::fmt::Write;
use std::net::{IpAddr, Ipv4Addr, Ipv6Addr, SocketAddr};
use std::sync::atomic::Ordering;

/// An `Encodable` whose encoding is an arbitrary byte string (a hand-written impl that may forget
/// headers, encode several items, or nothing at all — like alloy-rlp's own `PhantomData`).
pub struct RawEnc(pub Vec<u8>);
impl Encodable for RawEnc {
    fn encode(&self, out: &mut dyn bytes::BufMut) {
        out.put_slice(&self.0);
    }
    fn length(&self) -> usize {
        self.0.len()
    }
}

#[derive(Clone, Debug)]
pub struct Case {
    pub fam: String,
    pub scheme: String,
    pub id: u64,
    pub tag: String,
    /// secrets of the signers, in the form `Sch::from_secret` expects
    pub keys: Vec<Vec<u8>>,
    /// `init` and `step` lines (without observations)
    pub lines: Vec<String>,
}

impl Case {
    pub fn new(fam: &str, scheme: &str, id: u64, tag: &str) -> Case {
        Case {
            fam: fam.into(),
            scheme: scheme.into(),
            id,
            tag: tag.into(),
            keys: vec![],
            lines: vec![],
        }
    }
    pub fn script(&self) -> String {
        let mut s = format!(
            "case fam={} scheme={} id={} tag={}\n",
            self.fam, self.scheme, self.id, self.tag
        );
        for (i, k) in self.keys.iter().enumerate() {
            writeln!(s, "key i={} sk={}", i, hx(k)).unwrap();
        }
        for l in &self.lines {
            s.push_str(l);
            s.push('\n');
        }
        s.push_str("end\n");
        s
    }
}

/// Parse case scripts (or traces) back into cases.
pub fn parse_cases(text: &str) -> Vec<Case> {
    let mut out = Vec::new();
    let mut cur: Option<Case> = None;
    for line in text.lines() {
        let (head, m) = toks(line);
        match head.as_str() {
            "case" => {
                cur = Some(Case::new(
                    m.get("fam").map(|s| s.as_str()).unwrap_or("hist"),
                    m.get("scheme").map(|s| s.as_str()).unwrap_or("k256"),
                    m.get("id").and_then(|s| s.parse().ok()).unwrap_or(0),
                    m.get("tag").map(|s| s.as_str()).unwrap_or("-"),
                ));
            }
            "key" => {
                if let Some(c) = cur.as_mut() {
                    c.keys.push(unhx(m.get("sk").map(|s| s.as_str()).unwrap_or("-")));
                }
            }
            "init" | "step" => {
                if let Some(c) = cur.as_mut() {
                    c.lines.push(line.trim().to_string());
                }
            }
            "end" => {
                if let Some(c) = cur.take() {
                    out.push(c);
                }
            }
            _ => {}
        }
    }
    out
}

pub fn err_str(e: &Error) -> String {
    match e {
        Error::ExceedsMaxSize => "ExceedsMaxSize".into(),
        Error::SequenceNumberTooHigh => "SequenceNumberTooHigh".into(),
        Error::SigningError => "SigningError".into(),
        Error::UnsupportedIdentityScheme => "UnsupportedIdentityScheme".into(),
        Error::InvalidRlpData(r) => format!("InvalidRlpData:{}", rlp_err_str(r)),
    }
}

pub fn rlp_err_str(e: &alloy_rlp::Error) -> String {
    format!("{e:?}").replace(' ', "_").replace('"', "")
}

fn ip_of(b: &[u8]) -> Option<IpAddr> {
    match b.len() {
        4 => Some(IpAddr::V4(Ipv4Addr::new(b[0], b[1], b[2], b[3]))),
        16 => {
            let a: [u8; 16] = b.try_into().ok()?;
            Some(IpAddr::V6(Ipv6Addr::from(a)))
        }
        _ => None,
    }
}

fn ip_bytes(ip: &IpAddr) -> Vec<u8> {
    match ip {
        IpAddr::V4(a) => a.octets().to_vec(),
        IpAddr::V6(a) => a.octets().to_vec(),
    }
}

fn opt_hx(o: &Option<Bytes>) -> String {
    match o {
        None => "none".into(),
        Some(b) => hx(b),
    }
}

fn parse_list(s: &str) -> Vec<Vec<u8>> {
    if s == "-" || s.is_empty() {
        vec![]
    } else {
        s.split(',').map(unhx).collect()
    }
}

fn parse_pairs(s: &str) -> Vec<(Vec<u8>, Vec<u8>)> {
    if s == "-" || s.is_empty() {
        vec![]
    } else {
        s.split(',')
            .map(|p| {
                let (k, v) = p.split_once(':').expect("pair");
                (unhx(k), unhx(v))
            })
            .collect()
    }
}

fn signlog_str<K: EnrKey>(keys: &[HKey<K>]) -> String {
    let mut parts = Vec::new();
    for k in keys {
        for (m, s) in k.take_log() {
            parts.push(format!(
                "{}:{}",
                hx(&m),
                s.map(|x| hx(&x)).unwrap_or("fail".into())
            ));
        }
    }
    if parts.is_empty() {
        "-".into()
    } else {
        parts.join(";")
    }
}

/// Execute one case and append its trace to `out`.
pub fn exec_case<S: Sch>(case: &Case, out: &mut String, with_acc: bool) {
    writeln!(
        out,
        "case fam={} scheme={} id={} tag={}",
        case.fam, case.scheme, case.id, case.tag
    )
    .unwrap();
    let mut keys: Vec<HKey<S::K>> = Vec::new();
    for (i, sk) in case.keys.iter().enumerate() {
        match S::from_secret(sk) {
            Some(k) => {
                let hk = HKey::new(k);
                let p = hk.public();
                writeln!(
                    out,
                    "key i={} sk={} pub={} pubkey={}",
                    i,
                    hx(sk),
                    hx(p.encode().as_ref()),
                    hx(&p.enr_key())
                )
                .unwrap();
                keys.push(hk);
            }
            None => {
                writeln!(out, "key i={} sk={} pub=invalid", i, hx(sk)).unwrap();
                writeln!(out, "end").unwrap();
                return;
            }
        }
    }
    let mut cur: Option<Enr<HKey<S::K>>> = None;
    let mut slots: BTreeMap<String, Enr<HKey<S::K>>> = BTreeMap::new();
    for line in &case.lines {
        // `grow_to` is resolved here into the concrete insertion that brings the record to the wanted
        // size (the trace then contains an ordinary `insert` step)
        let resolved: String;
        let line = if line.contains("op=grow_to") {
            let (_, m0) = toks(line);
            let want: usize = m0.get("size").and_then(|x| x.parse().ok()).unwrap_or(300);
            let signer0: usize = m0.get("signer").and_then(|x| x.parse().ok()).unwrap_or(0);
            let mut best = 0usize;
            if let (Some(e0), Some(k)) = (cur.as_ref(), keys.get(signer0)) {
                for l in 0..=120usize {
                    let mut probe = e0.clone();
                    let ok = probe.insert(b"zzz", &vec![0x62u8; l].as_slice(), k).is_ok();
                    let _ = k.take_log();
                    if ok && probe.size() <= want {
                        best = l;
                    }
                    if ok && probe.size() >= want {
                        break;
                    }
                }
            }
            resolved = format!(
                "step op=insert key=7a7a7a vt=bytes val={} signer={} fail=0",
                hx(&vec![0x62u8; best]),
                signer0
            );
            &resolved
        } else if line.contains("op=reannounce") {
            // resolved into the setter call whose argument is exactly what the typed accessor reports now
            let (_, m0) = toks(line);
            let what = m0.get("what").map(|x| x.as_str()).unwrap_or("-");
            let tail = format!(
                "signer={} fail={}",
                m0.get("signer").map(|x| x.as_str()).unwrap_or("0"),
                m0.get("fail").map(|x| x.as_str()).unwrap_or("0")
            );
            let body: Option<String> = cur.as_ref().and_then(|e0| match what {
                "client" => guard(|| e0.client_info()).flatten().map(|(a, b, c)| {
                    format!(
                        "step op=set_client_info name={} ver={} build={}",
                        hx(a.as_bytes()),
                        hx(b.as_bytes()),
                        c.map(|x| hx(x.as_bytes())).unwrap_or("none".into())
                    )
                }),
                "udp4" => e0.udp4().map(|p| format!("step op=set_udp4 port={p}")),
                "udp6" => e0.udp6().map(|p| format!("step op=set_udp6 port={p}")),
                "tcp4" => e0.tcp4().map(|p| format!("step op=set_tcp4 port={p}")),
                "tcp6" => e0.tcp6().map(|p| format!("step op=set_tcp6 port={p}")),
                "ip4" => e0.ip4().map(|a| format!("step op=set_ip ip={}", hx(&a.octets()))),
                "ip6" => e0.ip6().map(|a| format!("step op=set_ip ip={}", hx(&a.octets()))),
                "udp4s" => e0
                    .udp4_socket()
                    .map(|a| format!("step op=set_udp_socket ip={} port={}", hx(&a.ip().octets()), a.port())),
                "tcp4s" => e0
                    .tcp4_socket()
                    .map(|a| format!("step op=set_tcp_socket ip={} port={}", hx(&a.ip().octets()), a.port())),
                "udp6s" => e0
                    .udp6_socket()
                    .map(|a| format!("step op=set_udp_socket ip={} port={}", hx(&a.ip().octets()), a.port())),
                "tcp6s" => e0
                    .tcp6_socket()
                    .map(|a| format!("step op=set_tcp_socket ip={} port={}", hx(&a.ip().octets()), a.port())),
                "raw" => e0.iter().nth(m0.get("n").and_then(|x| x.parse().ok()).unwrap_or(0)).map(|(k, v)| {
                    format!("step op=insert_raw key={} raw={}", hx(k), hx(v))
                }),
                "pubkey" => Some("step op=set_public_key pk=0".to_string()),
                _ => None,
            });
            resolved = match body {
                Some(b) => format!("{b} {tail}"),
                None => format!("step op=remove_key key=6e6f6e65 {tail}"),
            };
            &resolved
        } else {
            line
        };
        let (head, m) = toks(line);
        let get = |k: &str| m.get(k).map(|s| s.as_str()).unwrap_or("-");
        let signer: usize = get("signer").parse().unwrap_or(0);
        let fail = get("fail") == "1";
        let bad_signer = get("fail") == "2";
        out.push_str(line);
        out.push('\n');
        if signer >= keys.len() && (head == "step" || get("kind") == "build") {
            writeln!(out, "out res=badcase").unwrap();
            continue;
        }
        if head == "init" {
            match get("kind") {
                "build" => {
                    let key = &keys[signer];
                    key.fail.store(fail, Ordering::SeqCst);
                    let calls = get("calls").to_string();
                    let r = guard(|| {
                        let mut b = Enr::<HKey<S::K>>::builder();
                        if calls != "-" {
                            for c in calls.split(';') {
                                let f: Vec<&str> = c.split(':').collect();
                                match f[0] {
                                    "build" => {
                                        // an earlier build on the same builder; its outcome is dropped
                                        let i: usize = f[1].parse().unwrap_or(0);
                                        if let Some(k) = keys.get(i) {
                                            k.fail.store(f[2] == "1", Ordering::SeqCst);
                                            let _ = b.build(k);
                                            k.fail.store(false, Ordering::SeqCst);
                                            let _ = k.take_log();
                                        }
                                    }
                                    "seq" => {
                                        b.seq(f[1].parse().unwrap());
                                    }
                                    "raw" => {
                                        b.add_value_rlp(unhx(f[1]), Bytes::from(unhx(f[2])));
                                    }
                                    "enc" => {
                                        b.add_value(unhx(f[1]), &RawEnc(unhx(f[2])));
                                    }
                                    "enr" => {
                                        // the value is itself a record (`Enr: Encodable`)
                                        let raw = unhx(f[2]);
                                        let mut sl: &[u8] = &raw;
                                        match Enr::<HKey<S::K>>::decode(&mut sl) {
                                            Ok(v) => b.add_value(unhx(f[1]), &v),
                                            Err(_) => b.add_value(unhx(f[1]), &RawEnc(raw)),
                                        };
                                    }
                                    "enrs" => {
                                        let raw = unhx(f[2]);
                                        let mut sl: &[u8] = &raw;
                                        match Vec::<Enr<HKey<S::K>>>::decode(&mut sl) {
                                            Ok(v) => b.add_value(unhx(f[1]), &v),
                                            Err(_) => b.add_value(unhx(f[1]), &RawEnc(raw)),
                                        };
                                    }
                                    "bytes" => {
                                        b.add_value(unhx(f[1]), &unhx(f[2]).as_slice());
                                    }
                                    "uint" => {
                                        b.add_value(unhx(f[1]), &f[2].parse::<u64>().unwrap());
                                    }
                                    "ip" => {
                                        b.ip(ip_of(&unhx(f[1])).unwrap());
                                    }
                                    "ip4" => {
                                        if let Some(IpAddr::V4(a)) = ip_of(&unhx(f[1])) {
                                            b.ip4(a);
                                        }
                                    }
                                    "ip6" => {
                                        if let Some(IpAddr::V6(a)) = ip_of(&unhx(f[1])) {
                                            b.ip6(a);
                                        }
                                    }
                                    "tcp4" => {
                                        b.tcp4(f[1].parse().unwrap());
                                    }
                                    "tcp6" => {
                                        b.tcp6(f[1].parse().unwrap());
                                    }
                                    "udp4" => {
                                        b.udp4(f[1].parse().unwrap());
                                    }
                                    "udp6" => {
                                        b.udp6(f[1].parse().unwrap());
                                    }
                                    "client" => {
                                        let s = |x: &str| String::from_utf8(unhx(x)).unwrap();
                                        b.client_info(
                                            s(f[1]),
                                            s(f[2]),
                                            if f[3] == "none" { None } else { Some(s(f[3])) },
                                        );
                                    }
                                    _ => {}
                                }
                            }
                        }
                        b.build(key)
                    });
                    key.fail.store(false, Ordering::SeqCst);
                    let log = signlog_str(&keys);
                    match r {
                        None => writeln!(out, "out res=panic signlog={log}").unwrap(),
                        Some(Err(e)) => {
                            writeln!(out, "out res=err:{} signlog={log}", err_str(&e)).unwrap()
                        }
                        Some(Ok(e)) => {
                            writeln!(out, "out res=ok signlog={log}").unwrap();
                            cur = Some(e);
                        }
                    }
                }
                "empty" => {
                    let key = &keys[signer];
                    let r = guard(|| Enr::<HKey<S::K>>::empty(key));
                    let log = signlog_str(&keys);
                    match r {
                        None => writeln!(out, "out res=panic signlog={log}").unwrap(),
                        Some(Err(e)) => {
                            writeln!(out, "out res=err:{} signlog={log}", err_str(&e)).unwrap()
                        }
                        Some(Ok(e)) => {
                            writeln!(out, "out res=ok signlog={log}").unwrap();
                            cur = Some(e);
                        }
                    }
                }
                "decode" => {
                    let buf = unhx(get("buf"));
                    let r = guard(|| {
                        let mut b: &[u8] = &buf;
                        let r = Enr::<HKey<S::K>>::decode(&mut b);
                        (r, buf.len() - b.len())
                    });
                    match r {
                        None => writeln!(out, "out res=panic").unwrap(),
                        Some((Err(e), _)) => {
                            writeln!(out, "out res=err:{}", rlp_err_str(&e)).unwrap()
                        }
                        Some((Ok(e), used)) => {
                            writeln!(out, "out res=ok used={used}").unwrap();
                            cur = Some(e);
                        }
                    }
                }
                _ => writeln!(out, "out res=badcase").unwrap(),
            }
            if let Some(e) = &cur {
                out.push_str(&rec_line(e));
                out.push('\n');
                if with_acc {
                    out.push_str(&acc_line(e));
                    out.push('\n');
                }
            }
            continue;
        }
        // step
        let Some(e) = cur.as_mut() else {
            writeln!(out, "out res=norecord").unwrap();
            continue;
        };
        let op = get("op").to_string();
        match op.as_str() {
            "teardown" => {
                // the same calls in an ordinary context and from the destructor of a thread-local of
                // a thread that is exiting (guard installed before / after the library was first used
                // on that thread): decode, verify, text round trip, update, build
                let mut enc = Vec::new();
                e.encode(&mut enc);
                let calls = move |e: &Enr<HKey<S::K>>, key: &HKey<S::K>, enc: &[u8]| -> String {
                    let f = |r: Option<bool>| match r {
                        None => 'p',
                        Some(true) => '1',
                        Some(false) => '0',
                    };
                    let mut o = String::new();
                    o.push(f(guard(|| {
                        let mut b: &[u8] = enc;
                        Enr::<HKey<S::K>>::decode(&mut b).is_ok()
                    })));
                    o.push(f(guard(|| e.verify())));
                    o.push(f(guard(|| e.to_base64().parse::<Enr<HKey<S::K>>>().is_ok())));
                    o.push(f(guard(|| {
                        // the update happens: result, effect, sequence number, signature
                        let mut c = e.clone();
                        let r = c.set_udp4(9, key).is_ok() && c.udp4() == Some(9);
                        let r2 = c.remove_udp4(key).is_ok();
                        r && r2 && c.udp4().is_none() && c.seq() == e.seq().wrapping_add(2) && c.verify()
                    })));
                    o.push(f(guard(|| Enr::<HKey<S::K>>::builder().tcp4(1).build(key).is_ok())));
                    o.push(f(guard(|| format!("{e}").len() > 4 && format!("{e:?}").len() > 4)));
                    o
                };
                let key = &keys[0];
                let normal = calls(e, key, &enc);
                let _ = key.take_log();
                let mut outs: Vec<String> = Vec::new();
                for (first_use, use_after) in [(false, false), (true, false), (false, true), (true, true)] {
                    let e2 = e.clone();
                    let k2 = match S::from_secret(&case.keys[0]) {
                        Some(k) => HKey::new(k),
                        None => break,
                    };
                    let enc2 = enc.clone();
                    let e3 = e.clone();
                    let k3 = match S::from_secret(&case.keys[0]) {
                        Some(k) => HKey::new(k),
                        None => break,
                    };
                    let enc3 = enc.clone();
                    let result = std::sync::Arc::new(std::sync::Mutex::new(String::from("-")));
                    let r2 = result.clone();
                    let h = std::thread::spawn(move || {
                        if first_use {
                            // the library's own thread-locals (if any) come into being first
                            let _ = calls(&e2, &k2, &enc2);
                        }
                        TEARDOWN.with(|t| {
                            *t.borrow_mut() = Some(TeardownGuard(Some(Box::new(move || {
                                let s = calls(&e2, &k2, &enc2);
                                *r2.lock().unwrap() = s;
                            }))));
                        });
                        if use_after {
                            // ... or only after the guard was installed: they are then destroyed
                            // before the guard is (destructors run last-registered-first)
                            let _ = calls(&e3, &k3, &enc3);
                        }
                    });
                    let joined = h.join().is_ok();
                    let got = result.lock().map(|g| g.clone()).unwrap_or_else(|_| "poisoned".into());
                    outs.push(if joined { got } else { format!("{got}!") });
                }
                // and while the thread is unwinding from a panic (a shutdown guard dropped by a panic)
                outs.push(crate::obs::during_unwind(|| calls(e, key, &enc)).unwrap_or_else(|| "pppppp".into()));
                let _ = key.take_log();
                writeln!(out, "out res=ok normal={normal} td={}", outs.join(",")).unwrap();
                continue;
            }
            "snap" => {
                slots.insert(get("slot").to_string(), e.clone());
                writeln!(out, "out res=ok").unwrap();
                continue;
            }
            "cmp" => {
                if let Some(o) = slots.get(get("slot")) {
                    use std::hash::{Hash, Hasher};
                    let h = |x: &Enr<HKey<S::K>>| {
                        #[allow(deprecated)]
                        let mut s = std::hash::SipHasher::new();
                        x.hash(&mut s);
                        s.finish()
                    };
                    let enc = |x: &Enr<HKey<S::K>>| {
                        let mut v = Vec::new();
                        x.encode(&mut v);
                        v
                    };
                    let r = guard(|| {
                        format!(
                            "ne={} eq={} eqr={} heq={} cc={} ccr={} enceq={} pairseq={}",
                            (*e != *o) as u8,
                            (*e == *o) as u8,
                            (*o == *e) as u8,
                            (h(e) == h(o)) as u8,
                            e.compare_content(o) as u8,
                            o.compare_content(e) as u8,
                            (enc(e) == enc(o)) as u8,
                            (e.iter().collect::<Vec<_>>() == o.iter().collect::<Vec<_>>()) as u8
                        )
                    });
                    writeln!(out, "out res=ok {}", r.unwrap_or("panic=1".into())).unwrap();
                    out.push_str(&rec_line(o).replacen("rec ", "other ", 1));
                    out.push('\n');
                } else {
                    writeln!(out, "out res=badcase").unwrap();
                }
                continue;
            }
            "load" => {
                if let Some(o) = slots.get(get("slot")) {
                    // every way the standard library copies one record over another
                    let how = get("how").to_string();
                    let r = guard(|| match how.as_str() {
                        "clone_from" => e.clone_from(o),
                        "vec_clone_from" => {
                            let mut v = vec![e.clone()];
                            v.clone_from(&vec![o.clone()]);
                            *e = v.pop().unwrap();
                        }
                        "clone_from_slice" => std::slice::from_mut(e).clone_from_slice(std::slice::from_ref(o)),
                        "clone_into" => {
                            let mut v = vec![e.clone()];
                            std::slice::from_ref(o).clone_into(&mut v);
                            *e = v.pop().unwrap();
                        }
                        "to_owned" => *e = o.to_owned(),
                        _ => *e = o.clone(),
                    });
                    if r.is_none() {
                        writeln!(out, "out res=panic").unwrap();
                        continue;
                    }
                    writeln!(out, "out res=ok").unwrap();
                    out.push_str(&rec_line(e));
                    out.push('\n');
                } else {
                    writeln!(out, "out res=badcase").unwrap();
                }
                continue;
            }
            "tamperdec" => {
                // right after the previous call (same thread): copies of the current encoding with one
                // content byte changed near the end must all be rejected
                let r = guard(|| {
                    let mut enc = Vec::new();
                    e.encode(&mut enc);
                    let mut accepted: Option<Vec<u8>> = None;
                    for back in 1..=6usize {
                        if enc.len() <= back + 70 {
                            break;
                        }
                        for delta in [1u8, 0x10, 0x80] {
                            let mut t = enc.clone();
                            let i = t.len() - back;
                            t[i] ^= delta;
                            let mut b: &[u8] = &t;
                            if Enr::<HKey<S::K>>::decode(&mut b).is_ok() {
                                accepted = Some(t);
                            }
                            let text = format!("enr:{}", crate::gen_dec::b64(&enc));
                            let _ = text;
                        }
                    }
                    accepted
                });
                match r {
                    None => writeln!(out, "out res=panic").unwrap(),
                    Some(None) => writeln!(out, "out res=ok").unwrap(),
                    Some(Some(t)) => writeln!(out, "out res=accepted buf={}", hx(&t)).unwrap(),
                }
                continue;
            }
            "setcur" => {
                // replace the current record by a decoded one
                let buf = unhx(get("buf"));
                let r = guard(|| {
                    let mut b: &[u8] = &buf;
                    Enr::<HKey<S::K>>::decode(&mut b)
                });
                match r {
                    None => writeln!(out, "out res=panic").unwrap(),
                    Some(Err(x)) => writeln!(out, "out res=err:{}", rlp_err_str(&x)).unwrap(),
                    Some(Ok(n)) => {
                        writeln!(out, "out res=ok").unwrap();
                        *e = n;
                    }
                }
                out.push_str(&rec_line(e));
                out.push('\n');
                continue;
            }
            "redecode" => {
                let r = guard(|| {
                    let mut v = Vec::new();
                    e.encode(&mut v);
                    let mut b: &[u8] = &v;
                    Enr::<HKey<S::K>>::decode(&mut b)
                });
                match r {
                    None => writeln!(out, "out res=panic").unwrap(),
                    Some(Err(x)) => writeln!(out, "out res=err:{}", rlp_err_str(&x)).unwrap(),
                    Some(Ok(n)) => {
                        writeln!(out, "out res=ok").unwrap();
                        *e = n;
                    }
                }
                out.push_str(&rec_line(e));
                out.push('\n');
                if with_acc {
                    // the typed accessors of the decoded record as well
                    out.push_str(&acc_line(e));
                    out.push('\n');
                }
                continue;
            }
            _ => {}
        }
        let key = &keys[signer];
        key.fail.store(fail, Ordering::SeqCst);
        key.bad.store(bad_signer, Ordering::SeqCst);
        key.shape.store(get("sigshape").parse().unwrap_or(0), Ordering::SeqCst);
        let res: Option<Result<String, Error>> = guard(|| {
            let port = |o: Option<u16>| {
                format!("port:{}", o.map(|p| p.to_string()).unwrap_or("none".into()))
            };
            match op.as_str() {
                "set_seq" => e
                    .set_seq(get("seq").parse().unwrap(), key)
                    .map(|_| "unit".to_string()),
                "insert" => {
                    let k = unhx(get("key"));
                    let r = match get("vt") {
                        "rawenc" => e.insert(&k, &RawEnc(unhx(get("val"))), key),
                        "phantom" => e.insert(&k, &std::marker::PhantomData::<u64>, key),
                        "enr" => {
                            // the value is itself a record (`Enr: Encodable`)
                            let raw = unhx(get("val"));
                            let mut sl: &[u8] = &raw;
                            match Enr::<HKey<S::K>>::decode(&mut sl) {
                                Ok(v) => e.insert(&k, &v, key),
                                Err(_) => e.insert(&k, &RawEnc(raw), key),
                            }
                        }
                        "enrs" => {
                            let raw = unhx(get("val"));
                            let mut sl: &[u8] = &raw;
                            match Vec::<Enr<HKey<S::K>>>::decode(&mut sl) {
                                Ok(v) => e.insert(&k, &v, key),
                                Err(_) => e.insert(&k, &RawEnc(raw), key),
                            }
                        }
                        "uint" => e.insert(&k, &get("val").parse::<u64>().unwrap(), key),
                        "strs" => {
                            let l: Vec<Bytes> = parse_list(get("val"))
                                .into_iter()
                                .map(Bytes::from)
                                .collect();
                            e.insert(&k, &l, key)
                        }
                        _ => e.insert(&k, &unhx(get("val")).as_slice(), key),
                    };
                    r.map(|p| format!("raw:{}", opt_hx(&p)))
                }
                "insert_raw" => e
                    .insert_raw_rlp(unhx(get("key")), Bytes::from(unhx(get("raw"))), key)
                    .map(|p| format!("raw:{}", opt_hx(&p))),
                "set_ip" => e.set_ip(ip_of(&unhx(get("ip"))).unwrap(), key).map(|p| {
                    format!(
                        "ip:{}",
                        p.map(|x| hx(&ip_bytes(&x))).unwrap_or("none".into())
                    )
                }),
                "set_udp4" => e.set_udp4(get("port").parse().unwrap(), key).map(port),
                "set_udp6" => e.set_udp6(get("port").parse().unwrap(), key).map(port),
                "set_tcp4" => e.set_tcp4(get("port").parse().unwrap(), key).map(port),
                "set_tcp6" => e.set_tcp6(get("port").parse().unwrap(), key).map(port),
                "remove_udp4" => e.remove_udp4(key).map(|_| "unit".into()),
                "remove_udp6" => e.remove_udp6(key).map(|_| "unit".into()),
                "remove_tcp" => e.remove_tcp(key).map(|_| "unit".into()),
                "remove_tcp6" => e.remove_tcp6(key).map(|_| "unit".into()),
                "set_client_info" => {
                    let s = |x: &str| String::from_utf8(unhx(x)).unwrap();
                    let b = get("build");
                    e.set_client_info(
                        s(get("name")),
                        s(get("ver")),
                        if b == "none" { None } else { Some(s(b)) },
                        key,
                    )
                    .map(|_| "unit".into())
                }
                "set_udp_socket" | "set_tcp_socket" => {
                    let mut sa = SocketAddr::new(
                        ip_of(&unhx(get("ip"))).unwrap(),
                        get("port").parse().unwrap(),
                    );
                    // IPv6 sockets may carry a zone (scope id) and a flow label; neither is stored
                    if let SocketAddr::V6(v6) = &mut sa {
                        v6.set_scope_id(get("scope").parse().unwrap_or(0));
                        v6.set_flowinfo(get("flow").parse().unwrap_or(0));
                    }
                    if op == "set_udp_socket" {
                        e.set_udp_socket(sa, key)
                    } else {
                        e.set_tcp_socket(sa, key)
                    }
                    .map(|_| "unit".into())
                }
                "remove_udp_socket" => e.remove_udp_socket(key).map(|_| "unit".into()),
                "remove_udp6_socket" => e.remove_udp6_socket(key).map(|_| "unit".into()),
                "remove_tcp_socket" => e.remove_tcp_socket(key).map(|_| "unit".into()),
                "remove_tcp6_socket" => e.remove_tcp6_socket(key).map(|_| "unit".into()),
                "remove_key" => e.remove_key(unhx(get("key")), key).map(|_| "unit".into()),
                "remove_insert" => {
                    let rm = parse_list(get("rm"));
                    let ins = parse_pairs(get("ins"));
                    // the kind of iterator the caller hands in (exact or inexact size hints, fused or
                    // not) is the caller's business
                    type RmIt<'x> = Box<dyn Iterator<Item = &'x Vec<u8>> + 'x>;
                    type InsIt<'x> = Box<dyn Iterator<Item = (Vec<u8>, &'x [u8])> + 'x>;
                    let it = get("it");
                    let rm_it: RmIt = match it {
                        "filter" | "unfused" => Box::new(rm.iter().filter(|_| true)),
                        "fromfn" => {
                            let mut i = 0usize;
                            let r = &rm;
                            Box::new(std::iter::from_fn(move || {
                                i += 1;
                                r.get(i - 1)
                            }))
                        }
                        "overhint" => Box::new(Hinted { inner: rm.iter(), lo: 0, hi: Some(0) }),
                        _ => Box::new(rm.iter()),
                    };
                    let pairs = ins.iter().map(|(k, v)| (k.clone(), v.as_slice()));
                    let ins_it: InsIt = match it {
                        "filter" => Box::new(pairs.filter(|_| true)),
                        "flatmap" => Box::new(ins.iter().flat_map(|(k, v)| std::iter::once((k.clone(), v.as_slice())))),
                        "fromfn" => {
                            let mut i = 0usize;
                            let r = &ins;
                            Box::new(std::iter::from_fn(move || {
                                i += 1;
                                r.get(i - 1).map(|(k, v)| (k.clone(), v.as_slice()))
                            }))
                        }
                        "chain" => Box::new(pairs.chain(std::iter::empty())),
                        "overhint" => Box::new(Hinted { inner: pairs, lo: 0, hi: Some(0) }),
                        "underhint" => Box::new(Hinted { inner: pairs, lo: 1000, hi: None }),
                        _ => Box::new(pairs),
                    };
                    e.remove_insert(rm_it, ins_it, key)
                    .map(|(a, b)| {
                        let f = |v: Vec<Option<Bytes>>| {
                            if v.is_empty() {
                                "-".to_string()
                            } else {
                                v.iter().map(opt_hx).collect::<Vec<_>>().join(",")
                            }
                        };
                        format!("lists:{}/{}", f(a), f(b))
                    })
                }
                "set_public_key" => {
                    let i: usize = get("pk").parse().unwrap();
                    let pk = keys[i].public();
                    e.set_public_key(&pk, key).map(|_| "unit".into())
                }
                _ => Ok("badop".into()),
            }
        });
        key.fail.store(false, Ordering::SeqCst);
        key.bad.store(false, Ordering::SeqCst);
        key.shape.store(0, Ordering::SeqCst);
        let log = signlog_str(&keys);
        // several threads reading one shared record at once (`Enr` is `Sync`), before anything else
        // has looked at it: on a sample of the steps
        let probe = if (case.id as usize + out.len()) % 4 == 0 {
            let e_ref: &Enr<HKey<S::K>> = &*e;
            let barrier = std::sync::Barrier::new(6);
            let results: std::sync::Mutex<Vec<Option<(Vec<u8>, bool, [u8; 32], usize)>>> = std::sync::Mutex::new(Vec::new());
            std::thread::scope(|sc| {
                for _ in 0..6 {
                    sc.spawn(|| {
                        barrier.wait();
                        let r = guard(|| {
                            let pk = e_ref.public_key().encode().as_ref().to_vec();
                            (pk, e_ref.verify(), e_ref.node_id().raw(), e_ref.size())
                        });
                        results.lock().unwrap_or_else(|p| p.into_inner()).push(r);
                    });
                }
            });
            let rs = results.into_inner().unwrap_or_else(|p| p.into_inner());
            if rs.iter().any(|r| r.is_none()) {
                " shared=panic"
            } else if rs.windows(2).all(|w| w[0] == w[1]) {
                " shared=same"
            } else {
                " shared=differ"
            }
        } else {
            ""
        };
        let log = format!("{log}{probe}");
        match res {
            None => writeln!(out, "out res=panic signlog={log}").unwrap(),
            Some(Err(x)) => writeln!(out, "out res=err:{} signlog={log}", err_str(&x)).unwrap(),
            Some(Ok(r)) => writeln!(out, "out res=ok ret={r} signlog={log}").unwrap(),
        }
        if get("quiet") == "1" {
            // nobody looks at the record's bytes between this step and the next
            out.push_str(&rec_line_quiet(e));
            out.push('\n');
            continue;
        }
        out.push_str(&rec_line(e));
        out.push('\n');
        if with_acc {
            out.push_str(&acc_line(e));
            out.push('\n');
        }
    }
    writeln!(out, "end").unwrap();
}

pub fn exec_any(case: &Case, out: &mut String, with_acc: bool) {
    match case.scheme.as_str() {
        "k256" => exec_case::<SK256>(case, out, with_acc),
        "libsecp" => exec_case::<SLibsecp>(case, out, with_acc),
        "ed" => exec_case::<SEd>(case, out, with_acc),
        "comb" => exec_case::<SComb>(case, out, with_acc),
        "toy" => exec_case::<SToy>(case, out, with_acc),
        _ => {}
    }
}


/// an iterator that reports a size hint of the harness's choosing (a hint is a hint, not a promise)
struct Hinted<I> {
    inner: I,
    lo: usize,
    hi: Option<usize>,
}

impl<I: Iterator> Iterator for Hinted<I> {
    type Item = I::Item;
    fn next(&mut self) -> Option<I::Item> {
        self.inner.next()
    }
    fn size_hint(&self) -> (usize, Option<usize>) {
        (self.lo, self.hi)
    }
}


/// runs a closure when the thread-local that holds it is destroyed (at thread exit)
pub struct TeardownGuard(Option<Box<dyn FnOnce()>>);

impl Drop for TeardownGuard {
    fn drop(&mut self) {
        if let Some(f) = self.0.take() {
            f()
        }
    }
}

thread_local! {
    static TEARDOWN: std::cell::RefCell<Option<TeardownGuard>> = const { std::cell::RefCell::new(None) };
}


/// Many threads, each a node of its own (its own key, its own record), updating at the same time
/// for a while; after every successful update the record must carry its own key, the node id of
/// that key, a verifying signature, and decode again.  One summary line; no model is involved.
fn race_obs<S: Sch>(scheme: &str, out: &mut String) {
    use std::sync::atomic::{AtomicUsize, Ordering};
    const THREADS: usize = 12;
    const ITERS: usize = 1200;
    let bad = AtomicUsize::new(0);
    let panics = AtomicUsize::new(0);
    let done = AtomicUsize::new(0);
    let barrier = std::sync::Barrier::new(THREADS);
    std::thread::scope(|sc| {
        for t in 0..THREADS {
            let (bad, panics, done, barrier) = (&bad, &panics, &done, &barrier);
            sc.spawn(move || {
                let (secrets, _) = crate::gen_hist::case_keys(scheme, &mut Rng::new(7000 + t as u64));
                let key = match S::from_secret(&secrets[0]) {
                    Some(k) => k,
                    None => return,
                };
                let mut e = match Enr::<S::K>::builder().udp4(1).build(&key) {
                    Ok(e) => e,
                    Err(_) => return,
                };
                barrier.wait();
                for i in 0..ITERS {
                    let r = crate::obs::guard(|| {
                        let ok = match i % 4 {
                            0 => e.set_udp4((i % 60000) as u16, &key).is_ok(),
                            1 => e.set_tcp4((i % 60000) as u16, &key).is_ok(),
                            2 => e.insert("x", &(i as u64), &key).is_ok(),
                            _ => e.remove_key("x", &key).is_ok(),
                        };
                        if !ok {
                            return true;
                        }
                        let own = e.public_key().encode().as_ref() == key.public().encode().as_ref();
                        let nid = e.node_id() == enr::NodeId::from(key.public());
                        let ver = e.verify();
                        let dec = i % 16 != 0 || {
                            let mut v = Vec::new();
                            e.encode(&mut v);
                            let mut b: &[u8] = &v;
                            Enr::<S::K>::decode(&mut b).map(|d| d == e).unwrap_or(false)
                        };
                        own && nid && ver && dec
                    });
                    match r {
                        None => {
                            panics.fetch_add(1, Ordering::SeqCst);
                        }
                        Some(false) => {
                            bad.fetch_add(1, Ordering::SeqCst);
                        }
                        Some(true) => {}
                    }
                    done.fetch_add(1, Ordering::SeqCst);
                }
            });
        }
    });
    writeln!(
        out,
        "race scheme={scheme} threads={THREADS} updates={} bad={} panics={}",
        done.load(Ordering::SeqCst),
        bad.load(Ordering::SeqCst),
        panics.load(Ordering::SeqCst)
    )
    .unwrap();
}

pub fn race_under(scheme: &str, out: &mut String) {
    match scheme {
        "k256" => race_obs::<SK256>(scheme, out),
        "libsecp" => race_obs::<SLibsecp>(scheme, out),
        "ed" => race_obs::<SEd>(scheme, out),
        "comb" => race_obs::<SComb>(scheme, out),
        _ => {}
    }
}
