//! Small helpers: hex, PRNG, token parsing, the harness's own RLP writer.

use std::collections::BTreeMap;

pub fn hx(b: &[u8]) -> String {
    if b.is_empty() {
        "-".to_string()
    } else {
        hex::encode(b)
    }
}

pub fn unhx(s: &str) -> Vec<u8> {
    if s == "-" || s.is_empty() {
        Vec::new()
    } else {
        hex::decode(s).unwrap_or_else(|_| panic!("bad hex token: {s}"))
    }
}

/// SplitMix64: every random choice of the harness derives from one state.
#[derive(Clone)]
pub struct Rng(pub u64);

impl Rng {
    pub fn new(seed: u64) -> Self {
        Rng(seed ^ 0x9e37_79b9_7f4a_7c15)
    }
    pub fn next(&mut self) -> u64 {
        self.0 = self.0.wrapping_add(0x9e37_79b9_7f4a_7c15);
        let mut z = self.0;
        z = (z ^ (z >> 30)).wrapping_mul(0xbf58_476d_1ce4_e5b9);
        z = (z ^ (z >> 27)).wrapping_mul(0x94d0_49bb_1331_11eb);
        z ^ (z >> 31)
    }
    pub fn below(&mut self, n: u64) -> u64 {
        if n == 0 {
            0
        } else {
            self.next() % n
        }
    }
    pub fn range(&mut self, lo: u64, hi: u64) -> u64 {
        lo + self.below(hi - lo + 1)
    }
    pub fn chance(&mut self, num: u64, den: u64) -> bool {
        self.below(den) < num
    }
    pub fn bytes(&mut self, n: usize) -> Vec<u8> {
        (0..n).map(|_| self.next() as u8).collect()
    }
    pub fn pick<'a, T>(&mut self, v: &'a [T]) -> &'a T {
        &v[self.below(v.len() as u64) as usize]
    }
    pub fn fork(&mut self) -> Rng {
        Rng(self.next())
    }
}

/// `key=value` tokens of one line (after the first word).
pub fn toks(line: &str) -> (String, BTreeMap<String, String>) {
    let mut it = line.split_whitespace();
    let head = it.next().unwrap_or("").to_string();
    let mut m = BTreeMap::new();
    for t in it {
        if let Some((k, v)) = t.split_once('=') {
            m.insert(k.to_string(), v.to_string());
        }
    }
    (head, m)
}

// ---------------------------------------------------------------------------------------------
// The harness's own RLP writer (independent of alloy-rlp and of the crate under test).

pub fn be_trim(mut n: u64) -> Vec<u8> {
    let mut v = Vec::new();
    while n > 0 {
        v.push((n & 0xff) as u8);
        n >>= 8;
    }
    v.reverse();
    v
}

pub fn rlp_header(list: bool, len: usize) -> Vec<u8> {
    let base: u8 = if list { 0xc0 } else { 0x80 };
    if len < 56 {
        vec![base + len as u8]
    } else {
        let lb = be_trim(len as u64);
        let mut v = vec![base + 55 + lb.len() as u8];
        v.extend_from_slice(&lb);
        v
    }
}

pub fn rlp_bytes(b: &[u8]) -> Vec<u8> {
    if b.len() == 1 && b[0] < 0x80 {
        return vec![b[0]];
    }
    let mut v = rlp_header(false, b.len());
    v.extend_from_slice(b);
    v
}

pub fn rlp_uint(n: u64) -> Vec<u8> {
    rlp_bytes(&be_trim(n))
}

pub fn rlp_list(payload: &[u8]) -> Vec<u8> {
    let mut v = rlp_header(true, payload.len());
    v.extend_from_slice(payload);
    v
}

/// An independent reader of one RLP item at the front of `b`: (is_list, header_len, payload_len),
/// without any canonicity checks; `None` if the buffer is too short.
pub fn rlp_peek(b: &[u8]) -> Option<(bool, usize, usize)> {
    let t = *b.first()?;
    match t {
        0..=0x7f => Some((false, 0, 1)),
        0x80..=0xb7 => Some((false, 1, (t - 0x80) as usize)),
        0xb8..=0xbf => {
            let ll = (t - 0xb7) as usize;
            if b.len() < 1 + ll {
                return None;
            }
            let mut n: usize = 0;
            for x in &b[1..1 + ll] {
                n = n.checked_mul(256)?.checked_add(*x as usize)?;
            }
            Some((false, 1 + ll, n))
        }
        0xc0..=0xf7 => Some((true, 1, (t - 0xc0) as usize)),
        _ => {
            let ll = (t - 0xf7) as usize;
            if b.len() < 1 + ll {
                return None;
            }
            let mut n: usize = 0;
            for x in &b[1..1 + ll] {
                n = n.checked_mul(256)?.checked_add(*x as usize)?;
            }
            Some((true, 1 + ll, n))
        }
    }
}

/// Byte strings mined from the source of the crate under test (string literals): keys the code
/// mentions by name are keys it may treat specially.  The orchestrator writes them, one hex string
/// per line, into the file named by VERIF_EXTRA_KEYS.
pub fn mined_keys() -> &'static Vec<Vec<u8>> {
    static K: std::sync::OnceLock<Vec<Vec<u8>>> = std::sync::OnceLock::new();
    K.get_or_init(|| {
        let mut v: Vec<Vec<u8>> = Vec::new();
        if let Ok(p) = std::env::var("VERIF_EXTRA_KEYS") {
            if let Ok(t) = std::fs::read_to_string(p) {
                for l in t.lines() {
                    let l = l.trim();
                    if !l.is_empty() {
                        if let Ok(b) = hex::decode(l) {
                            v.push(b);
                        }
                    }
                }
            }
        }
        v.sort();
        v.dedup();
        v
    })
}
