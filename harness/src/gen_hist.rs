//! `hist`, `size`, `acc` and `eq` families: operation histories executed through `cases::exec_any`.

use crate::cases::*;
use crate::keys::*;
use crate::util::*;

fn kind_for(scheme: &str, rng: &mut Rng) -> Kind {
    let ks = kinds_of(scheme);
    *rng.pick(ks)
}

/// keys of a case: 0 = own key, 1 = another key of the same scheme, 2 = (comb only) a key of the
/// other scheme, else a third key of the same scheme
pub fn case_keys(scheme: &str, rng: &mut Rng) -> (Vec<Vec<u8>>, Kind) {
    let kind = kind_for(scheme, rng);
    case_keys_of_kind(scheme, rng, kind)
}

/// the same with the kind of the own key chosen by the caller (CombinedKey: both directions of a
/// cross-scheme update must occur whatever the seed)
pub fn case_keys_of_kind(scheme: &str, rng: &mut Rng, kind: Kind) -> (Vec<Vec<u8>>, Kind) {
    let k0 = IndKey::gen(rng, kind);
    let mut k1 = IndKey::gen(rng, kind);
    if kind == Kind::Secp && rng.chance(1, 4) {
        // the "other" key is the negation of the own key (same x coordinate)
        k1 = IndKey { kind, sk: secp_neg(&k0.sk) };
    }
    while k1.public() == k0.public() {
        k1 = IndKey::gen(rng, kind);
    }
    let k2 = if scheme == "comb" {
        IndKey::gen(rng, if kind == Kind::Secp { Kind::Ed } else { Kind::Secp })
    } else {
        IndKey::gen(rng, kind)
    };
    (
        vec![
            k0.secret_for(scheme),
            k1.secret_for(scheme),
            k2.secret_for(scheme),
        ],
        kind,
    )
}

/// the independent key behind a case secret
pub fn ind_of(scheme: &str, secret: &[u8]) -> IndKey {
    match scheme {
        "comb" => IndKey {
            kind: if secret[0] == 0 { Kind::Secp } else { Kind::Ed },
            sk: secret[1..].to_vec(),
        },
        "ed" => IndKey { kind: Kind::Ed, sk: secret.to_vec() },
        "toy" => IndKey { kind: Kind::Toy, sk: secret.to_vec() },
        _ => IndKey { kind: Kind::Secp, sk: secret.to_vec() },
    }
}

/// addresses from the special-purpose registries (a library might treat them specially)
pub const SPECIAL_IP4: [[u8; 4]; 18] = [
    [0, 0, 0, 0], [255, 255, 255, 255], [127, 0, 0, 1], [10, 0, 0, 1], [100, 64, 0, 1], [169, 254, 1, 1], [172, 16, 0, 1],
    [192, 0, 0, 1], [192, 0, 2, 1], [192, 88, 99, 1], [192, 168, 0, 1], [198, 18, 0, 1], [198, 51, 100, 1], [203, 0, 113, 1],
    [224, 0, 0, 1], [240, 0, 0, 1], [1, 1, 1, 1], [0, 0, 0, 1],
];
pub const SPECIAL_IP6: [[u8; 16]; 12] = [
    [0; 16],
    [0, 0, 0, 0, 0, 0, 0, 0, 0, 0, 0, 0, 0, 0, 0, 1],
    [0xfe, 0x80, 0, 0, 0, 0, 0, 0, 0, 0, 0, 0, 0, 0, 0, 1],
    [0xfc, 0, 0, 0, 0, 0, 0, 0, 0, 0, 0, 0, 0, 0, 0, 1],
    [0xfd, 0x12, 0x34, 0, 0, 0, 0, 0, 0, 0, 0, 0, 0, 0, 0, 1],
    [0xff, 0x02, 0, 0, 0, 0, 0, 0, 0, 0, 0, 0, 0, 0, 0, 1],
    [0x20, 0x01, 0x0d, 0xb8, 0, 0, 0, 0, 0, 0, 0, 0, 0, 0, 0, 1],
    [0x20, 0x01, 0, 0, 0, 0, 0, 0, 0, 0, 0, 0, 0, 0, 0, 1],
    [0x20, 0x02, 0xc0, 0, 0x02, 0x01, 0, 0, 0, 0, 0, 0, 0, 0, 0, 1],
    [0, 0x64, 0xff, 0x9b, 0, 0, 0, 0, 0, 0, 0, 0, 0xc0, 0, 0x02, 0x01],
    [0x01, 0, 0, 0, 0, 0, 0, 0, 0, 0, 0, 0, 0, 0, 0, 1],
    [0xff; 16],
];

pub fn rand_ip4(rng: &mut Rng) -> Vec<u8> {
    match rng.below(5) {
        0 | 1 => rng.pick(&SPECIAL_IP4).to_vec(),
        _ => rng.bytes(4),
    }
}

pub fn rand_ip6(rng: &mut Rng) -> Vec<u8> {
    if rng.chance(1, 4) {
        return rng.pick(&SPECIAL_IP6).to_vec();
    }
    match rng.below(8) {
        5 => {
            // IPv4-mapped ::ffff:a.b.c.d
            let mut v = vec![0; 16];
            v[10] = 0xff;
            v[11] = 0xff;
            v[12..].copy_from_slice(&rng.bytes(4));
            v
        }
        6 => {
            // IPv4-compatible ::a.b.c.d
            let mut v = vec![0; 16];
            v[12..].copy_from_slice(&rng.bytes(4));
            v
        }
        7 => {
            // 6to4 / documentation prefixes
            let mut v = rng.bytes(16);
            v[0] = 0x20;
            v[1] = 0x02;
            v
        }
        0 => vec![0; 16],
        1 => vec![0xff; 16],
        2 => {
            let mut v = vec![0; 16];
            v[15] = 1;
            v
        }
        _ => rng.bytes(16),
    }
}

pub fn rand_port(rng: &mut Rng) -> u64 {
    match rng.below(8) {
        0 => 0,
        1 => 1,
        2 => 127,
        3 => 128,
        4 => 255,
        5 => 256,
        6 => 65535,
        _ => rng.below(65536),
    }
}

const RESERVED: [&[u8]; 10] = [
    b"id",
    b"ip",
    b"ip6",
    b"tcp",
    b"tcp6",
    b"udp",
    b"udp6",
    b"secp256k1",
    b"ed25519",
    b"client",
];

fn rand_key(rng: &mut Rng) -> Vec<u8> {
    if !mined_keys().is_empty() && rng.chance(1, 6) {
        return rng.pick(mined_keys()).clone();
    }
    match rng.below(10) {
        0..=3 => rng.pick(&RESERVED).to_vec(),
        4 => vec![],
        5 => b"toy".to_vec(),
        6 => b"a".to_vec(),
        7 => b"zz".to_vec(),
        _ => {
            let n = rng.range(1, 5) as usize;
            rng.bytes(n)
        }
    }
}

/// raw RLP values, well-formed and malformed
fn rand_raw(rng: &mut Rng) -> Vec<u8> {
    match rng.below(16) {
        0 => vec![],
        1 => vec![0xb8],
        2 => vec![0x01, 0x02],
        3 => vec![0x83, 1, 2],
        4 => vec![0x81, 0x01],
        5 => vec![0xc3, 0x01],
        6 => vec![0xc1, 0x80, 0x80],
        7 => rlp_bytes(b"v4"),
        8 => rlp_bytes(&rng.bytes(4)),
        9 => rlp_bytes(&rng.bytes(16)),
        10 => rlp_uint(rand_port(rng)),
        11 => rlp_list(&[rlp_bytes(b"a"), rlp_bytes(b"b")].concat()),
        12 => rlp_bytes(&rng.bytes(33)),
        13 => rlp_bytes(&rng.bytes(32)),
        14 => vec![0xc0],
        _ => {
            let n = rng.below(40) as usize;
            rlp_bytes(&rng.bytes(n))
        }
    }
}

fn rand_plain(rng: &mut Rng) -> Vec<u8> {
    match rng.below(8) {
        0 => vec![],
        1 => b"v4".to_vec(),
        2 => b"v5".to_vec(),
        3 => rng.bytes(4),
        4 => rng.bytes(16),
        5 => be_trim(rand_port(rng)),
        6 => vec![0, 80],
        _ => {
            let n = rng.below(24) as usize;
            rng.bytes(n)
        }
    }
}

fn ascii_word(rng: &mut Rng) -> Vec<u8> {
    let n = if rng.chance(1, 8) {
        *rng.pick(&[31usize, 32, 33, 55, 56, 63, 64, 65, 100, 128, 200])
    } else {
        rng.below(8) as usize
    };
    (0..n).map(|_| rng.range(0x21, 0x7e) as u8).collect()
}

/// one random step line (without signer / fail)
pub fn rand_step(rng: &mut Rng, valid_pub: &[Vec<u8>]) -> String {
    match rng.below(26) {
        0 => format!("step op=set_seq seq={}", match rng.below(5) {
            0 => 0,
            1 => u64::MAX,
            2 => u64::MAX - 1,
            3 => *rng.pick(&crate::gen_dec::SEQS),
            _ => rng.next() >> rng.below(64),
        }),
        1 | 2 => {
            let k = rand_key(rng);
            match rng.below(3) {
                0 => format!("step op=insert key={} vt=bytes val={}", hx(&k), hx(&rand_plain(rng))),
                1 => format!("step op=insert key={} vt=uint val={}", hx(&k), match rng.below(3) {
                    0 => rand_port(rng),
                    1 => 65536,
                    _ => rng.next() >> rng.below(64),
                }),
                _ => format!(
                    "step op=insert key={} vt=strs val={},{}",
                    hx(&k),
                    hx(&ascii_word(rng)),
                    hx(&rng.bytes(2))
                ),
            }
        }
        3 | 4 | 5 => {
            let k = rand_key(rng);
            // for the public-key entries also try valid keys of either scheme
            let raw = if (k == b"secp256k1" || k == b"ed25519") && rng.chance(1, 2) {
                rlp_bytes(&rng.pick(valid_pub)[..])
            } else {
                rand_raw(rng)
            };
            format!("step op=insert_raw key={} raw={}", hx(&k), hx(&raw))
        }
        6 => format!("step op=set_ip ip={}", hx(&rand_ip4(rng))),
        7 => format!("step op=set_ip ip={}", hx(&rand_ip6(rng))),
        8 => format!("step op=set_udp4 port={}", rand_port(rng)),
        9 => format!("step op=set_udp6 port={}", rand_port(rng)),
        10 => format!("step op=set_tcp4 port={}", rand_port(rng)),
        11 => format!("step op=set_tcp6 port={}", rand_port(rng)),
        12 => format!(
            "step op={}",
            rng.pick(&["remove_udp4", "remove_udp6", "remove_tcp", "remove_tcp6"])
        ),
        13 => format!(
            "step op=set_client_info name={} ver={} build={}",
            hx(&ascii_word(rng)),
            hx(&ascii_word(rng)),
            if rng.chance(1, 2) {
                "none".to_string()
            } else {
                hx(&ascii_word(rng))
            }
        ),
        14 => format!(
            "step op=set_udp_socket ip={} port={} scope={} flow={}",
            hx(&if rng.chance(1, 2) { rand_ip4(rng) } else { rand_ip6(rng) }),
            rand_port(rng),
            if rng.chance(1, 3) { rng.below(1 << 32) } else { 0 },
            if rng.chance(1, 3) { rng.below(1 << 20) } else { 0 }
        ),
        15 => format!(
            "step op=set_tcp_socket ip={} port={}",
            hx(&if rng.chance(1, 2) { rand_ip4(rng) } else { rand_ip6(rng) }),
            rand_port(rng)
        ),
        16 => format!(
            "step op={}",
            rng.pick(&[
                "remove_udp_socket",
                "remove_udp6_socket",
                "remove_tcp_socket",
                "remove_tcp6_socket"
            ])
        ),
        17 | 18 => format!("step op=remove_key key={}", hx(&rand_key(rng))),
        19 | 20 | 21 => {
            let nr = rng.below(3);
            let ni = rng.below(3);
            let rm: Vec<String> = (0..nr).map(|_| hx(&rand_key(rng))).collect();
            let ins: Vec<String> = (0..ni)
                .map(|_| {
                    let k = rand_key(rng);
                    let v = if (k == b"secp256k1" || k == b"ed25519") && rng.chance(1, 2) {
                        rng.pick(valid_pub).clone()
                    } else {
                        rand_plain(rng)
                    };
                    format!("{}:{}", hx(&k), hx(&v))
                })
                .collect();
            format!(
                "step op=remove_insert rm={} ins={} it={}",
                if rm.is_empty() { "-".into() } else { rm.join(",") },
                if ins.is_empty() { "-".into() } else { ins.join(",") },
                rng.pick(&["exact", "exact", "filter", "flatmap", "fromfn", "chain", "overhint", "underhint"])
            )
        }
        22 => format!("step op=set_public_key pk={}", rng.below(3)),
        23 => if rng.chance(1, 2) { "step op=redecode".to_string() } else {
            format!("step op=reannounce what={} n={}", rng.pick(&["client", "udp4", "udp6", "tcp4", "tcp6", "ip4", "ip6", "udp4s", "tcp4s", "udp6s", "tcp6s", "raw", "pubkey"]), rng.below(4))
        },
        24 => match rng.below(3) {
            0 => format!("step op=snap slot={}", rng.below(2)),
            1 => "step op=tamperdec".to_string(),
            _ => format!(
                "step op=load slot={} how={}",
                rng.below(2),
                rng.pick(&["clone", "clone_from", "vec_clone_from", "clone_from_slice"])
            ),
        },
        _ => format!("step op=cmp slot={}", rng.below(2)),
    }
}

/// representative steps for bounded-exhaustive exploration
pub fn rep_steps(valid_pub: &[Vec<u8>], small: bool) -> Vec<String> {
    let mut v: Vec<String> = vec![
        "step op=set_seq seq=5".into(),
        format!("step op=set_seq seq={}", u64::MAX),
        "step op=insert key=666f6f vt=bytes val=626172".into(),
        "step op=insert key=746370 vt=uint val=30303".into(),
        "step op=insert key=746370 vt=bytes val=0050".into(),
        "step op=insert key=6964 vt=bytes val=7635".into(),
        "step op=insert_raw key=666f6f raw=b8".into(),
        "step op=insert_raw key=666f6f raw=0102".into(),
        "step op=insert_raw key=6970 raw=850102030405".into(),
        format!("step op=insert_raw key=736563703235366b31 raw={}", hx(&rlp_bytes(&valid_pub[0]))),
        format!("step op=insert_raw key=65643235353139 raw={}", hx(&rlp_bytes(valid_pub.last().unwrap()))),
        "step op=insert_raw key=736563703235366b31 raw=846a756e6b".into(),
        "step op=set_ip ip=0a000001".into(),
        "step op=set_ip ip=20010db8000000000000000000000001".into(),
        "step op=set_udp4 port=0".into(),
        "step op=set_tcp6 port=65535".into(),
        "step op=remove_tcp".into(),
        "step op=set_client_info name=476574 ver=312e30 build=none".into(),
        "step op=set_udp_socket ip=c0a80001 port=30303".into(),
        "step op=set_tcp_socket ip=20010db8000000000000000000000001 port=128".into(),
        "step op=remove_udp_socket".into(),
        "step op=remove_key key=6964".into(),
        "step op=remove_key key=736563703235366b31".into(),
        "step op=remove_key key=6970".into(),
        "step op=remove_insert rm=746370 ins=746f70696373:0102".into(),
        "step op=remove_insert rm=- ins=6970:3132333435".into(),
        "step op=remove_insert rm=756470 ins=746f70696373:0102,7a:01 it=filter".into(),
        "step op=remove_insert rm=6970 ins=7a7a:05 it=fromfn".into(),
        "step op=remove_insert rm=746370 ins=6970:7f000001 it=overhint".into(),
        "step op=remove_insert rm=- ins=61:62 it=flatmap".into(),
        "step op=remove_insert rm=6964 ins=-".into(),
        "step op=remove_insert rm=- ins=736563703235366b31:6a756e6b".into(),
        "step op=remove_insert rm=- ins=746370:0050".into(),
        "step op=set_public_key pk=0".into(),
        "step op=set_public_key pk=1".into(),
        "step op=set_public_key pk=2".into(),
        "step op=set_udp_socket ip=00000000000000000000ffffc0000201 port=9000".into(),
        "step op=set_tcp_socket ip=00000000000000000000ffff7f000001 port=65535".into(),
        "step op=set_ip ip=00000000000000000000ffff0a000001".into(),
        "step op=tamperdec".into(),
        "step op=insert key=7068 vt=phantom val=-".into(),
        "step op=insert key=7068 vt=rawenc val=0102".into(),
        "step op=insert key=7068 vt=rawenc val=0183746370821f90".into(),
        "step op=insert key=7068 vt=rawenc val=c20102".into(),
        // list values under a custom key whose inner bytes are not well-formed items (the outer
        // header is right): handed out by the setters, so the decoder has to take them back
        "step op=insert_raw key=7878 raw=c3836162".into(),
        "step op=insert_raw key=7878 raw=c28105".into(),
        "step op=insert_raw key=7878 raw=c3b80100".into(),
        "step op=insert key=7878 vt=rawenc val=c181".into(),
        "step op=remove_insert rm=- ins=7878:c2b800".into(),
        "step op=reannounce what=client".into(),
        "step op=reannounce what=udp4s".into(),
        "step op=reannounce what=tcp6".into(),
        "step op=reannounce what=ip4".into(),
        "step op=reannounce what=raw n=1".into(),
        "step op=insert_raw key=636c69656e74 raw=ca8567657468ff83312e30".into(),
        "step op=set_udp_socket ip=fe800000000000000000000000000001 port=9000 scope=3 flow=0".into(),
        "step op=set_tcp_socket ip=20010db8000000000000000000000002 port=443 scope=0 flow=74565".into(),
        // addresses whose bytes spell reserved keys, values at the 55/56-byte header boundary,
        // a value equal to a key, the value that is already stored
        "step op=set_ip ip=74637036".into(),
        "step op=set_udp_socket ip=75647036 port=30303".into(),
        "step op=set_ip ip=736563703235366b3100000000000000".into(),
        format!("step op=insert key=7878 vt=bytes val={}", hx(&vec![0x61; 55])),
        format!("step op=insert key=7878 vt=bytes val={}", hx(&vec![0x61; 56])),
        "step op=insert key=6b vt=bytes val=6964".into(),
        "step op=insert key=6964 vt=bytes val=7634".into(),
        "step op=insert_raw key=6964 raw=82763400".into(),
        "step op=insert_raw key=6964 raw=8276348269708401020304".into(),
        "step op=insert_raw key=746370 raw=82765f82765f".into(),
        "step op=insert_raw key=6970 raw=840a000001840a000002".into(),
    ];
    if !small {
        v.extend(
            [
                "step op=set_seq seq=0",
                "step op=insert key=- vt=bytes val=-",
                "step op=insert key=636c69656e74 vt=strs val=61,62,63",
                "step op=insert key=6970 vt=bytes val=01020304",
                "step op=insert key=697036 vt=bytes val=01020304",
                "step op=insert_raw key=746370 raw=820050",
                "step op=insert_raw key=756470 raw=82765f",
                "step op=insert_raw key=6964 raw=827634",
                "step op=insert_raw key=6964 raw=82763400",
                "step op=insert_raw key=7a raw=c3010203",
                "step op=insert_raw key=7a raw=c20102c0",
                "step op=insert_raw key=65643235353139 raw=c0",
                "step op=set_udp6 port=127",
                "step op=set_tcp4 port=128",
                "step op=remove_udp4",
                "step op=remove_udp6",
                "step op=remove_tcp6",
                "step op=set_client_info name=- ver=- build=78",
                "step op=set_udp_socket ip=00000000000000000000000000000001 port=0",
                "step op=set_tcp_socket ip=7f000001 port=255",
                "step op=remove_udp6_socket",
                "step op=remove_tcp_socket",
                "step op=remove_tcp6_socket",
                "step op=remove_key key=-",
                "step op=remove_key key=65643235353139",
                "step op=remove_insert rm=6970,6970 ins=6970:01020304,6970:05060708",
                "step op=remove_insert rm=- ins=6964:7634",
                "step op=remove_insert rm=- ins=6964:7635",
                "step op=remove_insert rm=- ins=697036:00000000000000000000000000000001",
                "step op=set_public_key pk=2",
                "step op=redecode",
            ]
            .iter()
            .map(|s| s.to_string()),
        );
    }
    v
}

/// single steps for every key the source mentions by name, with values of several shapes
pub fn mined_steps() -> Vec<String> {
    let mut v = Vec::new();
    for k in mined_keys() {
        let hk = hx(k);
        v.push(format!("step op=insert key={hk} vt=uint val=100000"));
        v.push(format!("step op=insert_raw key={hk} raw=c0"));
        v.push(format!("step op=insert key={hk} vt=bytes val=01020304"));
        v.push(format!("step op=remove_insert rm=- ins={hk}:0050"));
    }
    v
}

/// `init` lines for initial records at sequence-number and size boundaries
pub fn inits(rng: &mut Rng, sig_len: usize) -> Vec<String> {
    let mut v = Vec::new();
    for seq in [1u64, 0, 127, 255, 65535, (1u64 << 32) - 1, u64::MAX - 1, u64::MAX] {
        v.push(format!(
            "init kind=build calls=seq:{seq};ip4:{};udp4:{} signer=0",
            hx(&rand_ip4(rng)),
            rand_port(rng)
        ));
    }
    // near the size limit: a padding value brings the record to ~290..300 bytes
    for pad in [150usize, 165, 170, 175, 180] {
        let adj = pad + 64 - sig_len.min(64 + pad);
        v.push(format!(
            "init kind=build calls=seq:{};raw:706164:{};tcp4:80 signer=0",
            *rng.pick(&[1u64, 127, 255, 65535]),
            hx(&rlp_bytes(&vec![0x61; adj]))
        ));
    }
    v.push("init kind=build calls=- signer=0".into());
    // the builder is reused: earlier builds (with another key, failing, succeeding) leave state behind
    v.push(format!(
        "init kind=build calls=tcp4:{};build:1:0;udp4:{} signer=0",
        rand_port(rng),
        rand_port(rng)
    ));
    v.push(format!(
        "init kind=build calls=ip4:{};build:0:1;build:2:0;seq:{} signer=0",
        hx(&rand_ip4(rng)),
        rng.range(1, 1000)
    ));
    v.push(format!(
        "init kind=build calls=raw:6970:8501020304ff;build:0:0;ip4:{} signer=0",
        hx(&rand_ip4(rng))
    ));
    // `Enr::empty`, the same key added twice, a record with as many pairs as the builder allows
    v.push("init kind=empty signer=0".into());
    v.push("init kind=build calls=enc:7068:0102;tcp4:5 signer=0".into());
    v.push("init kind=build calls=enc:7068:-;tcp4:5 signer=0".into());
    v.push("init kind=build calls=enc:7068:c101 signer=0".into());
    v.push("init kind=build calls=raw:7878:c28105;enc:7979:c3836162;raw:7a7a:c3b80100 signer=0".into());
    v.push("init kind=build calls=raw:6b:01;raw:6b:02;uint:6b:3 signer=0".into());
    {
        let many: Vec<String> = (1..=85u8).map(|i| format!("raw:{:02x}:{:02x}", i, (i % 0x7e) + 1)).collect();
        v.push(format!("init kind=build calls={} signer=0", many.join(";")));
    }
    // a build that fails validation, then the same builder again with nothing (or only seq) in between
    v.push("init kind=build calls=raw:746370:83010000;build:0:0 signer=0".into());
    v.push("init kind=build calls=raw:7a:0102;build:0:0;seq:9 signer=1".into());
    v.push("init kind=build calls=raw:697036:8401020304;build:1:0;build:0:1 signer=0".into());
    v
}

fn with_signer(step: &str, signer: usize, fail: bool) -> String {
    if step.contains("op=snap") || step.contains("op=teardown") || step.contains("op=load") || step.contains("op=cmp") || step.contains("op=redecode") || step.contains("op=tamperdec") {
        step.to_string()
    } else {
        format!("{step} signer={signer} fail={}", fail as u8)
    }
}

fn valid_pubs(rng: &mut Rng) -> Vec<Vec<u8>> {
    vec![
        IndKey::gen(rng, Kind::Secp).public(),
        IndKey::gen(rng, Kind::Ed).public(),
    ]
}

fn sig_len_of(scheme: &str, keys: &[Vec<u8>]) -> usize {
    if scheme == "toy" {
        keys[0][0] as usize
    } else {
        64
    }
}

/// the `hist` family
pub fn gen_hist(schemes: &[&str], rng: &mut Rng, thorough: bool, cases: &mut Vec<Case>) {
    let mut id = 0u64;
    for scheme in schemes {
        // bounded-exhaustive, depth 2, over the representative steps
        let vp = valid_pubs(rng);
        let reps = rep_steps(&vp, !thorough);
        let (keys, _) = case_keys(scheme, rng);
        // several key sets in rotation (cases run on many threads at once: different nodes' keys are
        // then in use at the same time); the toy scheme's signature length depends on the key
        let mut keysets = vec![keys.clone()];
        if *scheme != "toy" {
            for n in 0..3 {
                if *scheme == "comb" {
                    // own keys of both schemes whatever the seed
                    let other = if ind_of(scheme, &keys[0]).kind == Kind::Secp { Kind::Ed } else { Kind::Secp };
                    let kind = if n % 2 == 0 { other } else { ind_of(scheme, &keys[0]).kind };
                    keysets.push(case_keys_of_kind(scheme, rng, kind).0);
                } else {
                    keysets.push(case_keys(scheme, rng).0);
                }
            }
        }
        let init_list = inits(rng, sig_len_of(scheme, &keys));
        for (i, a) in reps.iter().enumerate() {
            for (j, b) in reps.iter().enumerate() {
                let mut c = Case::new("hist", scheme, id, "depth2");
                id += 1;
                c.keys = keysets[(i + j) % keysets.len()].clone();
                c.lines.push(init_list[(i * 31 + j) % init_list.len()].clone());
                // signer roles rotate: own, other key, own with fault
                let (s1, f1) = match (i + j) % 5 {
                    0 => (1, false),
                    1 => (0, true),
                    _ => (0, false),
                };
                let (s2, f2) = match (i * 3 + j) % 7 {
                    0 => (1, false),
                    1 => (0, true),
                    2 => (2, false),
                    _ => (if s1 == 1 { 1 } else { 0 }, false),
                };
                // every third pair: nothing looks at the record's bytes between the two steps
                let quiet = if (i * 5 + j) % 3 == 0 && a.contains("signer=") == false && !a.contains("op=snap") && !a.contains("op=cmp") && !a.contains("op=load") && !a.contains("op=redecode") && !a.contains("op=tamperdec") { " quiet=1" } else { "" };
                c.lines.push(format!("{}{}", with_signer(a, s1, f1), quiet));
                c.lines.push(with_signer(b, s2, f2));
                if !quiet.is_empty() {
                    // and a third step, the second one quiet as well
                    let l = c.lines.pop().unwrap();
                    c.lines.push(format!("{l} quiet=1"));
                    c.lines.push(with_signer("step op=set_udp4 port=30303", 0, false));
                }
                cases.push(c);
            }
        }
        // valid signatures with a rare byte pattern (a zero byte at offset 0, 32 or 63), which the
        // randomised secp256k1 signers produce once in 256 signatures each
        if kinds_of(scheme).contains(&Kind::Secp) && ind_of(scheme, &keys[0]).kind == Kind::Secp {
            for (i, a) in reps.iter().enumerate() {
                if i % (if thorough { 2 } else { 5 }) != 0 {
                    continue;
                }
                for shape in 1..=3 {
                    let mut c = Case::new("hist", scheme, id, "signature-byte-pattern");
                    id += 1;
                    c.keys = keys.clone();
                    c.lines.push(init_list[i % 8].clone());
                    c.lines.push(format!("{} sigshape={shape}", with_signer(a, 0, false)));
                    c.lines.push("step op=redecode".into());
                    cases.push(c);
                }
            }
        }
        // keys mined from the source: one step each, then a second harmless step and a re-decode
        for (i, a) in mined_steps().iter().enumerate() {
            let mut c = Case::new("hist", scheme, id, "mined-key");
            id += 1;
            c.keys = keys.clone();
            c.lines.push(init_list[i % init_list.len()].clone());
            c.lines.push(with_signer(a, 0, false));
            c.lines.push("step op=redecode".into());
            cases.push(c);
            // and through the builder
            let f: Vec<&str> = a.split(' ').collect();
            if a.contains("op=insert_raw") {
                let key = f.iter().find(|t| t.starts_with("key=")).map(|t| &t[4..]).unwrap_or("-");
                let mut c = Case::new("hist", scheme, id, "mined-key-builder");
                id += 1;
                c.keys = keys.clone();
                c.lines.push(format!("init kind=build calls=raw:{key}:c0;uint:{key}:100000 signer=0"));
                c.lines.push("step op=redecode".into());
                cases.push(c);
                let mut c = Case::new("hist", scheme, id, "mined-key-builder");
                id += 1;
                c.keys = keys.clone();
                c.lines.push(format!("init kind=build calls=raw:{key}:c0 signer=0"));
                c.lines.push("step op=redecode".into());
                cases.push(c);
            }
        }
        // decoded records whose secp256k1 entry is in the 65-byte uncompressed form: every update
        // (successful or failing, own key, faulty signer) from that state
        let k0 = ind_of(scheme, &keys[0]);
        if k0.kind == Kind::Secp {
            let un = {
                let k = enr::k256::ecdsa::SigningKey::from_slice(&k0.sk).unwrap();
                k.verifying_key().to_encoded_point(false).as_bytes().to_vec()
            };
            let mut spec = crate::gen_dec::Spec::new(
                *rng.pick(&[1u64, 255, u64::MAX]),
                vec![(b"ip".to_vec(), rlp_bytes(&rand_ip4(rng))), (b"udp".to_vec(), rlp_uint(rand_port(rng)))],
                k0.clone(),
            );
            for it in spec.items.iter_mut() {
                if it.0 == rlp_bytes(b"secp256k1") {
                    it.1 = rlp_bytes(&un);
                }
            }
            let buf = spec.encode(false);
            for (i, a) in reps.iter().enumerate() {
                for (s1, f1) in [(0usize, false), (0, true), (1, false)] {
                    if !thorough && s1 == 1 && i % 3 != 0 {
                        continue;
                    }
                    let mut c = Case::new("hist", scheme, id, "uncompressed-key");
                    id += 1;
                    c.keys = keys.clone();
                    c.lines.push(format!("init kind=decode buf={}", hx(&buf)));
                    c.lines.push(with_signer(a, s1, f1));
                    cases.push(c);
                }
            }
        }
        // re-keying by every other key (for CombinedKey key 2 is of the other scheme, and the key sets
        // rotate through both kinds of own key): every first step by the new key, then ordinary
        // updates by it
        for (ki, ks) in keysets.iter().enumerate() {
            for other in [1usize, 2] {
                for (si, first) in [
                    format!("step op=set_public_key pk={other}"),
                    "step op=set_udp4 port=9".to_string(),
                    "step op=set_seq seq=77".to_string(),
                    "step op=remove_key key=756470".to_string(),
                    "step op=set_udp_socket ip=c0a80001 port=30303".to_string(),
                    "step op=remove_insert rm=- ins=7a:01".to_string(),
                ]
                .iter()
                .enumerate()
                {
                    let mut c = Case::new("hist", scheme, id, "rekey");
                    id += 1;
                    c.keys = ks.clone();
                    c.lines.push(format!("init kind=build calls=seq:{};udp4:30303;ip4:7f000001 signer=0", [5u64, 127, 255][(ki + si) % 3]));
                    c.lines.push(with_signer(first, other, false));
                    c.lines.push(with_signer("step op=set_tcp4 port=1", other, false));
                    c.lines.push("step op=redecode".into());
                    c.lines.push(with_signer("step op=set_public_key pk=0", 0, false));
                    cases.push(c);
                }
            }
        }
        // a signer that answers with a signature that does not verify (wired to the wrong secret),
        // own key and another key; always the last step of its case
        for (si, st) in [
            "step op=set_udp4 port=9",
            "step op=set_seq seq=77",
            "step op=remove_key key=756470",
            "step op=set_udp_socket ip=c0a80001 port=30303",
            "step op=remove_insert rm=- ins=7a:01",
            "step op=insert key=7a vt=bytes val=01",
            "step op=set_public_key pk=1",
        ]
        .iter()
        .enumerate()
        {
            for signer in [0usize, 1] {
                let mut c = Case::new("hist", scheme, id, "bad-signer");
                id += 1;
                c.keys = keysets[si % keysets.len()].clone();
                c.lines.push("init kind=build calls=udp4:30303;ip4:7f000001 signer=0".into());
                c.lines.push(format!("{st} signer={signer} fail=2 quiet=1"));
                cases.push(c);
            }
        }
        // the library used while a thread is exiting (from the destructor of a thread-local)
        for (i, st) in ["step op=set_udp4 port=30303", "step op=set_seq seq=9", "step op=redecode"].iter().enumerate() {
            let mut c = Case::new("hist", scheme, id, "thread-teardown");
            id += 1;
            c.keys = keysets[i % keysets.len()].clone();
            c.lines.push("init kind=build calls=udp4:1;ip4:7f000001 signer=0".into());
            c.lines.push(with_signer(st, 0, false));
            c.lines.push("step op=teardown".into());
            cases.push(c);
        }
        // keys that are not well-formed UTF-8 and whose lossy text images coincide or change order
        for (i, ks) in [["80", "81"], ["9c01", "c3a9"], ["c3a9", "ff"], ["c0", "c1"], ["e28081", "e2808100"], ["00", "80"]]
            .iter()
            .enumerate()
        {
            let mut c = Case::new("hist", scheme, id, "non-utf8-keys");
            id += 1;
            c.keys = keys.clone();
            c.lines.push(format!("init kind=build calls=raw:{}:01;raw:{}:02 signer=0", ks[0], ks[1]));
            c.lines.push("step op=redecode".into());
            c.lines.push(with_signer(&format!("step op=insert key={} vt=bytes val=0{}", ks[1], i), 0, false));
            c.lines.push(with_signer(&format!("step op=insert_raw key={} raw=0{}", ks[0], i + 1), 0, false));
            c.lines.push("step op=redecode".into());
            c.lines.push(with_signer(&format!("step op=remove_key key={}", ks[0]), 0, false));
            cases.push(c);
            let mut c = Case::new("hist", scheme, id, "non-utf8-keys");
            id += 1;
            c.keys = keys.clone();
            c.lines.push("init kind=build calls=udp4:1 signer=0".into());
            c.lines.push(with_signer(&format!("step op=insert key={} vt=bytes val=01", ks[1]), 0, false));
            c.lines.push(with_signer(&format!("step op=insert key={} vt=bytes val=02", ks[0]), 0, false));
            c.lines.push("step op=redecode".into());
            cases.push(c);
        }
        // one record copied over another that belongs to a different node, by every route of the
        // standard library; then read, re-decoded and updated
        for how in ["clone", "clone_from", "vec_clone_from", "clone_from_slice", "clone_into", "to_owned"] {
            for back in [false, true] {
                let mut c = Case::new("hist", scheme, id, "copy-over-other-node");
                id += 1;
                c.keys = keys.clone();
                c.lines.push("init kind=build calls=udp4:30303 signer=0".into());
                c.lines.push("step op=snap slot=a".into());
                c.lines.push(with_signer("step op=set_tcp4 port=9000", 1, false));
                c.lines.push("step op=snap slot=c".into());
                if back {
                    c.lines.push(format!("step op=load slot=a how={how}"));
                } else {
                    c.lines.push("step op=load slot=a how=clone".into());
                    c.lines.push(format!("step op=load slot=c how={how}"));
                }
                c.lines.push("step op=redecode".into());
                c.lines.push(with_signer("step op=set_udp6 port=7", if back { 0 } else { 1 }, false));
                cases.push(c);
            }
        }
        // values that are themselves records (`Enr: Encodable`, also inside a `Vec`), through the
        // generic setter and the builder
        {
            let inner = crate::gen_dec::Spec::new(1, vec![], k0.clone()).encode(false);
            let inner2 = crate::gen_dec::Spec::new(2, vec![(b"udp".to_vec(), rlp_uint(9))], k0.clone()).encode(false);
            let one = crate::util::rlp_list(&inner);
            let two = crate::util::rlp_list(&[inner.clone(), inner2.clone()].concat());
            for (vt, val) in [("enr", &inner), ("enr", &inner2), ("enrs", &one), ("enrs", &two), ("enrs", &vec![0xc0u8])] {
                for (s1, f1) in [(0usize, false), (0, true), (1, false)] {
                    let mut c = Case::new("hist", scheme, id, "record-valued");
                    id += 1;
                    c.keys = keys.clone();
                    c.lines.push("init kind=build calls=- signer=0".into());
                    c.lines.push(with_signer(&format!("step op=insert key=626f6f74 vt={vt} val={}", hx(val)), s1, f1));
                    c.lines.push("step op=redecode".into());
                    c.lines.push(with_signer("step op=set_udp4 port=30303", 0, false));
                    cases.push(c);
                }
                let mut c = Case::new("hist", scheme, id, "record-valued-builder");
                id += 1;
                c.keys = keys.clone();
                c.lines.push(format!("init kind=build calls={vt}:626f6f74:{};udp4:30303 signer=0", hx(val)));
                c.lines.push("step op=redecode".into());
                cases.push(c);
            }
        }
        // random histories
        let (nh, len) = if thorough { (150, 120) } else { (24, 40) };
        for _ in 0..nh {
            let mut c = Case::new("hist", scheme, id, "random");
            id += 1;
            let (keys, _) = case_keys(scheme, rng);
            let il = inits(rng, sig_len_of(scheme, &keys));
            c.keys = keys;
            c.lines.push(rng.pick(&il).clone());
            let mut signer = 0usize;
            for _ in 0..len {
                let st = rand_step(rng, &vp);
                // mostly the current owner; sometimes re-key; sometimes a fault
                let r = rng.below(20);
                let (s, f) = if r == 0 {
                    signer = 1 - signer.min(1);
                    (signer, false)
                } else if r == 1 {
                    (2, false)
                } else if r == 2 {
                    (signer, true)
                } else {
                    (signer, false)
                };
                let q = if rng.chance(1, 4) && st.contains("op=") && !st.contains("op=snap") && !st.contains("op=cmp") && !st.contains("op=load") && !st.contains("op=redecode") && !st.contains("op=tamperdec") { " quiet=1" } else { "" };
                c.lines.push(format!("{}{}", with_signer(&st, s, f), q));
            }
            cases.push(c);
        }
        // (appended last) a decoded record with the 65-byte uncompressed key updated by the NEGATED
        // own key (same x coordinate, other parity): a re-keying, the node id changes
        if kinds_of(scheme).contains(&Kind::Secp) {
            let (ks, _) = case_keys_of_kind(scheme, rng, Kind::Secp);
            let k0 = ind_of(scheme, &ks[0]);
            let neg = IndKey { kind: Kind::Secp, sk: secp_neg(&k0.sk) };
            let un = {
                let k = enr::k256::ecdsa::SigningKey::from_slice(&k0.sk).unwrap();
                k.verifying_key().to_encoded_point(false).as_bytes().to_vec()
            };
            let mut spec = crate::gen_dec::Spec::new(5, vec![(b"udp".to_vec(), rlp_uint(9))], k0.clone());
            for it in spec.items.iter_mut() {
                if it.0 == rlp_bytes(b"secp256k1") {
                    it.1 = rlp_bytes(&un);
                }
            }
            let buf = spec.encode(false);
            for st in ["step op=set_udp4 port=10", "step op=set_seq seq=9", "step op=remove_key key=756470", "step op=set_udp_socket ip=c0a80001 port=1", "step op=remove_insert rm=- ins=7a:01"] {
                let mut c = Case::new("hist", scheme, id, "uncompressed-key-negated-signer");
                id += 1;
                c.keys = vec![ks[0].clone(), neg.secret_for(scheme), ks[2].clone()];
                c.lines.push(format!("init kind=decode buf={}", hx(&buf)));
                c.lines.push(with_signer(st, 1, false));
                c.lines.push("step op=redecode".into());
                c.lines.push(with_signer("step op=set_tcp4 port=1", 0, false));
                cases.push(c);
            }
        }
    }
}

/// the `size` family: updates whose result sweeps the limit, with growing sequence numbers
pub fn gen_size(schemes: &[&str], rng: &mut Rng, thorough: bool, cases: &mut Vec<Case>) {
    let mut id = 0u64;
    let seqs: &[u64] = if thorough {
        &[1, 126, 127, 254, 255, 65534, 65535, (1 << 32) - 1, u64::MAX - 1]
    } else {
        &[1, 127, 255, 65535]
    };
    let mut runs: Vec<(&str, Option<Kind>)> = Vec::new();
    for scheme in schemes {
        if *scheme == "comb" {
            runs.push((scheme, Some(Kind::Secp)));
            runs.push((scheme, Some(Kind::Ed)));
        } else {
            runs.push((scheme, None));
        }
    }
    for (scheme, forced) in &runs {
        let (keys, _) = match forced {
            Some(k) => case_keys_of_kind(scheme, rng, *k),
            None => case_keys(scheme, rng),
        };
        let sl = sig_len_of(scheme, &keys);
        let steps: Vec<String> = vec![
            "step op=insert key=7a vt=bytes val=78".into(),
            "step op=insert key=7a vt=bytes val=7878787878787878".into(),
            "step op=insert_raw key=7a7a raw=83010203".into(),
            "step op=set_ip ip=0a000001".into(),
            "step op=set_ip ip=20010db8000000000000000000000001".into(),
            "step op=set_udp4 port=30303".into(),
            "step op=set_tcp6 port=1".into(),
            "step op=set_client_info name=476574 ver=312e30 build=none".into(),
            "step op=set_udp_socket ip=c0a80001 port=30303".into(),
            "step op=set_tcp_socket ip=20010db8000000000000000000000001 port=128".into(),
            "step op=remove_key key=6e6f6e65".into(),
            "step op=remove_tcp".into(),
            "step op=remove_insert rm=6e6f6e65 ins=7a7a:0102030405".into(),
            "step op=remove_insert rm=746370 ins=-".into(),
            "step op=set_public_key pk=0".into(),
            "step op=set_seq seq=18446744073709551615".into(),
            "step op=set_seq seq=1".into(),
        ];
        // base content: id + pubkey + tcp + pad; pad length sweeps the total size
        let range: Vec<usize> = if thorough {
            (100..=215).collect()
        } else {
            (150..=205).step_by(1).collect()
        };
        for &seq in seqs {
            for &pad in &range {
                let pad = (pad + 64).saturating_sub(sl.min(64 + pad));
                for (si, st) in steps.iter().enumerate() {
                    if !thorough && (pad + si + seq as usize) % 3 != 0 {
                        continue;
                    }
                    let mut c = Case::new("size", scheme, id, "sweep");
                    id += 1;
                    c.keys = keys.clone();
                    c.lines.push(format!(
                        "init kind=build calls=seq:{seq};raw:706164:{};tcp4:80 signer=0",
                        hx(&rlp_bytes(&vec![0x61; pad]))
                    ));
                    c.lines.push(with_signer(st, 0, false));
                    cases.push(c);
                }
            }
        }
        // the builder refuses records above ~295 bytes, so sizes 296..=300 are reached by growing a
        // built record with a first insertion; the second step is the update under test, including
        // updates that re-announce exactly what is stored (same socket, port, address, value, key)
        {
            let p0 = (120 + 64usize).saturating_sub(sl.min(64 + 120));
            let padv = rlp_bytes(&vec![0x61; p0]);
            let mut steps2 = steps.clone();
            steps2.extend([
                "step op=set_udp4 port=30303".to_string(),
                "step op=set_tcp4 port=80".to_string(),
                "step op=set_ip ip=c0a80001".to_string(),
                "step op=set_tcp_socket ip=c0a80001 port=80".to_string(),
                format!("step op=insert_raw key=706164 raw={}", hx(&padv)),
                "step op=remove_insert rm=- ins=-".to_string(),
                "step op=remove_key key=6e6f6e65".to_string(),
                "step op=reannounce what=udp4s".to_string(),
                "step op=reannounce what=raw n=0".to_string(),
                "step op=reannounce what=raw n=2".to_string(),
                "step op=reannounce what=pubkey".to_string(),
            ]);
            for &seq in seqs {
                for grow in 292..=301usize {
                    for (si, st) in steps2.iter().enumerate() {
                        if !thorough && (grow + si + seq as usize) % 2 != 0 && grow != 300 {
                            continue;
                        }
                        let signer2 = if *scheme == "comb" && si % 3 == 0 { 2 } else { 0 };
                        let mut c = Case::new("size", scheme, id, "grown");
                        id += 1;
                        c.keys = keys.clone();
                        c.lines.push(format!(
                            "init kind=build calls=seq:{};raw:706164:{};tcp4:80;ip4:c0a80001;udp4:30303 signer=0",
                            seq.saturating_sub(1),
                            hx(&padv)
                        ));
                        c.lines.push(format!("step op=grow_to size={grow} signer=0"));
                        c.lines.push(with_signer(st, signer2, false));
                        cases.push(c);
                    }
                }
            }
        }
        // the same sweep with a 56-byte key in the record (two-byte key header)
        for &seq in &seqs[..seqs.len().min(3)] {
            for &pad in &range {
                let pad = (pad + 64).saturating_sub(sl.min(64 + pad)).saturating_sub(58);
                for (si, st) in steps.iter().enumerate() {
                    if (pad + si + seq as usize) % (if thorough { 2 } else { 5 }) != 0 {
                        continue;
                    }
                    let mut c = Case::new("size", scheme, id, "longkey");
                    id += 1;
                    c.keys = keys.clone();
                    c.lines.push(format!(
                        "init kind=build calls=seq:{seq};raw:{}:{};tcp4:80 signer=0",
                        hx(&vec![0x6b; 56]),
                        hx(&rlp_bytes(&vec![0x61; pad]))
                    ));
                    c.lines.push(with_signer(st, 0, false));
                    c.lines.push(with_signer("step op=set_seq seq=18446744073709551615", 0, false));
                    cases.push(c);
                }
            }
        }
        // decoded records that carry the 65-byte uncompressed public key: every update replaces it by
        // the 33-byte form, so results are 32 bytes smaller than the record suggests
        let k0 = ind_of(scheme, &keys[0]);
        if k0.kind == Kind::Secp {
            let un = {
                let k = enr::k256::ecdsa::SigningKey::from_slice(&k0.sk).unwrap();
                k.verifying_key().to_encoded_point(false).as_bytes().to_vec()
            };
            for &seq in &seqs[..seqs.len().min(3)] {
                for pad in (if thorough { 100..=180usize } else { 120..=170usize }) {
                    let mut spec = crate::gen_dec::Spec::new(
                        seq,
                        vec![(b"pad".to_vec(), rlp_bytes(&vec![0x61; pad]))],
                        k0.clone(),
                    );
                    for it in spec.items.iter_mut() {
                        if it.0 == rlp_bytes(b"secp256k1") {
                            it.1 = rlp_bytes(&un);
                        }
                    }
                    let buf = spec.encode(false);
                    if buf.len() > 300 || buf.len() < 280 {
                        continue;
                    }
                    for (si, st) in steps.iter().enumerate() {
                        if !thorough && (pad + si) % 4 != 0 {
                            continue;
                        }
                        let mut c = Case::new("size", scheme, id, "uncompressed-key");
                        id += 1;
                        c.keys = keys.clone();
                        c.lines.push(format!("init kind=decode buf={}", hx(&buf)));
                        c.lines.push(with_signer(st, 0, false));
                        cases.push(c);
                    }
                }
            }
        }
        // a custom scheme with signatures of 0, 1 or 2 bytes (a one-byte signature below 0x80 is its
        // own RLP encoding, one from 0x80 up takes two bytes): updates at the size limit
        if *scheme == "toy" {
            for (base, spread) in [(0u8, 0u8), (1, 0), (0, 1), (1, 1), (2, 0), (0, 2)] {
                for _rep in 0..(if thorough { 6 } else { 2 }) {
                    let tk = vec![base, spread, rng.next() as u8, rng.next() as u8];
                    // the builder is conservative near the limit, so the record is built at about 288
                    // bytes and grown to 296..=301 by a first insertion (`grow` extra bytes)
                    for grow in 0..=14usize {
                      for pad in 244..=246usize {
                        for st in [
                            "step op=set_udp4 port=30303",
                            "step op=set_udp_socket ip=c0a80001 port=30303",
                            "step op=insert key=7a vt=bytes val=78",
                            "step op=set_seq seq=77",
                        ] {
                            let mut c = Case::new("size", scheme, id, "toy-short-signature");
                            id += 1;
                            c.keys = vec![tk.clone(), keys[1].clone(), keys[2].clone()];
                            c.lines.push(format!(
                                "init kind=build calls=seq:{};raw:706164:{};udp4:30303;ip4:c0a80001;raw:7a:78 signer=0",
                                rng.pick(&[5u64, 127, 255]),
                                hx(&rlp_bytes(&vec![0x61; pad]))
                            ));
                            c.lines.push(with_signer(
                                &format!("step op=insert key=7a7a vt=bytes val={}", hx(&vec![0x62; grow])),
                                0,
                                false,
                            ));
                            c.lines.push(with_signer(st, 0, false));
                            c.lines.push(with_signer(st, 0, false));
                            c.lines.push(with_signer(st, 0, false));
                            c.lines.push(with_signer(st, 0, false));
                            cases.push(c);
                        }
                      }
                    }
                }
            }
        }
        // builder with a custom scheme: signature lengths that put header-length boundaries (55/56,
        // 255/256 bytes of content or of content + signature) right at the size limit
        if *scheme == "toy" {
            for base in [8u8, 9, 40, 41, 42, 43, 44, 45, 53, 54, 55, 56, 57, 64, 100, 150, 200, 236, 240, 241, 242, 250] {
                let tk = vec![base, 0, rng.next() as u8, rng.next() as u8];
                for pad in 0..=290usize {
                    let est = base as usize + pad + 30;
                    if !(284..=316).contains(&est) {
                        continue;
                    }
                    let mut c = Case::new("size", scheme, id, "builder-toy");
                    id += 1;
                    c.keys = vec![tk.clone(), keys[1].clone(), keys[2].clone()];
                    c.lines.push(format!(
                        "init kind=build calls=seq:{};raw:70:{} signer=0",
                        rng.pick(&[1u64, 200, 70000]),
                        hx(&rlp_bytes(&vec![0x61; pad]))
                    ));
                    cases.push(c);
                }
            }
        }
        // builder near the limit (total = content + sig + framing)
        for pad in 150..=230usize {
            let pad = (pad + 64).saturating_sub(sl.min(64 + pad));
            let mut c = Case::new("size", scheme, id, "builder");
            id += 1;
            c.keys = keys.clone();
            c.lines.push(format!(
                "init kind=build calls=seq:{};raw:706164:{} signer=0",
                rng.pick(seqs),
                hx(&rlp_bytes(&vec![0x61; pad]))
            ));
            cases.push(c);
        }
        // results whose size only fits after truncation to 8 or 16 bits (a size kept in a narrower
        // integer): value lengths in steps of 100 across 2^16, so that every window of 300 is hit
        for i in 0..=6usize {
            let len = 65300 + 100 * i;
            let val = vec![0x61u8; len];
            for (j, step) in [
                format!("step op=remove_insert rm=- ins=7a7a:{}", hx(&val)),
                format!("step op=insert key=7a7a vt=bytes val={}", hx(&val)),
                format!("step op=insert_raw key=7a7a raw={}", hx(&rlp_bytes(&val))),
                format!("step op=set_client_info name={} ver=31 build=none", hx(&val)),
            ]
            .iter()
            .enumerate()
            {
                if !thorough && (i + j) % 2 == 1 && j != 0 {
                    continue;
                }
                let mut c = Case::new("size", scheme, id, "wraps-16-bits");
                id += 1;
                c.keys = keys.clone();
                c.lines.push("init kind=build calls=seq:1 signer=0".into());
                c.lines.push(with_signer(step, 0, false));
                cases.push(c);
            }
            let mut c = Case::new("size", scheme, id, "wraps-16-bits-builder");
            id += 1;
            c.keys = keys.clone();
            c.lines.push(format!("init kind=build calls=seq:1;raw:7a7a:{} signer=0", hx(&rlp_bytes(&val))));
            cases.push(c);
        }
    }
}

/// the `acc` family: typed accessors against raw content
pub fn gen_acc(schemes: &[&str], rng: &mut Rng, thorough: bool, cases: &mut Vec<Case>) {
    let mut id = 0u64;
    for scheme in schemes {
        let (keys, _) = case_keys(scheme, rng);
        // ports through builder, setter, socket setter; decode is covered by the redecode step and
        // by the round trips in every acc line
        let ports: Vec<u64> = if thorough {
            (0..65536).collect()
        } else {
            let mut p: Vec<u64> = vec![0, 1, 55, 56, 127, 128, 129, 255, 256, 257, 32767, 32768, 65534, 65535];
            for _ in 0..120 {
                p.push(rng.below(65536));
            }
            p
        };
        // several ports per case to keep the number of builds down
        for chunk in ports.chunks(4) {
            let mut c = Case::new("acc", scheme, id, "ports");
            id += 1;
            c.keys = keys.clone();
            let p = |i: usize| chunk[i % chunk.len()];
            // (the sequence number coincides with one of the ports)
            c.lines.push(format!(
                "init kind=build calls=seq:{};tcp4:{};tcp6:{};udp4:{};udp6:{} signer=0",
                p(0),
                p(0),
                p(1),
                p(2),
                p(3)
            ));
            c.lines.push("step op=redecode".into());
            c.lines.push(with_signer(&format!("step op=set_tcp4 port={}", p(1)), 0, false));
            c.lines.push(with_signer(&format!("step op=set_tcp6 port={}", p(2)), 0, false));
            c.lines.push(with_signer(&format!("step op=set_udp4 port={}", p(3)), 0, false));
            c.lines.push(with_signer(&format!("step op=set_udp6 port={}", p(0)), 0, false));
            c.lines.push(with_signer(
                &format!("step op=set_udp_socket ip={} port={}", hx(&rand_ip4(rng)), p(1)),
                0,
                false,
            ));
            c.lines.push(with_signer(
                &format!("step op=set_tcp_socket ip={} port={}", hx(&rand_ip6(rng)), p(3)),
                0,
                false,
            ));
            c.lines.push("step op=redecode".into());
            cases.push(c);
        }
        // all 64 presence combinations of the six address/port keys
        for mask in 0..128u64 {
            let mut calls = Vec::new();
            if mask & 1 != 0 {
                calls.push(format!("{}:{}", if mask & 64 == 0 { "ip4" } else { "ip" }, hx(&rand_ip4(rng))));
            }
            if mask & 2 != 0 {
                calls.push(format!("{}:{}", if mask & 64 == 0 { "ip6" } else { "ip" }, hx(&rand_ip6(rng))));
            }
            if mask % 5 == 0 {
                calls.push(format!(
                    "client:{}:{}:{}",
                    hx(&ascii_word(rng)),
                    hx(&ascii_word(rng)),
                    if mask % 2 == 0 { "none".to_string() } else { hx(&ascii_word(rng)) }
                ));
            }
            if mask % 7 == 0 {
                calls.push(format!("bytes:{}:{}", hx(&rand_key(rng)), hx(&rand_plain(rng))));
                calls.push(format!("uint:{}:{}", hx(b"num"), rng.next() >> rng.below(64)));
            }
            if mask & 4 != 0 {
                calls.push(format!("tcp4:{}", rand_port(rng)));
            }
            if mask & 8 != 0 {
                calls.push(format!("tcp6:{}", rand_port(rng)));
            }
            if mask & 16 != 0 {
                calls.push(format!("udp4:{}", rand_port(rng)));
            }
            if mask & 32 != 0 {
                calls.push(format!("udp6:{}", rand_port(rng)));
            }
            let mut c = Case::new("acc", scheme, id, "presence");
            id += 1;
            c.keys = keys.clone();
            c.lines.push(format!(
                "init kind=build calls={} signer=0",
                if calls.is_empty() { "-".into() } else { calls.join(";") }
            ));
            cases.push(c);
        }
        // special-purpose addresses: builder, setters, socket setters; accessors after each
        for (i, a) in SPECIAL_IP4.iter().enumerate() {
            let mut c = Case::new("acc", scheme, id, "special-address");
            id += 1;
            c.keys = keys.clone();
            c.lines.push(format!("init kind=build calls=ip4:{};udp4:9;tcp4:{} signer=0", hx(a), 30303 + i));
            c.lines.push("step op=redecode".into());
            let b = SPECIAL_IP4[(i + 5) % SPECIAL_IP4.len()];
            c.lines.push(with_signer(&format!("step op=set_ip ip={}", hx(&b)), 0, false));
            c.lines.push(with_signer(&format!("step op=set_tcp_socket ip={} port=1", hx(a)), 0, false));
            cases.push(c);
        }
        for (i, a) in SPECIAL_IP6.iter().enumerate() {
            let mut c = Case::new("acc", scheme, id, "special-address");
            id += 1;
            c.keys = keys.clone();
            c.lines.push(format!("init kind=build calls=ip6:{};udp6:9;tcp6:{} signer=0", hx(a), 30303 + i));
            c.lines.push("step op=redecode".into());
            let b = SPECIAL_IP6[(i + 5) % SPECIAL_IP6.len()];
            c.lines.push(with_signer(&format!("step op=set_ip ip={}", hx(&b)), 0, false));
            c.lines.push(with_signer(&format!("step op=set_udp_socket ip={} port=1", hx(a)), 0, false));
            cases.push(c);
        }
        // strings and keys of every length class (one- and two-byte headers, around 32 / 64 / 128)
        for len in [8usize, 31, 32, 33, 55, 56, 57, 63, 64, 65, 100, 128, 150, 200] {
            let w = hx(&vec![0x4e; len]);
            let mut c = Case::new("acc", scheme, id, "long-strings-and-keys");
            id += 1;
            c.keys = keys.clone();
            c.lines.push("init kind=build calls=udp4:1 signer=0".into());
            c.lines.push(with_signer(&format!("step op=set_client_info name={w} ver=31 build=none"), 0, false));
            c.lines.push(with_signer("step op=set_client_info name=4e ver=31 build=none", 0, false));
            c.lines.push(with_signer(&format!("step op=insert key={w} vt=bytes val=01"), 0, false));
            c.lines.push("step op=redecode".into());
            c.lines.push(with_signer(&format!("step op=remove_key key={w}"), 0, false));
            c.lines.push(with_signer(&format!("step op=insert key=6b vt=strs val={w},31"), 0, false));
            c.lines.push(with_signer(&format!("step op=insert key=6b vt=bytes val={w}"), 0, false));
            c.lines.push("step op=redecode".into());
            cases.push(c);
            let mut c = Case::new("acc", scheme, id, "long-strings-and-keys");
            id += 1;
            c.keys = keys.clone();
            c.lines.push(format!("init kind=build calls=client:{w}:31:none;raw:{w}:01 signer=0"));
            c.lines.push("step op=redecode".into());
            cases.push(c);
        }
        // near misses of the identity scheme name
        for v in ["5634", "763400", "763420", "763430", "007634", "76", "7634", "56", "7635", "763434"] {
            let mut c = Case::new("acc", scheme, id, "id-near-miss");
            id += 1;
            c.keys = keys.clone();
            c.lines.push("init kind=build calls=udp4:1 signer=0".into());
            c.lines.push(with_signer(&format!("step op=insert key=6964 vt=bytes val={v}"), 0, false));
            c.lines.push(with_signer(&format!("step op=insert_raw key=6964 raw={}", hx(&rlp_bytes(&unhx(v)))), 0, false));
            c.lines.push(with_signer(&format!("step op=remove_insert rm=- ins=6964:{v}"), 0, false));
            c.lines.push("step op=redecode".into());
            cases.push(c);
            let mut c = Case::new("acc", scheme, id, "id-near-miss");
            id += 1;
            c.keys = keys.clone();
            c.lines.push(format!("init kind=build calls=bytes:6964:{v} signer=0"));
            cases.push(c);
        }
        // client lists of every arity 0..=6
        for n in 0..=6usize {
            let mut p = Vec::new();
            for i in 0..n {
                p.extend_from_slice(&rlp_bytes(format!("s{i}").as_bytes()));
            }
            let mut c = Case::new("acc", scheme, id, "client-arity");
            id += 1;
            c.keys = keys.clone();
            c.lines.push(format!("init kind=build calls=raw:636c69656e74:{} signer=0", hx(&rlp_list(&p))));
            c.lines.push(with_signer(
                &format!("step op=insert_raw key=636c69656e74 raw={}", hx(&rlp_list(&p))),
                0,
                false,
            ));
            c.lines.push("step op=redecode".into());
            cases.push(c);
        }
        // client strings with content a "tidy-up" could alter: byte-order mark, surrounding blanks,
        // control characters, letter case, composed / decomposed forms, invisible characters
        for (i, sp) in [
            "\u{feff}Geth", "\u{feff}", " Geth", "Geth ", "Geth\n", "\tGeth", "GETH", "geth", "e\u{301}", "\u{e9}",
            "\u{fb00}", "\0", "a\0b", "\u{200b}x", "\u{202e}x", "\u{fffd}", "x\u{feff}", "\u{1f600}", "\"q\"", "a/b",
            "\\", "\u{a0}x", "x\r\n", "v1.0.0-\u{3b1}", "\u{130}", "\u{212a}",
        ]
        .iter()
        .enumerate()
        {
            let h = hx(sp.as_bytes());
            let mut c = Case::new("acc", scheme, id, "client-special-strings");
            id += 1;
            c.keys = keys.clone();
            c.lines.push(format!("init kind=build calls=client:{h}:{h}:{} signer=0", if i % 2 == 0 { h.clone() } else { "none".into() }));
            c.lines.push("step op=redecode".into());
            c.lines.push(with_signer(&format!("step op=set_client_info name=78 ver={h} build={h}"), 0, false));
            c.lines.push(with_signer(&format!("step op=set_client_info name={h} ver=31 build=none"), 0, false));
            let l = rlp_list(&[rlp_bytes(sp.as_bytes()), rlp_bytes(b"1"), rlp_bytes(sp.as_bytes())].concat());
            c.lines.push(with_signer(&format!("step op=insert_raw key=636c69656e74 raw={}", hx(&l)), 0, false));
            c.lines.push("step op=redecode".into());
            cases.push(c);
        }
        // setters called with exactly what the typed accessor reports now (for ill-formed UTF-8 in the
        // stored client strings the accessor reports the lossy conversion, which is NOT what is stored)
        for client_raw in [
            "ca8567657468ff83312e30",          // ["geth\xff", "1.0"]
            "c98467657468833 12e30".replace(' ', "").as_str(), // ["geth", "1.0"]
            "cb83c3a92883312e3083f09f98", // ill-formed third string
        ] {
            for what in ["client", "udp4", "tcp6", "ip4", "ip6", "udp4s", "tcp6s", "raw", "pubkey"] {
                let mut c = Case::new("acc", scheme, id, "reannounce");
                id += 1;
                c.keys = keys.clone();
                c.lines.push(format!(
                    "init kind=build calls=seq:{};ip4:{};ip6:{};udp4:{};tcp6:{} signer=0",
                    rng.range(1, 300),
                    hx(&rand_ip4(rng)),
                    hx(&rand_ip6(rng)),
                    rand_port(rng),
                    rand_port(rng)
                ));
                c.lines.push(with_signer(
                    &format!("step op=insert_raw key=636c69656e74 raw={client_raw}"),
                    0,
                    false,
                ));
                c.lines.push(with_signer(&format!("step op=reannounce what={what} n=1"), 0, false));
                c.lines.push(with_signer(&format!("step op=reannounce what={what} n=1"), 0, false));
                c.lines.push("step op=redecode".into());
                cases.push(c);
            }
        }
        // the client list wrapped in a string header / in another list / with trailing bytes in the list
        for raw in [
            rlp_bytes(&rlp_list(&[rlp_bytes(b"a"), rlp_bytes(b"b")].concat())),
            rlp_bytes(&rlp_list(&[rlp_bytes(b"a"), rlp_bytes(b"b"), rlp_bytes(b"c")].concat())),
            rlp_list(&rlp_list(&[rlp_bytes(b"a"), rlp_bytes(b"b")].concat())),
            rlp_list(&[rlp_bytes(b"a"), rlp_list(&rlp_bytes(b"b"))].concat()),
            rlp_list(&[rlp_bytes(b"a"), rlp_uint(300), rlp_bytes(b"")].concat()),
        ] {
            let mut c = Case::new("acc", scheme, id, "client-wrapped");
            id += 1;
            c.keys = keys.clone();
            c.lines.push("init kind=build calls=- signer=0".into());
            c.lines.push(with_signer(
                &format!("step op=insert_raw key=636c69656e74 raw={}", hx(&raw)),
                0,
                false,
            ));
            c.lines.push("step op=redecode".into());
            cases.push(c);
        }
        // arbitrary raw values under typed keys and client info
        for _ in 0..(if thorough { 400 } else { 60 }) {
            let mut c = Case::new("acc", scheme, id, "raw");
            id += 1;
            c.keys = keys.clone();
            c.lines.push("init kind=build calls=- signer=0".into());
            for _ in 0..4 {
                let k: &[u8] = *rng.pick(&[
                    &b"ip"[..],
                    b"ip6",
                    b"tcp",
                    b"udp",
                    b"tcp6",
                    b"udp6",
                    b"client",
                    b"id",
                    b"x",
                ]);
                let raw = match rng.below(8) {
                    6 | 7 => {
                        // lists of 0..=5 byte strings (client_info reports 2 and 3 only); the strings
                        // may be non-ASCII or ill-formed UTF-8 (from_utf8_lossy applies)
                        let n = rng.below(6);
                        let mut p = Vec::new();
                        for _ in 0..n {
                            let w = match rng.below(4) {
                                0 => "é😀".as_bytes().to_vec(),
                                1 => {
                                    let l = rng.below(6) as usize;
                                    rng.bytes(l)
                                }
                                _ => ascii_word(rng),
                            };
                            p.extend_from_slice(&rlp_bytes(&w));
                        }
                        rlp_list(&p)
                    }
                    // a value that is itself the encoding of something of the right type, wrapped once more
                    0 => {
                        let inner = match rng.below(4) {
                            0 => rlp_list(&[rlp_bytes(b"a"), rlp_bytes(b"b")].concat()),
                            1 => rlp_uint(rand_port(rng)),
                            2 => rlp_bytes(&rand_ip4(rng)),
                            _ => rlp_bytes(b"v4"),
                        };
                        if rng.chance(1, 2) { rlp_bytes(&inner) } else { rlp_list(&inner) }
                    }
                    1 => rlp_list(
                        &[
                            rlp_bytes(&ascii_word(rng)),
                            rlp_bytes(&ascii_word(rng)),
                            rlp_bytes(&ascii_word(rng)),
                        ]
                        .concat(),
                    ),
                    2 => rlp_list(&rlp_bytes(&ascii_word(rng))),
                    3 => rlp_list(&[rlp_bytes(b"a"), rlp_list(&rlp_bytes(b"b"))].concat()),
                    _ => rand_raw(rng),
                };
                c.lines.push(with_signer(
                    &format!("step op=insert_raw key={} raw={}", hx(k), hx(&raw)),
                    0,
                    false,
                ));
            }
            c.lines.push(with_signer(
                &format!(
                    "step op=set_client_info name={} ver={} build={}",
                    hx(&ascii_word(rng)),
                    hx(&ascii_word(rng)),
                    if rng.chance(1, 2) { "none".into() } else { hx(&ascii_word(rng)) }
                ),
                0,
                false,
            ));
            c.lines.push(with_signer(&format!("step op=set_ip ip={}", hx(&rand_ip4(rng))), 0, false));
            c.lines.push(with_signer(&format!("step op=set_ip ip={}", hx(&rand_ip6(rng))), 0, false));
            c.lines.push(with_signer(&format!("step op=set_ip ip={}", hx(&rand_ip4(rng))), 0, false));
            cases.push(c);
        }
    }
}

/// the `eq` family: pairs of related records
pub fn gen_eq(schemes: &[&str], rng: &mut Rng, thorough: bool, cases: &mut Vec<Case>) {
    let mut id = 0u64;
    for scheme in schemes {
        // two valid records with the same sequence number, public key AND signature but different
        // pairs: possible under the neutral-element ed25519 key, whose signature R = identity, s = 0
        // verifies for every content
        if *scheme == "ed" || *scheme == "comb" {
            let mut ident = vec![0u8; 32];
            ident[0] = 1;
            let mut sig = vec![0u8; 64];
            sig[0] = 1;
            let rec = |udp: u64, extra: bool| {
                let mut pairs = vec![
                    (b"id".to_vec(), rlp_bytes(b"v4")),
                    (b"ed25519".to_vec(), rlp_bytes(&ident)),
                    (b"udp".to_vec(), rlp_uint(udp)),
                ];
                if extra {
                    pairs.push((b"zz".to_vec(), rlp_bytes(b"x")));
                }
                let items = crate::gen_dec::sorted_items(pairs);
                let mut content = rlp_uint(9);
                for (k, v) in &items {
                    content.extend_from_slice(k);
                    content.extend_from_slice(v);
                }
                let mut p = rlp_bytes(&sig);
                p.extend_from_slice(&content);
                rlp_list(&p)
            };
            let (keys, _) = case_keys(scheme, rng);
            // (and the same pairs under another sequence number)
            let rec_seq = |port: u64, seq: u64| -> Vec<u8> {
                let base = rec(port, false);
                // the sequence number is the second item of the list: rebuild with another one
                let (_, hl, pl) = rlp_peek(&base).unwrap();
                let payload = &base[hl..hl + pl];
                let (_, sh, sp) = rlp_peek(payload).unwrap();
                let after_sig = &payload[sh + sp..];
                let (_, qh, qp) = rlp_peek(after_sig).unwrap();
                let mut p = payload[..sh + sp].to_vec();
                p.extend_from_slice(&rlp_uint(seq));
                p.extend_from_slice(&after_sig[qh + qp..]);
                rlp_list(&p)
            };
            for (a, b) in [(rec(30303, false), rec(30304, false)), (rec(1, false), rec(1, true)), (rec(5, true), rec(5, true)),
                           (rec_seq(7, 9), rec_seq(7, 10)), (rec_seq(7, 0), rec_seq(7, 1)), (rec_seq(8, 255), rec_seq(8, 256))] {
                let mut c = Case::new("eq", scheme, id, "same-signature-different-content");
                id += 1;
                c.keys = keys.clone();
                c.lines.push(format!("init kind=decode buf={}", hx(&a)));
                c.lines.push("step op=snap slot=a".into());
                c.lines.push(format!("step op=setcur buf={}", hx(&b)));
                c.lines.push("step op=cmp slot=a".into());
                cases.push(c);
            }
        }
        // the same node's record with its key stored compressed and stored uncompressed (both signed
        // by the independent signer): same seq and other pairs, different pairs all the same
        {
            let (keys, _) = case_keys(scheme, rng);
            let k0 = ind_of(scheme, &keys[0]);
            if k0.kind == Kind::Secp {
                let un = {
                    let k = enr::k256::ecdsa::SigningKey::from_slice(&k0.sk).unwrap();
                    k.verifying_key().to_encoded_point(false).as_bytes().to_vec()
                };
                let a = crate::gen_dec::Spec::new(7, vec![(b"udp".to_vec(), rlp_uint(9))], k0.clone());
                let mut b = a.clone();
                for it in b.items.iter_mut() {
                    if it.0 == rlp_bytes(b"secp256k1") {
                        it.1 = rlp_bytes(&un);
                    }
                }
                let mut c = Case::new("eq", scheme, id, "compressed-vs-uncompressed-key");
                id += 1;
                c.keys = keys.clone();
                c.lines.push(format!("init kind=decode buf={}", hx(&a.encode(false))));
                c.lines.push("step op=snap slot=a".into());
                c.lines.push(format!("step op=setcur buf={}", hx(&b.encode(false))));
                c.lines.push("step op=cmp slot=a".into());
                c.lines.push("step op=snap slot=b".into());
                c.lines.push(format!("step op=setcur buf={}", hx(&a.encode(true))));
                c.lines.push("step op=cmp slot=b".into());
                cases.push(c);
            }
        }
        for _ in 0..(if thorough { 200 } else { 40 }) {
            let (keys, _) = case_keys(scheme, rng);
            let mut c = Case::new("eq", scheme, id, "pairs");
            id += 1;
            c.keys = keys;
            c.lines.push(format!(
                "init kind=build calls=seq:{};ip4:{};tcp4:{} signer=0",
                rng.range(1, 1000),
                hx(&rand_ip4(rng)),
                rand_port(rng)
            ));
            c.lines.push("step op=snap slot=a".into());
            c.lines.push("step op=cmp slot=a".into()); // clone
            c.lines.push("step op=redecode".into());
            c.lines.push("step op=cmp slot=a".into()); // re-decoding
            // re-signing of the same content (same seq): set_seq to the current value
            c.lines.push(with_signer("step op=set_seq seq=7", 0, false));
            c.lines.push("step op=snap slot=b".into());
            c.lines.push(with_signer("step op=set_seq seq=7", 0, false));
            c.lines.push("step op=cmp slot=b".into());
            // one-field edits
            c.lines.push(with_signer(&format!("step op=set_tcp4 port={}", rand_port(rng)), 0, false));
            c.lines.push("step op=cmp slot=b".into());
            c.lines.push(with_signer("step op=set_seq seq=7", 0, false));
            c.lines.push("step op=cmp slot=b".into()); // same seq, different content
            c.lines.push("step op=cmp slot=a".into());
            // contents that are a proper prefix of one another at the same seq: a key that sorts
            // last is added / removed, the sequence number is brought back level
            c.lines.push("step op=load slot=b".into());
            c.lines.push(with_signer("step op=insert key=7a7a7a7a vt=bytes val=01", 0, false));
            c.lines.push(with_signer("step op=set_seq seq=7", 0, false));
            c.lines.push("step op=cmp slot=b".into());
            c.lines.push("step op=snap slot=d".into());
            c.lines.push(with_signer("step op=insert key=7a7a7a7a7a vt=bytes val=02", 0, false));
            c.lines.push(with_signer("step op=set_seq seq=7", 0, false));
            c.lines.push("step op=cmp slot=d".into());
            c.lines.push("step op=cmp slot=b".into());
            // a key in the middle
            c.lines.push("step op=load slot=b".into());
            c.lines.push(with_signer("step op=insert key=6a vt=bytes val=03", 0, false));
            c.lines.push(with_signer("step op=set_seq seq=7", 0, false));
            c.lines.push("step op=cmp slot=b".into());
            // the boundary between a key and its value moves: "a" -> "xy" becomes 61 82 78 -> "y";
            // the flat byte streams of the two contents are identical, the pairs are not
            c.lines.push("step op=load slot=b".into());
            c.lines.push(with_signer("step op=insert_raw key=61 raw=827879", 0, false));
            c.lines.push(with_signer("step op=set_seq seq=7", 0, false));
            c.lines.push("step op=snap slot=e".into());
            c.lines.push(with_signer("step op=remove_insert rm=61 ins=618278:79", 0, false));
            c.lines.push(with_signer("step op=set_seq seq=7", 0, false));
            c.lines.push("step op=cmp slot=e".into());
            // two pairs whose concatenation is the same: ("a"->"b", "cd"->v) vs ("ab"->"c", "d"->v)
            c.lines.push("step op=load slot=b".into());
            c.lines.push(with_signer("step op=remove_insert rm=- ins=61:62,6364:0102", 0, false));
            c.lines.push(with_signer("step op=set_seq seq=7", 0, false));
            c.lines.push("step op=snap slot=f".into());
            c.lines.push("step op=load slot=b".into());
            c.lines.push(with_signer("step op=remove_insert rm=- ins=6162:63,64:0102", 0, false));
            c.lines.push(with_signer("step op=set_seq seq=7", 0, false));
            c.lines.push("step op=cmp slot=f".into());
            // re-keying
            c.lines.push("step op=load slot=b".into());
            c.lines.push(with_signer("step op=set_seq seq=7", 1, false));
            c.lines.push("step op=cmp slot=b".into());
            c.lines.push("step op=snap slot=c".into());
            let vp = valid_pubs(rng);
            c.lines.push(with_signer(&rand_step(rng, &vp), 1, false));
            c.lines.push("step op=cmp slot=c".into());
            c.lines.push("step op=cmp slot=a".into());
            // copying one record over another that belongs to a different node (every route of the
            // standard library), then comparing and updating the copy
            let hows = ["clone_from", "vec_clone_from", "clone_from_slice", "clone_into", "to_owned"];
            for (i, how) in hows.iter().enumerate() {
                let (from, other) = if i % 2 == 0 { ("a", "c") } else { ("c", "a") };
                c.lines.push(format!("step op=load slot={from} how={how}"));
                c.lines.push(format!("step op=cmp slot={from}"));
                c.lines.push(format!("step op=cmp slot={other}"));
                c.lines.push("step op=redecode".into());
                c.lines.push(format!("step op=cmp slot={from}"));
            }
            c.lines.push(with_signer("step op=set_udp4 port=9", 0, false));
            c.lines.push("step op=cmp slot=a".into());
            cases.push(c);
        }
    }
}

/// a list nested `depth` levels deep around an empty list, built in linear time
pub fn deep_list(depth: usize) -> Vec<u8> {
    let mut hdrs: Vec<Vec<u8>> = Vec::with_capacity(depth);
    let mut len = 1usize; // the innermost c0
    for _ in 0..depth {
        let h = rlp_header(true, len);
        len += h.len();
        hdrs.push(h);
    }
    let mut out = Vec::with_capacity(len);
    for h in hdrs.iter().rev() {
        out.extend_from_slice(h);
    }
    out.push(0xc0);
    out
}

/// the `deep` family: values and buffers whose *shape* (not size limit) stresses recursion:
/// extremely deeply nested lists handed to the raw entry points, the builder and the decoders.
/// A process abort (stack overflow) while executing one of these cases is detected by the caller.
pub fn gen_deep(schemes: &[&str], rng: &mut Rng, thorough: bool, cases: &mut Vec<Case>) {
    let mut id = 0u64;
    let depths: &[usize] = if thorough { &[60, 70, 1000, 100_000, 1_000_000] } else { &[60, 70, 1000, 200_000] };
    for scheme in schemes {
        let (keys, _) = case_keys(scheme, rng);
        for &d in depths {
            let v = deep_list(d);
            let mut c = Case::new("deep", scheme, id, &format!("insert-depth{d}"));
            id += 1;
            c.keys = keys.clone();
            c.lines.push("init kind=build calls=- signer=0".into());
            c.lines.push(with_signer(&format!("step op=insert_raw key=6e657374 raw={}", hx(&v)), 0, false));
            c.lines.push(with_signer(&format!("step op=insert_raw key=6970 raw={}", hx(&v)), 0, false));
            c.lines.push(with_signer(&format!("step op=remove_insert rm=- ins=6e657374:{}", hx(&v[..v.len().min(4000)])), 0, false));
            cases.push(c);
            let mut c = Case::new("deep", scheme, id, &format!("build-depth{d}"));
            id += 1;
            c.keys = keys.clone();
            c.lines.push(format!("init kind=build calls=raw:6e657374:{} signer=0", hx(&v)));
            cases.push(c);
            // a buffer that starts like a record and is deeply nested
            let mut c = Case::new("deep", scheme, id, &format!("decode-depth{d}"));
            id += 1;
            c.keys = keys.clone();
            c.lines.push(format!("init kind=decode buf={}", hx(&v)));
            cases.push(c);
        }
        // within the size limit: a 250-byte value nested as deep as it can be
        let v = deep_list(120);
        let mut c = Case::new("deep", scheme, id, "insert-depth120-fits");
        id += 1;
        c.keys = keys.clone();
        c.lines.push("init kind=build calls=- signer=0".into());
        c.lines.push(with_signer(&format!("step op=insert_raw key=6e657374 raw={}", hx(&v)), 0, false));
        c.lines.push("step op=redecode".into());
        cases.push(c);
    }
}
