#!/bin/sh
# usage: tools_regress_controls.sh : every control under seeded/harmless applied in a scratch lane
# (/tmp/ctl), the C03 quick check (all families) run on it; no property predicate of ANY property
# and no model/implementation disagreement may appear.  Result: /tmp/ctl_result.txt
L=/tmp/ctl
rm -rf $L; mkdir -p $L; git -C /repo worktree add --detach $L/repo HEAD -f >/dev/null 2>&1 || exit 2
rsync -a --exclude target /verif/harness/ $L/harness/
sed -i "s#path = \"/repo\"#path = \"$L/repo\"#" $L/harness/Cargo.toml
: > $L/result.txt
for d in /verif/seeded/harmless/*/; do
  [ -f $d/patch.diff ] || continue
  git -C $L/repo checkout -q -- . ; git -C $L/repo apply $d/patch.diff || { echo "$(basename $d) PATCH-FAILS" >> $L/result.txt; continue; }
  VERIF_ALT=$L VERIF_SKIP_LEAN=1 python3 /verif/check.py C03 --tier quick > $L/log.txt 2>&1; rc=$?
  python3 - "$d" $rc >> $L/result.txt <<'PY'
import json,sys,os
d,rc=sys.argv[1],sys.argv[2]
try:
    c=json.load(open('/tmp/ctl/out/C03/C03.json'))['coverage']
    print(os.path.basename(d.rstrip('/')), 'rc=%s'%rc, 'own=%d other=%d diffs=%d'%(c['property_predicate_failures'],c['other_property_predicate_failures'],c['model_impl_disagreements']))
except Exception as e:
    print(os.path.basename(d.rstrip('/')), 'rc=%s'%rc, 'no-evidence', e)
PY
done
git -C $L/repo checkout -q -- .
cp $L/result.txt /tmp/ctl_result.txt
git -C /repo worktree remove --force $L/repo; rm -rf $L
