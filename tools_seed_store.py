#!/usr/bin/env python3
"""usage: tools_seed_store.py <out-dir> <seed-id> <detected_by> <detection text> [author note]
copies a confirmed seeded change into /verif/seeded/<seed-id>/ and completes its meta.json"""
import json, os, shutil, sys
src, sid, by, text = sys.argv[1:5]
note = sys.argv[5] if len(sys.argv) > 5 else "independent sub-agent: property text and a scratch worktree only"
dst = os.path.join("/verif/seeded", sid)
os.makedirs(dst, exist_ok=True)
for f in ("patch.diff", "seeded_demo.rs"):
    shutil.copy(os.path.join(src, f), os.path.join(dst, f))
m = json.load(open(os.path.join(src, "meta.json")))
m["author"] = note
m["confirmed_by_me"] = ["tools_seed_eval.sh with the flags in \"features\": demo passes without the patch, fails with it; cargo test --offline and --all-features stay green with the patch"]
m["detected_by"] = by
m["detection"] = text
m["ran_checks"] = "tools_seed_check.sh /verif/seeded/%s %s" % (sid, by)
json.dump(m, open(os.path.join(dst, "meta.json"), "w"), indent=1)
print("stored", dst)
