#!/usr/bin/env python3
"""Writes MANIFEST.json from the table below and from which theorem modules exist."""
import json, os
ROOT = os.path.dirname(os.path.abspath(__file__))
TEXT = {
 "C01": ("Theorems (any key type): acceptance implies a signature valid under the record's own key over the payload rebuilt from exactly the reported fields, payload injectivity, rejection of inputs whose signature does not verify; executable verifiers reject wrong lengths, out-of-range r/s, high-S twins and non-canonical Ed25519 s by explicit guards. Tie: dec, stream and hist families (valid records by an independent signer incl. chosen-nonce signatures, re-signed mutants, every class of tamper incl. repeated keys, dangling items and signatures over a suffix) decoded under all key types, by 8 threads at once, through non-JSON deserialisers; the model's own ECDSA/EdDSA/Keccak decides validity.",
         "Unforgeability is outside every theorem; curve/hash mathematics is not proved, only re-implemented and compared."),
 "C02": ("decode_iff_wellformed: for every byte string and key type the model decoder accepts iff the declarative WellFormed predicate holds (canonical framing as equality with the canonical encoding). Tie: dec family with generator-side expectations that are independent of the model.",
         "65-byte SEC1 keys and inner bytes of unknown-key lists are excluded from the verdict as the property says."),
 "C03": ("Every expect/unwrap/slice of the Rust code is an explicit panic outcome in the model; theorems: updates and builder never return panic, accessors of Valid records never panic (lifted to all histories via C05), decoders are total functions accepted by Lean's termination checker. Tie: every library call of every family runs under catch_unwind and a panic is a predicate failure; also concurrent decodes of one buffer, several threads reading one shared record, calls from the destructor of a thread-local of an exiting thread, deeply nested values (process abort detection), and a second build without debug assertions.",
         "Panics inside dependency crates, allocation failure and stack depth are not modelled; partial in that respect."),
 "C04": ("decode_reencode (consumed bytes are reproduced exactly), encode determines the fields, Valid r -> decode(encode r) = r for bytes, text and JSON; with C05 this covers every record handed out. Tie: dec family (re-encoding vs consumed input) and hist/acc families (bytes/text/JSON round trips after every step, model re-decode of the implementation's encoding).",
         "The serde_json string layer (quoting, escapes, \\u sequences, surrogates) is modelled and proved to round-trip; serde_json itself is a dependency, modelled not verified."),
 "C05": ("Invariant by induction over arbitrary histories: build_valid, decode_valid, step_valid, run_valid for any lawful key type and any signing oracle whose answers verify (SigOK); re-keying theorem; builder reuse (build_again_same_key / other_key, build_reused_is_valid); instantiated for the four concrete schemes (run_valid_k256/libsecp/ed/comb) whose lawfulness is proved; monitor soundness (C05_monitor_record_sound, C05_monitor_checkRecord): the per-record predicates the driver evaluates cannot fire on a record that is Valid in the model. Tie: hist/size/acc/eq families for all built-in key types plus a toy scheme with variable-length signatures; SigOK is evaluated on every concrete signature with the model's own crypto.",
         "Scheme laws (pub_inj, key_not_reserved, pub_local) are proved for the toy scheme and for the byte-level models of the four real key types; that the real crates compute those encodings is validated by the tie."),
 "C06": ("step_error_unchanged: for every record, operation and oracle answer (including signer failure and signatures of any length) an error leaves the record equal to the one before. Tie: hist/size families with fault-injecting keys (signer returns an error; signer answers with a signature that does not verify) and the toy scheme, with and without debug assertions; before/after comparison of all fields and the encoding on the implementation.",
         "The model mirrors the clone-and-commit structure of the code; the tie is what detects in-place mutation."),
 "C07": ("step_seq_succ, step_setSeq_exact, step_no_wrap (never Ok at 2^64-1, error kind characterised), u64 round trip. Tie: hist/size/acc/dec from every boundary sequence number, with quiet steps (nothing reads the record's bytes between two updates), with and without debug assertions; the number through bytes and text after every step.", ""),
 "C08": ("Content equations for every mutator and the builder against the sorted association-list model, untouched-keys theorem, return values, error causes; C08_admissible_sound / C08_build_admissible_sound: the set of error kinds the runtime monitor admits contains the error the model step (the model build) returns, for every record, operation, builder and signer outcome. Tie: the model IS the plain sorted map; pairs and return values are compared after every step, error kinds against the admissible set.",
         "Error kinds are compared against the set of causes that actually hold for the call (so a harmless reordering of independent checks raises no alarm); a kind outside that set is reported."),
 "C09": ("size = encoding length (rfl), size <= 300 after build/update/decode, refusal_sound / refusal_complete / refusal_exact (an update that reaches the signer is refused iff the signed result exceeds 300 bytes, any signature length), precedence at seq 2^64-1, builder: refuses everything over 300 and only within the proven slack (build_exceeds_iff). Tie: size family sweeping result sizes across the limit with growing sequence numbers for every mutator and key type, toy scheme for variable signature lengths.", ""),
 "C10": ("nodeId_spec for decoded, built and updated records, accessor agreement, same-key stability, dependence on the public-key entry only. Tie: the expected id is recomputed by the Lean Keccak and curve code from the raw public-key entry of every observed record; ck family derives keys from edge-case scalars.", ""),
 "C11": ("Parsers of the two secp256k1 back-ends proved equal outside 65-byte keys, CombinedKey precedence/dispatch and isolation theorems. Back-end agreement itself is a relation between implementations and is carried by the correspondence: every dec/stream input under all four key types, every record of every history re-decoded under every other key type.",
         "Proof for dispatch/precedence/isolation; differential for back-end agreement."),
 "C12": ("b64 round trip and canonicity, text form, parseText_iff (accepted strings are exactly the text and the text without prefix), foreign characters and trailing bytes rejected; JSON document form and serde_json string layer (parse_json_exact, json_quote_roundtrip, escaped spellings). Tie: txt family (padding, alphabets, ASCII and Unicode whitespace, byte-order marks, prefixes, trailing bits, 1..131072 appended bytes) through from_str and every serde_json route; Display into failing sinks and under width / precision specifications.", ""),
 "C13": ("decode_append / prefix locality in both directions with the same error, advance = item length, decodeMany and decodeList characterised exactly (decode_many_iff, decode_list_spec, decode_many_append). Tie: stream family (suffixes 0..1000 bytes, back-to-back records, Vec<Enr>).", ""),
 "C14": ("Accessor characterisations (port/ip/id/client) against the raw content, u16 round trip for all ports by proof, setter and builder read-back, socket combination, id / client-info strings through the UTF-8 (lossy) model. Tie: acc family (ports through builder/setter/socket setter/decode, 64 presence combinations, arbitrary raw values, special-purpose addresses, strings and keys of every length class and with byte-order marks / control characters), typed builder methods read back, accessors after every re-decode.", ""),
 "C15": ("Equality is structural (eqv_iff_eq), an equivalence, implies equal hash feed, identical pairs and identical encoding unconditionally (since fix 60cb6b7 equality compares the pairs; the legacy definition needed the cryptographic hypotheses SigBinds/HashInj, kept as documentation with the counterexample); clone and re-decode; compare_content_iff by payload injectivity. Tie: eq family (clones, re-decodings, re-signings, one-field edits, re-keyings, proper-prefix contents, key/value boundary shifts, and two valid records with the same signature but different pairs under a small-order ed25519 key).",
         ""),
 "C16": ("parse_iff, ser/deser/debug/display forms and round trips for every 32-byte value and every string. Tie: nid family (all slice lengths 0..130 and public keys / hex text as slices, strings up to 300 digits and 64 KiB, prefixes, case, non-hex, non-ASCII characters that case-map to hex digits, every serde_json route and an escaped spelling).", ""),
 "C17": ("import_iff_valid, export_import, buffer_zeroed / kept on error, public key = independent derivation. Tie: ck family (0, 1, n-1, n, n+1, 2^256-1, random; wrong lengths for ed25519), public keys derived by the Lean curve code.",
         "That d*G is never the identity for 0<d<n is not proved (group theory); validated on every case."),
}
checks, na = [], []
for i in range(1, 18):
    p = f"C{i:02d}"
    if p in open(os.path.join(ROOT, "claimed.txt")).read().split():
        t, note = TEXT[p]
        checks.append({
            "property_id": p,
            "quick_cmd": f"python3 check.py {p} --tier quick",
            "thorough_cmd": f"python3 check.py {p} --tier thorough",
            "evidence_file": f"/verif/evidence/{p}.json",
            "replay_cmd_template": f"python3 check.py {p} --replay {{path}}",
            "engine": "lean4-model+correspondence",
            "level_claimed": {"category": "proof", "text": t, "design_ref": f"DESIGN.md section 6 ({p})"},
            "level_note": ("Trusted: Lean 4.33 kernel, axioms within {propext, Classical.choice, Quot.sound} (audited on every run), the hand-written model and its correspondence check (differential, not proof), dependency-crate behaviour modelled not verified. " + note).strip(),
            "technique": "Lean 4 theorem about a hand-written executable model + differential correspondence check against /repo",
        })
    else:
        na.append({"property_id": p, "reason": "theorem module EnrVerif/Props/%s.lean is still being written; the correspondence machinery already covers it but the property is not claimed until its theorems are checked in" % p})
m = {
    "version": 1,
    "setup_cmd": "./setup.sh",
    "hooks": {
        "guard": "enr_verif",
        "enable": "cargo feature enr_verif of /repo (the harness depends on enr with features serde,k256,ed25519,rust-secp256k1,enr_verif)",
        "baseline_off_cmd": "cd /repo && cargo test --workspace --no-fail-fast --offline",
        "source_commits": ["502611a"],
        "add_only": True,
    },
    "engines": [{"name": "lean4-model+correspondence", "path": "/verif/check.py",
                 "serves_properties": [c["property_id"] for c in checks],
                 "kind_free_text": "Lean 4 proofs over an executable model (/verif/lean), Rust harness (/verif/harness) driving the real crate, compiled Lean driver replaying traces, property predicates evaluated on implementation observations"}],
    "checks": checks,
    "not_applicable": na,
    "notes": "See DESIGN.md. known_findings.json lists the defects repaired by fix: commits in /repo.",
}
json.dump(m, open(os.path.join(ROOT, "MANIFEST.json"), "w"), indent=1)
print("claimed:", [c["property_id"] for c in checks], "not yet:", [n["property_id"] for n in na])
