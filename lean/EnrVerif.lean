-- This module serves as the root of the `EnrVerif` library.
-- Import modules here that should be built as part of the library.
import EnrVerif.Basic
