-- Root of the library: the executable model, the driver, the lemma libraries (through the
-- property modules that import them) and one theorem module per property.
import EnrVerif.Model.Driver
import EnrVerif.Model.Combined
import EnrVerif.Model.Stream
import EnrVerif.Props.All
