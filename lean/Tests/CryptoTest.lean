/-
  Known-answer tests for the crypto oracle.

    cd /verif/lean && lake env lean --run Tests/CryptoTest.lean

  Prints PASS/FAIL per vector; exit code 0 iff everything passed.
-/
import EnrVerif.Model.Keccak
import EnrVerif.Model.Sha512
import EnrVerif.Model.Secp256k1
import EnrVerif.Model.Ed25519

open EnrVerif

namespace CryptoTest

def hexVal (c : Char) : Option Nat :=
  if '0' ≤ c ∧ c ≤ '9' then some (c.toNat - '0'.toNat)
  else if 'a' ≤ c ∧ c ≤ 'f' then some (c.toNat - 'a'.toNat + 10)
  else if 'A' ≤ c ∧ c ≤ 'F' then some (c.toNat - 'A'.toNat + 10)
  else none

def unhexAux : List Char → Bytes → Option Bytes
  | [], acc => some acc.reverse
  | [_], _ => none
  | a :: b :: rest, acc =>
    match hexVal a, hexVal b with
    | some x, some y => unhexAux rest (UInt8.ofNat (16 * x + y) :: acc)
    | _, _ => none

/-- Hex → bytes; malformed hex gives `[]` (and the test using it will fail). -/
def unhex (s : String) : Bytes := (unhexAux s.toList []).getD []

def hex (b : Bytes) : String := String.ofList ((hexLower b).map (fun c => Char.ofNat c.toNat))

def beq (a b : Bytes) : Bool := a.map UInt8.toNat == b.map UInt8.toNat

/-- `i % 251` pattern message of a given length. -/
def pattern (len : Nat) : Bytes := (List.range len).map (fun i => UInt8.ofNat (i % 251))

def check (failures : IO.Ref Nat) (name : String) (ok : Bool) : IO Unit := do
  if ok then IO.println s!"PASS {name}"
  else
    IO.println s!"FAIL {name}"
    failures.modify (· + 1)

def flipBit (b : Bytes) (i : Nat) : Bytes :=
  b.mapIdx (fun j x => if j = i / 8 then x ^^^ (1 <<< UInt8.ofNat (i % 8)) else x)

structure EdVec where
  sk : String
  pk : String
  msg : String
  sig : String

def rfc8032 : List EdVec := [
  { sk := "9d61b19deffd5a60ba844af492ec2cc44449c5697b326919703bac031cae7f60",
    pk := "d75a980182b10ab7d54bfed3c964073a0ee172f3daa62325af021a68f707511a",
    msg := "",
    sig := "e5564300c360ac729086e2cc806e828a84877f1eb8e5d974d873e06522490155" ++
           "5fb8821590a33bacc61e39701cf9b46bd25bf5f0595bbe24655141438e7a100b" },
  { sk := "4ccd089b28ff96da9db6c346ec114e0f5b8a319f35aba624da8cf6ed4fb8a6fb",
    pk := "3d4017c3e843895a92b70aa74d1b7ebc9c982ccf2ec4968cc0cd55f12af4660c",
    msg := "72",
    sig := "92a009a9f0d4cab8720e820b5f642540a2b27b5416503f8fb3762223ebdb69da" ++
           "085ac1e43e15996e458f3613d0f11d8c387b2eaeb4302aeeb00d291612bb0c00" },
  { sk := "c5aa8df43f9f837bedb7442f31dcb7b166d38535076f094b85ce3a2e0b4458f7",
    pk := "fc51cd8e6218a1a38da47ed00230f0580816ed13ba3303ac5deb911548908025",
    msg := "af82",
    sig := "6291d657deec24024827e69c3abe01a30ce548a284743a445e3680d7db5ac3ac" ++
           "18ff9b538d16f290ae67f760984dc6594a7c15e9716ed28dc027beceea1ec40a" }]

def run : IO UInt32 := do
  let failures ← IO.mkRef 0
  let t0 ← IO.monoMsNow

  -- ------------------------------------------------------------------ Keccak-256
  let kk (name : String) (m : Bytes) (want : String) : IO Unit :=
    check failures s!"keccak256 {name}" (beq (keccak256 m) (unhex want))
  kk "\"\"" [] "c5d2460186f7233c927e7db2dcc703c0e500b653ca82273b7bfad8045d85a470"
  kk "\"abc\"" (ascii "abc") "4e03657aea45a94fc7d47ba826c8d667c0d1e6e33a64a036ec44f58fa12d6c45"
  -- expected values below come from the Rust `sha3` crate (Keccak256) on the message `i % 251`
  kk "135-byte pattern" (pattern 135) "cbdfd9dee5faad3818d6b06f95a219fd290b0e1706f6a82e5a595b9ce9faca62"
  kk "136-byte pattern" (pattern 136) "7ce759f1ab7f9ce437719970c26b0a66ff11fe3e38e17df89cf5d29c7d7f807e"
  kk "137-byte pattern" (pattern 137) "ac73d4fae68b8453f764007c1a20ce95994187861f0c3227a3a8e99a73a3b1db"
  kk "200-byte pattern" (pattern 200) "bfb0aa97863e797943cf7c33bb7e880bb4543f3d2703c0923c6901c2af57b890"

  -- ------------------------------------------------------------------ SHA-512
  let sh (name : String) (m : Bytes) (want : String) : IO Unit :=
    check failures s!"sha512 {name}" (beq (sha512 m) (unhex want))
  sh "\"\"" [] ("cf83e1357eefb8bdf1542850d66d8007d620e4050b5715dc83f4a921d36ce9ce" ++
                "47d0d13c5d85f2b0ff8318d2877eec2f63b931bd47417a81a538327af927da3e")
  sh "\"abc\"" (ascii "abc") ("ddaf35a193617abacc417349ae20413112e6fa4e89a97ea20a9eeee64b55d39a" ++
                              "2192992a274fc1a836ba3c23a3feebbd454d4423643ce80e2a9ac94fa54ca49f")
  -- expected values below come from python3 hashlib on the message `i % 251`
  sh "111-byte pattern" (pattern 111) ("a1a111449b198d9b1f538bad7f3fc1022b3a5b1a5e90a0bc860de8512746cbc3" ++
                                       "1599e6c834de3a3235327af0b51ff57bf7acf1974a73014d9c3953812edc7c8d")
  sh "112-byte pattern" (pattern 112) ("c5fbd731d19d2ae1180f001be72c2c1aaba1d7b094b3748880e24593b8e117a7" ++
                                       "50e11c1bd867cc2f96dace8c8b74abd2d5c4f236be444e77d30d1916174070b9")
  sh "128-byte pattern" (pattern 128) ("1dffd5e3adb71d45d2245939665521ae001a317a03720a45732ba1900ca3b835" ++
                                       "1fc5c9b4ca513eba6f80bc7b1d1fdad4abd13491cb824d61b08d8c0e1561b3f7")
  sh "200-byte pattern" (pattern 200) ("986058e9895e2c2ab8f9e8cbdf801db12a44842a56a91d5a4e87b1fc98b29372" ++
                                       "2c4664142e42c3c551ff898646268cd92b84ed230b8c94bed7798d4f27cd7465")

  -- ------------------------------------------------------------------ secp256k1 (EIP-778 example)
  let sk := unhex "b71c71a67e1177ad4e901695e1b4b9ee17ae16c6668d313eac2f96dbcda3f291"
  let pkHex := "03ca634cae0d49acb401d8a4c6b6fe8c55b70d115bf400769cc1400f3258cd3138"
  let sig := unhex ("7098ad865b00a582051940cb9cf36836572411a47278783077011599ed5cd16b" ++
                    "76f2635f4e234738f30813a89eb9137e3e3df5266e3a1f11df72ecf1145ccb9c")
  let sigHighS := unhex ("7098ad865b00a582051940cb9cf36836572411a47278783077011599ed5cd16b" ++
                         "890d9ca0b1dcb8c70cf7ec576146ec807c70e7c0410e8129e05f719bbbd975a5")
  -- RLP list [seq=1, "id","v4","ip",7f000001,"secp256k1",<pubkey>,"udp",765f]: the example record with the
  -- signature item removed and the list header recomputed (0x42 = 66 payload bytes)
  let content := unhex ("f84201826964827634826970847f00000189736563703235366b31a103ca634cae" ++
                        "0d49acb401d8a4c6b6fe8c55b70d115bf400769cc1400f3258cd31388375647082765f")
  check failures "secp generator on curve" (Secp.onCurve Secp.G)
  check failures "secp n·G = identity" ((Secp.scalarMulJac (Secp.n - 1) Secp.G).addPt Secp.G).isInfinity
  match Secp.secretToPub sk with
  | none => check failures "secp EIP-778 secret → public" false
  | some P =>
    check failures "secp EIP-778 secret → compressed public" (beq (Secp.compress P) (unhex pkHex))
    check failures "secp EIP-778 public on curve" (Secp.onCurve P)
    check failures "secp EIP-778 decodePubK256 (compressed) round trip"
      (Secp.decodePubK256 (Secp.compress P) == some P)
    check failures "secp EIP-778 decodePubLibsecp (compressed) round trip"
      (Secp.decodePubLibsecp (Secp.compress P) == some P)
    check failures "secp EIP-778 decodePubK256 (uncompressed) round trip"
      (Secp.decodePubK256 (Secp.uncompressed P) == some P)
    check failures "secp EIP-778 decodePubLibsecp (uncompressed) round trip"
      (Secp.decodePubLibsecp (Secp.uncompressed P) == some P)
    check failures "secp EIP-778 node id = keccak256(x‖y)"
      (beq (keccak256 (Secp.xy P))
        (unhex "a448f24c6d18e575453db13171562b71999873db5b286df957af199ec94617f7"))
    check failures "secp EIP-778 content length" (content.length == 68)
    check failures "secp EIP-778 record signature verifies" (Secp.verifyV4 P content sig)
    check failures "secp EIP-778 high-S twin rejected" (!Secp.verifyV4 P content sigHighS)
    check failures "secp EIP-778 high-S twin satisfies the bare ECDSA equation"
      (Secp.ecdsaCore P (beToNat (keccak256 content)) (beToNat (sigHighS.take 32))
        (beToNat (sigHighS.drop 32)))
    check failures "secp EIP-778 flipped signature bit rejected" (!Secp.verifyV4 P content (flipBit sig 7))
    check failures "secp EIP-778 altered content rejected" (!Secp.verifyV4 P (content ++ [0]) sig)
    check failures "secp EIP-778 63-byte signature rejected" (!Secp.verifyV4 P content (sig.take 63))
    check failures "secp EIP-778 65-byte signature rejected" (!Secp.verifyV4 P content (sig ++ [0]))
    check failures "secp r = 0 rejected"
      (!Secp.verifyV4 P content (natToBeFixed 32 0 ++ sig.drop 32))
    check failures "secp s = 0 rejected"
      (!Secp.verifyV4 P content (sig.take 32 ++ natToBeFixed 32 0))
    check failures "secp r = n rejected"
      (!Secp.verifyV4 P content (natToBeFixed 32 Secp.n ++ sig.drop 32))
    check failures "secp s = n rejected"
      (!Secp.verifyV4 P content (sig.take 32 ++ natToBeFixed 32 Secp.n))
  check failures "secp secret 0 rejected" (Secp.secretToPub (natToBeFixed 32 0) == none)
  check failures "secp secret n rejected" (Secp.secretToPub (natToBeFixed 32 Secp.n) == none)
  check failures "secp secret n-1 accepted" ((Secp.secretToPub (natToBeFixed 32 (Secp.n - 1))).isSome)
  check failures "secp 31-byte secret rejected" (Secp.secretToPub (natToBeFixed 31 5) == none)
  check failures "secp tag 05 (compact): k256 accepts, libsecp rejects"
    ((Secp.decodePubK256 (0x05 :: natToBeFixed 32 Secp.gx)).isSome
      && (Secp.decodePubLibsecp (0x05 :: natToBeFixed 32 Secp.gx)).isNone)
  check failures "secp tag 06 (hybrid even): libsecp accepts, k256 rejects"
    ((Secp.decodePubLibsecp (0x06 :: Secp.xy Secp.G)) == some Secp.G
      && (Secp.decodePubK256 (0x06 :: Secp.xy Secp.G)).isNone)
  check failures "secp tag 07 with even y rejected by both"
    ((Secp.decodePubLibsecp (0x07 :: Secp.xy Secp.G)).isNone
      && (Secp.decodePubK256 (0x07 :: Secp.xy Secp.G)).isNone)
  check failures "secp x = p rejected by both"
    ((Secp.decodePubLibsecp (0x02 :: natToBeFixed 32 Secp.p)).isNone
      && (Secp.decodePubK256 (0x02 :: natToBeFixed 32 Secp.p)).isNone)
  check failures "secp identity encoding 00 rejected by both"
    ((Secp.decodePubLibsecp [0]).isNone && (Secp.decodePubK256 [0]).isNone)

  -- ------------------------------------------------------------------ Ed25519 (RFC 8032 §7.1, tests 1–3)
  check failures "ed25519 base point on curve" (Ed.onCurve Ed.B)
  check failures "ed25519 ℓ·B = identity" (beq (Ed.encodePt (Ed.scalarMul Ed.ℓ Ed.B).toPt) (1 :: List.replicate 31 0))
  let mut i := 1
  for v in rfc8032 do
    let pk := unhex v.pk
    let msg := unhex v.msg
    let sg := unhex v.sig
    check failures s!"ed25519 RFC8032 test {i} secret → public"
      (match Ed.secretToPubBytes (unhex v.sk) with | some b => beq b pk | none => false)
    match Ed.decodePub pk with
    | none => check failures s!"ed25519 RFC8032 test {i} public key decodes" false
    | some A =>
      check failures s!"ed25519 RFC8032 test {i} pubBytes / encodePt round trip"
        (beq (Ed.pubBytes A) pk && beq (Ed.encodePt A.pt) pk && Ed.onCurve A.pt)
      check failures s!"ed25519 RFC8032 test {i} signature verifies" (Ed.verify A msg sg)
      check failures s!"ed25519 RFC8032 test {i} flipped R bit fails" (!Ed.verify A msg (flipBit sg 3))
      check failures s!"ed25519 RFC8032 test {i} flipped s bit fails" (!Ed.verify A msg (flipBit sg 300))
      check failures s!"ed25519 RFC8032 test {i} altered message fails" (!Ed.verify A (msg ++ [0]) sg)
      check failures s!"ed25519 RFC8032 test {i} s + ℓ fails"
        (!Ed.verify A msg (sg.take 32 ++ Ed.natToLeFixed 32 (Ed.leToNat (sg.drop 32) + Ed.ℓ)))
      check failures s!"ed25519 RFC8032 test {i} 63-byte signature fails" (!Ed.verify A msg (sg.take 63))
    i := i + 1
  check failures "ed25519 31-byte secret rejected" (Ed.secretToPubBytes (List.replicate 31 1) == none)
  check failures "ed25519 33-byte public key rejected" (Ed.decodePub (List.replicate 33 1) == none)
  -- dalek quirks
  check failures "ed25519 identity with sign bit set is accepted (dalek quirk)"
    ((Ed.decodePub (1 :: List.replicate 30 0 ++ [0x80])).isSome)
  check failures "ed25519 non-canonical y = p+1 is accepted and keeps its bytes (dalek quirk)"
    (match Ed.decodePub (0xee :: List.replicate 30 0xff ++ [0x7f]) with
     | some A => A.pt == ⟨0, 1⟩ && beq (Ed.pubBytes A) (0xee :: List.replicate 30 0xff ++ [0x7f])
     | none => false)
  check failures "ed25519 y = 2 (not on curve) rejected" ((Ed.decodePub (2 :: List.replicate 31 0)).isNone)

  let t1 ← IO.monoMsNow
  let f ← failures.get
  IO.println s!"CryptoTest: {if f == 0 then "ALL PASS" else s!"{f} FAILED"} ({t1 - t0} ms)"
  return (if f == 0 then 0 else 1)

end CryptoTest

def main : IO UInt32 := CryptoTest.run
