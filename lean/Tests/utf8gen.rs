// Generator of `Tests/utf8_vectors.txt`: reference behaviour of Rust's UTF-8 validation and lossy
// conversion, for the cross-check `Tests/Utf8Vectors.lean` of the Lean model `EnrVerif/Model/Utf8.lean`.
//
//   rustc -O utf8gen.rs -o utf8gen && ./utf8gen > utf8_vectors.txt
//
// One line per input:   <hex input|_> <hex of String::from_utf8_lossy(input) bytes|_> <1 if from_utf8 is Ok, else 0>
// Inputs: the empty string; all 1-, 2-byte strings over INTERESTING; all 3-byte strings over SMALL;
// all 4-byte strings  lead x second x third x fourth  over the sets below; pseudo-random strings of
// length <= 12 (three distributions: uniform bytes, bytes of INTERESTING, and a mix of well-formed
// scalar values with stray bytes / truncations).  Deterministic (fixed-seed xorshift64*).

use std::collections::BTreeSet;

const INTERESTING: [u8; 42] = [
    0x00, 0x41, 0x7f, 0x80, 0x8f, 0x90, 0x9f, 0xa0, 0xbf, 0xc0, 0xc1, 0xc2, 0xdf, 0xe0, 0xe1, 0xec,
    0xed, 0xee, 0xef, 0xf0, 0xf1, 0xf3, 0xf4, 0xf5, 0xf7, 0xf8, 0xfb, 0xfc, 0xfd, 0xfe, 0xff, 0x0a,
    0x20, 0x7e, 0x81, 0xbe, 0xbd, 0xc3, 0xd0, 0xe2, 0xf2, 0xa1,
];
const SMALL: [u8; 13] = [0x41, 0x80, 0x8f, 0x90, 0x9f, 0xa0, 0xbf, 0xc2, 0xe0, 0xed, 0xef, 0xf0, 0xf4];
const LEAD4: [u8; 8] = [0xe0, 0xed, 0xef, 0xf0, 0xf1, 0xf3, 0xf4, 0xf5];
const SECOND4: [u8; 8] = [0x7f, 0x80, 0x8f, 0x90, 0x9f, 0xa0, 0xbf, 0xc0];
const TAIL4: [u8; 5] = [0x41, 0x80, 0xbf, 0xc2, 0xf0];

struct Rng(u64);
impl Rng {
    fn next(&mut self) -> u64 {
        let mut x = self.0;
        x ^= x >> 12;
        x ^= x << 25;
        x ^= x >> 27;
        self.0 = x;
        x.wrapping_mul(0x2545F4914F6CDD1D)
    }
    fn below(&mut self, n: u64) -> u64 {
        (self.next() >> 11) % n
    }
}

fn hex(b: &[u8]) -> String {
    if b.is_empty() {
        return "_".to_string();
    }
    b.iter().map(|x| format!("{:02x}", x)).collect()
}

fn scalar(rng: &mut Rng) -> char {
    // boundary-heavy choice of scalar values
    const EDGES: [u32; 16] = [
        0x00, 0x7f, 0x80, 0x7ff, 0x800, 0xfff, 0x1000, 0xd7ff, 0xe000, 0xfffd, 0xffff, 0x10000,
        0x3ffff, 0x40000, 0xfffff, 0x10ffff,
    ];
    loop {
        let v = match rng.below(3) {
            0 => EDGES[rng.below(16) as usize],
            1 => rng.below(0x110000) as u32,
            _ => rng.below(0x800) as u32,
        };
        if let Some(c) = char::from_u32(v) {
            return c;
        }
    }
}

fn main() {
    let mut inputs: Vec<Vec<u8>> = Vec::new();
    inputs.push(vec![]);
    for &a in INTERESTING.iter() {
        inputs.push(vec![a]);
    }
    for &a in INTERESTING.iter() {
        for &b in INTERESTING.iter() {
            inputs.push(vec![a, b]);
        }
    }
    for &a in SMALL.iter() {
        for &b in SMALL.iter() {
            for &c in SMALL.iter() {
                inputs.push(vec![a, b, c]);
            }
        }
    }
    for &a in LEAD4.iter() {
        for &b in SECOND4.iter() {
            for &c in TAIL4.iter() {
                for &d in TAIL4.iter() {
                    inputs.push(vec![a, b, c, d]);
                }
            }
        }
    }
    let mut rng = Rng(0x9E3779B97F4A7C15);
    for k in 0..1800u64 {
        let mut v: Vec<u8> = Vec::new();
        match k % 3 {
            0 => {
                let n = 1 + rng.below(12);
                for _ in 0..n {
                    v.push(rng.below(256) as u8);
                }
            }
            1 => {
                let n = 3 + rng.below(10);
                for _ in 0..n {
                    v.push(INTERESTING[rng.below(42) as usize]);
                }
            }
            _ => {
                while v.len() < 12 {
                    match rng.below(5) {
                        0 => v.push(INTERESTING[rng.below(42) as usize]),
                        1 => {
                            // truncated scalar value
                            let mut buf = [0u8; 4];
                            let s = scalar(&mut rng).encode_utf8(&mut buf).as_bytes().to_vec();
                            let keep = 1 + rng.below(s.len() as u64) as usize;
                            v.extend_from_slice(&s[..keep]);
                        }
                        _ => {
                            let mut buf = [0u8; 4];
                            v.extend_from_slice(scalar(&mut rng).encode_utf8(&mut buf).as_bytes());
                        }
                    }
                    if rng.below(6) == 0 {
                        break;
                    }
                }
                v.truncate(12);
            }
        }
        inputs.push(v);
    }
    let mut seen: BTreeSet<Vec<u8>> = BTreeSet::new();
    let mut out = String::new();
    for v in inputs {
        if !seen.insert(v.clone()) {
            continue;
        }
        let lossy = String::from_utf8_lossy(&v).to_string();
        let ok = std::str::from_utf8(&v).is_ok();
        out.push_str(&format!("{} {} {}\n", hex(&v), hex(lossy.as_bytes()), if ok { 1 } else { 0 }));
    }
    print!("{}", out);
}
