//! Emits cross-check vectors for the Lean crypto oracle (EnrVerif.Model.{Keccak,Sha512,Secp256k1,Ed25519}).
//!
//! Everything that can go through the `enr` crate's own key traits does (`decode_public`, `encode`,
//! `encode_uncompressed`, `verify_v4`), so the recorded verdicts are those of the code under verification.
//!
//! Line formats (hex fields; `_` = empty byte string, `-` = rejected / None):
//!   hk    <msg> <keccak256>
//!   h5    <msg> <sha512>
//!   pub   <input> <k256 compressed|-> <libsecp compressed|-> <x||y of the accepted point|->
//!   sk    <secret> <k256 compressed pub|-> <libsecp compressed pub|->
//!   ver   <pub33> <msg> <sig> <k256 0|1> <libsecp 0|1>          (verify_v4: keccak256 inside)
//!   verp  <pub33> <digest32> <sig> <k256 0|1> <libsecp 0|1>     (prehash verification)
//!   edsk  <seed> <public bytes|->
//!   edpub <input> <VerifyingKey::to_bytes|->
//!   edver <pub32> <msg> <sig> <0|1>
//! Output is deterministic (fixed-seed PRNG, RFC 6979 / deterministic signing).

use curve25519_dalek::{
    constants::ED25519_BASEPOINT_POINT, edwards::CompressedEdwardsY, scalar::Scalar as EdScalar,
};
use enr::ed25519_dalek as ed;
use enr::k256 as k2;
use enr::secp256k1 as ls;
use enr::{EnrKeyUnambiguous, EnrPublicKey};
use k2::ecdsa::signature::hazmat::{PrehashSigner, PrehashVerifier};
use k2::elliptic_curve::{
    ops::Reduce, point::DecompressPoint, scalar::IsHigh, sec1::ToEncodedPoint, subtle::Choice,
};
use sha2::Sha512;
use sha3::{Digest, Keccak256};

struct Rng(u64);
impl Rng {
    fn next(&mut self) -> u64 {
        self.0 = self.0.wrapping_add(0x9E3779B97F4A7C15);
        let mut z = self.0;
        z = (z ^ (z >> 30)).wrapping_mul(0xBF58476D1CE4E5B9);
        z = (z ^ (z >> 27)).wrapping_mul(0x94D049BB133111EB);
        z ^ (z >> 31)
    }
    fn bytes(&mut self, n: usize) -> Vec<u8> {
        (0..n).map(|_| (self.next() >> 24) as u8).collect()
    }
    fn below(&mut self, n: usize) -> usize {
        (self.next() % (n as u64)) as usize
    }
}

fn h(b: &[u8]) -> String {
    if b.is_empty() {
        "_".into()
    } else {
        hex::encode(b)
    }
}
fn opt(b: Option<Vec<u8>>) -> String {
    match b {
        Some(v) => h(&v),
        None => "-".into(),
    }
}
fn bit(b: bool) -> &'static str {
    if b {
        "1"
    } else {
        "0"
    }
}
fn unhex(s: &str) -> Vec<u8> {
    hex::decode(s).unwrap()
}
fn cat(parts: &[&[u8]]) -> Vec<u8> {
    parts.iter().flat_map(|p| p.iter().copied()).collect()
}
/// big-endian a + small
fn be_add(a: &[u8], mut add: u64) -> Vec<u8> {
    let mut out = a.to_vec();
    for i in (0..out.len()).rev() {
        let v = out[i] as u64 + (add & 0xff);
        out[i] = v as u8;
        add = (add >> 8) + (v >> 8);
    }
    out
}
/// big-endian a - b (same length, a >= b)
fn be_sub(a: &[u8], b: &[u8]) -> Vec<u8> {
    let mut out = a.to_vec();
    let mut borrow = 0i32;
    for i in (0..out.len()).rev() {
        let v = a[i] as i32 - b[i] as i32 - borrow;
        if v < 0 {
            out[i] = (v + 256) as u8;
            borrow = 1
        } else {
            out[i] = v as u8;
            borrow = 0
        }
    }
    out
}
/// little-endian a + b, 32 bytes, overflow discarded
fn le_add(a: &[u8], b: &[u8]) -> Vec<u8> {
    let mut out = vec![0u8; 32];
    let mut carry = 0u32;
    for i in 0..32 {
        let v = a[i] as u32 + b[i] as u32 + carry;
        out[i] = v as u8;
        carry = v >> 8;
    }
    out
}
fn flip(b: &[u8], bitpos: usize) -> Vec<u8> {
    let mut v = b.to_vec();
    v[bitpos / 8] ^= 1 << (bitpos % 8);
    v
}

const P_HEX: &str = "fffffffffffffffffffffffffffffffffffffffffffffffffffffffefffffc2f";
const N_HEX: &str = "fffffffffffffffffffffffffffffffebaaedce6af48a03bbfd25e8cd0364141";
const HALF_N_HEX: &str = "7fffffffffffffffffffffffffffffff5d576e7357a4501ddfe92f46681b20a0";
const L_LE_HEX: &str = "edd3f55c1a631258d69cf7a2def9de1400000000000000000000000000000010";

// ------------------------------------------------------------------------------------------------
// secp256k1 helpers going through the enr traits
// ------------------------------------------------------------------------------------------------

fn k256_decode(b: &[u8]) -> Option<k2::ecdsa::VerifyingKey> {
    <k2::ecdsa::SigningKey as EnrKeyUnambiguous>::decode_public(b).ok()
}
fn ls_decode(b: &[u8]) -> Option<ls::PublicKey> {
    <ls::SecretKey as EnrKeyUnambiguous>::decode_public(b).ok()
}

fn emit_pub(input: &[u8]) {
    let k = k256_decode(input);
    let l = ls_decode(input);
    let kc = k.map(|k| k.encode().to_vec());
    let lc = l.map(|l| l.encode().to_vec());
    let kxy = k.map(|k| k.encode_uncompressed().to_vec());
    let lxy = l.map(|l| l.encode_uncompressed().to_vec());
    if let (Some(a), Some(b)) = (&kxy, &lxy) {
        assert_eq!(a, b, "k256 and libsecp decode {} to different points", h(input));
    }
    println!("pub {} {} {} {}", h(input), opt(kc), opt(lc), opt(kxy.or(lxy)));
}

fn emit_sk(sk: &[u8]) {
    let k = k2::ecdsa::SigningKey::from_slice(sk)
        .ok()
        .map(|s| s.verifying_key().encode().to_vec());
    let l = ls::SecretKey::from_slice(sk)
        .ok()
        .map(|s| ls::PublicKey::from_secret_key(ls::SECP256K1, &s).encode().to_vec());
    println!("sk {} {} {}", h(sk), opt(k), opt(l));
}

fn emit_ver(pk33: &[u8], msg: &[u8], sig: &[u8]) {
    let k = k256_decode(pk33).expect("ver: k256 key");
    let l = ls_decode(pk33).expect("ver: libsecp key");
    println!(
        "ver {} {} {} {} {}",
        h(pk33),
        h(msg),
        h(sig),
        bit(k.verify_v4(msg, sig)),
        bit(l.verify_v4(msg, sig))
    );
}

fn emit_verp(pk33: &[u8], digest: &[u8; 32], sig: &[u8]) {
    let k = k256_decode(pk33).expect("verp: k256 key");
    let l = ls_decode(pk33).expect("verp: libsecp key");
    let kr = k2::ecdsa::Signature::try_from(sig)
        .and_then(|s| k.verify_prehash(digest, &s))
        .is_ok();
    let lr = ls::ecdsa::Signature::from_compact(sig)
        .and_then(|s| ls::SECP256K1.verify_ecdsa(&ls::Message::from_digest(*digest), &s, &l))
        .is_ok();
    println!("verp {} {} {} {} {}", h(pk33), h(digest), h(sig), bit(kr), bit(lr));
}

fn keccak(m: &[u8]) -> [u8; 32] {
    Keccak256::digest(m).into()
}

fn sign_k256(sk: &[u8], digest: &[u8; 32]) -> Vec<u8> {
    let s = k2::ecdsa::SigningKey::from_slice(sk).unwrap();
    let sig: k2::ecdsa::Signature = s.sign_prehash(digest).unwrap();
    sig.to_vec()
}
fn sign_ls(sk: &[u8], digest: &[u8; 32]) -> Vec<u8> {
    let s = ls::SecretKey::from_slice(sk).unwrap();
    ls::SECP256K1
        .sign_ecdsa(&ls::Message::from_digest(*digest), &s)
        .serialize_compact()
        .to_vec()
}

fn secp_pub33(sk: &[u8]) -> Vec<u8> {
    k2::ecdsa::SigningKey::from_slice(sk).unwrap().verifying_key().encode().to_vec()
}

// ------------------------------------------------------------------------------------------------
// ed25519 helpers
// ------------------------------------------------------------------------------------------------

fn ed_decode(b: &[u8]) -> Option<ed::VerifyingKey> {
    <ed::SigningKey as EnrKeyUnambiguous>::decode_public(b).ok()
}
fn emit_edpub(input: &[u8]) {
    println!("edpub {} {}", h(input), opt(ed_decode(input).map(|k| k.encode().to_vec())));
}
fn emit_edver(pk: &[u8], msg: &[u8], sig: &[u8]) {
    let k = ed_decode(pk).expect("edver key");
    println!("edver {} {} {} {}", h(pk), h(msg), h(sig), bit(k.verify_v4(msg, sig)));
}
fn emit_edsk(seed: &[u8]) {
    let r = ed::SigningKey::try_from(seed).ok().map(|k| k.verifying_key().to_bytes().to_vec());
    println!("edsk {} {}", h(seed), opt(r));
}

fn main() {
    let mut rng = Rng(0x0123_4567_89ab_cdef);
    let p = unhex(P_HEX);
    let n = unhex(N_HEX);
    let half_n = unhex(HALF_N_HEX);
    let zero32 = vec![0u8; 32];
    let ff32 = vec![0xffu8; 32];

    // ---------------------------------------------------------------- hashes
    for len in [0usize, 1, 3, 55, 56, 64, 71, 72, 134, 135, 136, 137, 200, 271, 272, 273, 300] {
        let m = rng.bytes(len);
        println!("hk {} {}", h(&m), h(&keccak(&m)));
    }
    println!("hk {} {}", h(b"abc"), h(&keccak(b"abc")));
    for len in [0usize, 1, 3, 55, 56, 63, 64, 111, 112, 113, 127, 128, 129, 200, 239, 240, 256, 300] {
        let m = rng.bytes(len);
        println!("h5 {} {}", h(&m), h(&Sha512::digest(&m)));
    }
    println!("h5 {} {}", h(b"abc"), h(&Sha512::digest(b"abc")));

    // ---------------------------------------------------------------- secp256k1 public-key parsing
    for _ in 0..12 {
        let sk = rng.bytes(32);
        let vk = *k2::ecdsa::SigningKey::from_slice(&sk).unwrap().verifying_key();
        let unc = vk.to_encoded_point(false).as_bytes().to_vec(); // 04 x y
        let x = &unc[1..33];
        let y = &unc[33..65];
        let y_odd = y[31] & 1;
        let neg_y = be_sub(&p, y);
        emit_pub(&cat(&[&[2 + y_odd], x])); // compressed
        emit_pub(&cat(&[&[3 - y_odd], x])); // other parity (the negated point)
        emit_pub(&unc); // uncompressed
        emit_pub(&cat(&[&[4], x, &neg_y])); // negated, uncompressed
        emit_pub(&cat(&[&[5], x])); // compact: k256 only
        emit_pub(&cat(&[&[6 + y_odd], x, y])); // hybrid, right parity: libsecp only
        emit_pub(&cat(&[&[7 - y_odd], x, y])); // hybrid, wrong parity
        emit_pub(&cat(&[&[4], x, &be_add(y, 1)])); // off curve
        emit_pub(&cat(&[&[4], y, x])); // swapped coordinates
    }
    for _ in 0..40 {
        // random abscissa: on the curve with probability 1/2
        let tag = [2u8, 3, 5][rng.below(3)];
        emit_pub(&cat(&[&[tag], &rng.bytes(32)]));
    }
    for _ in 0..6 {
        let tag = [4u8, 6, 7][rng.below(3)];
        emit_pub(&cat(&[&[tag], &rng.bytes(64)]));
    }
    // out-of-range coordinates
    for x in [p.clone(), be_add(&p, 1), be_add(&p, 2), be_add(&p, 6), ff32.clone(), be_sub(&p, &be_add(&zero32, 1)), be_sub(&p, &be_add(&zero32, 2)), be_sub(&p, &be_add(&zero32, 3))] {
        for tag in [2u8, 3, 5] {
            emit_pub(&cat(&[&[tag], &x]));
        }
    }
    // small abscissas
    for xv in 0u64..8 {
        let x = be_add(&zero32, xv);
        emit_pub(&cat(&[&[2], &x]));
        emit_pub(&cat(&[&[3], &x]));
    }
    {
        // x = 1 is on the curve: take its y and present it as y + p (does not fit) / y >= p variants
        let g = unhex("0479be667ef9dcbbac55a06295ce870b07029bfcdb2dce28d959f2815b16f81798483ada7726a3c4655da4fbfc0e1108a8fd17b448a68554199c47d08ffb10d4b8");
        let gx = &g[1..33];
        let gy = &g[33..65];
        emit_pub(&g);
        emit_pub(&cat(&[&[4], gx, &p]));
        emit_pub(&cat(&[&[4], &p, gy]));
        emit_pub(&cat(&[&[4], gx, &ff32]));
        emit_pub(&cat(&[&[4], &ff32, gy]));
        emit_pub(&cat(&[&[6], gx, gy]));
        emit_pub(&cat(&[&[7], gx, gy]));
        emit_pub(&cat(&[&[4], &zero32, &zero32]));
        emit_pub(&cat(&[&[6], &zero32, &zero32]));
        emit_pub(&cat(&[&[4], &zero32, &be_add(&zero32, 1)]));
        // wrong lengths / tags
        emit_pub(&[]);
        emit_pub(&[0]);
        emit_pub(&[2]);
        emit_pub(&[4]);
        emit_pub(&cat(&[&[0], gx]));
        emit_pub(&cat(&[&[0], gx, gy]));
        emit_pub(&cat(&[&[0], &zero32]));
        emit_pub(&cat(&[&[0], &zero32, &zero32]));
        emit_pub(&cat(&[&[1], gx]));
        emit_pub(&cat(&[&[8], gx]));
        emit_pub(&cat(&[&[0xff], gx]));
        emit_pub(&cat(&[&[0x82], gx]));
        emit_pub(&cat(&[&[1], gx, gy]));
        emit_pub(&cat(&[&[5], gx, gy]));
        emit_pub(&cat(&[&[8], gx, gy]));
        emit_pub(&cat(&[&[2], gx, gy]));
        emit_pub(&cat(&[&[3], gx, gy]));
        emit_pub(&cat(&[&[4], gx]));
        emit_pub(&cat(&[&[6], gx]));
        emit_pub(&cat(&[&[7], gx]));
        emit_pub(gx);
        emit_pub(&cat(&[gx, gy]));
        emit_pub(&cat(&[&[2], &gx[..31]]));
        emit_pub(&cat(&[&[2], gx, &[0]]));
        emit_pub(&cat(&[&[4], gx, &gy[..31]]));
        emit_pub(&cat(&[&[4], gx, gy, &[0]]));
        emit_pub(&cat(&[&[0], &[2], gx]));
    }

    // ---------------------------------------------------------------- secp256k1 secret -> public
    for _ in 0..12 {
        emit_sk(&rng.bytes(32));
    }
    emit_sk(&zero32);
    emit_sk(&be_add(&zero32, 1));
    emit_sk(&be_add(&zero32, 2));
    emit_sk(&be_sub(&n, &be_add(&zero32, 1)));
    emit_sk(&n);
    emit_sk(&be_add(&n, 1));
    emit_sk(&ff32);
    emit_sk(&half_n);
    for len in [0usize, 1, 16, 23, 24, 25, 31, 33, 64] {
        emit_sk(&rng.bytes(len));
    }
    emit_sk(&vec![0u8; 24]);
    emit_sk(&vec![0u8; 31]);
    emit_sk(&cat(&[&[0], &n[1..]]));

    // ---------------------------------------------------------------- ECDSA over keccak256 (verify_v4)
    for i in 0..24 {
        let sk = rng.bytes(32);
        let pk = secp_pub33(&sk);
        let mlen = rng.below(40);
        let msg = rng.bytes(mlen);
        let d = keccak(&msg);
        let sig = if i % 2 == 0 { sign_k256(&sk, &d) } else { sign_ls(&sk, &d) };
        let (r, s) = (&sig[..32], &sig[32..]);
        emit_ver(&pk, &msg, &sig); // valid
        emit_ver(&pk, &msg, &cat(&[r, &be_sub(&n, s)])); // high-S twin
        emit_ver(&pk, &msg, &flip(&sig, rng.below(256))); // bit flip in r
        emit_ver(&pk, &msg, &flip(&sig, 256 + rng.below(256))); // bit flip in s
        emit_ver(&pk, &cat(&[&msg, &[0]]), &sig); // other message
        let other = secp_pub33(&rng.bytes(32));
        emit_ver(&other, &msg, &sig); // other key
        if i < 6 {
            // the negated key (other parity tag)
            let mut npk = pk.clone();
            npk[0] ^= 1;
            emit_ver(&npk, &msg, &sig);
            emit_ver(&pk, &msg, &sig[..63]);
            emit_ver(&pk, &msg, &cat(&[&sig, &[0]]));
            emit_ver(&pk, &msg, &cat(&[s, r]));
        }
    }
    {
        let sk = rng.bytes(32);
        let pk = secp_pub33(&sk);
        let msg = b"range checks".to_vec();
        let sig = sign_k256(&sk, &keccak(&msg));
        let (r, s) = (sig[..32].to_vec(), sig[32..].to_vec());
        let one = be_add(&zero32, 1);
        emit_ver(&pk, &msg, &sig);
        emit_ver(&pk, &msg, &[]);
        emit_ver(&pk, &msg, &r);
        emit_ver(&pk, &msg, &cat(&[&zero32, &s]));
        emit_ver(&pk, &msg, &cat(&[&r, &zero32]));
        emit_ver(&pk, &msg, &cat(&[&zero32, &zero32]));
        emit_ver(&pk, &msg, &cat(&[&n, &s]));
        emit_ver(&pk, &msg, &cat(&[&r, &n]));
        emit_ver(&pk, &msg, &cat(&[&be_add(&n, 1), &s]));
        emit_ver(&pk, &msg, &cat(&[&r, &be_add(&n, 1)]));
        emit_ver(&pk, &msg, &cat(&[&ff32, &s]));
        emit_ver(&pk, &msg, &cat(&[&r, &ff32]));
        emit_ver(&pk, &msg, &cat(&[&r, &half_n]));
        emit_ver(&pk, &msg, &cat(&[&r, &be_add(&half_n, 1)]));
        emit_ver(&pk, &msg, &cat(&[&r, &one]));
        emit_ver(&pk, &msg, &cat(&[&one, &s]));
        emit_ver(&pk, &msg, &cat(&[&one, &one]));
        emit_ver(&pk, &msg, &cat(&[&be_sub(&n, &one), &s]));
        emit_ver(&pk, &msg, &cat(&[&r, &be_sub(&n, &one)]));
    }

    // ---------------------------------------------------------------- ECDSA over a raw prehash
    {
        let mut ff = [0xffu8; 32];
        let digests: Vec<[u8; 32]> = vec![
            [0u8; 32],
            ff,
            n.clone().try_into().unwrap(),
            be_add(&n, 1).try_into().unwrap(),
            be_sub(&n, &be_add(&zero32, 1)).try_into().unwrap(),
            p.clone().try_into().unwrap(),
            rng.bytes(32).try_into().unwrap(),
        ];
        ff[0] = 0x7f;
        for (i, d) in digests.iter().enumerate() {
            let sk = rng.bytes(32);
            let pk = secp_pub33(&sk);
            let sig = if i % 2 == 0 { sign_k256(&sk, d) } else { sign_ls(&sk, d) };
            emit_verp(&pk, d, &sig);
            emit_verp(&pk, d, &cat(&[&sig[..32], &be_sub(&n, &sig[32..])]));
            emit_verp(&pk, &ff, &sig);
        }
        // digest d and d + n (when it fits in 32 bytes) are the same scalar: signature for 0 verifies for n
        let sk = rng.bytes(32);
        let pk = secp_pub33(&sk);
        let d0 = [0u8; 32];
        let dn: [u8; 32] = n.clone().try_into().unwrap();
        let sig = sign_k256(&sk, &d0);
        emit_verp(&pk, &dn, &sig);
        let d5: [u8; 32] = be_add(&zero32, 5).try_into().unwrap();
        let d5n: [u8; 32] = be_add(&n, 5).try_into().unwrap();
        let sig = sign_ls(&sk, &d5n);
        emit_verp(&pk, &d5, &sig);
        emit_verp(&pk, &d5n, &sig);
    }
    // Forged (key, digest, signature) triples whose nonce point R has n <= R.x < p, so that r = R.x - n:
    // exercises the "R.x mod n" reduction in both verifiers.
    {
        let mut found = 0;
        let mut j = 0u64;
        while found < 4 {
            j += 1;
            let x = be_add(&n, j);
            let xb = k2::FieldBytes::clone_from_slice(&x);
            let rp: Option<k2::AffinePoint> =
                k2::AffinePoint::decompress(&xb, Choice::from((j & 1) as u8)).into();
            let Some(rp) = rp else { continue };
            found += 1;
            let u1 = <k2::Scalar as Reduce<k2::U256>>::reduce_bytes(&k2::FieldBytes::clone_from_slice(&rng.bytes(32)));
            let u2 = <k2::Scalar as Reduce<k2::U256>>::reduce_bytes(&k2::FieldBytes::clone_from_slice(&rng.bytes(32)));
            let u2inv: k2::Scalar = Option::from(u2.invert()).unwrap();
            let pubp = (k2::ProjectivePoint::from(rp) - k2::ProjectivePoint::GENERATOR * u1) * u2inv;
            let r = k2::Scalar::from(j);
            let mut s = r * u2inv;
            let z = u1 * s;
            if bool::from(s.is_high()) {
                s = -s;
            }
            let pk = pubp.to_affine().to_encoded_point(true).as_bytes().to_vec();
            let sig = cat(&[&r.to_bytes(), &s.to_bytes()]);
            let d: [u8; 32] = z.to_bytes().into();
            emit_verp(&pk, &d, &sig);
            // same with r replaced by the unreduced abscissa (>= n): must be rejected
            emit_verp(&pk, &d, &cat(&[&x, &s.to_bytes()]));
            emit_verp(&pk, &d, &cat(&[&r.to_bytes(), &(-s).to_bytes()]));
            let d2: [u8; 32] = (z + k2::Scalar::ONE).to_bytes().into();
            emit_verp(&pk, &d2, &sig);
        }
    }

    // ---------------------------------------------------------------- ed25519 secret -> public
    for _ in 0..16 {
        emit_edsk(&rng.bytes(32));
    }
    emit_edsk(&zero32);
    emit_edsk(&ff32);
    for len in [0usize, 31, 33, 64] {
        emit_edsk(&rng.bytes(len));
    }

    // ---------------------------------------------------------------- ed25519 public-key parsing
    for _ in 0..50 {
        emit_edpub(&rng.bytes(32));
    }
    for _ in 0..6 {
        let k = ed::SigningKey::try_from(&rng.bytes(32)[..]).unwrap().verifying_key().to_bytes();
        emit_edpub(&k);
        // y + p: non-canonical encoding only exists for y < 19; just flip the sign bit here
        let mut k2b = k;
        k2b[31] ^= 0x80;
        emit_edpub(&k2b);
    }
    let weak: Vec<Vec<u8>> = [
        "0100000000000000000000000000000000000000000000000000000000000000", // identity
        "0100000000000000000000000000000000000000000000000000000000000080", // identity, sign bit set (x = 0)
        "ecffffffffffffffffffffffffffffffffffffffffffffffffffffffffffff7f", // (0,-1), order 2
        "ecffffffffffffffffffffffffffffffffffffffffffffffffffffffffffffff", // (0,-1), sign bit set
        "0000000000000000000000000000000000000000000000000000000000000000", // order 4
        "0000000000000000000000000000000000000000000000000000000000000080", // order 4
        "26e8958fc2b227b045c3f489f2ef98f0d5dfac05d3c63339b13802886d53fc05", // order 8
        "26e8958fc2b227b045c3f489f2ef98f0d5dfac05d3c63339b13802886d53fc85", // order 8
        "c7176a703d4dd84fba3c0b760d10670f2a2053fa2c39ccc64ec7fd7792ac037a", // order 8
        "c7176a703d4dd84fba3c0b760d10670f2a2053fa2c39ccc64ec7fd7792ac03fa", // order 8
        "edffffffffffffffffffffffffffffffffffffffffffffffffffffffffffff7f", // y = p   (non-canonical 0), order 4
        "edffffffffffffffffffffffffffffffffffffffffffffffffffffffffffffff", // y = p, sign bit set
        "eeffffffffffffffffffffffffffffffffffffffffffffffffffffffffffff7f", // y = p+1 (non-canonical identity)
        "eeffffffffffffffffffffffffffffffffffffffffffffffffffffffffffffff", // y = p+1, sign bit set
    ]
    .iter()
    .map(|s| unhex(s))
    .collect();
    for w in &weak {
        emit_edpub(w);
    }
    // all non-canonical y in [p, 2^255), both signs; plus y just below p
    for low in 0xedu8..=0xff {
        let mut b = vec![0xffu8; 32];
        b[0] = low;
        b[31] = 0x7f;
        emit_edpub(&b);
        b[31] = 0xff;
        emit_edpub(&b);
    }
    for low in 0xe8u8..0xed {
        let mut b = vec![0xffu8; 32];
        b[0] = low;
        b[31] = 0x7f;
        emit_edpub(&b);
    }
    for yv in 1u8..12 {
        let mut b = vec![0u8; 32];
        b[0] = yv;
        emit_edpub(&b);
        b[31] = 0x80;
        emit_edpub(&b);
    }
    emit_edpub(&[]);
    emit_edpub(&rng.bytes(31));
    emit_edpub(&rng.bytes(33));
    emit_edpub(&rng.bytes(64));
    emit_edpub(&cat(&[&weak[0], &[0]]));

    // ---------------------------------------------------------------- ed25519 verification
    let l_le = unhex(L_LE_HEX);
    for i in 0..20 {
        use ed::Signer;
        let sk = ed::SigningKey::try_from(&rng.bytes(32)[..]).unwrap();
        let pk = sk.verifying_key().to_bytes().to_vec();
        let mlen = rng.below(40);
        let msg = rng.bytes(mlen);
        let sig = sk.sign(&msg).to_bytes().to_vec();
        let (r, s) = (&sig[..32], &sig[32..]);
        emit_edver(&pk, &msg, &sig); // valid
        emit_edver(&pk, &msg, &flip(&sig, rng.below(256))); // flip in R
        emit_edver(&pk, &msg, &flip(&sig, 256 + rng.below(252))); // flip in s
        emit_edver(&pk, &cat(&[&msg, &[1]]), &sig); // other message
        emit_edver(&pk, &msg, &cat(&[r, &le_add(s, &l_le)])); // s + l: same scalar mod l, non-canonical
        let other = ed::SigningKey::try_from(&rng.bytes(32)[..]).unwrap().verifying_key().to_bytes();
        emit_edver(&other, &msg, &sig); // other key
        if i < 5 {
            emit_edver(&pk, &msg, &sig[..63]);
            emit_edver(&pk, &msg, &cat(&[&sig, &[0]]));
            let mut hi = sig.clone();
            hi[63] |= 0x80;
            emit_edver(&pk, &msg, &hi);
            let mut hi = sig.clone();
            hi[63] |= 0x20;
            emit_edver(&pk, &msg, &hi);
            let mut npk = pk.clone();
            npk[31] ^= 0x80;
            if ed_decode(&npk).is_some() {
                emit_edver(&npk, &msg, &sig); // negated key
            }
            emit_edver(&pk, &msg, &cat(&[r, &zero32]));
            emit_edver(&pk, &msg, &cat(&[r, &l_le]));
            emit_edver(&pk, &msg, &cat(&[r, &ff32]));
            emit_edver(&pk, &msg, &[]);
        }
    }
    // small-order / non-canonical keys: (R, s) with R = [s]B + T for each T in <A>; some verify.
    for (wi, w) in weak.iter().enumerate() {
        let a = CompressedEdwardsY(w.clone().try_into().unwrap()).decompress().unwrap();
        let s = if wi == 0 {
            EdScalar::ZERO
        } else {
            EdScalar::from_bytes_mod_order(rng.bytes(32).try_into().unwrap())
        };
        let sb = ED25519_BASEPOINT_POINT * s;
        let mut seen: Vec<[u8; 32]> = Vec::new();
        for j in 0u64..8 {
            let r = (sb + a * EdScalar::from(j)).compress().to_bytes();
            if seen.contains(&r) {
                continue;
            }
            seen.push(r);
            for m in [&b"m0"[..], &b"m1"[..]] {
                emit_edver(w, m, &cat(&[&r, s.as_bytes()]));
            }
        }
    }
    // non-canonical R never verifies, canonical one does (A = identity, s = 0, R' = identity)
    for r in [&weak[0], &weak[1], &weak[12], &weak[13]] {
        emit_edver(&weak[0], b"x", &cat(&[r, &zero32]));
        emit_edver(&weak[12], b"x", &cat(&[r, &zero32]));
    }
}
