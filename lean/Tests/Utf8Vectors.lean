/-
  Cross-check of the Lean model of UTF-8 validation / lossy conversion (`EnrVerif/Model/Utf8.lean`)
  against real Rust (`core::str::from_utf8`, `String::from_utf8_lossy`) on the vectors of
  `Tests/utf8_vectors.txt`, which were produced by `Tests/utf8gen.rs` (plain `rustc`, no crates).

    cd /verif/lean && lake env lean --run Tests/Utf8Vectors.lean [path-to-vectors]

  Line format:   <hex input|_> <hex of the bytes of from_utf8_lossy(input)|_> <1 if from_utf8 is Ok, else 0>

  For every line the model must give `utf8Lossy input = expected` and `utf8Valid input = flag`; in
  addition the two consequences `utf8Valid (utf8Lossy input)` and `flag → utf8Lossy input = input`
  are re-checked on the concrete data, and `utf8Valid` is compared with Lean core's own validator
  `ByteArray.validateUTF8` (a third, independent implementation).  Prints one line per FAILED vector (first 20), a summary, and
  exits non-zero on any mismatch or malformed line.
-/
import EnrVerif.Model.Utf8

open EnrVerif

namespace Utf8Vectors

def hexVal (c : Char) : Option Nat :=
  if '0' ≤ c ∧ c ≤ '9' then some (c.toNat - '0'.toNat)
  else if 'a' ≤ c ∧ c ≤ 'f' then some (c.toNat - 'a'.toNat + 10)
  else none

def unhexAux : List Char → Bytes → Option Bytes
  | [], acc => some acc.reverse
  | [_], _ => none
  | a :: b :: rest, acc =>
    match hexVal a, hexVal b with
    | some x, some y => unhexAux rest (UInt8.ofNat (16 * x + y) :: acc)
    | _, _ => none

def bytesField (s : String) : Option Bytes :=
  if s == "_" then some [] else unhexAux s.toList []

def boolField (s : String) : Option Bool :=
  if s == "1" then some true else if s == "0" then some false else none

def beq (a b : Bytes) : Bool := a.map UInt8.toNat == b.map UInt8.toNat

def showHex (b : Bytes) : String :=
  if b.isEmpty then "_" else String.ofList (hexLower b |>.map (fun c => Char.ofNat c.toNat))

def run (args : List String) : IO UInt32 := do
  let path := args.headD "Tests/utf8_vectors.txt"
  let text ← IO.FS.readFile path
  let lines := (text.splitOn "\n").filter (fun l => l.trimAscii.toString ≠ "")
  let t0 ← IO.monoMsNow
  let mut total : Nat := 0
  let mut failed : Nat := 0
  let mut malformed : Nat := 0
  let mut nValid : Nat := 0
  let mut nChanged : Nat := 0
  let mut maxLen : Nat := 0
  for l in lines do
    let toks := (l.splitOn " ").filter (· ≠ "")
    match toks with
    | [i, o, f] =>
      match bytesField i, bytesField o, boolField f with
      | some inp, some exp, some ok =>
        total := total + 1
        if inp.length > maxLen then maxLen := inp.length
        let got := utf8Lossy inp
        let gotOk := utf8Valid inp
        if ok then nValid := nValid + 1
        if !(beq exp inp) then nChanged := nChanged + 1
        let coreOk := ByteArray.validateUTF8 (ByteArray.mk inp.toArray)
        let good := beq got exp && gotOk == ok && utf8Valid got && (!ok || beq got inp) && coreOk == ok
        if !good then
          failed := failed + 1
          if failed ≤ 20 then
            IO.println s!"FAIL {i}: rust lossy={o} ok={ok}; model lossy={showHex got} ok={gotOk} valid(lossy)={utf8Valid got}; lean core ok={coreOk}"
      | _, _, _ =>
        malformed := malformed + 1
        IO.println s!"MALFORMED {l}"
    | _ =>
      malformed := malformed + 1
      IO.println s!"MALFORMED {l}"
  let t1 ← IO.monoMsNow
  IO.println s!"Utf8Vectors: {total} vectors ({nValid} well-formed, {nChanged} changed by the lossy conversion, max input length {maxLen}); {total - failed} passed, {failed} failed, {malformed} malformed lines ({t1 - t0} ms)"
  if failed == 0 && malformed == 0 && total > 0 then
    IO.println "Utf8Vectors: PASS"
    return 0
  else
    IO.println "Utf8Vectors: FAIL"
    return 1

end Utf8Vectors

def main (args : List String) : IO UInt32 := Utf8Vectors.run args
