//! Emits cross-check vectors for the Lean model of serde_json's string layer
//! (EnrVerif.Model.Json: `jsonQuote`, `jsonUnquote`).
//!
//! Line formats (hex fields; `_` = empty byte string):
//!   q <s> <serde_json::to_string(s)>
//!   u <doc> <serde_json::from_str::<String>(doc) | ERR>
//! Every `s` and every `doc` is valid UTF-8 (they are Rust `&str`).
//! Output is deterministic (fixed-seed PRNG).

use std::collections::HashSet;
use std::fmt::Write as _;

struct Rng(u64);
impl Rng {
    fn next(&mut self) -> u64 {
        self.0 = self.0.wrapping_add(0x9E3779B97F4A7C15);
        let mut z = self.0;
        z = (z ^ (z >> 30)).wrapping_mul(0xBF58476D1CE4E5B9);
        z = (z ^ (z >> 27)).wrapping_mul(0x94D049BB133111EB);
        z ^ (z >> 31)
    }
    fn below(&mut self, n: usize) -> usize {
        (self.next() % n as u64) as usize
    }
    fn pick<'a, T>(&mut self, xs: &'a [T]) -> &'a T {
        &xs[self.below(xs.len())]
    }
}

fn hex(b: &[u8]) -> String {
    if b.is_empty() {
        return "_".to_string();
    }
    let mut s = String::with_capacity(2 * b.len());
    for x in b {
        write!(s, "{:02x}", x).unwrap();
    }
    s
}

struct Out {
    seen: HashSet<String>,
    nq: usize,
    nu_ok: usize,
    nu_err: usize,
}

impl Out {
    fn q(&mut self, s: &str) {
        let j = serde_json::to_string(s).unwrap();
        let line = format!("q {} {}", hex(s.as_bytes()), hex(j.as_bytes()));
        if self.seen.insert(line.clone()) {
            println!("{}", line);
            self.nq += 1;
        }
        // every serialised string is also a document to read back
        self.u(&j);
    }
    fn u(&mut self, doc: &str) {
        let line = match serde_json::from_str::<String>(doc) {
            Ok(s) => format!("u {} {}", hex(doc.as_bytes()), hex(s.as_bytes())),
            Err(_) => format!("u {} ERR", hex(doc.as_bytes())),
        };
        if self.seen.insert(line.clone()) {
            if line.ends_with("ERR") {
                self.nu_err += 1
            } else {
                self.nu_ok += 1
            }
            println!("{}", line);
        }
    }
}

/// a random character of one of the interesting classes
fn rand_char(r: &mut Rng) -> char {
    match r.below(16) {
        0..=5 => (0x20 + r.below(0x5f) as u8) as char, // printable ASCII
        6 | 7 => (r.below(0x20) as u8) as char,        // control
        8 => '"',
        9 => '\\',
        10 => *r.pick(&['\u{7f}', '/', '\u{8}', '\u{c}', '\n', '\r', '\t', '\0', '\u{1f}', ' ']),
        11 => char::from_u32(0x80 + r.below(0x780) as u32).unwrap(), // 2-byte
        12 => {
            // 3-byte, avoiding surrogates
            let c = 0x800 + r.below(0xF800) as u32;
            char::from_u32(c).unwrap_or('\u{FFFD}')
        }
        13 => char::from_u32(0x10000 + r.below(0x100000) as u32).unwrap(), // 4-byte
        14 => *r.pick(&['\u{80}', '\u{7ff}', '\u{800}', '\u{d7ff}', '\u{e000}', '\u{ffff}',
                        '\u{10000}', '\u{10ffff}', '\u{feff}', '\u{2028}', '\u{a0}']),
        _ => *r.pick(&['e', 'n', 'r', ':', '-', '_', 'A', 'z', '0', '9', 'x']),
    }
}

fn rand_string(r: &mut Rng, maxlen: usize) -> String {
    let n = r.below(maxlen + 1);
    (0..n).map(|_| rand_char(r)).collect()
}

/// `\uXXXX` with the given case policy (0 lower, 1 upper, 2 mixed per digit)
fn uesc(r: &mut Rng, n: u32, case: usize) -> String {
    let lower = format!("{:04x}", n);
    let s: String = lower
        .chars()
        .map(|c| match case {
            0 => c,
            1 => c.to_ascii_uppercase(),
            _ => {
                if r.below(2) == 0 {
                    c
                } else {
                    c.to_ascii_uppercase()
                }
            }
        })
        .collect();
    format!("\\u{}", s)
}

/// escaped spelling of a string: every character randomly verbatim (if legal), short escape, or \u
fn rand_spelling(r: &mut Rng, s: &str) -> String {
    let mut o = String::new();
    for ch in s.chars() {
        let c = ch as u32;
        let must = c < 0x20 || ch == '"' || ch == '\\';
        let mode = r.below(4);
        if !must && mode < 2 {
            o.push(ch);
            continue;
        }
        let short = match ch {
            '"' => Some("\\\""),
            '\\' => Some("\\\\"),
            '/' => Some("\\/"),
            '\u{8}' => Some("\\b"),
            '\u{c}' => Some("\\f"),
            '\n' => Some("\\n"),
            '\r' => Some("\\r"),
            '\t' => Some("\\t"),
            _ => None,
        };
        if let (Some(e), true) = (short, mode % 2 == 0) {
            o.push_str(e);
            continue;
        }
        let case = r.below(3);
        if c < 0x10000 {
            o.push_str(&uesc(r, c, case));
        } else {
            let v = c - 0x10000;
            o.push_str(&uesc(r, 0xD800 + (v >> 10), case));
            let case2 = r.below(3);
            o.push_str(&uesc(r, 0xDC00 + (v & 0x3ff), case2));
        }
    }
    o
}

fn rand_ws(r: &mut Rng) -> String {
    let n = r.below(4);
    (0..n).map(|_| *r.pick(&[' ', '\t', '\n', '\r'])).collect()
}

fn main() {
    let mut r = Rng(0x656e725f6a736f6e); // "enr_json"
    let mut o = Out { seen: HashSet::new(), nq: 0, nu_ok: 0, nu_err: 0 };

    // ---- 1. serialisation of systematic and random strings (each is also read back) ----
    for c in 0u32..=0x80 {
        o.q(&char::from_u32(c).unwrap().to_string());
    }
    for s in ["", "enr:-IS4QHCYrYZbAKW", "0x00ff", "a\"b\\c/d", "\u{7f}\u{80}\u{7ff}\u{800}\u{ffff}\u{10000}\u{10ffff}",
              "\0\u{1}\u{1f} \u{7f}", "\u{8}\u{9}\n\u{b}\u{c}\r", "\\u0041", "\\\"", "\"\"", "é😀"] {
        o.q(s);
    }
    for _ in 0..700 {
        let s = rand_string(&mut r, 14);
        o.q(&s);
    }

    // ---- 2. every escape kind; alternative spellings of random strings; whitespace ----
    for e in ["\\\"", "\\\\", "\\/", "\\b", "\\f", "\\n", "\\r", "\\t"] {
        o.u(&format!("\"{}\"", e));
        o.u(&format!("\"a{}b\"", e));
        o.u(&format!("\"{}{}\"", e, e));
    }
    // every byte after a backslash (ASCII), incl. `\x`, `\U`, `\0`, `\'`, `\ `, `\<ctrl>`
    for b in 0u8..0x80 {
        o.u(&format!("\"\\{}\"", b as char));
        o.u(&format!("\"\\{}0041\"", b as char));
    }
    o.u("\"\\é\"");
    for _ in 0..500 {
        let s = rand_string(&mut r, 10);
        let doc = format!("{}\"{}\"{}", rand_ws(&mut r), rand_spelling(&mut r, &s), rand_ws(&mut r));
        o.u(&doc);
    }
    // the text of a record / a node id with its first character escaped
    o.u("\"\\u0065nr:-IS4QHCYrYZbAKW\"");
    o.u("\"\\u0030x00ff\"");
    o.u("\"enr\\u003A-IS4Q\"");
    o.u("\"enr:\\u002dIS4Q\\/\"");

    // ---- 3. \u boundaries, surrogates ----
    let bounds: [u32; 22] = [0x0000, 0x0001, 0x001f, 0x0020, 0x0022, 0x005c, 0x007f, 0x0080, 0x07ff, 0x0800,
                             0xd7ff, 0xd800, 0xd801, 0xdbff, 0xdc00, 0xdc01, 0xdfff, 0xe000, 0xfffe, 0xffff,
                             0x00e9, 0xabcd];
    for &a in &bounds {
        for case in 0..2 {
            let ea = uesc(&mut r, a, case);
            o.u(&format!("\"{}\"", ea));
            o.u(&format!("\"x{}y\"", ea));
            for &b in &bounds {
                let eb = uesc(&mut r, b, case);
                o.u(&format!("\"{}{}\"", ea, eb));
            }
        }
    }
    for _ in 0..150 {
        let hi = 0xd800 + r.below(0x400) as u32;
        let lo = 0xdc00 + r.below(0x400) as u32;
        let (c1, c2) = (r.below(3), r.below(3));
        let (eh, el) = (uesc(&mut r, hi, c1), uesc(&mut r, lo, c2));
        o.u(&format!("\"{}{}\"", eh, el)); // valid pair
        match r.below(10) {
            0 => o.u(&format!("\"{}{}\"", el, eh)),        // reversed
            1 => o.u(&format!("\"{}\"", eh)),              // lone high
            2 => o.u(&format!("\"{}\"", el)),              // lone low
            3 => o.u(&format!("\"{}a{}\"", eh, el)),       // separated
            4 => o.u(&format!("\"{}\\n{}\"", eh, el)),     // high, other escape
            5 => o.u(&format!("\"{}{}\"", eh, eh)),        // high high
            6 => o.u(&format!("\"{}{}{}\"", eh, eh, el)),  // high, valid pair
            7 => o.u(&format!("\"{}\\{}\"", eh, &el[2..])),// high, `\` without u
            8 => o.u(&format!("\"{}{}\"", eh, &el[1..])),  // high, `uXXXX` without backslash
            _ => o.u(&format!("\"{}{}", eh, el)),          // pair, missing closing quote
        }
    }
    for t in ["\"\\ud83d", "\"\\ud83d\\", "\"\\ud83d\\u", "\"\\ud83d\\ude", "\"\\ud83d\\ude0", "\"\\ud83d\\ude00",
              "\"\\ud83d\"", "\"\\ud83d\\\"", "\"\\ud83d\\u\"", "\"\\ud83d\\ude0\"", "\"\\ud83d\\ude0g\"",
              "\"\\ud83d\\uDE00\"", "\"\\uD83D\\ude00\"", "\"\\ud83d\\ude00\\ude00\"", "\"\\ud83d\\u0041\"",
              "\"\\ud83d\\\\ude00\"", "\"\\ud83dé\"", "\"\\ud83d\\ud83d\\ude00\"", "\"\\ud83d\\\"\"",
              "\"\\ud83d\\u00e9\"", "\"\\ud83d\\uzzzz\"", "\"\\ud83d \\ude00\""] {
        o.u(t);
    }

    // ---- 4. raw control characters and other raw bytes inside the literal ----
    for b in 0u8..0x21 {
        o.u(&format!("\"{}\"", b as char));
        o.u(&format!("\"ab{}cdefghijklmnopqrstuvw\"", b as char)); // exercise the chunked scan
        o.u(&format!("\"abcdefghijklmnopqrs{}\"", b as char));
    }
    o.u("\"\u{7f}\"");
    o.u("\"\u{80}\u{9f}\u{2028}\u{2029}\u{feff}\"");

    // ---- 5. truncated escapes, bad hex digits ----
    for t in ["\"\\", "\"\\\"", "\"\\u", "\"\\u\"", "\"\\u0", "\"\\u0\"", "\"\\u00", "\"\\u00\"", "\"\\u004",
              "\"\\u004\"", "\"\\u0041", "\"\\u0041\"", "\"\\u004g\"", "\"\\u00g1\"", "\"\\u0g41\"", "\"\\ug041\"",
              "\"\\u 041\"", "\"\\u+041\"", "\"\\u-041\"", "\"\\u0x41\"", "\"\\u00 41\"", "\"\\u004\\\"", "\"\\u00é\"",
              "\"\\u{41}\"", "\"\\U0041\"", "\"\\x41\"", "\"\\a\"", "\"\\0\"", "\"\\'\"", "\"\\\n\"", "\"\\ \"",
              "\"\\u004:\"", "\"\\u004/\"", "\"\\u004@\"", "\"\\u004G\"", "\"\\u004`\"", "\"\\u00AF\"", "\"\\u00af\"",
              "\"\\u00Af\"", "\"\\uFFFF\"", "\"\\uffff\"", "\"\\u0000\"", "\"\\u0022\"", "\"\\u005c\"", "\"\\u005C\""] {
        o.u(t);
    }

    // ---- 6. document structure: quotes, whitespace, trailing garbage, other values ----
    for t in ["", " ", "\n", "\"", "\"\"", " \"\"", "\"\" ", "\t\n\r \"a\"\t\n\r ", "\"a", "a\"", "a", "'a'",
              "\"a\"b", "\"a\" b", "\"a\"\"b\"", "\"a\" \"b\"", "\"a\",", "\"a\"]", "[\"a\"]", "{\"a\":\"b\"}",
              "null", "true", "false", "0", "123", "-1", "1.5", "[]", "{}", "\"a\"\u{b}", "\u{b}\"a\"", "\u{c}\"a\"",
              "\"a\"\u{c}", "\u{a0}\"a\"", "\"a\"\u{a0}", "\u{feff}\"a\"", "\"a\"\u{feff}", "\"a\"\0", "\0\"a\"",
              "\"a\"\\", "\\\"a\\\"", "\"a\"//c", "\"a\"/*c*/", "/**/\"a\"", "\"a\"\n\n\n", "\"enr:-IS4Q\"\n",
              " \"0x00ff\" ", "\"\\\"\"", "\"\\\\\"", "\"\\\\\\\"", "\"\\\\\\\"\"", "\"\"\"", "\"\"\"\"", "n", "nul",
              "\"a\u{2028}\"", "\u{2028}\"a\"", "\u{85}\"a\"", "\u{1680}\"a\"", "\"a\"\u{3000}"] {
        o.u(t);
    }

    // ---- 7. mutations of correct documents (ASCII edits keep the document valid UTF-8) ----
    let alphabet: Vec<char> = "\"\\/bfnrtuU0189aAfFgdDcCxX {}[]:,\n\t\r\u{1}\u{1f}\u{7f}é😀".chars().collect();
    for _ in 0..500 {
        let s = rand_string(&mut r, 8);
        let good = if r.below(2) == 0 {
            serde_json::to_string(&s).unwrap()
        } else {
            format!("\"{}\"", rand_spelling(&mut r, &s))
        };
        let mut cs: Vec<char> = good.chars().collect();
        for _ in 0..1 + r.below(2) {
            let i = r.below(cs.len() + 1);
            match r.below(4) {
                0 if i < cs.len() => {
                    cs.remove(i);
                }
                1 if i < cs.len() => cs[i] = *r.pick(&alphabet),
                2 => cs.truncate(i),
                _ => cs.insert(i, *r.pick(&alphabet)),
            }
        }
        let doc: String = cs.into_iter().collect();
        o.u(&doc);
    }

    // ---- 8. token soup ----
    let toks = ["\"", "\"", "\\", "\\\\", "\\\"", "u", "\\u", "0", "00", "004", "0041", "d83d", "D83D", "de00", "DE00",
                "\\ud83d", "\\ude00", "\\uD800", "\\uDFFF", "\\u0041", "\\n", "\\/", "/", "b", "n", " ", "\t", "\n",
                "\u{1}", "\u{7f}", "a", "enr:", "-", "_", "é", "😀", "g", "\\x", "}", "null"];
    for _ in 0..400 {
        let n = 1 + r.below(7);
        let mut doc = String::new();
        if r.below(4) != 0 {
            doc.push('"');
        }
        for _ in 0..n {
            let t: &&str = r.pick(&toks);
            doc.push_str(t);
        }
        if r.below(4) != 0 {
            doc.push('"');
        }
        o.u(&doc);
    }

    eprintln!("q: {}  u ok: {}  u ERR: {}  total: {}", o.nq, o.nu_ok, o.nu_err, o.nq + o.nu_ok + o.nu_err);
}
