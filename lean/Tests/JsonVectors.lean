/-
  Cross-check of the Lean model of serde_json's string layer (`EnrVerif.Model.Json`: `jsonQuote`,
  `jsonUnquote`) against the real `serde_json` (the version pinned by /repo/Cargo.lock) on the vectors
  of `Tests/json_vectors.txt`, which were produced by the Rust program in `Tests/jsongen/`.

    cd /verif/lean && lake env lean --run Tests/JsonVectors.lean

  Prints one line per FAILED vector, a per-kind summary, and exits non-zero on any mismatch.

  Line formats (hex fields; `_` = empty byte string):
    q <s> <serde_json::to_string(s)>
    u <doc> <serde_json::from_str::<String>(doc) | ERR>
-/
import EnrVerif.Model.Json

open EnrVerif

namespace JsonVectors

def hexVal (c : Char) : Option Nat :=
  if '0' ≤ c ∧ c ≤ '9' then some (c.toNat - '0'.toNat)
  else if 'a' ≤ c ∧ c ≤ 'f' then some (c.toNat - 'a'.toNat + 10)
  else none

def unhexAux : List Char → Bytes → Option Bytes
  | [], acc => some acc.reverse
  | [_], _ => none
  | a :: b :: rest, acc =>
    match hexVal a, hexVal b with
    | some x, some y => unhexAux rest (UInt8.ofNat (16 * x + y) :: acc)
    | _, _ => none

/-- A mandatory byte field: `_` is the empty string. -/
def bytesField (s : String) : Option Bytes :=
  if s == "_" then some [] else unhexAux s.toList []

/-- A result field: `ERR` is `none`. -/
def resultField (s : String) : Option (Option Bytes) :=
  if s == "ERR" then some none else (bytesField s).map some

def beq (a b : Bytes) : Bool := a.map UInt8.toNat == b.map UInt8.toNat

def obeq : Option Bytes → Option Bytes → Bool
  | none, none => true
  | some a, some b => beq a b
  | _, _ => false

/-- Result of one line: `none` = malformed line, `some ok`. -/
def checkLine (toks : List String) : Option Bool :=
  match toks with
  | ["q", s, j] => do
    let s ← bytesField s
    let j ← bytesField j
    -- the serialiser, and (model-internal) the round trip through the model's reader
    pure (beq (jsonQuote s) j && obeq (jsonUnquote (jsonQuote s)) (some s))
  | ["u", doc, res] => do
    let doc ← bytesField doc
    let res ← resultField res
    pure (obeq (jsonUnquote doc) res)
  | _ => none

def kinds : List String := ["q", "u-ok", "u-ERR"]

def kindOf (toks : List String) : String :=
  match toks with
  | ["u", _, "ERR"] => "u-ERR"
  | "u" :: _ => "u-ok"
  | k :: _ => k
  | [] => "?"

def run : IO UInt32 := do
  let text ← IO.FS.readFile "Tests/json_vectors.txt"
  let lines := (text.splitOn "\n").filter (fun l => l.trimAscii.toString ≠ "")
  let t0 ← IO.monoMsNow
  let mut passed : List (String × Nat) := kinds.map (·, 0)
  let mut failed := 0
  let mut lineNo := 0
  for l in lines do
    lineNo := lineNo + 1
    let toks := (l.splitOn " ").filter (· ≠ "")
    let kind := kindOf toks
    match checkLine toks with
    | some true =>
      passed := passed.map (fun (k, c) => if k == kind then (k, c + 1) else (k, c))
    | some false =>
      failed := failed + 1
      IO.println s!"FAIL line {lineNo}: {(l.take 200).toString}"
    | none =>
      failed := failed + 1
      IO.println s!"FAIL line {lineNo} (malformed): {(l.take 200).toString}"
  let t1 ← IO.monoMsNow
  for (k, c) in passed do
    IO.println s!"PASS {k}: {c} vectors"
  let total := passed.foldl (fun a (_, c) => a + c) 0
  IO.println s!"JsonVectors: {total} passed, {failed} failed, {lineNo} lines ({t1 - t0} ms)"
  return (if failed == 0 && total > 0 then 0 else 1)

end JsonVectors

def main : IO UInt32 := JsonVectors.run
