/-
  Cross-check of the Lean crypto oracle against the real dependency crates (`sha3`, `sha2`, `k256`,
  `secp256k1`/libsecp256k1, `ed25519-dalek`) on the vectors of `Tests/crypto_vectors.txt`, which were
  produced by the Rust program in `Tests/vecgen/` (through the `enr` crate's own key traits).

    cd /verif/lean && lake env lean --run Tests/CryptoVectors.lean [path-to-vectors]

  Prints one line per FAILED vector, a per-kind summary, and exits non-zero on any mismatch.

  Line formats (hex fields; `_` = empty byte string, `-` = rejected / None):
    hk    <msg> <keccak256>
    h5    <msg> <sha512>
    pub   <input> <k256 compressed|-> <libsecp compressed|-> <x||y of the accepted point|->
    sk    <secret> <k256 compressed pub|-> <libsecp compressed pub|->
    ver   <pub33> <msg> <sig> <k256 0|1> <libsecp 0|1>
    verp  <pub33> <digest32> <sig> <k256 0|1> <libsecp 0|1>
    edsk  <seed> <public bytes|->
    edpub <input> <VerifyingKey::to_bytes|->
    edver <pub32> <msg> <sig> <0|1>
-/
import EnrVerif.Model.Keccak
import EnrVerif.Model.Sha512
import EnrVerif.Model.Secp256k1
import EnrVerif.Model.Ed25519

open EnrVerif

namespace CryptoVectors

def hexVal (c : Char) : Option Nat :=
  if '0' ≤ c ∧ c ≤ '9' then some (c.toNat - '0'.toNat)
  else if 'a' ≤ c ∧ c ≤ 'f' then some (c.toNat - 'a'.toNat + 10)
  else none

def unhexAux : List Char → Bytes → Option Bytes
  | [], acc => some acc.reverse
  | [_], _ => none
  | a :: b :: rest, acc =>
    match hexVal a, hexVal b with
    | some x, some y => unhexAux rest (UInt8.ofNat (16 * x + y) :: acc)
    | _, _ => none

/-- A mandatory byte field: `_` is the empty string. -/
def bytesField (s : String) : Option Bytes :=
  if s == "_" then some [] else unhexAux s.toList []

/-- An optional byte field: `-` is `none`. -/
def optField (s : String) : Option (Option Bytes) :=
  if s == "-" then some none else (bytesField s).map some

def boolField (s : String) : Option Bool :=
  if s == "1" then some true else if s == "0" then some false else none

def beq (a b : Bytes) : Bool := a.map UInt8.toNat == b.map UInt8.toNat

def obeq : Option Bytes → Option Bytes → Bool
  | none, none => true
  | some a, some b => beq a b
  | _, _ => false

/-- Result of one line: `none` = malformed line, `some ok`. -/
def checkLine (toks : List String) : Option Bool :=
  match toks with
  | ["hk", m, d] => do
    let m ← bytesField m
    let d ← bytesField d
    pure (beq (keccak256 m) d)
  | ["h5", m, d] => do
    let m ← bytesField m
    let d ← bytesField d
    pure (beq (sha512 m) d)
  | ["pub", inp, k, l, xy] => do
    let inp ← bytesField inp
    let k ← optField k
    let l ← optField l
    let xy ← optField xy
    let mk := Secp.decodePubK256 inp
    let ml := Secp.decodePubLibsecp inp
    let okK := obeq (mk.map Secp.compress) k
    let okL := obeq (ml.map Secp.compress) l
    -- both decoders must agree on the point when both accept; x‖y must match the crates'
    let okAgree := match mk, ml with
      | some a, some b => a == b
      | _, _ => true
    let okXY := obeq ((mk.orElse (fun _ => ml)).map Secp.xy) xy
    let okCurve := (mk.map Secp.onCurve).getD true && (ml.map Secp.onCurve).getD true
    pure (okK && okL && okAgree && okXY && okCurve)
  | ["sk", s, k, l] => do
    let s ← bytesField s
    let k ← optField k
    let l ← optField l
    pure (obeq ((Secp.secretToPubK256 s).map Secp.compress) k
          && obeq ((Secp.secretToPub s).map Secp.compress) l)
  | ["ver", pk, m, sg, k, l] => do
    let pk ← bytesField pk
    let m ← bytesField m
    let sg ← bytesField sg
    let k ← boolField k
    let l ← boolField l
    match Secp.decodePubK256 pk, Secp.decodePubLibsecp pk with
    | some a, some b =>
      let r := Secp.verifyV4 a m sg
      pure (a == b && r == k && r == l)
    | _, _ => pure false
  | ["verp", pk, d, sg, k, l] => do
    let pk ← bytesField pk
    let d ← bytesField d
    let sg ← bytesField sg
    let k ← boolField k
    let l ← boolField l
    match Secp.decodePubK256 pk with
    | some a =>
      let r := Secp.ecdsaVerifyPrehash a d sg
      pure (r == k && r == l)
    | none => pure false
  | ["edsk", s, p] => do
    let s ← bytesField s
    let p ← optField p
    pure (obeq (Ed.secretToPubBytes s) p)
  | ["edpub", inp, out] => do
    let inp ← bytesField inp
    let out ← optField out
    let r := Ed.decodePub inp
    pure (obeq (r.map Ed.pubBytes) out && (r.map (fun A => Ed.onCurve A.pt)).getD true)
  | ["edver", pk, m, sg, ok] => do
    let pk ← bytesField pk
    let m ← bytesField m
    let sg ← bytesField sg
    let ok ← boolField ok
    match Ed.decodePub pk with
    | some A => pure (Ed.verify A m sg == ok)
    | none => pure false
  | _ => none

def kinds : List String := ["hk", "h5", "pub", "sk", "ver", "verp", "edsk", "edpub", "edver"]

def run (args : List String) : IO UInt32 := do
  let path := args.headD "Tests/crypto_vectors.txt"
  let text ← IO.FS.readFile path
  let lines := (text.splitOn "\n").filter (fun l => l.trimAscii.toString ≠ "")
  let t0 ← IO.monoMsNow
  let mut passed : List (String × Nat) := kinds.map (·, 0)
  let mut failed := 0
  let mut lineNo := 0
  for l in lines do
    lineNo := lineNo + 1
    let toks := (l.splitOn " ").filter (· ≠ "")
    let kind := toks.headD "?"
    match checkLine toks with
    | some true =>
      passed := passed.map (fun (k, c) => if k == kind then (k, c + 1) else (k, c))
    | some false =>
      failed := failed + 1
      IO.println s!"FAIL line {lineNo}: {(l.take 200).toString}"
    | none =>
      failed := failed + 1
      IO.println s!"FAIL line {lineNo} (malformed): {(l.take 200).toString}"
  let t1 ← IO.monoMsNow
  for (k, c) in passed do
    IO.println s!"PASS {k}: {c} vectors"
  let total := passed.foldl (fun a (_, c) => a + c) 0
  IO.println s!"CryptoVectors: {total} passed, {failed} failed, {lineNo} lines ({t1 - t0} ms)"
  return (if failed == 0 && total > 0 then 0 else 1)

end CryptoVectors

def main (args : List String) : IO UInt32 := CryptoVectors.run args
