import EnrVerif.Model.Driver
open EnrVerif.Driver

partial def loop (h : IO.FS.Stream) (a : Acc) (out : IO.FS.Stream) : IO Acc := do
  let line ← h.getLine
  if line.isEmpty then return a
  let a := feed a (line.dropRightWhile (fun c => c == '\n' || c == '\r'))
  -- flush output incrementally to keep memory flat
  if a.st.out.size > 256 then
    for l in a.st.out do out.putStrLn l
    loop h { a with st := { a.st with out := #[] } } out
  else loop h a out

def main (args : List String) : IO UInt32 := do
  let out ← IO.getStdout
  let inp ← match args with
    | [path] => do
      let hdl ← IO.FS.Handle.mk path IO.FS.Mode.read
      pure (IO.FS.Stream.ofHandle hdl)
    | _ => IO.getStdin
  let a ← loop inp { st := {} } out
  let s := finish a
  for l in s.out do out.putStrLn l
  return 0
