/-
  C05 (continued) — the runtime monitor's per-record predicates are sound with respect to the model.

  "Every record the library hands out is valid (always-signed invariant)…"

  For every record the implementation hands out the driver (`Driver.checkRecord`, Model/Driver.lean)
  decides: the encoding is at most 300 bytes long (C09 `size_le_300`), the scheme's public key can be
  read from the content (`has_public_key`), the signature verifies under it
  (`verifies_under_own_key`), the identity scheme is "v4" (`id_is_v4`), the node id is the hash of
  the key (C10 `node_id_is_hash_of_key`), and the model's decoder accepts the encoding again with
  identical fields and nothing left over (C04 `redecode_identical` / `accepted_again_by_decoder`).
  The decisions are the functions of `Model/Monitor.lean` (`sizeOk`, `idOk`, `nodeIdOk`, `redecode`);
  `Monitor.recordFlags S r` lists the alarms they raise for `r`.

  Theorems:
   * `C05_monitor_record_sound` — no alarm on a record that is `Valid` in the model; hence none on
     any record the model hands out: built (`C05_monitor_build_sound`), updated
     (`C05_monitor_step_sound`, `…_step_any_sound`, `…_run_sound`), decoded or parsed
     (`C05_monitor_decoded_sound`, `C05_monitor_parsed_sound`).  Hypotheses exactly those of
     `build_valid` / `step_valid` / `run_valid` (Props/C05.lean); none for decoded records.  On an
     implementation that behaves like the model these predicates never fire.
   * `C05_monitor_flags_nil_iff` — conversely `recordFlags S r = []` says exactly that each decision
     came out well (the function does not hide a failed decision).
   * `C05_monitor_memo_verify`, `C05_monitor_memo_eq`, `C05_monitor_memo_flags` — the driver decodes
     under `Driver.memo S pk msg sig v`, the scheme that answers one verification from a cache; with
     a correct entry (`v = S.verify pk msg sig`) it is the scheme `S` itself, and the alarms are the
     same.
   * `C05_monitor_checkRecord` — the driver function itself: under the invariant `Driver.CacheOK` of
     its one-entry verification cache (true of the initial state, kept by `checkRecord`) the number
     of `PROP … FAIL` lines `checkRecord` prints is `(recordFlags d.S r).length`, plus one if the
     implementation's `size()` differs from the length of its encoding (the per-record predicate
     that needs the observation); `C05_monitor_checkRecord_quiet`: on a valid record it prints none.
     (`CacheOK` speaks about the scheme in use; the cache is keyed by key bytes, message and
     signature, not by scheme, so across a change of scheme the invariant is a hypothesis.)
-/
import EnrVerif.Proofs.MonitorLemmas
import EnrVerif.Proofs.Examples
import EnrVerif.Props.C05

namespace EnrVerif
open Monitor

/-! ### no alarm on a valid record -/

/-- The monitor's per-record predicates never fire on a record that is valid in the model. -/
theorem C05_monitor_record_sound (S : Scheme) (r : Record) (h : Valid S r) : recordFlags S r = [] :=
  recordFlags_of_Valid h

/-- the same, decision by decision -/
theorem C05_monitor_decisions (S : Scheme) (r : Record) (h : Valid S r) :
    sizeOk r = true ∧ ∃ pk, S.enrToPublic r.content = .ok pk ∧
      S.verify pk r.rlpContent r.sig = true ∧ idOk r = true ∧ nodeIdOk S pk r = true ∧
      redecode S r = .identical ∧ redecodeOk S r = true :=
  let ⟨hs, pk, hpk, hv, hi, hn, hd⟩ := monitor_decisions_of_Valid h
  ⟨hs, pk, hpk, hv, hi, hn, hd, redecodeOk_of_Valid h⟩

/-- `recordFlags` hides nothing: it is empty exactly if every decision came out well. -/
theorem C05_monitor_flags_nil_iff (S : Scheme) (r : Record) :
    recordFlags S r = [] ↔
      sizeOk r = true ∧ ∃ pk, S.enrToPublic r.content = .ok pk ∧
        S.verify pk r.rlpContent r.sig = true ∧ idOk r = true ∧ nodeIdOk S pk r = true ∧
        redecode S r = .identical :=
  recordFlags_nil_iff S r

/-! ### … hence on every record the model hands out -/

/-- a built record (hypotheses of `build_valid`) -/
theorem C05_monitor_build_sound (S : Scheme) (hL : S.Lawful) (b : Builder) (pk : S.PK)
    (o : Option Bytes) (r : Record) (hb : b.WF) (hk : KeyOK S pk)
    (hso : ∀ b', Builder.prepare S b pk = .ok b' → SigOK S pk b'.rlpContent o)
    (h : Builder.build S b pk o = .ok r) : recordFlags S r = [] :=
  C05_monitor_record_sound S r (build_valid S hL b pk o r hb hk hso h).1

/-- the record after a successful update (hypotheses of `step_valid`) -/
theorem C05_monitor_step_sound (S : Scheme) (hL : S.Lawful) (r : Record) (op : Op S) (pk : S.PK)
    (o : Option Bytes) (ret : Ret) (r' : Record) (hv : Valid S r) (hc : CallOK S r ⟨op, pk, o⟩)
    (h : step S r op pk o = (.ok ret, r')) : recordFlags S r' = [] :=
  C05_monitor_record_sound S r' (step_valid S hL r op pk o ret r' hv hc h)

/-- the record after any update call, successful or not (hypotheses of `step_valid_any`) -/
theorem C05_monitor_step_any_sound (S : Scheme) (hL : S.Lawful) (r : Record) (c : Call S)
    (hv : Valid S r) (hc : CallOK S r c) : recordFlags S (step S r c.op c.pk c.oracle).2 = [] :=
  C05_monitor_record_sound S _ (step_valid_any S hL r c hv hc)

/-- the record after any history of update calls (hypotheses of `run_valid`) -/
theorem C05_monitor_run_sound (S : Scheme) (hL : S.Lawful) (r : Record) (cs : List (Call S))
    (hv : Valid S r) (hr : RunOK S r cs) : recordFlags S (run S r cs) = [] :=
  C05_monitor_record_sound S _ (run_valid S hL r cs hv hr)

/-- a decoded record (no hypothesis) -/
theorem C05_monitor_decoded_sound (S : Scheme) (b : Bytes) (r : Record) (rest : Bytes)
    (h : decode S b = .ok (r, rest)) : recordFlags S r = [] :=
  C05_monitor_record_sound S r (decoded_valid S b r rest h)

/-- a record parsed from its text form (no hypothesis) -/
theorem C05_monitor_parsed_sound (S : Scheme) (s : Bytes) (r : Record)
    (h : parseText S s = some r) : recordFlags S r = [] :=
  C05_monitor_record_sound S r (parsed_valid S s r h)

/-! ### the built-in key types: the laws are proved, not assumed -/

theorem C05_monitor_run_sound_k256 (r : Record) (cs : List (Call k256S)) (hv : Valid k256S r)
    (hr : RunOK k256S r cs) : recordFlags k256S (run k256S r cs) = [] :=
  C05_monitor_run_sound k256S k256S_lawful r cs hv hr

theorem C05_monitor_run_sound_libsecp (r : Record) (cs : List (Call libsecpS))
    (hv : Valid libsecpS r) (hr : RunOK libsecpS r cs) :
    recordFlags libsecpS (run libsecpS r cs) = [] :=
  C05_monitor_run_sound libsecpS libsecpS_lawful r cs hv hr

theorem C05_monitor_run_sound_ed (r : Record) (cs : List (Call edS)) (hv : Valid edS r)
    (hr : RunOK edS r cs) : recordFlags edS (run edS r cs) = [] :=
  C05_monitor_run_sound edS edS_lawful r cs hv hr

theorem C05_monitor_run_sound_comb (r : Record) (cs : List (Call combS)) (hv : Valid combS r)
    (hr : RunOK combS r cs) : recordFlags combS (run combS r cs) = [] :=
  C05_monitor_run_sound combS combS_lawful r cs hv hr

/-! ### the memoised scheme of the driver -/

/-- `memo` with a correct entry answers every verification as `S` does … -/
theorem C05_monitor_memo_verify (S : Scheme) [DecidableEq S.PK] (pk : S.PK) (msg sig : Bytes)
    (v : Bool) (hv : v = S.verify pk msg sig) (p : S.PK) (m g : Bytes) :
    (Driver.memo S pk msg sig v).verify p m g = S.verify p m g :=
  memo_verify S pk msg sig v hv p m g

/-- … so it is the scheme `S` … -/
theorem C05_monitor_memo_eq (S : Scheme) [DecidableEq S.PK] (pk : S.PK) (msg sig : Bytes)
    (v : Bool) (hv : v = S.verify pk msg sig) : Driver.memo S pk msg sig v = S :=
  memo_eq S pk msg sig v hv

/-- … and the monitor decides under it as under `S`. -/
theorem C05_monitor_memo_flags (S : Scheme) [DecidableEq S.PK] (pk : S.PK) (msg sig : Bytes)
    (v : Bool) (hv : v = S.verify pk msg sig) (r : Record) :
    recordFlags (Driver.memo S pk msg sig v) r = recordFlags S r ∧
    redecode (Driver.memo S pk msg sig v) r = redecode S r :=
  ⟨recordFlags_memo S pk msg sig v hv r, redecode_memo S pk msg sig v hv r⟩

/-! ### the driver function -/

/-- `checkRecord` prints as many `PROP … FAIL` lines as `recordFlags` has entries (plus one if the
    implementation's `size()` is not the length of its encoding), keeps the cache invariant and hands
    on the scheme itself. -/
theorem C05_monitor_checkRecord (d : Driver.DS)
    (hinj : ∀ a b : d.S.PK, d.toB a = d.toB b → a = b) (s : Driver.St) (o : Driver.Obs)
    (what : String) (hc : Driver.CacheOK d s) :
    (Driver.checkRecord d s o what).1.nProp = s.nProp + (recordFlags d.S o.toRec).length +
      (if o.enc == "panic" || o.size == toString (o.enc.length / 2) then 0 else 1) ∧
    Driver.CacheOK d (Driver.checkRecord d s o what).1 ∧
    (Driver.checkRecord d s o what).2.1 = d.S :=
  Driver.checkRecord_spec d hinj s o what hc

/-- On an observed record that is valid in the model and whose `size()` is the length of its
    encoding, `checkRecord` raises no alarm. -/
theorem C05_monitor_checkRecord_quiet (d : Driver.DS)
    (hinj : ∀ a b : d.S.PK, d.toB a = d.toB b → a = b) (s : Driver.St) (o : Driver.Obs)
    (what : String) (hc : Driver.CacheOK d s) (hval : Valid d.S o.toRec)
    (hsz : (o.enc == "panic" || o.size == toString (o.enc.length / 2)) = true) :
    (Driver.checkRecord d s o what).1.nProp = s.nProp :=
  Driver.checkRecord_quiet d hinj s o what hc hval hsz

/-- the hypotheses of the two theorems hold at the start and for every scheme the driver knows -/
theorem C05_monitor_driver_hyps (name : String) (d : Driver.DS) (h : Driver.mkDS name = some d) :
    Driver.CacheOK d {} ∧ ∀ a b : d.S.PK, d.toB a = d.toB b → a = b :=
  ⟨Driver.cacheOK_init d, Driver.mkDS_toB_inj name d h⟩

/-! ### non-vacuity (toy scheme `tinyS`, records `r0`, `r1`, `r2` of `Proofs/ToyScheme.lean`) -/

section NonVacuity
set_option maxRecDepth 100000

local instance : DecidableEq tinyS.PK := inferInstanceAs (DecidableEq TinyPK)

/-- the hypothesis `Valid` is satisfiable, and the conclusion holds of the concrete record -/
example : Valid tinyS r0 ∧ recordFlags tinyS r0 = [] :=
  ⟨r0_valid, C05_monitor_record_sound tinyS r0 r0_valid⟩

/-- … also by plain evaluation of the monitor on `r0` -/
example : recordFlags tinyS r0 = [] := by decide +kernel

/-- the built record, the updated record, the re-keyed record and the decoded record -/
example : recordFlags tinyS r0 = [] :=
  C05_monitor_build_sound tinyS tinyS_lawful {} pk0 _ r0 builder_empty_wf (tiny_keyOK pk0)
    (fun b' hb' => by
      have h2 : Builder.prepare tinyS {} pk0 = .ok ⟨1, content0⟩ := rfl
      rw [h2] at hb'
      simp only [Except.ok.injEq] at hb'
      rw [← hb']
      exact tinySign_sigOK pk0 payload0)
    r0_built

example : recordFlags tinyS r1 = [] :=
  C05_monitor_step_sound tinyS tinyS_lawful r0 call1.op call1.pk call1.oracle _ r1 r0_valid call1_ok
    step1_ok

example : recordFlags tinyS (run tinyS r0 [call1, call2 r1, call3]) = [] :=
  C05_monitor_run_sound tinyS tinyS_lawful r0 _ r0_valid run_ok

example : decode tinyS r0Bytes = .ok (r0, []) ∧ recordFlags tinyS r0 = [] := by
  have h : decode tinyS r0Bytes = .ok (r0, []) := by decide +kernel
  exact ⟨h, C05_monitor_decoded_sound tinyS r0Bytes r0 [] h⟩

/-- the monitor is not the constant `[]`: each predicate fires on a record that breaks it.
    `r0` with its signature cut off does not verify and is not accepted again; -/
example : recordFlags tinyS { r0 with sig := [] } =
    [("C05", "verifies_under_own_key"), ("C05", "accepted_again_by_decoder")] := by decide +kernel

/-- with another node id only the node-id predicate and the field comparison fire; -/
example : recordFlags tinyS { r0 with nodeId := [0] } =
    [("C10", "node_id_is_hash_of_key"), ("C04", "redecode_identical")] := by decide +kernel

/-- without content there is no public key (and nothing else is evaluated). -/
example : recordFlags tinyS { r0 with content := [] } = [("C05", "has_public_key")] := by
  decide +kernel

/-- the memoised scheme with a correct entry: `r0`'s own verification, answered from the cache -/
example :
    recordFlags (Driver.memo tinyS pk0 r0.rlpContent r0.sig true) r0 = recordFlags tinyS r0 :=
  (C05_monitor_memo_flags tinyS pk0 r0.rlpContent r0.sig true (by decide +kernel) r0).1

/-- a wrong entry would matter (so the hypothesis `v = S.verify pk msg sig` is needed): with the
    cache claiming that `r0`'s signature does not verify, the decoder rejects `r0` -/
example : recordFlags (Driver.memo tinyS pk0 r0.rlpContent r0.sig false) r0 ≠ [] := by
  decide +kernel

/-- the driver function on the observation of `r0` (toy scheme wrapped as a driver scheme; encoding
    and size as the implementation would report them): the hypotheses of
    `C05_monitor_checkRecord_quiet` hold and no `PROP … FAIL` line is printed -/
example :
    let d : Driver.DS := ⟨"tiny", tinyS, Subtype.val,
      fun b => if h : b.length ≤ 8 then ⟨b, h⟩ else ⟨[], by decide⟩,
      inferInstanceAs (DecidableEq TinyPK)⟩
    let o : Driver.Obs := ⟨r0.seq, r0.nodeId, r0.sig, r0.content,
      "d1840102030d018269648276347483010203", "18"⟩
    o.toRec = r0 ∧ o.enc = Driver.hex r0.encode ∧ o.size = toString r0.size ∧
    (Driver.checkRecord d {} o "init").1.nProp = 0 := by
  intro d o
  exact ⟨rfl, by decide +kernel, by decide +kernel,
    C05_monitor_checkRecord_quiet d (fun a b h => Subtype.ext h) {} o "init"
      (Driver.cacheOK_init d) r0_valid (by decide +kernel)⟩

end NonVacuity

#print axioms C05_monitor_record_sound
#print axioms C05_monitor_decisions
#print axioms C05_monitor_flags_nil_iff
#print axioms C05_monitor_build_sound
#print axioms C05_monitor_step_sound
#print axioms C05_monitor_step_any_sound
#print axioms C05_monitor_run_sound
#print axioms C05_monitor_decoded_sound
#print axioms C05_monitor_parsed_sound
#print axioms C05_monitor_run_sound_k256
#print axioms C05_monitor_run_sound_libsecp
#print axioms C05_monitor_run_sound_ed
#print axioms C05_monitor_run_sound_comb
#print axioms C05_monitor_memo_verify
#print axioms C05_monitor_memo_eq
#print axioms C05_monitor_memo_flags
#print axioms C05_monitor_checkRecord
#print axioms C05_monitor_checkRecord_quiet
#print axioms C05_monitor_driver_hyps

end EnrVerif
