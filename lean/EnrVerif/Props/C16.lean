/-
  Property C16 — the `NodeId` value type.

  "A node id built from 32 bytes returns exactly those bytes through every accessor and conversion;
   parsing a byte slice succeeds only for slices of exactly 32 bytes.  Its JSON form is the string
   0x followed by 64 lowercase hex digits, deserialisation accepts exactly 64 hex digits with or
   without the 0x prefix and yields the same id, Debug prints the full 0x-hex and Display the first
   and last two bytes."

  Model: `EnrVerif/Model/NodeId.lean`, `EnrVerif/Model/Hex.lean`; lemmas: `Proofs/HexLemmas.lean`.
  `ser`/`deser` are the JSON *string content* (without the surrounding quotes).
-/
import EnrVerif.Proofs.HexLemmas

namespace EnrVerif

open NodeId

/-! ### Construction, accessors, conversions -/

/-- `NodeId::new(&b).raw() == b`. -/
theorem C16_new_raw (b : Bytes) : (NodeId.new b).raw = b := rfl

/-- `new` preserves the 32-byte invariant. -/
theorem C16_new_wf (b : Bytes) (h : b.length = 32) : (NodeId.new b).WF := h

/-- All accessors and conversions (`raw()`, `AsRef<[u8]>`, `From<[u8;32]>`, `PartialEq<[u8;32]>`,
    derived `PartialEq`) agree with the bytes the id was built from. -/
theorem C16_accessors (b : Bytes) :
    (NodeId.new b).asRef = b ∧ (NodeId.ofRaw b).raw = b ∧ NodeId.ofRaw b = NodeId.new b ∧
    (∀ other, (NodeId.new b).eqRaw other = true ↔ other = b) ∧
    (∀ b', NodeId.new b = NodeId.new b' ↔ b = b') := by
  refine ⟨rfl, rfl, rfl, ?_, ?_⟩
  · intro other
    simp only [NodeId.eqRaw, NodeId.new, beq_iff_eq]
    exact ⟨fun h => h.symm, fun h => h.symm⟩
  · intro b'
    simp only [NodeId.new, NodeId.mk.injEq]

/-! ### `parse` -/

/-- `NodeId::parse` (as repaired) succeeds exactly on 32-byte slices and keeps the bytes. -/
theorem C16_parse_iff (b : Bytes) (id : NodeId) :
    NodeId.parse b = some id ↔ b.length = 32 ∧ id.raw = b := by
  unfold NodeId.parse
  cases id with
  | mk raw =>
    split
    · rename_i h
      simp only [Option.some.injEq, NodeId.mk.injEq, h, true_and]
      exact ⟨fun e => e.symm, fun e => e.symm⟩
    · rename_i h
      simp only [reduceCtorEq, false_iff]
      exact fun ⟨h', _⟩ => h h'

/-- A successfully parsed id satisfies the invariant and equals `new` of the slice. -/
theorem C16_parse_wf (b : Bytes) (id : NodeId) (h : NodeId.parse b = some id) :
    id.WF ∧ id = NodeId.new b := by
  obtain ⟨hl, hr⟩ := (C16_parse_iff b id).mp h
  refine ⟨by unfold NodeId.WF; rw [hr]; exact hl, ?_⟩
  cases id with
  | mk raw => simp only at hr; simp only [NodeId.new, hr]

/-- The defect of the unrepaired `parse`: it accepts slices that are not 32 bytes long
    (`parse(&[1,2,3,4,5]) = Ok(0x0102030405000…)`). -/
theorem C16_parseLegacy_defect : ∃ b : Bytes, b.length ≠ 32 ∧ (NodeId.parseLegacy b).isSome := by
  refine ⟨[1, 2, 3, 4, 5], by decide, by decide⟩

/-- … and the accepted value is the zero-padded slice, which the repaired `parse` rejects. -/
example :
    NodeId.parseLegacy [1, 2, 3, 4, 5] = some ⟨[1, 2, 3, 4, 5] ++ List.replicate 27 0⟩ ∧
    NodeId.parse [1, 2, 3, 4, 5] = none := by decide

/-! ### JSON form -/

/-- The JSON string is `0x` followed by the 64 lower-case hex digits of the raw bytes. -/
theorem C16_ser_form (id : NodeId) (h : id.WF) :
    NodeId.ser id = [48, 120] ++ hexLower id.raw ∧
    (NodeId.ser id).length = 66 ∧
    (∀ c ∈ (NodeId.ser id).drop 2, isLowerHexChar c = true) := by
  unfold NodeId.WF at h
  refine ⟨rfl, ?_, ?_⟩
  · simp only [NodeId.ser, NodeId.prefix0x, List.length_append, hexLower_length, h]; rfl
  · intro c hc
    simp only [NodeId.ser, NodeId.prefix0x, List.cons_append, List.nil_append, List.drop_succ_cons,
      List.drop_zero] at hc
    exact hexLower_all_lower id.raw c hc

/-- The JSON string needs no escaping: all its characters are printable ASCII other than `"`, `\`. -/
theorem C16_ser_json_safe (id : NodeId) :
    ∀ c ∈ NodeId.ser id, 0x20 ≤ c.toNat ∧ c.toNat ≤ 0x7E ∧ c.toNat ≠ 34 ∧ c.toNat ≠ 92 := by
  intro c hc
  simp only [NodeId.ser, NodeId.prefix0x, List.cons_append, List.nil_append, List.mem_cons] at hc
  rcases hc with rfl | rfl | hc
  · decide
  · decide
  · have := (isLowerHexChar_iff c).mp (hexLower_all_lower id.raw c hc)
    omega

/-- Deserialising the serialised form gives the id back. -/
theorem C16_deser_ser (id : NodeId) (h : id.WF) : NodeId.deser (NodeId.ser id) = some id := by
  unfold NodeId.deser NodeId.ser
  rw [NodeId.strip0x_prefix, fromHex32_hexLower h]

/-- … also without the `0x` prefix … -/
theorem C16_deser_noprefix (id : NodeId) (h : id.WF) :
    NodeId.deser (hexLower id.raw) = some id :=
  NodeId.deser_of_fromHex32 (fromHex32_hexLower h)
    (NodeId.strip0x_of_all_hex (hexLower_all_hex id.raw))

/-- … and for upper-case hex digits, with or without the (lower-case) `0x` prefix. -/
theorem C16_deser_upper (id : NodeId) (h : id.WF) :
    NodeId.deser (hexUpper id.raw) = some id ∧
    NodeId.deser ([48, 120] ++ hexUpper id.raw) = some id := by
  refine ⟨NodeId.deser_of_fromHex32 (fromHex32_hexUpper h)
    (NodeId.strip0x_of_all_hex (NodeId.hexUpper_all_hex id.raw)), ?_⟩
  unfold NodeId.deser
  rw [show ([48, 120] : Bytes) = NodeId.prefix0x from rfl, NodeId.strip0x_prefix,
    fromHex32_hexUpper h]

/-- Exact acceptance condition of the deserialiser: after removing one leading lower-case `0x`
    (if present) exactly 64 hex digits (either case) must remain, and they denote the id. -/
theorem C16_deser_iff (s : Bytes) (id : NodeId) :
    NodeId.deser s = some id ↔
      (let t := if ([48, 120] : Bytes).isPrefixOf s then s.drop 2 else s
       t.length = 64 ∧ (∀ c ∈ t, isHexChar c = true) ∧ id.raw = packHex t) := by
  have := NodeId.strip0x_eq s
  unfold NodeId.prefix0x at this
  simp only
  rw [← this]
  exact NodeId.deser_iff s id

/-- Whatever the deserialiser accepts is a well-formed id, and re-serialising it yields the
    canonical text (lower-case, with prefix). -/
theorem C16_deser_wf (s : Bytes) (id : NodeId) (h : NodeId.deser s = some id) :
    id.WF ∧ NodeId.deser (NodeId.ser id) = some id :=
  ⟨NodeId.deser_wf h, C16_deser_ser id (NodeId.deser_wf h)⟩

/-- Serialisation is injective. -/
theorem C16_ser_injective (a b : NodeId) (h : NodeId.ser a = NodeId.ser b) : a = b := by
  simp only [NodeId.ser, List.append_cancel_left_eq] at h
  cases a; cases b
  simp only [NodeId.mk.injEq]
  exact hexLower_injective h

/-! ### Debug / Display -/

/-- `Debug` prints `0x` and the full lower-case hex. -/
theorem C16_debug_form (id : NodeId) (h : id.WF) :
    NodeId.debug id = [48, 120] ++ hexLower id.raw ∧ (NodeId.debug id).length = 66 ∧
    NodeId.debug id = NodeId.ser id := by
  unfold NodeId.WF at h
  refine ⟨rfl, ?_, rfl⟩
  simp only [NodeId.debug, NodeId.prefix0x, List.length_append, hexLower_length, h]; rfl

/-- `Display` prints `0x`, the first two bytes, `..`, the last two bytes. -/
theorem C16_display_form (id : NodeId) (h : id.WF) :
    NodeId.display id =
      [48, 120] ++ hexLower (id.raw.take 2) ++ [46, 46] ++ hexLower (id.raw.drop 30) := by
  unfold NodeId.WF at h
  unfold NodeId.display
  simp only [NodeId.prefix0x, hexLower_length, h]
  have e1 : List.take 4 (hexLower id.raw) = hexLower (id.raw.take 2) := hexLower_take 2 id.raw
  have e2 : List.drop (2 * 32 - 4) (hexLower id.raw) = hexLower (id.raw.drop 30) :=
    hexLower_drop 30 id.raw
  rw [e1, e2]

/-- The `Display` text has 12 characters. -/
theorem C16_display_length (id : NodeId) (h : id.WF) : (NodeId.display id).length = 12 := by
  rw [C16_display_form id h]
  unfold NodeId.WF at h
  simp only [List.length_append, hexLower_length, List.length_take, List.length_drop, h,
    List.length_cons, List.length_nil]
  decide

/-! ### Non-vacuity: the hypotheses are satisfiable on a concrete non-trivial id
    (the id of the crate's `test_serde_0x`) and the documented quirks -/

/-- `9a5f5064e020de899ddbc5182d8f5a6a630c095d2c42c4cb23e91a3b3280a8b4` -/
def C16.sampleRaw : Bytes :=
  [154, 95, 80, 100, 224, 32, 222, 137, 157, 219, 197, 24, 45, 143, 90, 106, 99, 12, 9,
   93, 44, 66, 196, 203, 35, 233, 26, 59, 50, 128, 168, 180]

def C16.sample : NodeId := NodeId.new C16.sampleRaw

example : C16.sample.WF := by decide

example : NodeId.parse C16.sampleRaw = some C16.sample := by decide

example : NodeId.ser C16.sample =
    ascii "0x9a5f5064e020de899ddbc5182d8f5a6a630c095d2c42c4cb23e91a3b3280a8b4" := by decide +kernel

example : NodeId.deser
    (ascii "0x9a5f5064e020de899ddbc5182d8f5a6a630c095d2c42c4cb23e91a3b3280a8b4") =
      some C16.sample := by decide +kernel

example : NodeId.deser
    (ascii "9A5F5064E020DE899DDBC5182D8F5A6A630C095D2C42C4CB23E91A3B3280A8B4") =
      some C16.sample := by decide +kernel

example : NodeId.display C16.sample = ascii "0x9a5f..a8b4" := by decide +kernel

/-- Quirk: only one `0x` is stripped. -/
example : NodeId.deser
    (ascii "0x0x9a5f5064e020de899ddbc5182d8f5a6a630c095d2c42c4cb23e91a3b3280a8b4") = none := by
  decide +kernel

/-- Quirk: an upper-case `0X` prefix is not stripped (and `X` is not a hex digit). -/
example : NodeId.deser
    (ascii "0X9a5f5064e020de899ddbc5182d8f5a6a630c095d2c42c4cb23e91a3b3280a8b4") = none := by
  decide +kernel

/-- 63 and 65 digits, and a non-hex digit, are rejected. -/
example : NodeId.deser
    (ascii "0x9a5f5064e020de899ddbc5182d8f5a6a630c095d2c42c4cb23e91a3b3280a8b") = none ∧
  NodeId.deser
    (ascii "0x9a5f5064e020de899ddbc5182d8f5a6a630c095d2c42c4cb23e91a3b3280a8b4a") = none ∧
  NodeId.deser
    (ascii "0x9a5f5064e020de899ddbc5182d8f5a6a630c095d2c42c4cb23e91a3b3280a8bg") = none := by
  decide +kernel

end EnrVerif

#print axioms EnrVerif.C16_new_raw
#print axioms EnrVerif.C16_new_wf
#print axioms EnrVerif.C16_accessors
#print axioms EnrVerif.C16_parse_iff
#print axioms EnrVerif.C16_parse_wf
#print axioms EnrVerif.C16_parseLegacy_defect
#print axioms EnrVerif.C16_ser_form
#print axioms EnrVerif.C16_ser_json_safe
#print axioms EnrVerif.C16_deser_ser
#print axioms EnrVerif.C16_deser_noprefix
#print axioms EnrVerif.C16_deser_upper
#print axioms EnrVerif.C16_deser_iff
#print axioms EnrVerif.C16_deser_wf
#print axioms EnrVerif.C16_ser_injective
#print axioms EnrVerif.C16_debug_form
#print axioms EnrVerif.C16_display_form
#print axioms EnrVerif.C16_display_length
