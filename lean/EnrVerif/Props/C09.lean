/-
  Property C09 — "300-byte limit: never exceeded, size() exact, refused only when exceeded".

  "No record returned by the builder, an update or the decoder encodes to more than 300 bytes, and
   size() always equals the length of the actual encoding.  With the built-in key types (64-byte
   signatures) an update is refused for size exactly when its result (new pairs, incremented
   sequence number, new signature) would exceed 300 bytes; the builder refuses every result above
   300 bytes and may additionally refuse results within 8 bytes of the limit, but nothing smaller."

  Model: `Record.size`, `Record.encode` (`Model/Enr.lean`), `step`, `prepareG`, `Builder.build`
  (`Model/Mutators.lean`).  Lemmas: `Proofs/SizeLemmas.lean` (namespace `Sz`),
  `Proofs/MapEffects.lean` (namespace `Eff`).

  Two findings (details at the theorems):
  * `C09_refusal_exact` needs the hypothesis that the update is acceptable apart from its size.
    Without it the "exactly when" fails in one direction: the pre-signing size check of
    `insert_raw_rlp`/`set_socket` runs *before* `seq.checked_add(1)`, so a record at sequence number
    2^64-1 reports `ExceedsMaxSize` for a too-large insertion although no result exists
    (`C09_refusal_precedence_seq_max`, and the concrete `example` at the end).
  * The builder's slack: the bound `rlp_content.len() + sig.len() + 8` exceeds the real size by at
    most 8 for every signature (`C09_build_refusal_near`: nothing below 293 is refused), by at most
    7 unless the signature is a single byte, and by exactly 5 in the critical range for 64-byte
    signatures: there the builder refuses exactly the results above 295 bytes
    (`C09_build_refusal_exact_64`), and an accepted result has at most 297 bytes
    (`C09_build_size_le`).
-/
import EnrVerif.Proofs.MapEffects
import EnrVerif.Proofs.CodecTheorems
import EnrVerif.Proofs.Examples

namespace EnrVerif

open Eff

/-! ### `size()` is the length of the encoding; the limit is never exceeded -/

theorem C09_size_eq_encode_length (r : Record) : r.size = r.encode.length := rfl

/-- the size spelled out: outer list header, signature item, sequence number, pairs -/
theorem C09_size_formula (r : Record) :
    r.size = (encodeHeader true ((encBytes r.sig).length + (encUint r.seq).length +
        (Record.pairsBytes r.content).length)).length +
      ((encBytes r.sig).length + (encUint r.seq).length + (Record.pairsBytes r.content).length) :=
  Sz.size_eq r

theorem C09_step_size_le {S : Scheme} {r r' : Record} {op : Op S} {pk : S.PK} {o : Option Bytes}
    {ret : Ret} (h : step S r op pk o = (.ok ret, r')) : r'.size ≤ 300 :=
  (step_effect h).2.2.2.2.2

/-- whatever `step` returns as the record afterwards is within the limit if the record before was -/
theorem C09_step_snd_size_le {S : Scheme} (r : Record) (op : Op S) (pk : S.PK) (o : Option Bytes)
    (hr : r.size ≤ 300) : (step S r op pk o).2.size ≤ 300 := by
  cases hq : step S r op pk o with
  | mk res r' =>
    cases res with
    | ok ret => exact C09_step_size_le hq
    | err e => rw [(step_err_inv hq).1]; exact hr
    | panic s => exact absurd (by rw [hq]) (step_ne_panic r op pk o s)

/-- A built record has at most 300 bytes (in fact at most 297: the builder's bound
    `rlp_content.len() + sig.len() + 8` dominates the real size by at least 3). -/
theorem C09_build_size_le {S : Scheme} {b : Builder} {pk : S.PK} {o : Option Bytes} {r : Record}
    (h : Builder.build S b pk o = .ok r) : r.size ≤ 297 ∧ r.size ≤ 300 := by
  obtain ⟨b', sig, _, _, hb, hr⟩ := build_ok_inv h
  subst hr
  have := Sz.size_add3_le_builderBound b'.seq (nodeIdOf S pk) b'.content sig hb
  omega

theorem C09_decode_size_le {S : Scheme} {buf rest : Bytes} {r : Record}
    (h : decode S buf = .ok (r, rest)) : r.size ≤ 300 :=
  (decode_valid S buf r rest h).size_le

/-! ### How the size depends on the sequence number and the signature -/

/-- For fixed content and signature the size is monotone in the sequence number. -/
theorem C09_size_mono_seq (a b : Record) (hc : a.content = b.content) (hs : a.sig = b.sig)
    (h : a.seq ≤ b.seq) : a.size ≤ b.size :=
  Sz.size_mono_seq a b hc hs h

/-- The size depends on the signature only through its length — unless that length is 1 (a single
    byte below 0x80 is its own RLP encoding, one above is framed in two bytes). -/
theorem C09_size_sig_len (a b : Record) (hl : a.sig.length = b.sig.length) (h1 : a.sig.length ≠ 1)
    (hseq : a.seq = b.seq) (hc : a.content = b.content) : a.size = b.size :=
  Sz.size_sig_len a b hl h1 hseq hc

/-- the 1-byte exception is real -/
example : (⟨0, [], [], [0x7f]⟩ : Record).size = 3 ∧ (⟨0, [], [], [0x80]⟩ : Record).size = 4 := by
  decide

/-- The node id plays no role. -/
theorem C09_size_nodeId (r : Record) (nid : Bytes) : ({ r with nodeId := nid } : Record).size = r.size :=
  rfl

/-- Incrementing the sequence number costs at most two bytes. -/
theorem C09_size_bump_le (r : Record) (h : r.seq + 1 < 2 ^ 64) :
    ({ r with seq := r.seq + 1 } : Record).size ≤ r.size + 2 :=
  Sz.size_bump_le r h

/-! ### Updates: refused for size exactly when the result would exceed 300 bytes -/

/-- "Only when exceeded".  If an update is refused for size — by the pre-signing check of
    `insert_raw_rlp`/`set_socket` (made with the OLD sequence number and signature) or by the final
    check — then the record it would have produced, `Eff.resultOf`: new pairs, new sequence number,
    the signer's signature, is larger than 300 bytes.  No hypothesis on the update. -/
theorem C09_refusal_sound {S : Scheme} {r : Record} {op : Op S} {pk : S.PK} {sig : Bytes}
    (h64 : r.sig.length = 64) (hs : sig.length = 64)
    (h : (step S r op pk (some sig)).1 = .err .exceedsMaxSize) :
    (⟨newSeq op r, nodeIdOf S pk, newContent S op pk r.content, sig⟩ : Record).size > 300 :=
  refusal_sound (by omega) (by omega) h

/-- "Whenever exceeded".  If, with the pre-signing size check removed (`prepareG … false`), the
    update gets to the signer and the signed result is too large, the update is refused for size. -/
theorem C09_refusal_complete {S : Scheme} {r : Record} {op : Op S} {pk : S.PK} {sig : Bytes}
    {p : Prepared} (hp : prepareG S r op pk false = .ok p)
    (hbig : ({ p.enr with sig := sig } : Record).size > 300) :
    (step S r op pk (some sig)).1 = .err .exceedsMaxSize :=
  refusal_complete hp hbig

/-- The exact characterisation.  `hacc`: apart from its size the update is acceptable (without the
    pre-signing size check it gets to the signer).  This hypothesis cannot be dropped, see
    `C09_refusal_precedence_seq_max`.  (`r.seq < 2^64` is not needed.) -/
theorem C09_refusal_exact {S : Scheme} {r : Record} {op : Op S} {pk : S.PK} {sig : Bytes}
    (h64 : r.sig.length = 64) (hs : sig.length = 64)
    (hacc : ∃ p, prepareG S r op pk false = .ok p) :
    (step S r op pk (some sig)).1 = .err .exceedsMaxSize ↔
      ∃ p, prepareG S r op pk false = .ok p ∧ ({ p.enr with sig := sig } : Record).size > 300 := by
  obtain ⟨p, hp⟩ := hacc
  rw [refusal_exact_of_prepared (by omega) (by omega) hp]
  constructor
  · exact fun h => ⟨p, hp, h⟩
  · rintro ⟨p', hp', h⟩
    rw [hp] at hp'
    cases hp'
    exact h

/-- The same for signatures of any common length other than 1. -/
theorem C09_refusal_exact_len {S : Scheme} {r : Record} {op : Op S} {pk : S.PK} {sig : Bytes}
    {p : Prepared} (hl : r.sig.length = sig.length) (h1 : r.sig.length ≠ 1)
    (hp : prepareG S r op pk false = .ok p) :
    (step S r op pk (some sig)).1 = .err .exceedsMaxSize ↔
      ({ p.enr with sig := sig } : Record).size > 300 :=
  refusal_exact_of_prepared hl h1 hp

/-- Why `hacc` is needed: error precedence.  The pre-signing size check runs before the sequence
    number is incremented; at the maximal sequence number a too-large insertion is therefore
    reported as `exceedsMaxSize`, while without that check the call fails with `seqTooHigh` — there
    is no result whose size could exceed anything. -/
theorem C09_refusal_precedence_seq_max {S : Scheme} {r : Record} {op : Op S} {pk : S.PK}
    (o : Option Bytes) (hop : op.isSetSeq = false) (hpre : opPre S op r.content = .ok ())
    (hchk : opChk op = true)
    (hbig : ({ r with content := newContent S op pk r.content } : Record).size > 300)
    (hseq : 2 ^ 64 ≤ r.seq + 1) :
    (step S r op pk o).1 = .err .exceedsMaxSize ∧
    prepareG S r op pk false = .error .seqTooHigh :=
  refusal_precedence_seq_max o hop hpre hchk hbig hseq

/-- `set_seq` and the removals make no size check before signing: there `prepare` is `prepareG …
    false` and the only size refusal is the final check. -/
theorem C09_no_first_check {S : Scheme} (r : Record) (op : Op S) (pk : S.PK)
    (h : opChk op = false) : prepare S r op pk = prepareG S r op pk false := by
  rcases prepareG_true_cases S r op pk with ⟨_, hc, _⟩ | heq
  · rw [h] at hc; cases hc
  · exact heq

/-! ### The builder -/

/-- The builder refuses every result above 300 bytes. -/
theorem C09_build_refuses_over {S : Scheme} {b b' : Builder} {pk : S.PK} {sig : Bytes}
    (hp : Builder.prepare S b pk = .ok b')
    (hbig : (⟨b'.seq, nodeIdOf S pk, b'.content, sig⟩ : Record).size > 300) :
    Builder.build S b pk (some sig) = .err .exceedsMaxSize := by
  rw [build_of_prepare_ok sig hp]
  split
  · rfl
  · rename_i hb
    have := Sz.size_add3_le_builderBound b'.seq (nodeIdOf S pk) b'.content sig (by omega)
    omega

/-- The same without mentioning `prepare`: the would-be record is the builder's sequence number and
    the builder's pairs plus `id = v4` and the signer's key. -/
theorem C09_build_refuses_over' {S : Scheme} {b : Builder} {pk : S.PK} {sig : Bytes}
    (hbig : (⟨b.seq, nodeIdOf S pk, builtContent S b pk, sig⟩ : Record).size > 300) (r : Record) :
    Builder.build S b pk (some sig) ≠ .ok r := by
  intro h
  obtain ⟨b', sig', hp, ho, _, hr⟩ := build_ok_inv h
  obtain ⟨h1, h2, _, _⟩ := builder_prepare_ok_inv hp
  cases ho
  have := (C09_build_size_le h).2
  rw [hr, h1, h2] at this
  omega

/-- "… within 8 bytes of the limit, but nothing smaller": a result the builder refuses for size
    has at least 293 bytes.  General in the signature. -/
theorem C09_build_refusal_near {S : Scheme} {b b' : Builder} {pk : S.PK} {sig : Bytes}
    (hp : Builder.prepare S b pk = .ok b')
    (h : Builder.build S b pk (some sig) = .err .exceedsMaxSize) :
    293 ≤ (⟨b'.seq, nodeIdOf S pk, b'.content, sig⟩ : Record).size := by
  rw [build_of_prepare_ok sig hp] at h
  split at h
  · rename_i hb
    have := Sz.builderBound_le_size_add8 b'.seq (nodeIdOf S pk) b'.content sig
    omega
  · cases h

/-- Unless the signature is a single byte the slack is at most 7: nothing below 294 is refused. -/
theorem C09_build_refusal_near_7 {S : Scheme} {b b' : Builder} {pk : S.PK} {sig : Bytes}
    (hs : sig.length ≠ 1) (hp : Builder.prepare S b pk = .ok b')
    (h : Builder.build S b pk (some sig) = .err .exceedsMaxSize) :
    294 ≤ (⟨b'.seq, nodeIdOf S pk, b'.content, sig⟩ : Record).size := by
  rw [build_of_prepare_ok sig hp] at h
  split at h
  · rename_i hb
    have := Sz.builderBound_le_size_add7 b'.seq (nodeIdOf S pk) b'.content sig hs
    omega
  · cases h

/-- With a 64-byte signature the builder refuses a result for size exactly when it has more than
    295 bytes: results of 296 … 300 bytes are refused although they are within the limit. -/
theorem C09_build_refusal_exact_64 {S : Scheme} {b b' : Builder} {pk : S.PK} {sig : Bytes}
    (h64 : sig.length = 64) (hp : Builder.prepare S b pk = .ok b') :
    Builder.build S b pk (some sig) = .err .exceedsMaxSize ↔
      295 < (⟨b'.seq, nodeIdOf S pk, b'.content, sig⟩ : Record).size := by
  rw [build_of_prepare_ok sig hp, ← Sz.builderBound_64_exact b'.seq (nodeIdOf S pk) b'.content sig h64]
  constructor
  · intro h
    split at h
    · assumption
    · cases h
  · intro h
    rw [if_pos h]

/-- … so with a 64-byte signature a refused result has at least 296 bytes. -/
theorem C09_build_refusal_near_64 {S : Scheme} {b b' : Builder} {pk : S.PK} {sig : Bytes}
    (h64 : sig.length = 64) (hp : Builder.prepare S b pk = .ok b')
    (h : Builder.build S b pk (some sig) = .err .exceedsMaxSize) :
    296 ≤ (⟨b'.seq, nodeIdOf S pk, b'.content, sig⟩ : Record).size := by
  have := (C09_build_refusal_exact_64 h64 hp).mp h
  omega

/-- The only error the size bound produces is `exceedsMaxSize`, and `build` reports it only for
    that reason. -/
theorem C09_build_exceeds_iff {S : Scheme} {b b' : Builder} {pk : S.PK} {sig : Bytes}
    (hp : Builder.prepare S b pk = .ok b') :
    Builder.build S b pk (some sig) = .err .exceedsMaxSize ↔
      b'.rlpContent.length + sig.length + 8 > 300 := by
  rw [build_of_prepare_ok sig hp, builder_bound_eq]
  constructor
  · intro h
    split at h
    · assumption
    · cases h
  · intro h
    rw [if_pos h]

/-! ### Examples (toy key type: the key is its own encoding, every signature verifies) -/

namespace C09ex

def toy : Scheme where
  PK := Bytes
  enrKey := fun _ => kSecp
  encodePub := fun pk => pk
  uncompressed := fun pk => pk
  enrToPublic := fun c =>
    match Map.lookup c kSecp with
    | none => .error (.custom .invalidPubkey)
    | some v =>
      match decodeBytes v false with
      | .ok (b, _) => .ok b
      | .error e => .error e
  verify := fun _ _ _ => true
  digest := fun b => b

def pk0 : toy.PK := [2, 7, 7]
def sig0 : Bytes := List.replicate 64 1

def errOf {α : Type} : Except EnrErr α → Option EnrErr
  | .error e => some e
  | .ok _ => none

def resErr {α : Type} : Res α → Option EnrErr
  | .err e => some e
  | _ => none

/-- a record at the maximal sequence number, 200 bytes -/
def rMax : Record :=
  ⟨2 ^ 64 - 1, pk0, [(kId, encBytes vV4), (kSecp, encBytes pk0), ([122], encBytes (List.replicate 100 0))],
    sig0⟩

def bigInsert : Op toy := .insert [122, 122] (.bytes (List.replicate 120 0))

set_option maxRecDepth 100000 in
/-- The counterexample to the unconditional "exactly when": the Rust code answers
    `ExceedsMaxSize`, but with the pre-signing check removed the call fails with `SeqTooHigh`. -/
example : rMax.size = 200 ∧
    resErr (step toy rMax bigInsert pk0 (some sig0)).1 = some .exceedsMaxSize ∧
    errOf (prepareG toy rMax bigInsert pk0 false) = some .seqTooHigh := by decide

/-- the builder refuses a 64-byte-signature record of 296 bytes and accepts one of 295 bytes -/
def bld (n : Nat) : Builder := ({} : Builder).addValue [122] (.bytes (List.replicate n 0))

set_option maxRecDepth 100000 in
example :
    (match Builder.build toy (bld 202) pk0 (some sig0) with
     | .ok r => some r.size
     | _ => none) = some 295 ∧
    resErr (Builder.build toy (bld 203) pk0 (some sig0)) = some .exceedsMaxSize ∧
    (⟨1, pk0, builtContent toy (bld 203) pk0, sig0⟩ : Record).size = 296 := by decide

end C09ex

/-! ### non-vacuity: the hypotheses of the theorems above hold of concrete records and calls

`rBig`, `insZ m`, `pBig`, `bldZ n`, `sig64` are defined in `Proofs/Examples.lean` (toy scheme
`tinyS` of `Proofs/ToyScheme.lean`; the public key is stored under `"t"`).  Concrete runs of `step`
and `build` are evaluated by the kernel (`decide +kernel`). -/

section NonVacuity
set_option maxRecDepth 100000

example : rBig.size = 192 ∧ rBig.sig.length = 64 ∧ rBig.seq = 127 := by decide

/-- `insert("zz", [0; 101])`: the result has exactly 300 bytes and is accepted (`C09_step_size_le`) -/
example : (step tinyS rBig (insZ 101) pk0 (some sig64)).1 = .ok (.prevRaw none) ∧
    (step tinyS rBig (insZ 101) pk0 (some sig64)).2.size = 300 ∧
    (step tinyS rBig (insZ 101) pk0 (some sig64)).2.size ≤ 300 :=
  have h : step tinyS rBig (insZ 101) pk0 (some sig64) =
      (.ok (.prevRaw none), (step tinyS rBig (insZ 101) pk0 (some sig64)).2) := by decide +kernel
  ⟨by decide +kernel, by decide +kernel, C09_step_size_le h⟩

/-- 102 bytes: the pre-signing check (old sequence number: 300 bytes) passes, the final check
    (301 bytes) refuses.  `C09_refusal_sound` applies and its conclusion is the 301. -/
example : (step tinyS rBig (insZ 102) pk0 (some sig64)).1 = .err .exceedsMaxSize ∧
    (∃ p, prepare tinyS rBig (insZ 102) pk0 = .ok p) ∧
    (⟨newSeq (insZ 102) rBig, nodeIdOf tinyS pk0, newContent tinyS (insZ 102) pk0 rBig.content, sig64⟩
      : Record).size = 301 ∧
    (⟨newSeq (insZ 102) rBig, nodeIdOf tinyS pk0, newContent tinyS (insZ 102) pk0 rBig.content, sig64⟩
      : Record).size > 300 :=
  have h : (step tinyS rBig (insZ 102) pk0 (some sig64)).1 = .err .exceedsMaxSize := by
    decide +kernel
  ⟨h, ⟨pBig, by decide +kernel⟩, by decide +kernel, C09_refusal_sound (by decide) (by decide) h⟩

/-- the same call through `C09_refusal_complete`, `C09_refusal_exact` and `C09_refusal_exact_len`:
    without the pre-signing check the update gets to the signer, the signed result is too large -/
example : prepareG tinyS rBig (insZ 102) pk0 false = .ok pBig ∧
    ({ pBig.enr with sig := sig64 } : Record).size = 301 := by decide +kernel

example : (step tinyS rBig (insZ 102) pk0 (some sig64)).1 = .err .exceedsMaxSize :=
  C09_refusal_complete (p := pBig) (by decide +kernel) (by decide +kernel)

example : (step tinyS rBig (insZ 102) pk0 (some sig64)).1 = .err .exceedsMaxSize :=
  (C09_refusal_exact (by decide) (by decide) ⟨pBig, by decide +kernel⟩).2
    ⟨pBig, by decide +kernel, by decide +kernel⟩

example : ∃ p, prepareG tinyS rBig (insZ 102) pk0 false = .ok p ∧
    ({ p.enr with sig := sig64 } : Record).size > 300 :=
  (C09_refusal_exact (by decide) (by decide) ⟨pBig, by decide +kernel⟩).1 (by decide +kernel)

example : (step tinyS rBig (insZ 102) pk0 (some sig64)).1 = .err .exceedsMaxSize :=
  (C09_refusal_exact_len (p := pBig) (by decide) (by decide) (by decide +kernel)).2
    (by decide +kernel)

/-- 103 bytes: already the pre-signing check refuses (the signer is never asked) -/
example : prepare tinyS rBig (insZ 103) pk0 = .error .exceedsMaxSize ∧
    (⟨newSeq (insZ 103) rBig, nodeIdOf tinyS pk0, newContent tinyS (insZ 103) pk0 rBig.content, sig64⟩
      : Record).size > 300 :=
  ⟨by decide +kernel, C09_refusal_sound (by decide) (by decide) (by decide +kernel)⟩

/-- `C09_refusal_precedence_seq_max`: all five hypotheses hold of `rBig` moved to the maximal
    sequence number (200 bytes) and the insertion of 120 bytes -/
example : (step tinyS { rBig with seq := 2 ^ 64 - 1 } (insZ 120) pk0 none).1 = .err .exceedsMaxSize ∧
    prepareG tinyS { rBig with seq := 2 ^ 64 - 1 } (insZ 120) pk0 false = .error .seqTooHigh :=
  C09_refusal_precedence_seq_max none rfl (by decide +kernel) rfl (by decide +kernel) (by decide)

/-- `C09_no_first_check` / `C09_step_snd_size_le` on a removal -/
example : prepare tinyS rBig (.removeKey [122]) pk0 = prepareG tinyS rBig (.removeKey [122]) pk0 false :=
  C09_no_first_check (S := tinyS) rBig (.removeKey [122]) pk0 rfl

example : (step tinyS rBig (.removeKey [122]) pk0 (some sig64)).2.size ≤ 300 :=
  C09_step_snd_size_le (S := tinyS) rBig (.removeKey [122]) pk0 (some sig64) (by decide)

example : (step tinyS rBig (.removeKey [122]) pk0 (some sig64)).2.size = 81 := by decide +kernel

/-- sizes: monotone in the sequence number, dependent on the signature's length only (unless it is 1),
    at most two bytes per increment -/
example : ({ rBig with seq := 5 } : Record).size ≤ ({ rBig with seq := 2 ^ 64 - 1 } : Record).size :=
  C09_size_mono_seq _ _ rfl rfl (by decide)

example : ({ rBig with seq := 5 } : Record).size = 192 ∧
    ({ rBig with seq := 2 ^ 64 - 1 } : Record).size = 200 := by decide

example : ({ rBig with sig := List.replicate 64 9 } : Record).size = rBig.size :=
  C09_size_sig_len _ _ (by decide) (by decide) rfl rfl

example : ({ rBig with seq := rBig.seq + 1 } : Record).size ≤ rBig.size + 2 :=
  C09_size_bump_le rBig (by decide)

example : ({ rBig with seq := rBig.seq + 1 } : Record).size = 193 := by decide

/-- the toy record `r0`: 18 = 1 (list header) + 5 (signature item) + 1 (sequence number) + 11 (pairs);
    it comes out of `decode`, so `C09_decode_size_le` applies -/
example : r0.size ≤ 300 := C09_decode_size_le r0Bytes_decodes

example : r0.size = 18 ∧ (encBytes r0.sig).length = 5 ∧ (encUint r0.seq).length = 1 ∧
    (Record.pairsBytes r0.content).length = 11 ∧ (encodeHeader true 17).length = 1 := by decide

/-! the builder: `bldZ n` is the empty builder plus `"z" ↦ [0; n]`, signed with 64 bytes -/

/-- 295 bytes: built (`C09_build_size_le`) -/
example : ∃ r, Builder.build tinyS (bldZ 211) pk0 (some sig64) = .ok r ∧ r.size = 295 ∧ r.size ≤ 297 :=
  have h : Builder.build tinyS (bldZ 211) pk0 (some sig64) =
      .ok ⟨1, nodeIdOf tinyS pk0, builtContent tinyS (bldZ 211) pk0, sig64⟩ := by decide +kernel
  ⟨_, h, by decide, (C09_build_size_le h).1⟩

/-- 296 bytes: refused although within the limit (`C09_build_refusal_exact_64` in both directions,
    `C09_build_refusal_near_64`, `C09_build_refusal_near`, `C09_build_refusal_near_7`,
    `C09_build_exceeds_iff`) -/
example : Builder.build tinyS (bldZ 212) pk0 (some sig64) = .err .exceedsMaxSize ∧
    (⟨1, nodeIdOf tinyS pk0, builtContent tinyS (bldZ 212) pk0, sig64⟩ : Record).size = 296 := by
  have hp : Builder.prepare tinyS (bldZ 212) pk0 = .ok ⟨1, builtContent tinyS (bldZ 212) pk0⟩ := by
    decide +kernel
  have h := (C09_build_refusal_exact_64 (sig := sig64) (by decide) hp).2 (by decide)
  have h1 := (C09_build_refusal_exact_64 (by decide) hp).1 h
  have h2 := C09_build_refusal_near_64 (by decide) hp h
  have h3 := C09_build_refusal_near hp h
  have h4 := C09_build_refusal_near_7 (by decide) hp h
  have h5 := (C09_build_exceeds_iff hp).1 h
  exact ⟨h, by decide⟩

/-- 301 bytes: refused, as it must be (`C09_build_refuses_over`, `C09_build_refuses_over'`) -/
example : Builder.build tinyS (bldZ 217) pk0 (some sig64) = .err .exceedsMaxSize ∧
    (∀ r, Builder.build tinyS (bldZ 217) pk0 (some sig64) ≠ .ok r) ∧
    (⟨1, nodeIdOf tinyS pk0, builtContent tinyS (bldZ 217) pk0, sig64⟩ : Record).size = 301 := by
  have hp : Builder.prepare tinyS (bldZ 217) pk0 = .ok ⟨1, builtContent tinyS (bldZ 217) pk0⟩ := by
    decide +kernel
  exact ⟨C09_build_refuses_over hp (by decide), C09_build_refuses_over' (by decide), by decide⟩

end NonVacuity

/-! ### Axioms -/

#print axioms C09_size_eq_encode_length
#print axioms C09_size_formula
#print axioms C09_step_size_le
#print axioms C09_step_snd_size_le
#print axioms C09_build_size_le
#print axioms C09_decode_size_le
#print axioms C09_size_mono_seq
#print axioms C09_size_sig_len
#print axioms C09_size_nodeId
#print axioms C09_size_bump_le
#print axioms C09_refusal_sound
#print axioms C09_refusal_complete
#print axioms C09_refusal_exact
#print axioms C09_refusal_exact_len
#print axioms C09_refusal_precedence_seq_max
#print axioms C09_no_first_check
#print axioms C09_build_refuses_over
#print axioms C09_build_refuses_over'
#print axioms C09_build_refusal_near
#print axioms C09_build_refusal_near_7
#print axioms C09_build_refusal_exact_64
#print axioms C09_build_refusal_near_64
#print axioms C09_build_exceeds_iff

end EnrVerif
