/-
  C01 — Accepted records are authentic: the signature binds seq and every key/value.

  "A byte string or text is accepted as a record only if its signature field is a valid v4
  signature (64-byte r||s low-S secp256k1 ECDSA over keccak256 of the RLP list [seq, k1, v1, ...];
  for ed25519 records an Ed25519 signature over that list) made by the public key carried in that
  same record, over exactly the sequence number and key/value pairs the decoded record then
  reports.  Consequently every alteration of a signed record's sequence number, keys, values, public
  key or signature bytes, including the high-S twin of its ECDSA signature, is rejected, and a
  decoded record always reports itself as verifying."

  Structural part (any key type `S`): acceptance implies that `S.verify` holds for the public key
  read from the record's own content, over the payload `[seq, k1, v1, …]` rebuilt from exactly the
  fields the record reports; the payload determines those fields (injectivity), so a signature over
  other content does not transfer; an input whose signature does not verify is rejected.
  Concrete part: the executable verifiers reject wrong lengths, out-of-range `r`/`s`, high `S`
  (ECDSA) and non-canonical `s` (Ed25519) before any curve arithmetic (Proofs/SigGuards.lean).
  That a valid-looking signature cannot be *forged* is the unforgeability assumption of the
  signature schemes and is outside every theorem.
-/
import EnrVerif.Proofs.CodecTheorems
import EnrVerif.Proofs.SigGuards
import EnrVerif.Proofs.Examples

namespace EnrVerif

/-- Acceptance ⇒ a valid signature by the key the record itself carries, over the payload built
    from the fields the record reports, with id = v4. -/
theorem C01_accepted_authentic (S : Scheme) (buf : Bytes) (r : Record) (rest : Bytes)
    (h : decode S buf = .ok (r, rest)) :
    ∃ pk, S.enrToPublic r.content = .ok pk ∧ r.id = some vV4 ∧
      S.verify pk r.rlpContent r.sig = true ∧ r.nodeId = nodeIdOf S pk := by
  have hv := decode_valid S buf r rest h
  obtain ⟨pk, h1, h2, h3⟩ := hv.authentic
  refine ⟨pk, h1, ?_, h3, h2⟩
  have := decode_verifies S buf r rest h
  unfold Record.verify at this
  rw [h1] at this
  simp only at this
  split at this
  · rename_i i hi
    split at this
    · rename_i hi4; rw [hi, hi4]
    · simp at this
  · simp at this

/-- a decoded record always reports itself as verifying -/
theorem C01_decoded_verifies (S : Scheme) (buf : Bytes) (r : Record) (rest : Bytes)
    (h : decode S buf = .ok (r, rest)) : r.verify S = .ok true :=
  decode_verifies S buf r rest h

/-- the same for text -/
theorem C01_parsed_verifies (S : Scheme) (s : Bytes) (r : Record) (h : parseText S s = some r) :
    r.verify S = .ok true := by
  have hv := parseText_valid S s r h
  have := encode_decode S r hv
  exact decode_verifies S _ r [] this

/-- "over exactly the sequence number and key/value pairs the decoded record then reports":
    the signed payload determines them. -/
theorem C01_payload_binds_fields (S : Scheme) (r1 r2 : Record) (h1 : Valid S r1) (h2 : Valid S r2)
    (h : r1.rlpContent = r2.rlpContent) : r1.seq = r2.seq ∧ r1.content = r2.content :=
  payload_injective r1 r2 h1.content h2.content h1.seq_lt h2.seq_lt h

/-- An input whose signature does not verify under the key its own content carries is rejected,
    whatever follows it in the buffer. -/
theorem C01_tamper_rejected (S : Scheme) (sig : Bytes) (seq : Nat) (c : Content)
    (hc : ContentOK c) (hseq : seq < 2 ^ 64)
    (hlen : (encBytes sig ++ encUint seq ++ Record.pairsBytes c).length < 2 ^ 64)
    (hbad : ∀ pk, S.enrToPublic c = .ok pk →
      S.verify pk (encList (encUint seq ++ Record.pairsBytes c)) sig = false) :
    ∀ rest, ∃ e, decode S (encList (encBytes sig ++ encUint seq ++ Record.pairsBytes c) ++ rest) = .error e :=
  tamper_rejected S sig seq c hc hseq hlen hbad

/-- Every alteration of an accepted input that is accepted again is a *different validly signed
    record*: if two accepted inputs differ, the records differ in seq, pairs or signature, and each
    carries a signature valid for its own fields (so without the signer's key an alteration cannot be
    accepted unless a signature is forged). -/
theorem C01_alteration (S : Scheme) (b1 b2 : Bytes) (r1 r2 : Record)
    (h1 : decode S b1 = .ok (r1, [])) (h2 : decode S b2 = .ok (r2, [])) (hne : b1 ≠ b2) :
    r1.seq ≠ r2.seq ∨ r1.content ≠ r2.content ∨ r1.sig ≠ r2.sig := by
  by_cases a : r1.seq = r2.seq
  · by_cases b : r1.content = r2.content
    · by_cases c : r1.sig = r2.sig
      · exfalso
        apply hne
        have e1 := decode_reencode S b1 r1 [] h1
        have e2 := decode_reencode S b2 r2 [] h2
        simp only [List.append_nil] at e1 e2
        rw [← e1, ← e2]
        unfold Record.encode
        rw [a, b, c]
      · exact .inr (.inr c)
    · exact .inr (.inl b)
  · exact .inl a

/-- The concrete verifiers: wrong-length signatures never verify (all built-in key types). -/
theorem C01_wrong_length_rejected (pk msg sig : Bytes) (h : sig.length ≠ 64) :
    k256S.verify pk msg sig = false ∧ libsecpS.verify pk msg sig = false ∧
    edS.verify pk msg sig = false ∧ combS.verify pk msg sig = false :=
  ⟨k256S_verify_len pk msg sig h, libsecpS_verify_len pk msg sig h, edS_verify_len pk msg sig h,
   combS_verify_len pk msg sig h⟩

/-- The high-S twin `r ‖ (n - s)` of an ECDSA signature with low `s` never verifies. -/
theorem C01_highS_twin_rejected (P : Secp.Pt) (d rb sb : Bytes) (hr : rb.length = 32)
    (hs : sb.length = 32) (hpos : 0 < beToNat sb) (hlow : beToNat sb ≤ Secp.n / 2) :
    Secp.ecdsaVerifyPrehash P d (rb ++ natToBeFixed 32 (Secp.n - beToNat sb)) = false :=
  ecdsa_highS P d rb sb hr hs hpos hlow

/-- Ed25519: a non-canonical `s ≥ ℓ` never verifies. -/
theorem C01_ed_noncanonical_s_rejected (A : Ed.EdPub) (msg sig : Bytes) (hl : sig.length = 64)
    (hs : Ed.ℓ ≤ Ed.leToNat (sig.drop 32)) : Ed.verify A msg sig = false :=
  ed_noncanonical_s A msg sig hl hs

/-! ### non-vacuity -/

/-- an accepted input (the 18 bytes of `r0`; signature `01 02 03 0d`, key `01 02 03`) -/
example : decode tinyS [209, 132, 1, 2, 3, 13, 1, 130, 105, 100, 130, 118, 52, 116, 131, 1, 2, 3] =
    .ok (r0, []) := by decide +kernel

/-- `C01_accepted_authentic` on it: the key is the one in the record, `pk0` -/
example : ∃ pk, tinyS.enrToPublic r0.content = .ok pk ∧ r0.id = some vV4 ∧
    tinyS.verify pk r0.rlpContent r0.sig = true ∧ r0.nodeId = nodeIdOf tinyS pk :=
  C01_accepted_authentic tinyS r0Bytes r0 [] r0Bytes_decodes

example : tinyS.enrToPublic r0.content = .ok pk0 ∧ tinyS.verify pk0 r0.rlpContent r0.sig = true :=
  ⟨r0_pub, by decide⟩

/-- the signed payload of `r0`: the list `[1, "id", "v4", "t", 01 02 03]` -/
example : r0.rlpContent = [204, 1, 130, 105, 100, 130, 118, 52, 116, 131, 1, 2, 3] := by decide

/-- the decoded record reports itself as verifying (from bytes and from text) -/
example : r0.verify tinyS = .ok true := C01_decoded_verifies tinyS r0Bytes r0 [] r0Bytes_decodes

example : r0.verify tinyS = .ok true :=
  C01_parsed_verifies tinyS r0Text r0 (by decide +kernel)

/-- tampered copies of `r0Bytes`: one byte of the public-key value changed … -/
example : decode tinyS [209, 132, 1, 2, 3, 13, 1, 130, 105, 100, 130, 118, 52, 116, 131, 1, 2, 4] =
    .error (.custom .invalidSignature) := by decide +kernel

/-- … one byte of the signature changed … -/
example : decode tinyS [209, 132, 1, 2, 3, 14, 1, 130, 105, 100, 130, 118, 52, 116, 131, 1, 2, 3] =
    .error (.custom .invalidSignature) := by decide +kernel

/-- … the sequence number 1 replaced by 128 … -/
example : decode tinyS [210, 132, 1, 2, 3, 13, 129, 128, 130, 105, 100, 130, 118, 52, 116, 131, 1, 2, 3] =
    .error (.custom .invalidSignature) := by decide +kernel

/-- … a pair appended (`"x" ↦ 7`) … -/
example : decode tinyS [211, 132, 1, 2, 3, 13, 1, 130, 105, 100, 130, 118, 52, 116, 131, 1, 2, 3, 120, 7] =
    .error (.custom .invalidSignature) := by decide +kernel

/-- … the signature of another record (`r1`'s, `01 02 03 14`) … -/
example : decode tinyS [209, 132, 1, 2, 3, 20, 1, 130, 105, 100, 130, 118, 52, 116, 131, 1, 2, 3] =
    .error (.custom .invalidSignature) := by decide +kernel

/-- … the public-key entry renamed (`"t"` to `"u"`) -/
example : decode tinyS [209, 132, 1, 2, 3, 13, 1, 130, 105, 100, 130, 118, 52, 117, 131, 1, 2, 3] =
    .error (.custom .unknownSignature) := by decide +kernel

/-- `C01_tamper_rejected`: its hypotheses hold for the pairs of `r0` under a foreign signature
    (`pk1`'s over the same payload), whatever follows in the buffer -/
example : ∀ rest, ∃ e, decode tinyS
    (encList (encBytes (tinySign pk1 payload0) ++ encUint 1 ++ Record.pairsBytes content0) ++ rest) =
      .error e :=
  C01_tamper_rejected tinyS (tinySign pk1 payload0) 1 content0 r0_contentOK (by decide) (by decide)
    (fun pk hpk => by
      have h0 : tinyS.enrToPublic content0 = .ok pk0 := r0_pub
      rw [h0] at hpk
      cases hpk
      decide)

/-- `C01_payload_binds_fields` (contrapositive): `r0` and `rMax` differ in the sequence number, so
    their signed payloads differ -/
example : r0.rlpContent ≠ rMax.rlpContent := fun h =>
  absurd (C01_payload_binds_fields tinyS r0 rMax r0_valid rMax_valid h).1 (by decide)

/-- `C01_alteration`: two different accepted inputs.  The toy signature binds the signer's key and
    the *length* of the payload only, so replacing the sequence number 1 of `r0` by 2 is accepted
    again (a "forgery" the toy scheme permits; unforgeability is an assumption about the real
    schemes, outside every theorem) — and, as the theorem says, what comes out is a different record
    carrying a signature valid for its own fields. -/
example :
    let b2 : Bytes := [209, 132, 1, 2, 3, 13, 2, 130, 105, 100, 130, 118, 52, 116, 131, 1, 2, 3]
    decode tinyS b2 = .ok ({ r0 with seq := 2 }, []) ∧
      (r0.seq ≠ ({ r0 with seq := 2 } : Record).seq ∨ r0.content ≠ ({ r0 with seq := 2 } : Record).content ∨
        r0.sig ≠ ({ r0 with seq := 2 } : Record).sig) := by
  intro b2
  have h2 : decode tinyS b2 = .ok ({ r0 with seq := 2 }, []) := by decide +kernel
  exact ⟨h2, C01_alteration tinyS r0Bytes b2 r0 _ r0Bytes_decodes h2 (by decide)⟩

/-- the concrete verifiers: a 63-byte signature -/
example : k256S.verify [] [] (List.replicate 63 1) = false :=
  (C01_wrong_length_rejected [] [] (List.replicate 63 1) (by decide)).1

/-- the high-S twin of the ECDSA signature `(r, s) = (1, 1)` -/
example (P : Secp.Pt) (d : Bytes) :
    Secp.ecdsaVerifyPrehash P d
      (natToBeFixed 32 1 ++ natToBeFixed 32 (Secp.n - beToNat (natToBeFixed 32 1))) = false :=
  C01_highS_twin_rejected P d (natToBeFixed 32 1) (natToBeFixed 32 1) (by decide) (by decide)
    (by decide) (by decide)

/-- Ed25519: `s` = 2^256 - 1 ≥ ℓ -/
example (A : Ed.EdPub) (msg : Bytes) : Ed.verify A msg (List.replicate 64 255) = false :=
  C01_ed_noncanonical_s_rejected A msg _ (by decide) (by decide)

#print axioms C01_accepted_authentic
#print axioms C01_decoded_verifies
#print axioms C01_parsed_verifies
#print axioms C01_payload_binds_fields
#print axioms C01_tamper_rejected
#print axioms C01_alteration
#print axioms C01_wrong_length_rejected
#print axioms C01_highS_twin_rejected
#print axioms C01_ed_noncanonical_s_rejected

end EnrVerif
