/-
  C08 (continued) — the runtime predicate for error kinds of `build` is sound with respect to the
  model.

  "… and a failing call reports the error kind that matches its cause" / quantifier: "the model
  predicts … the set of admissible error kinds (when several causes apply, any of them)".

  For a failing `build` the driver admits every error kind whose cause applies (the field `adm` of
  `Driver.buildModel`, Model/Driver.lean): the value errors of every pair of the content to be
  signed, the signing-key precondition, `ExceedsMaxSize` when the estimated size plus the builder's
  8-byte slack exceeds 300, and `SigningError` when the signer failed.  Whatever the model's own
  `Builder.build` answers is always admitted, so on an implementation that behaves like the model
  the predicate `error_kind_matches_a_cause` cannot fire for `build` (no false alarm from this
  predicate).  The companion of Props/C08Monitor (updates); the lemmas are in
  Proofs/BuildAdmissibleLemmas.
-/
import EnrVerif.Proofs.BuildAdmissibleLemmas
import EnrVerif.Proofs.Examples

namespace EnrVerif

/-- The error kind of the model's `build` is among the kinds the driver admits.  The hypothesis
    `hsf`: a missing answer means the signer was asked and failed (the driver takes `oracle` as the
    first answer of the signer's log and `sf` as "some answer of the log is missing"). -/
theorem C08_build_admissible_sound (d : Driver.DS) (b : Builder) (pk : d.S.PK)
    (oracle : Option Bytes) (sf : Bool) (hsf : oracle = none → sf = true)
    (e : EnrErr) (h : Builder.build d.S b pk oracle = .err e) :
    Driver.enrErrStr e ∈ (Driver.buildModel d b pk oracle sf).adm :=
  BuildAdm.adm_sound d b pk oracle sf hsf e h

/-- the same with the hypothesis only where it is needed: when the build reaches the signer -/
theorem C08_build_admissible_sound_prepared (d : Driver.DS) (b : Builder) (pk : d.S.PK)
    (oracle : Option Bytes) (sf : Bool)
    (hsf : (∃ b', Builder.prepare d.S b pk = .ok b') → oracle = none → sf = true)
    (e : EnrErr) (h : Builder.build d.S b pk oracle = .err e) :
    Driver.enrErrStr e ∈ (Driver.buildModel d b pk oracle sf).adm :=
  BuildAdm.adm_sound_prepared d b pk oracle sf hsf e h

/-- in the form the driver evaluates: with the signer log of a run in which the implementation asked
    the signer whenever the model does -/
theorem C08_build_admissible_sound_log (d : Driver.DS) (b : Builder) (pk : d.S.PK)
    (log : List (Bytes × Option Bytes))
    (hlog : (∃ b', Builder.prepare d.S b pk = .ok b') → log ≠ [])
    (e : EnrErr) (h : Builder.build d.S b pk (BuildAdm.logOracle log) = .err e) :
    (Driver.buildModel d b pk (BuildAdm.logOracle log)
      (log.any (·.2.isNone))).adm.contains (Driver.enrErrStr e) = true :=
  BuildAdm.adm_sound_log d b pk log hlog e h

/-! ### non-vacuity: the theorems on concrete failing builds (toy scheme `tinyS` wrapped as a driver
scheme; `pk0` from `Proofs/ToyScheme.lean`) -/

section NonVacuity
set_option maxRecDepth 100000

/-- the toy scheme as a driver scheme -/
def tinyDS : Driver.DS := ⟨"tiny", tinyS, Subtype.val,
  fun b => if h : b.length ≤ 8 then ⟨b, h⟩ else ⟨[], by decide⟩,
  inferInstanceAs (DecidableEq { b : Bytes // b.length ≤ 8 })⟩

/-- a failing signer on an otherwise acceptable build: the hypothesis `build … = err e` holds, and
    the admitted kinds are exactly `["SigningError"]` -/
example :
    Builder.build tinyS {} pk0 none = .err .signingError ∧
    (Driver.buildModel tinyDS {} pk0 none true).adm = ["SigningError"] ∧
    "SigningError" ∈ (Driver.buildModel tinyDS {} pk0 none true).adm := by
  have h : Builder.build tinyDS.S {} pk0 none = .err .signingError := by decide +kernel
  exact ⟨h, by decide +kernel,
    C08_build_admissible_sound tinyDS {} pk0 none true (fun _ => rfl) .signingError h⟩

/-- an ill-typed value under a reserved key (a 3-byte `tcp` port) and a failing signer's flag: two
    kinds are admitted, the model's answer (`InvalidRlpData`; the signer is not asked) is one of
    them; in the form with the signer's log (empty) -/
example :
    Builder.build tinyS (({} : Builder).addRaw kTcp (encBytes [1, 2, 3])) pk0
      (BuildAdm.logOracle []) = .err (.invalidRlp .overflow) ∧
    (Driver.buildModel tinyDS (({} : Builder).addRaw kTcp (encBytes [1, 2, 3])) pk0
      (BuildAdm.logOracle []) true).adm = ["InvalidRlpData", "SigningError"] ∧
    (Driver.buildModel tinyDS (({} : Builder).addRaw kTcp (encBytes [1, 2, 3])) pk0
      (BuildAdm.logOracle [])
      (([] : List (Bytes × Option Bytes)).any (·.2.isNone))).adm.contains "InvalidRlpData" = true := by
  have h : Builder.build tinyDS.S (({} : Builder).addRaw kTcp (encBytes [1, 2, 3])) pk0
      (BuildAdm.logOracle []) = .err (.invalidRlp .overflow) := by decide +kernel
  refine ⟨h, by decide +kernel,
    C08_build_admissible_sound_log tinyDS _ pk0 [] ?_ _ h⟩
  rintro ⟨b', hb'⟩
  have hp : Builder.prepare tinyDS.S (({} : Builder).addRaw kTcp (encBytes [1, 2, 3])) pk0 =
      .error (.invalidRlp .overflow) := by decide +kernel
  rw [hp] at hb'
  cases hb'

/-- a build refused for size: 300 bytes under one key, the signer answered; the builder's bound is
    exceeded, so is the driver's estimate, and `ExceedsMaxSize` is the one admitted kind -/
example :
    Builder.build tinyS (({} : Builder).addRaw [120] (encBytes (List.replicate 300 7))) pk0
      (some [1, 2, 3, 4]) = .err .exceedsMaxSize ∧
    (Driver.buildModel tinyDS (({} : Builder).addRaw [120] (encBytes (List.replicate 300 7))) pk0
      (some [1, 2, 3, 4]) false).adm = ["ExceedsMaxSize"] ∧
    "ExceedsMaxSize" ∈ (Driver.buildModel tinyDS
      (({} : Builder).addRaw [120] (encBytes (List.replicate 300 7))) pk0
      (some [1, 2, 3, 4]) false).adm := by
  have h : Builder.build tinyDS.S (({} : Builder).addRaw [120] (encBytes (List.replicate 300 7))) pk0
      (some [1, 2, 3, 4]) = .err .exceedsMaxSize := by decide +kernel
  exact ⟨h, by decide +kernel,
    C08_build_admissible_sound tinyDS _ pk0 (some [1, 2, 3, 4]) false (fun h => by cases h)
      .exceedsMaxSize h⟩

end NonVacuity

#print axioms C08_build_admissible_sound
#print axioms C08_build_admissible_sound_prepared
#print axioms C08_build_admissible_sound_log

end EnrVerif
