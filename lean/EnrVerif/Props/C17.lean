/-
  Property C17 — CombinedKey secret import/export.

  "CombinedKey secret import/export is exact, validating and wipes the input: importing a
   secp256k1 secret succeeds exactly for scalars in [1, n-1] and importing an ed25519 secret exactly
   for 32-byte inputs; the imported key exports the bytes it was given and its public key is the
   one derived from those bytes; the caller's buffer is zeroed on success and left untouched on
   failure."

  Model: `EnrVerif/Model/Combined.lean` (`CombinedKey.secpFromBytes`, `edFromBytes`, `encode`,
  `publicBytes`); an import returns the key (or `none`) together with the caller's buffer after the
  call.

  FINDING (reported, model mirrors the code): `secp256k1_from_bytes` goes through
  `k256::ecdsa::SigningKey::from_slice`, which accepts every length in `24 ..= 32` and left-pads
  shorter inputs.  So "exact" holds for 32-byte inputs only: for a 24..31-byte input the import
  succeeds and `encode()` returns the zero-padded 32 bytes, not the input
  (`secp_export_import_padded`, `secp_short_accepted` below).  The statements requested for C17 are
  therefore made under `b.length = 32`, and the general behaviour is stated separately.
-/
import EnrVerif.Proofs.SchemeLemmas

namespace EnrVerif

open CombinedKey

/-! ### secp256k1 -/

/-- General accept set of `secp256k1_from_bytes`. -/
theorem secp_import_iff_general (b : Bytes) :
    (secpFromBytes b).1.isSome ↔
      (24 ≤ b.length ∧ b.length ≤ 32) ∧ 0 < beToNat b ∧ beToNat b < Secp.n := by
  unfold secpFromBytes
  by_cases hl : b.length < 24 ∨ 32 < b.length
  · rw [if_pos hl]
    simp only [Option.isSome_none, Bool.false_eq_true, false_iff]
    omega
  · rw [if_neg hl]
    simp only
    by_cases hd : beToNat b = 0 ∨ Secp.n ≤ beToNat b
    · rw [if_pos hd]
      simp only [Option.isSome_none, Bool.false_eq_true, false_iff]
      omega
    · rw [if_neg hd]
      simp only [Option.isSome_some, true_iff]
      omega

/-- Importing 32 bytes as a secp256k1 secret succeeds exactly for scalars in `[1, n-1]`. -/
theorem secp_import_iff (b : Bytes) (h : b.length = 32) :
    (secpFromBytes b).1.isSome ↔ 0 < beToNat b ∧ beToNat b < Secp.n := by
  rw [secp_import_iff_general]
  constructor
  · exact fun h => h.2
  · exact fun h' => ⟨by omega, h'⟩

/-- Shape of a successful import. -/
theorem secp_import_inv (b : Bytes) (k : CombinedKey) (buf : Bytes)
    (h : secpFromBytes b = (some k, buf)) :
    (24 ≤ b.length ∧ b.length ≤ 32) ∧ 0 < beToNat b ∧ beToNat b < Secp.n ∧
    k = ⟨true, natToBeFixed 32 (beToNat b)⟩ ∧ buf = List.replicate b.length 0 := by
  unfold secpFromBytes at h
  split at h
  · cases h
  · rename_i hl
    simp only at h
    split at h
    · cases h
    · rename_i hd
      simp only [Prod.mk.injEq, Option.some.injEq] at h
      refine ⟨by omega, by omega, by omega, h.1.symm, h.2.symm⟩

/-- The imported key exports exactly the 32 bytes it was given. -/
theorem secp_export_import (b : Bytes) (k : CombinedKey) (buf : Bytes) (hl : b.length = 32)
    (h : secpFromBytes b = (some k, buf)) : k.encode = b ∧ k.isSecp = true := by
  obtain ⟨_, _, _, hk, _⟩ := secp_import_inv b k buf h
  subst hk
  refine ⟨?_, rfl⟩
  show natToBeFixed 32 (beToNat b) = b
  rw [← hl]
  exact natToBeFixed_beToNat b

/-- General form (inputs of 24..32 bytes): the export is the input left-padded with zeros to 32
    bytes — equal to the input only when it has 32 bytes. -/
theorem secp_export_import_padded (b : Bytes) (k : CombinedKey) (buf : Bytes)
    (h : secpFromBytes b = (some k, buf)) :
    k.encode = List.replicate (32 - b.length) 0 ++ b ∧ k.isSecp = true := by
  obtain ⟨hl, _, _, hk, _⟩ := secp_import_inv b k buf h
  subst hk
  refine ⟨?_, rfl⟩
  show natToBeFixed 32 (beToNat b) = _
  have := natToBeFixed_pad (32 - b.length) b
  rwa [show 32 - b.length + b.length = 32 by omega] at this

/-- On success the caller's buffer is wiped (same length, all zero). -/
theorem secp_buffer_zeroed (b : Bytes) (k : CombinedKey) (buf : Bytes)
    (h : secpFromBytes b = (some k, buf)) : buf = List.replicate b.length 0 :=
  (secp_import_inv b k buf h).2.2.2.2

/-- On failure the caller's buffer is untouched. -/
theorem secp_buffer_kept_on_error (b buf : Bytes) (h : secpFromBytes b = (none, buf)) :
    buf = b := by
  unfold secpFromBytes at h
  split at h
  · simp only [Prod.mk.injEq, true_and] at h; exact h.symm
  · simp only at h
    split at h
    · simp only [Prod.mk.injEq, true_and] at h; exact h.symm
    · simp at h

/-- The imported key's public key is the independent derivation from the 32 given bytes. -/
theorem secp_public_is_derivation (b : Bytes) (k : CombinedKey) (buf : Bytes) (hl : b.length = 32)
    (h : secpFromBytes b = (some k, buf)) :
    k.publicBytes = (Secp.secretToPub b).map Secp.compress := by
  obtain ⟨_, _, hlt, hk, _⟩ := secp_import_inv b k buf h
  subst hk
  unfold publicBytes Secp.secretToPub
  simp only [if_true]
  rw [if_neg (by omega), beToNat_natToBeFixed _ _ (by have := Secp.n_lt; omega)]

/-- General form: the public key is k256's derivation (`SigningKey::from_slice`) from the bytes. -/
theorem secp_public_is_derivation_k256 (b : Bytes) (k : CombinedKey) (buf : Bytes)
    (h : secpFromBytes b = (some k, buf)) :
    k.publicBytes = (Secp.secretToPubK256 b).map Secp.compress := by
  obtain ⟨hl, _, hlt, hk, _⟩ := secp_import_inv b k buf h
  subst hk
  unfold publicBytes Secp.secretToPubK256
  simp only [if_true]
  rw [if_neg (by omega), beToNat_natToBeFixed _ _ (by have := Secp.n_lt; omega)]

/-- A successful secp256k1 import always has a public key (the scalar is in range). -/
theorem secp_import_scalar_in_range (b : Bytes) (k : CombinedKey) (buf : Bytes)
    (h : secpFromBytes b = (some k, buf)) :
    0 < beToNat k.secret ∧ beToNat k.secret < Secp.n := by
  obtain ⟨_, hpos, hlt, hk, _⟩ := secp_import_inv b k buf h
  subst hk
  show 0 < beToNat (natToBeFixed 32 (beToNat b)) ∧ beToNat (natToBeFixed 32 (beToNat b)) < Secp.n
  rw [beToNat_natToBeFixed _ _ (by have := Secp.n_lt; omega)]
  exact ⟨hpos, hlt⟩

/-! ### ed25519 -/

/-- Importing an ed25519 secret succeeds exactly for 32-byte inputs. -/
theorem ed_import_iff (b : Bytes) : (edFromBytes b).1.isSome ↔ b.length = 32 := by
  unfold edFromBytes
  by_cases hl : b.length = 32
  · rw [if_neg (by omega)]; simp [hl]
  · rw [if_pos hl]; simp [hl]

theorem ed_import_inv (b : Bytes) (k : CombinedKey) (buf : Bytes)
    (h : edFromBytes b = (some k, buf)) :
    b.length = 32 ∧ k = ⟨false, b⟩ ∧ buf = List.replicate b.length 0 := by
  unfold edFromBytes at h
  split at h
  · cases h
  · rename_i hl
    simp only [Prod.mk.injEq, Option.some.injEq] at h
    exact ⟨by omega, h.1.symm, h.2.symm⟩

theorem ed_export_import (b : Bytes) (k : CombinedKey) (buf : Bytes)
    (h : edFromBytes b = (some k, buf)) : k.encode = b ∧ k.isSecp = false := by
  obtain ⟨_, hk, _⟩ := ed_import_inv b k buf h
  subst hk
  exact ⟨rfl, rfl⟩

theorem ed_buffer_zeroed (b : Bytes) (k : CombinedKey) (buf : Bytes)
    (h : edFromBytes b = (some k, buf)) : buf = List.replicate b.length 0 :=
  (ed_import_inv b k buf h).2.2

theorem ed_buffer_kept_on_error (b buf : Bytes) (h : edFromBytes b = (none, buf)) : buf = b := by
  unfold edFromBytes at h
  split at h
  · simp only [Prod.mk.injEq, true_and] at h; exact h.symm
  · simp at h

theorem ed_public_is_derivation (b : Bytes) (k : CombinedKey) (buf : Bytes)
    (h : edFromBytes b = (some k, buf)) : k.publicBytes = Ed.secretToPubBytes b := by
  obtain ⟨_, hk, _⟩ := ed_import_inv b k buf h
  subst hk
  rfl

/-- … and that derivation is defined (32-byte seed). -/
theorem ed_public_isSome (b : Bytes) (k : CombinedKey) (buf : Bytes)
    (h : edFromBytes b = (some k, buf)) : k.publicBytes.isSome = true := by
  rw [ed_public_is_derivation b k buf h]
  obtain ⟨hl, _, _⟩ := ed_import_inv b k buf h
  unfold Ed.secretToPubBytes
  rw [if_neg (by omega)]
  rfl

/-- Import is a partial function that either wipes or keeps: the two outcomes are exhaustive. -/
theorem secp_import_total (b : Bytes) :
    (∃ k, secpFromBytes b = (some k, List.replicate b.length 0)) ∨ secpFromBytes b = (none, b) := by
  unfold secpFromBytes
  split
  · exact Or.inr rfl
  · simp only
    split
    · exact Or.inr rfl
    · exact Or.inl ⟨_, rfl⟩

theorem ed_import_total (b : Bytes) :
    (∃ k, edFromBytes b = (some k, List.replicate b.length 0)) ∨ edFromBytes b = (none, b) := by
  unfold edFromBytes
  split
  · exact Or.inr rfl
  · exact Or.inl ⟨_, rfl⟩

/-! ### edge scalars -/

/-- the 32-byte big-endian encodings of `0`, `1`, `n - 1`, `n` -/
def scalar0 : Bytes := List.replicate 32 0
def scalar1 : Bytes := List.replicate 31 0 ++ [1]
def scalarNm1 : Bytes :=
  [0xFF, 0xFF, 0xFF, 0xFF, 0xFF, 0xFF, 0xFF, 0xFF, 0xFF, 0xFF, 0xFF, 0xFF, 0xFF, 0xFF, 0xFF, 0xFE,
   0xBA, 0xAE, 0xDC, 0xE6, 0xAF, 0x48, 0xA0, 0x3B, 0xBF, 0xD2, 0x5E, 0x8C, 0xD0, 0x36, 0x41, 0x40]
def scalarN : Bytes :=
  [0xFF, 0xFF, 0xFF, 0xFF, 0xFF, 0xFF, 0xFF, 0xFF, 0xFF, 0xFF, 0xFF, 0xFF, 0xFF, 0xFF, 0xFF, 0xFE,
   0xBA, 0xAE, 0xDC, 0xE6, 0xAF, 0x48, 0xA0, 0x3B, 0xBF, 0xD2, 0x5E, 0x8C, 0xD0, 0x36, 0x41, 0x41]

example : beToNat scalar0 = 0 := by decide
example : beToNat scalar1 = 1 := by decide
example : beToNat scalarNm1 = Secp.n - 1 := by decide
example : beToNat scalarN = Secp.n := by decide

/-- `0` is rejected and the buffer is kept -/
example : secpFromBytes scalar0 = (none, scalar0) := by decide
/-- `n` is rejected and the buffer is kept -/
example : secpFromBytes scalarN = (none, scalarN) := by decide
/-- all-ones (`2^256 - 1 ≥ n`) is rejected -/
example : (secpFromBytes (List.replicate 32 0xFF)).1 = none := by decide
/-- `1` is accepted, exported unchanged, buffer wiped -/
example : secpFromBytes scalar1 = (some ⟨true, scalar1⟩, List.replicate 32 0) := by decide
/-- `n - 1` is accepted, exported unchanged, buffer wiped -/
example : secpFromBytes scalarNm1 = (some ⟨true, scalarNm1⟩, List.replicate 32 0) := by decide
/-- wrong lengths: 33 bytes and 23 bytes are rejected -/
example : (secpFromBytes (List.replicate 32 0 ++ [1])).1 = none := by decide
example : (secpFromBytes (List.replicate 22 0 ++ [1])).1 = none := by decide
/-- FINDING: a 24-byte input is accepted (k256 `from_slice` pads), and exports 32 bytes ≠ input -/
theorem secp_short_accepted :
    secpFromBytes (List.replicate 23 0 ++ [1]) = (some ⟨true, scalar1⟩, List.replicate 24 0) := by
  decide

/-- ed25519: any 32 bytes are accepted, other lengths rejected -/
example : edFromBytes scalar0 = (some ⟨false, scalar0⟩, List.replicate 32 0) := by decide
example : (edFromBytes (List.replicate 31 0)).1 = none := by decide
example : (edFromBytes (List.replicate 33 0)).1 = none := by decide

/-! ### non-vacuity: the theorems applied to the edge scalars (every hypothesis is one of the
computations above) -/

example : (secpFromBytes scalarNm1).1.isSome = true :=
  (secp_import_iff scalarNm1 (by decide)).2 ⟨by decide, by decide⟩

example : ¬ (secpFromBytes scalarN).1.isSome = true := fun h =>
  absurd ((secp_import_iff scalarN (by decide)).1 h).2 (by decide)

example : (24 ≤ scalarNm1.length ∧ scalarNm1.length ≤ 32) ∧ 0 < beToNat scalarNm1 ∧
    beToNat scalarNm1 < Secp.n ∧
    (⟨true, scalarNm1⟩ : CombinedKey) = ⟨true, natToBeFixed 32 (beToNat scalarNm1)⟩ ∧
    (List.replicate 32 0 : Bytes) = List.replicate scalarNm1.length 0 :=
  secp_import_inv scalarNm1 ⟨true, scalarNm1⟩ (List.replicate 32 0) (by decide)

example : (⟨true, scalarNm1⟩ : CombinedKey).encode = scalarNm1 ∧
    (⟨true, scalarNm1⟩ : CombinedKey).isSecp = true :=
  secp_export_import scalarNm1 _ (List.replicate 32 0) (by decide) (by decide)

/-- the 24-byte input: what is exported is the input left-padded to 32 bytes -/
example : (⟨true, scalar1⟩ : CombinedKey).encode =
    List.replicate (32 - (List.replicate 23 0 ++ [1] : Bytes).length) 0 ++ (List.replicate 23 0 ++ [1]) ∧
    (⟨true, scalar1⟩ : CombinedKey).isSecp = true :=
  secp_export_import_padded (List.replicate 23 0 ++ [1]) _ _ secp_short_accepted

example : (List.replicate 24 0 : Bytes) = List.replicate (List.replicate 23 0 ++ [1] : Bytes).length 0 :=
  secp_buffer_zeroed (List.replicate 23 0 ++ [1]) _ _ secp_short_accepted

example : scalarN = scalarN := secp_buffer_kept_on_error scalarN scalarN (by decide)

example : 0 < beToNat (⟨true, scalar1⟩ : CombinedKey).secret ∧
    beToNat (⟨true, scalar1⟩ : CombinedKey).secret < Secp.n :=
  secp_import_scalar_in_range scalar1 _ (List.replicate 32 0) (by decide)

/-- the public key of the imported `1` is the independent derivation (the generator, compressed);
    stated, not evaluated -/
example : (⟨true, scalar1⟩ : CombinedKey).publicBytes = (Secp.secretToPub scalar1).map Secp.compress :=
  secp_public_is_derivation scalar1 _ (List.replicate 32 0) (by decide) (by decide)

example : (edFromBytes scalar0).1.isSome = true := (ed_import_iff scalar0).2 (by decide)

example : ¬ (edFromBytes (List.replicate 31 0)).1.isSome = true := fun h =>
  absurd ((ed_import_iff _).1 h) (by decide)

example : (⟨false, scalar0⟩ : CombinedKey).encode = scalar0 ∧ (⟨false, scalar0⟩ : CombinedKey).isSecp = false :=
  ed_export_import scalar0 _ (List.replicate 32 0) (by decide)

example : (List.replicate 32 0 : Bytes) = List.replicate scalar0.length 0 :=
  ed_buffer_zeroed scalar0 ⟨false, scalar0⟩ (List.replicate 32 0) (by decide)

example : List.replicate 31 (0 : UInt8) = List.replicate 31 0 :=
  ed_buffer_kept_on_error (List.replicate 31 0) (List.replicate 31 0) (by decide)

example : (⟨false, scalar0⟩ : CombinedKey).publicBytes.isSome = true :=
  ed_public_isSome scalar0 _ (List.replicate 32 0) (by decide)

end EnrVerif

section Axioms
open EnrVerif
#print axioms secp_import_iff_general
#print axioms secp_import_iff
#print axioms secp_import_inv
#print axioms secp_export_import
#print axioms secp_export_import_padded
#print axioms secp_buffer_zeroed
#print axioms secp_buffer_kept_on_error
#print axioms secp_public_is_derivation
#print axioms secp_public_is_derivation_k256
#print axioms secp_import_scalar_in_range
#print axioms ed_import_iff
#print axioms ed_import_inv
#print axioms ed_export_import
#print axioms ed_buffer_zeroed
#print axioms ed_buffer_kept_on_error
#print axioms ed_public_is_derivation
#print axioms ed_public_isSome
#print axioms secp_import_total
#print axioms ed_import_total
#print axioms secp_short_accepted
end Axioms
