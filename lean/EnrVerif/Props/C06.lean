/-
  Property C06 — atomicity of updates.

  "A failed update leaves the record untouched (atomicity, incl. signing faults)"

  Reading: whenever an update method returns an error — a value that does not type-check, a record
  that would exceed 300 bytes, a sequence number that would overflow, a signer that fails or that
  does not own the key the record would be read back with — the record is exactly what it was
  before the call (same sequence number, content, signature, node id), and it still verifies.

  Model: `step S r op pk o` (`Model/Mutators.lean`) is one update call; `o` is the signer's answer
  (`none`: `sign_v4` returned an error; `some sig`: any byte string of any length).  It returns the
  outcome and the record afterwards.  Lemmas: `Proofs/StepLemmas.lean` (§1).
  The theorems hold for every scheme `S`, every record `r` (valid or not), every operation and
  every oracle answer; no hypothesis is needed.
-/
import EnrVerif.Proofs.StepLemmas
import EnrVerif.Proofs.ToyScheme
import EnrVerif.Proofs.Examples

namespace EnrVerif

/-- A failed update returns the record it was given, field for field. -/
theorem step_error_unchanged (S : Scheme) (r : Record) (op : Op S) (pk : S.PK) (o : Option Bytes)
    (e : EnrErr) (h : (step S r op pk o).1 = .err e) : (step S r op pk o).2 = r :=
  step_err_snd h

/-- … in particular its encoding, text form, sequence number and node id are unchanged. -/
theorem step_error_same_bytes (S : Scheme) (r : Record) (op : Op S) (pk : S.PK) (o : Option Bytes)
    (e : EnrErr) (h : (step S r op pk o).1 = .err e) :
    (step S r op pk o).2.encode = r.encode ∧ (step S r op pk o).2.seq = r.seq ∧
    (step S r op pk o).2.nodeId = r.nodeId ∧ (step S r op pk o).2.sig = r.sig ∧
    (step S r op pk o).2.content = r.content := by
  rw [step_error_unchanged S r op pk o e h]
  exact ⟨rfl, rfl, rfl, rfl, rfl⟩

/-- A record that verified before a failed update still verifies after it. -/
theorem step_error_still_verifies (S : Scheme) (r : Record) (op : Op S) (pk : S.PK)
    (o : Option Bytes) (e : EnrErr) (hv : r.verify S = .ok true)
    (h : (step S r op pk o).1 = .err e) : (step S r op pk o).2.verify S = .ok true := by
  rw [step_error_unchanged S r op pk o e h]; exact hv

/-- A valid record stays valid across a failed update. -/
theorem step_error_still_valid (S : Scheme) (r : Record) (op : Op S) (pk : S.PK)
    (o : Option Bytes) (e : EnrErr) (hv : Valid S r)
    (h : (step S r op pk o).1 = .err e) : Valid S (step S r op pk o).2 := by
  rw [step_error_unchanged S r op pk o e h]; exact hv

/-- The record changes only if the update returns `Ok`. -/
theorem step_changed_only_if_ok (S : Scheme) (r : Record) (op : Op S) (pk : S.PK)
    (o : Option Bytes) (h : (step S r op pk o).2 ≠ r) : ∃ ret, (step S r op pk o).1 = .ok ret := by
  rcases step_ok_or_unchanged S r op pk o with ⟨ret, hs⟩ | ⟨e, _, hs⟩
  · exact ⟨ret, by rw [hs]⟩
  · exact absurd hs h

/-- A failing signer never yields `Ok` … -/
theorem signer_failure_is_error (S : Scheme) (r : Record) (op : Op S) (pk : S.PK) :
    ∃ e, (step S r op pk none).1 = .err e ∧ (step S r op pk none).2 = r := by
  cases hp : prepare S r op pk with
  | error e => exact ⟨e, by rw [step_prepare_error none hp], by rw [step_prepare_error none hp]⟩
  | ok p => exact ⟨.signingError, by rw [step_none hp], by rw [step_none hp]⟩

/-- … and when everything before the signing call succeeded the error is `SigningError`. -/
theorem signer_failure_signingError (S : Scheme) (r : Record) (op : Op S) (pk : S.PK)
    (p : Prepared) (hp : prepare S r op pk = .ok p) :
    step S r op pk none = (.err .signingError, r) :=
  step_none hp

/-- A signature that makes the record too large is rejected (`ExceedsMaxSize`) without a change,
    whatever its length. -/
theorem oversize_signature_is_error (S : Scheme) (r : Record) (op : Op S) (pk : S.PK)
    (p : Prepared) (sig : Bytes) (hp : prepare S r op pk = .ok p)
    (hsz : ({ p.enr with sig := sig, nodeId := nodeIdOf S pk } : Record).size > MAX_ENR_SIZE) :
    step S r op pk (some sig) = (.err .exceedsMaxSize, r) := by
  rw [step_some sig hp, if_pos hsz]

/-! ### Non-vacuity: concrete failing calls on a concrete valid record (toy scheme) -/

/-- the signer fails -/
example : step tinyS r0 (.removeKey [120]) pk1 none = (.err .signingError, r0) := rfl

/-- an ill-typed value: `tcp` must be a `u16` -/
example : step tinyS r0 (.insertRaw kTcp (encBytes [1, 2, 3])) pk0 (some []) =
    (.err (.invalidRlp .overflow), r0) := rfl

/-- the sequence number would overflow -/
example : step tinyS rMax (.setUdp4 30303) pk0 (some []) = (.err .seqTooHigh, rMax) := rfl

/-- the failed calls leave the valid record `r0` valid and verifying -/
example : (step tinyS r0 (.removeKey [120]) pk1 none).2.verify tinyS = .ok true :=
  step_error_still_verifies tinyS r0 _ pk1 none .signingError (verify_of_Valid r0_valid) rfl

/-! ### non-vacuity, continued: the remaining theorems on the same records -/

/-- everything before the signing call of `set_udp4(30303)` on `r0` succeeds: the prepared record is
    `r1` still carrying `r0`'s signature -/
example : prepare tinyS r0 (.setUdp4 30303) pk0 = .ok ⟨{ r1 with sig := r0.sig }, .prevPort none⟩ :=
  rfl

/-- `signer_failure_signingError` on that call -/
example : step tinyS r0 (.setUdp4 30303) pk0 none = (.err .signingError, r0) :=
  signer_failure_signingError tinyS r0 _ pk0 ⟨{ r1 with sig := r0.sig }, .prevPort none⟩ rfl

set_option maxRecDepth 100000 in
/-- `oversize_signature_is_error`: a signer answering with 300 bytes; the 325-byte record is refused
    and `r0` is unchanged -/
example : step tinyS r0 (.setUdp4 30303) pk0 (some (List.replicate 300 0)) =
    (.err .exceedsMaxSize, r0) :=
  oversize_signature_is_error tinyS r0 _ pk0 ⟨{ r1 with sig := r0.sig }, .prevPort none⟩
    (List.replicate 300 0) rfl (by decide)

/-- `step_error_same_bytes` on the failed calls: the same 18 bytes before and after -/
example : (step tinyS r0 (.insertRaw kTcp (encBytes [1, 2, 3])) pk0 (some [])).2.encode =
    [209, 132, 1, 2, 3, 13, 1, 130, 105, 100, 130, 118, 52, 116, 131, 1, 2, 3] :=
  ((step_error_same_bytes tinyS r0 _ pk0 (some []) (.invalidRlp .overflow) rfl).1).trans r0_encode

/-- `step_error_still_valid` / `signer_failure_is_error` -/
example : Valid tinyS (step tinyS r0 (.removeKey [120]) pk1 none).2 :=
  step_error_still_valid tinyS r0 _ pk1 none .signingError r0_valid rfl

example : ∃ e, (step tinyS rMax (.setUdp4 30303) pk0 none).1 = .err e ∧
    (step tinyS rMax (.setUdp4 30303) pk0 none).2 = rMax :=
  signer_failure_is_error tinyS rMax _ pk0

/-- `step_changed_only_if_ok`: the call `call1` changed `r0` (into `r1`), so it returned `Ok` -/
example : ∃ ret, (step tinyS r0 call1.op call1.pk call1.oracle).1 = .ok ret :=
  step_changed_only_if_ok tinyS r0 _ _ _ (by rw [step1_ok]; decide)

#print axioms step_error_unchanged
#print axioms step_error_same_bytes
#print axioms step_error_still_verifies
#print axioms step_error_still_valid
#print axioms step_changed_only_if_ok
#print axioms signer_failure_is_error
#print axioms signer_failure_signingError
#print axioms oversize_signature_is_error

end EnrVerif
