/-
  C08 (continued) — the runtime predicate for error kinds is sound with respect to the model.

  "… and a failing call reports the error kind that matches its cause" / quantifier: "the model
  predicts … the set of admissible error kinds (when several causes apply, any of them)".

  The driver admits, for a failing call, every error kind whose cause applies (`admissibleErrs`,
  Model/Driver.lean).  Whatever the model itself answers is always admitted, so on an
  implementation that behaves like the model the predicate `error_kind_matches_a_cause` cannot
  fire (no false alarm from this predicate).  Kept in its own module because the lemma library it
  needs (Proofs/StepLemmas) and the one behind Props/C08 (Proofs/MapEffects) use the same lemma
  names in different namespaces.
-/
import EnrVerif.Proofs.AdmissibleLemmas
import EnrVerif.Proofs.Examples

namespace EnrVerif

theorem C08_admissible_sound (d : Driver.DS) (r r' : Record) (op : Op d.S) (pk : d.S.PK)
    (oracle : Option Bytes) (e : EnrErr) (h : step d.S r op pk oracle = (.err e, r')) :
    Driver.enrErrStr e ∈ Driver.admissibleErrs d r op pk oracle (signRequest d.S r op pk).isSome
      ((signRequest d.S r op pk).isSome && oracle.isNone) :=
  admissible_sound d r r' op pk oracle e h

/-- in the form the driver evaluates: with the signer log of a run in which the implementation asked
    the signer exactly when the model does -/
theorem C08_admissible_sound_log (d : Driver.DS) (r r' : Record) (op : Op d.S) (pk : d.S.PK)
    (log : List (Bytes × Option Bytes)) (e : EnrErr)
    (hlog : log.length = if (signRequest d.S r op pk).isSome then 1 else 0)
    (h : step d.S r op pk (logOracle log) = (.err e, r')) :
    (Driver.admissibleErrs d r op pk (logOracle log)
      (!log.isEmpty) (log.any (·.2.isNone))).contains (Driver.enrErrStr e) = true :=
  admissible_sound_log d r r' op pk log e hlog h

/-! ### non-vacuity: the theorems on concrete failing calls (toy scheme `tinyS` wrapped as a driver
scheme; `r0`, `rMax`, `pk0` from `Proofs/ToyScheme.lean`) -/

section NonVacuity
set_option maxRecDepth 100000

/-- a failing signer on an otherwise acceptable update: the hypothesis `step … = (err e, r')` holds,
    and the admitted kinds are exactly `["SigningError"]` -/
example :
    let d : Driver.DS := ⟨"tiny", tinyS, Subtype.val,
      fun b => if h : b.length ≤ 8 then ⟨b, h⟩ else ⟨[], by decide⟩,
      inferInstanceAs (DecidableEq { b : Bytes // b.length ≤ 8 })⟩
    step tinyS r0 (.setUdp4 30303) pk0 none = (.err .signingError, r0) ∧
    "SigningError" ∈ Driver.admissibleErrs d r0 (.setUdp4 30303) pk0 none
      (signRequest tinyS r0 (.setUdp4 30303) pk0).isSome
      ((signRequest tinyS r0 (.setUdp4 30303) pk0).isSome && (none : Option Bytes).isNone) := by
  intro d
  have h : step d.S r0 (.setUdp4 30303) pk0 none = (.err .signingError, r0) := by decide +kernel
  exact ⟨h, C08_admissible_sound d r0 r0 (.setUdp4 30303) pk0 none .signingError h⟩

/-- an ill-typed value at the maximal sequence number: two causes apply, both kinds are admitted,
    the model's answer (`InvalidRlpData`) is one of them; in the form with the signer's log (empty:
    the signer is not asked) -/
example :
    let d : Driver.DS := ⟨"tiny", tinyS, Subtype.val,
      fun b => if h : b.length ≤ 8 then ⟨b, h⟩ else ⟨[], by decide⟩,
      inferInstanceAs (DecidableEq { b : Bytes // b.length ≤ 8 })⟩
    step tinyS rMax (.insertRaw kTcp (encBytes [1, 2, 3])) pk0 (logOracle []) =
      (.err (.invalidRlp .overflow), rMax) ∧
    Driver.admissibleErrs d rMax (.insertRaw kTcp (encBytes [1, 2, 3])) pk0 (logOracle [])
      (!([] : List (Bytes × Option Bytes)).isEmpty) (([] : List (Bytes × Option Bytes)).any (·.2.isNone)) =
        ["InvalidRlpData", "SequenceNumberTooHigh"] ∧
    (Driver.admissibleErrs d rMax (.insertRaw kTcp (encBytes [1, 2, 3])) pk0 (logOracle [])
      (!([] : List (Bytes × Option Bytes)).isEmpty)
      (([] : List (Bytes × Option Bytes)).any (·.2.isNone))).contains "InvalidRlpData" = true := by
  intro d
  have h : step d.S rMax (.insertRaw kTcp (encBytes [1, 2, 3])) pk0 (logOracle []) =
      (.err (.invalidRlp .overflow), rMax) := by decide +kernel
  exact ⟨h, by decide +kernel,
    C08_admissible_sound_log d rMax rMax (.insertRaw kTcp (encBytes [1, 2, 3])) pk0 [] _
      (by decide +kernel) h⟩

end NonVacuity

#print axioms C08_admissible_sound
#print axioms C08_admissible_sound_log

end EnrVerif
