/-
  C08 (continued) — the runtime predicate for error kinds is sound with respect to the model.

  "… and a failing call reports the error kind that matches its cause" / quantifier: "the model
  predicts … the set of admissible error kinds (when several causes apply, any of them)".

  The driver admits, for a failing call, every error kind whose cause applies (`admissibleErrs`,
  Model/Driver.lean).  Whatever the model itself answers is always admitted, so on an
  implementation that behaves like the model the predicate `error_kind_matches_a_cause` cannot
  fire (no false alarm from this predicate).  Kept in its own module because the lemma library it
  needs (Proofs/StepLemmas) and the one behind Props/C08 (Proofs/MapEffects) use the same lemma
  names in different namespaces.
-/
import EnrVerif.Proofs.AdmissibleLemmas

namespace EnrVerif

theorem C08_admissible_sound (d : Driver.DS) (r r' : Record) (op : Op d.S) (pk : d.S.PK)
    (oracle : Option Bytes) (e : EnrErr) (h : step d.S r op pk oracle = (.err e, r')) :
    Driver.enrErrStr e ∈ Driver.admissibleErrs d r op pk oracle (signRequest d.S r op pk).isSome
      ((signRequest d.S r op pk).isSome && oracle.isNone) :=
  admissible_sound d r r' op pk oracle e h

/-- in the form the driver evaluates: with the signer log of a run in which the implementation asked
    the signer exactly when the model does -/
theorem C08_admissible_sound_log (d : Driver.DS) (r r' : Record) (op : Op d.S) (pk : d.S.PK)
    (log : List (Bytes × Option Bytes)) (e : EnrErr)
    (hlog : log.length = if (signRequest d.S r op pk).isSome then 1 else 0)
    (h : step d.S r op pk (logOracle log) = (.err e, r')) :
    (Driver.admissibleErrs d r op pk (logOracle log)
      (!log.isEmpty) (log.any (·.2.isNone))).contains (Driver.enrErrStr e) = true :=
  admissible_sound_log d r r' op pk log e hlog h

#print axioms C08_admissible_sound
#print axioms C08_admissible_sound_log

end EnrVerif
