/-
  C02 — The decoder accepts exactly the well-formed EIP-778 records and nothing else.

  "Decoding an input that consists of exactly one RLP item succeeds if and only if that item is a
  list of at most 300 bytes that holds a signature byte string, a sequence number that is a
  canonical integer below 2^64, then key/value pairs with byte-string keys in strictly increasing
  order (hence unique) and a value after every key, every item canonically RLP-framed, with id equal
  to v4, ip of 4 bytes, ip6 of 16 bytes, tcp/udp/tcp6/udp6 canonical integers below 2^16, a
  public-key entry of the record's key type that is a valid key, and a valid signature.  Every other
  input is rejected with an error value."

  `WellFormed S buf` (Model/Spec.lean) is that description, written without reference to the
  decoder: canonical framing is expressed by `buf` being *equal to* the canonical encoding
  `encList (encBytes sig ++ encUint seq ++ pairsBytes c)`, typing by `ContentOK`/`ValueOK`.
  The theorems hold for every key type (`S : Scheme` arbitrary).
-/
import EnrVerif.Proofs.CodecTheorems
import EnrVerif.Proofs.Examples

namespace EnrVerif

/-- C02, both directions, for every byte string. -/
theorem C02_decode_iff_wellformed (S : Scheme) (buf : Bytes) :
    (∃ r, decode S buf = .ok (r, [])) ↔ WellFormed S buf :=
  decode_iff_wellformed S buf

/-- Every other input is rejected with an error value (the decoder is total: it returns `ok` or `error`). -/
theorem C02_rejected_otherwise (S : Scheme) (buf : Bytes) (h : ¬ WellFormed S buf) :
    (∃ e, decode S buf = .error e) ∨ ∃ r rest, decode S buf = .ok (r, rest) ∧ rest ≠ [] := by
  cases hd : decode S buf with
  | error e => exact .inl ⟨e, rfl⟩
  | ok x =>
    obtain ⟨r, rest⟩ := x
    by_cases hr : rest = []
    · subst hr
      exact absurd ((decode_iff_wellformed S buf).1 ⟨r, hd⟩) h
    · exact .inr ⟨r, rest, rfl, hr⟩

/-- What acceptance implies, field by field (the record invariant of Spec.lean). -/
theorem C02_accepted_is_valid (S : Scheme) (buf : Bytes) (r : Record) (rest : Bytes)
    (h : decode S buf = .ok (r, rest)) : Valid S r :=
  decode_valid S buf r rest h

/-- Size: an accepted record is at most 300 bytes. -/
theorem C02_accepted_size (S : Scheme) (buf : Bytes) (r : Record) (rest : Bytes)
    (h : decode S buf = .ok (r, rest)) : r.size ≤ 300 :=
  (decode_valid S buf r rest h).size_le

/-- The typing of the reserved keys, unfolded: what `ValueOK` means for each of them. -/
theorem C02_typing (k v : Bytes) (h : ValueOK k v) :
    (k = kId → v = encBytes vV4) ∧
    (isPortKey k = true → ∃ p, p < 65536 ∧ v = encUint p) ∧
    (k = kIp → ∃ bs : Bytes, bs.length = 4 ∧ v = encBytes bs) ∧
    (k = kIp6 → ∃ bs : Bytes, bs.length = 16 ∧ v = encBytes bs) := by
  unfold ValueOK at h
  refine ⟨?_, ?_, ?_, ?_⟩
  · intro hk; simp [hk] at h; exact h
  · intro hk
    by_cases h1 : k = kId
    · subst h1; simp [isPortKey, kId, kTcp, kTcp6, kUdp, kUdp6] at hk
    · simp [h1, hk] at h; exact h
  · intro hk; subst hk
    simp [kIp, kId, isPortKey, kTcp, kTcp6, kUdp, kUdp6] at h; exact h
  · intro hk; subst hk
    simp [kIp6, kIp, kId, isPortKey, kTcp, kTcp6, kUdp, kUdp6] at h; exact h

/-! ### non-vacuity -/

/-- an accepted input: the 18 bytes of `r0` -/
example : decode tinyS [209, 132, 1, 2, 3, 13, 1, 130, 105, 100, 130, 118, 52, 116, 131, 1, 2, 3] =
    .ok (r0, []) := by decide +kernel

/-- `WellFormed` holds of it — through the theorem … -/
example : WellFormed tinyS r0.encode :=
  (C02_decode_iff_wellformed tinyS _).1 ⟨r0, encode_decode tinyS r0 r0_valid⟩

/-- … and directly, by exhibiting signature, sequence number and pairs (no decoder involved) -/
example : WellFormed tinyS r0Bytes :=
  ⟨[1, 2, 3, 13], 1, content0, by decide, by decide, by decide, r0_contentOK, by decide,
   pk0, r0_pub, by decide⟩

/-- so the right-to-left direction of C02 yields a record -/
example : ∃ r, decode tinyS r0Bytes = .ok (r, []) :=
  (C02_decode_iff_wellformed tinyS r0Bytes).2 r0Bytes_wellFormed

/-- what acceptance implies, on this input -/
example : Valid tinyS r0 ∧ r0.size ≤ 300 :=
  have h : decode tinyS r0Bytes = .ok (r0, []) := by decide +kernel
  ⟨C02_accepted_is_valid tinyS _ r0 _ h, C02_accepted_size tinyS _ r0 _ h⟩

/-! Rejected inputs, each one edit away from `r0Bytes`, with the error value the decoder returns. -/

/-- pairs out of order (`"t"` before `"id"`) -/
example : decode tinyS [209, 132, 1, 2, 3, 13, 1, 116, 131, 1, 2, 3, 130, 105, 100, 130, 118, 52] =
    .error (.custom .unsorted) := by decide +kernel

/-- a key twice -/
example : decode tinyS [215, 132, 1, 2, 3, 13, 1, 130, 105, 100, 130, 118, 52,
    130, 105, 100, 130, 118, 52, 116, 131, 1, 2, 3] = .error (.custom .unsorted) := by decide +kernel

/-- outer length in the long form although it is below 56 -/
example : decode tinyS [248, 17, 132, 1, 2, 3, 13, 1, 130, 105, 100, 130, 118, 52, 116, 131, 1, 2, 3] =
    .error .nonCanonicalSize := by decide +kernel

/-- sequence number `81 01` instead of `01` -/
example : decode tinyS [210, 132, 1, 2, 3, 13, 129, 1, 130, 105, 100, 130, 118, 52, 116, 131, 1, 2, 3] =
    .error .nonCanonicalSingleByte := by decide +kernel

/-- sequence number with a leading zero byte (`82 00 01`) -/
example : decode tinyS [211, 132, 1, 2, 3, 13, 130, 0, 1, 130, 105, 100, 130, 118, 52, 116, 131, 1, 2, 3] =
    .error .leadingZero := by decide +kernel

/-- sequence number of nine bytes (2^64) -/
example : decode tinyS [218, 132, 1, 2, 3, 13, 137, 1, 0, 0, 0, 0, 0, 0, 0, 0,
    130, 105, 100, 130, 118, 52, 116, 131, 1, 2, 3] = .error .overflow := by decide +kernel

/-- a key without a value -/
example : decode tinyS [210, 132, 1, 2, 3, 13, 1, 130, 105, 100, 130, 118, 52, 116, 131, 1, 2, 3, 120] =
    .error .inputTooShort := by decide +kernel

/-- `id` = "v5" -/
example : decode tinyS [209, 132, 1, 2, 3, 13, 1, 130, 105, 100, 130, 118, 53, 116, 131, 1, 2, 3] =
    .error (.custom .unsupportedId) := by decide +kernel

/-- an `ip` of three bytes -/
example : decode tinyS [216, 132, 1, 2, 3, 13, 1, 130, 105, 100, 130, 118, 52,
    130, 105, 112, 131, 10, 0, 0, 116, 131, 1, 2, 3] = .error .unexpectedLength := by decide +kernel

/-- a `udp` port of three bytes (65536) -/
example : decode tinyS [217, 132, 1, 2, 3, 13, 1, 130, 105, 100, 130, 118, 52, 116, 131, 1, 2, 3,
    131, 117, 100, 112, 131, 1, 0, 0] = .error .overflow := by decide +kernel

/-- no public-key entry -/
example : decode tinyS [204, 132, 1, 2, 3, 13, 1, 130, 105, 100, 130, 118, 52] =
    .error (.custom .unknownSignature) := by decide +kernel

/-- a public key the scheme rejects (nine bytes: `tinyS` keys have at most eight) -/
example : decode tinyS [215, 132, 1, 2, 3, 13, 1, 130, 105, 100, 130, 118, 52,
    116, 137, 1, 2, 3, 4, 5, 6, 7, 8, 9] = .error (.custom .invalidPubkey) := by decide +kernel

/-- a signature that does not verify -/
example : decode tinyS [209, 132, 1, 2, 3, 14, 1, 130, 105, 100, 130, 118, 52, 116, 131, 1, 2, 3] =
    .error (.custom .invalidSignature) := by decide +kernel

/-- the empty list, a list with a signature only, a string, a truncated record -/
example : decode tinyS [192] = .error (.custom .payloadEmpty) ∧
    decode tinyS [197, 132, 1, 2, 3, 13] = .error (.custom .seqMissing) ∧
    decode tinyS [131, 1, 2, 3] = .error .unexpectedString ∧
    decode tinyS [209, 132, 1, 2, 3, 13, 1, 130, 105, 100, 130, 118, 52, 116, 131, 1, 2] =
      .error .inputTooShort := by decide +kernel

/-- a list of 302 + 3 bytes -/
example : decode tinyS (249 :: 1 :: 46 :: List.replicate 302 0) = .error (.custom .exceedsMaxSize) := by
  decide +kernel

/-- none of them is `WellFormed`: e.g. the swapped one (left-to-right direction of C02,
    contrapositive) -/
example : ¬ WellFormed tinyS r0Swapped := by
  intro h
  obtain ⟨r, hr⟩ := (C02_decode_iff_wellformed tinyS r0Swapped).2 h
  have he : decode tinyS r0Swapped = .error (.custom .unsorted) := by decide +kernel
  rw [he] at hr
  cases hr

/-- `C02_rejected_otherwise`: its hypothesis holds of `r0Swapped` (first alternative: an error) … -/
example : (∃ e, decode tinyS r0Swapped = .error e) ∨
    ∃ r rest, decode tinyS r0Swapped = .ok (r, rest) ∧ rest ≠ [] :=
  C02_rejected_otherwise tinyS r0Swapped r0Swapped_not_wellFormed

/-- … and of `r0Bytes ++ [0]` (second alternative: a record, but the input is not exactly one item) -/
example : ¬ WellFormed tinyS (r0Bytes ++ [0]) ∧
    decode tinyS (r0Bytes ++ [0]) = .ok (r0, [0]) := by
  have hd : decode tinyS (r0Bytes ++ [0]) = .ok (r0, [0]) := by decide +kernel
  refine ⟨fun h => ?_, hd⟩
  obtain ⟨r, hr⟩ := (C02_decode_iff_wellformed tinyS _).2 h
  rw [hd] at hr
  cases hr

/-- `C02_typing` on the pairs of `r1` (`r0` after `set_udp4(30303)`): the port value is `82 76 5f` -/
example : ∃ p, p < 65536 ∧ ([130, 118, 95] : Bytes) = encUint p :=
  (C02_typing kUdp [130, 118, 95]
    ((r1_valid.content).2 kUdp [130, 118, 95] (by decide)).2).2.1 (by decide)

#print axioms C02_decode_iff_wellformed
#print axioms C02_rejected_otherwise
#print axioms C02_accepted_is_valid
#print axioms C02_accepted_size
#print axioms C02_typing

end EnrVerif
