/-
  C02 — The decoder accepts exactly the well-formed EIP-778 records and nothing else.

  "Decoding an input that consists of exactly one RLP item succeeds if and only if that item is a
  list of at most 300 bytes that holds a signature byte string, a sequence number that is a
  canonical integer below 2^64, then key/value pairs with byte-string keys in strictly increasing
  order (hence unique) and a value after every key, every item canonically RLP-framed, with id equal
  to v4, ip of 4 bytes, ip6 of 16 bytes, tcp/udp/tcp6/udp6 canonical integers below 2^16, a
  public-key entry of the record's key type that is a valid key, and a valid signature.  Every other
  input is rejected with an error value."

  `WellFormed S buf` (Model/Spec.lean) is that description, written without reference to the
  decoder: canonical framing is expressed by `buf` being *equal to* the canonical encoding
  `encList (encBytes sig ++ encUint seq ++ pairsBytes c)`, typing by `ContentOK`/`ValueOK`.
  The theorems hold for every key type (`S : Scheme` arbitrary).
-/
import EnrVerif.Proofs.CodecTheorems

namespace EnrVerif

/-- C02, both directions, for every byte string. -/
theorem C02_decode_iff_wellformed (S : Scheme) (buf : Bytes) :
    (∃ r, decode S buf = .ok (r, [])) ↔ WellFormed S buf :=
  decode_iff_wellformed S buf

/-- Every other input is rejected with an error value (the decoder is total: it returns `ok` or `error`). -/
theorem C02_rejected_otherwise (S : Scheme) (buf : Bytes) (h : ¬ WellFormed S buf) :
    (∃ e, decode S buf = .error e) ∨ ∃ r rest, decode S buf = .ok (r, rest) ∧ rest ≠ [] := by
  cases hd : decode S buf with
  | error e => exact .inl ⟨e, rfl⟩
  | ok x =>
    obtain ⟨r, rest⟩ := x
    by_cases hr : rest = []
    · subst hr
      exact absurd ((decode_iff_wellformed S buf).1 ⟨r, hd⟩) h
    · exact .inr ⟨r, rest, rfl, hr⟩

/-- What acceptance implies, field by field (the record invariant of Spec.lean). -/
theorem C02_accepted_is_valid (S : Scheme) (buf : Bytes) (r : Record) (rest : Bytes)
    (h : decode S buf = .ok (r, rest)) : Valid S r :=
  decode_valid S buf r rest h

/-- Size: an accepted record is at most 300 bytes. -/
theorem C02_accepted_size (S : Scheme) (buf : Bytes) (r : Record) (rest : Bytes)
    (h : decode S buf = .ok (r, rest)) : r.size ≤ 300 :=
  (decode_valid S buf r rest h).size_le

/-- The typing of the reserved keys, unfolded: what `ValueOK` means for each of them. -/
theorem C02_typing (k v : Bytes) (h : ValueOK k v) :
    (k = kId → v = encBytes vV4) ∧
    (isPortKey k = true → ∃ p, p < 65536 ∧ v = encUint p) ∧
    (k = kIp → ∃ bs : Bytes, bs.length = 4 ∧ v = encBytes bs) ∧
    (k = kIp6 → ∃ bs : Bytes, bs.length = 16 ∧ v = encBytes bs) := by
  unfold ValueOK at h
  refine ⟨?_, ?_, ?_, ?_⟩
  · intro hk; simp [hk] at h; exact h
  · intro hk
    by_cases h1 : k = kId
    · subst h1; simp [isPortKey, kId, kTcp, kTcp6, kUdp, kUdp6] at hk
    · simp [h1, hk] at h; exact h
  · intro hk; subst hk
    simp [kIp, kId, isPortKey, kTcp, kTcp6, kUdp, kUdp6] at h; exact h
  · intro hk; subst hk
    simp [kIp6, kIp, kId, isPortKey, kTcp, kTcp6, kUdp, kUdp6] at h; exact h

#print axioms C02_decode_iff_wellformed
#print axioms C02_rejected_otherwise
#print axioms C02_accepted_is_valid
#print axioms C02_accepted_size
#print axioms C02_typing

end EnrVerif
