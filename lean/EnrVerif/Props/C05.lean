/-
  Property C05 — the always-signed invariant.

  "Every record the library hands out is valid (always-signed invariant)… An update made with a
   different key of the same scheme re-keys the record"

  Reading: a record obtained from `decode`/`from_str`, from `Builder::build`, or from any sequence
  of update calls on such a record satisfies `Valid` (`Model/Spec.lean`): 64-bit sequence number,
  sorted and well-typed content, `id = "v4"`, at most 300 bytes, the public key of the scheme can
  be read back from the content, the node id is derived from that key and the signature verifies
  under it.  Consequently it re-decodes to itself, `verify()` is true and `id()` is "v4".  After a
  successful update signed with key `pk` the record's public key *is* `pk` (whether or not that
  was the record's key before), its node id is `pk`'s, and the signature is the signer's answer.

  Hypotheses (never axioms):
   * `S.Lawful` — three laws of a key type (`pub_inj`, `key_not_reserved`, `pub_local`).  They are
     PROVED for the four built-in key types (`k256S_lawful`, `libsecpS_lawful`, `edS_lawful`,
     `combS_lawful`, `Proofs/SchemeLemmas.lean`); the last section instantiates the theorems for
     them, so for k256 / rust-secp256k1 / ed25519 / CombinedKey no law is assumed.
   * `CallOK` — per call: the arguments are in the range the Rust types allow (`Op.WF`), the
     signer's public key and its entry name are shorter than 2^64 bytes (`KeyOK`; every real key
     is 32 or 33 bytes long, and the bound holds for every key a record can hold,
     `k256S_keyOK_of_enrToPublic` …) and, if the signer is asked, its answer verifies under its
     own public key over the payload it was asked to sign (`SigOK`).
  Model: `step`, `run`, `Builder.build`.  Lemmas: `Proofs/StepLemmas.lean` (§4–§7),
  `Proofs/CodecTheorems.lean` (`decode_valid`, `encode_decode`), `Proofs/SchemeLemmas.lean`.
-/
import EnrVerif.Proofs.StepLemmas
import EnrVerif.Proofs.ToyScheme
import EnrVerif.Proofs.SchemeLemmas
import EnrVerif.Proofs.BuilderReuse

namespace EnrVerif

/-! ### updates -/

/-- A successful update of a valid record yields a valid record. -/
theorem step_valid (S : Scheme) (hL : S.Lawful) (r : Record) (op : Op S) (pk : S.PK)
    (o : Option Bytes) (ret : Ret) (r' : Record) (hv : Valid S r) (hc : CallOK S r ⟨op, pk, o⟩)
    (h : step S r op pk o = (.ok ret, r')) : Valid S r' :=
  (step_ok_facts hL hv hc h).1

/-- After a successful update signed by `pk` the record carries `pk`: it is the key read back
    from the content, the node id is `pk`'s, the signature is the signer's answer and the entry
    under `pk`'s key name holds `pk`'s encoding.  (`pk` need not be the key the record had.) -/
theorem step_rekey (S : Scheme) (hL : S.Lawful) (r : Record) (op : Op S) (pk : S.PK)
    (o : Option Bytes) (ret : Ret) (r' : Record) (hv : Valid S r) (hc : CallOK S r ⟨op, pk, o⟩)
    (h : step S r op pk o = (.ok ret, r')) :
    S.enrToPublic r'.content = .ok pk ∧ r'.nodeId = nodeIdOf S pk ∧
    (∀ sig, o = some sig → r'.sig = sig) ∧
    Map.lookup r'.content (S.enrKey pk) = some (pubValue S pk) :=
  (step_ok_facts hL hv hc h).2

/-- Whatever an update call returns, the record afterwards is valid. -/
theorem step_valid_any (S : Scheme) (hL : S.Lawful) (r : Record) (c : Call S)
    (hv : Valid S r) (hc : CallOK S r c) : Valid S (step S r c.op c.pk c.oracle).2 := by
  rcases step_ok_or_unchanged S r c.op c.pk c.oracle with ⟨ret, hs⟩ | ⟨e, _, hs⟩
  · exact (step_ok_facts hL hv hc hs).1
  · rw [hs]; exact hv

/-- The invariant holds after every history of update calls (successful or not, with any keys). -/
theorem run_valid (S : Scheme) (hL : S.Lawful) (r : Record) (cs : List (Call S))
    (hv : Valid S r) (hr : RunOK S r cs) : Valid S (run S r cs) :=
  run_valid' hL cs r hv hr

/-! ### the builder -/

theorem builder_empty_wf : Builder.WF {} := Builder.empty_wf

theorem builder_addRaw_wf (b : Builder) (k v : Bytes) (hb : b.WF) (hk : k.length < 2 ^ 64) :
    (b.addRaw k v).WF := Builder.addRaw_wf v hb hk

theorem builder_addValue_wf (b : Builder) (k : Bytes) (v : Val) (hb : b.WF)
    (hk : k.length < 2 ^ 64) : (b.addValue k v).WF := Builder.addRaw_wf v.enc hb hk

theorem builder_setSeq_wf (b : Builder) (s : Nat) (hb : b.WF) (hs : s < 2 ^ 64) :
    (b.setSeq s).WF := Builder.setSeq_wf hb hs

/-- A successfully built record is valid and carries the signer's key. -/
theorem build_valid (S : Scheme) (hL : S.Lawful) (b : Builder) (pk : S.PK) (o : Option Bytes)
    (r : Record) (hb : b.WF) (hk : KeyOK S pk)
    (hso : ∀ b', Builder.prepare S b pk = .ok b' → SigOK S pk b'.rlpContent o)
    (h : Builder.build S b pk o = .ok r) :
    Valid S r ∧ S.enrToPublic r.content = .ok pk ∧ r.nodeId = nodeIdOf S pk :=
  build_ok_facts hL hb hk hso h

/-- The builder's size check implies the 300-byte limit on the encoded record. -/
theorem build_size_check_sound (r : Record)
    (h : r.rlpContent.length + r.sig.length + 8 ≤ MAX_ENR_SIZE) : r.size ≤ MAX_ENR_SIZE :=
  size_le_of_builder_check r h

/-! ### decoded records -/

/-- A decoded record is valid (`Proofs/CodecTheorems.lean`). -/
theorem decoded_valid (S : Scheme) (buf : Bytes) (r : Record) (rest : Bytes)
    (h : decode S buf = .ok (r, rest)) : Valid S r := decode_valid S buf r rest h

/-- A record parsed from text is valid. -/
theorem parsed_valid (S : Scheme) (s : Bytes) (r : Record) (h : parseText S s = some r) :
    Valid S r := parseText_valid S s r h

/-! ### what validity gives the user -/

theorem valid_redecodes (S : Scheme) (r : Record) (h : Valid S r) :
    decode S r.encode = .ok (r, []) := encode_decode S r h

theorem valid_verifies (S : Scheme) (r : Record) (h : Valid S r) : r.verify S = .ok true :=
  verify_of_Valid h

theorem valid_size (S : Scheme) (r : Record) (h : Valid S r) : r.size ≤ 300 := h.size_le

theorem valid_id (S : Scheme) (r : Record) (h : Valid S r) : r.id = some vV4 :=
  getBytes_kId_of_lookup r h.id_v4

/-- Every record reachable from a built or decoded record by update calls re-decodes to itself,
    verifies, is at most 300 bytes long and has `id = "v4"`. -/
theorem run_handed_out (S : Scheme) (hL : S.Lawful) (r : Record) (cs : List (Call S))
    (hv : Valid S r) (hr : RunOK S r cs) :
    decode S (run S r cs).encode = .ok (run S r cs, []) ∧ (run S r cs).verify S = .ok true ∧
    (run S r cs).size ≤ 300 ∧ (run S r cs).id = some vV4 := by
  have h := run_valid S hL r cs hv hr
  exact ⟨valid_redecodes S _ h, valid_verifies S _ h, valid_size S _ h, valid_id S _ h⟩

/-! ### the built-in key types

  `k256S` = `k256::ecdsa::SigningKey`, `libsecpS` = `secp256k1::SecretKey`,
  `edS` = `ed25519_dalek::SigningKey`, `combS` = `CombinedKey` (`Model/Schemes.lean`).  The laws are
  proved, so the invariant holds along every history whose calls are `CallOK`. -/

theorem run_valid_k256 (r : Record) (cs : List (Call k256S)) (hv : Valid k256S r)
    (hr : RunOK k256S r cs) : Valid k256S (run k256S r cs) := run_valid k256S k256S_lawful r cs hv hr

theorem run_valid_libsecp (r : Record) (cs : List (Call libsecpS)) (hv : Valid libsecpS r)
    (hr : RunOK libsecpS r cs) : Valid libsecpS (run libsecpS r cs) :=
  run_valid libsecpS libsecpS_lawful r cs hv hr

theorem run_valid_ed (r : Record) (cs : List (Call edS)) (hv : Valid edS r)
    (hr : RunOK edS r cs) : Valid edS (run edS r cs) := run_valid edS edS_lawful r cs hv hr

theorem run_valid_comb (r : Record) (cs : List (Call combS)) (hv : Valid combS r)
    (hr : RunOK combS r cs) : Valid combS (run combS r cs) := run_valid combS combS_lawful r cs hv hr

/-- `build` with a built-in key type; the signer's key only has to be shorter than 2^64 bytes. -/
theorem build_valid_k256 (b : Builder) (pk : Bytes) (o : Option Bytes) (r : Record) (hb : b.WF)
    (hlen : pk.length < 2 ^ 64)
    (hso : ∀ b', Builder.prepare k256S b pk = .ok b' → SigOK k256S pk b'.rlpContent o)
    (h : Builder.build k256S b pk o = .ok r) :
    Valid k256S r ∧ k256S.enrToPublic r.content = .ok pk ∧ r.nodeId = nodeIdOf k256S pk :=
  build_valid k256S k256S_lawful b pk o r hb (k256S_keyOK pk hlen) hso h

theorem build_valid_libsecp (b : Builder) (pk : Bytes) (o : Option Bytes) (r : Record) (hb : b.WF)
    (hlen : pk.length < 2 ^ 64)
    (hso : ∀ b', Builder.prepare libsecpS b pk = .ok b' → SigOK libsecpS pk b'.rlpContent o)
    (h : Builder.build libsecpS b pk o = .ok r) :
    Valid libsecpS r ∧ libsecpS.enrToPublic r.content = .ok pk ∧ r.nodeId = nodeIdOf libsecpS pk :=
  build_valid libsecpS libsecpS_lawful b pk o r hb (libsecpS_keyOK pk hlen) hso h

theorem build_valid_ed (b : Builder) (pk : Bytes) (o : Option Bytes) (r : Record) (hb : b.WF)
    (hlen : pk.length < 2 ^ 64)
    (hso : ∀ b', Builder.prepare edS b pk = .ok b' → SigOK edS pk b'.rlpContent o)
    (h : Builder.build edS b pk o = .ok r) :
    Valid edS r ∧ edS.enrToPublic r.content = .ok pk ∧ r.nodeId = nodeIdOf edS pk :=
  build_valid edS edS_lawful b pk o r hb (edS_keyOK pk hlen) hso h

theorem build_valid_comb (b : Builder) (pk : Bytes) (o : Option Bytes) (r : Record) (hb : b.WF)
    (hlen : pk.length < 2 ^ 64)
    (hso : ∀ b', Builder.prepare combS b pk = .ok b' → SigOK combS pk b'.rlpContent o)
    (h : Builder.build combS b pk o = .ok r) :
    Valid combS r ∧ combS.enrToPublic r.content = .ok pk ∧ r.nodeId = nodeIdOf combS pk :=
  build_valid combS combS_lawful b pk o r hb (combS_keyOK pk hlen) hso h

/-- An update signed with the record's own key: the `KeyOK` part of `CallOK` holds by itself
    (the key read back from a record is 33 resp. 32 bytes long). -/
theorem callOK_own_key_k256 (r : Record) (op : Op k256S) (pk : Bytes) (o : Option Bytes)
    (hown : k256S.enrToPublic r.content = .ok pk) (hwf : op.WF)
    (hso : ∀ m, signRequest k256S r op pk = some m → SigOK k256S pk m o) :
    CallOK k256S r ⟨op, pk, o⟩ := ⟨hwf, k256S_keyOK_of_enrToPublic _ pk hown, hso⟩

theorem callOK_own_key_libsecp (r : Record) (op : Op libsecpS) (pk : Bytes) (o : Option Bytes)
    (hown : libsecpS.enrToPublic r.content = .ok pk) (hwf : op.WF)
    (hso : ∀ m, signRequest libsecpS r op pk = some m → SigOK libsecpS pk m o) :
    CallOK libsecpS r ⟨op, pk, o⟩ := ⟨hwf, libsecpS_keyOK_of_enrToPublic _ pk hown, hso⟩

theorem callOK_own_key_ed (r : Record) (op : Op edS) (pk : Bytes) (o : Option Bytes)
    (hown : edS.enrToPublic r.content = .ok pk) (hwf : op.WF)
    (hso : ∀ m, signRequest edS r op pk = some m → SigOK edS pk m o) :
    CallOK edS r ⟨op, pk, o⟩ := ⟨hwf, edS_keyOK_of_enrToPublic _ pk hown, hso⟩

theorem callOK_own_key_comb (r : Record) (op : Op combS) (pk : Bytes) (o : Option Bytes)
    (hown : combS.enrToPublic r.content = .ok pk) (hwf : op.WF)
    (hso : ∀ m, signRequest combS r op pk = some m → SigOK combS pk m o) :
    CallOK combS r ⟨op, pk, o⟩ := ⟨hwf, combS_keyOK_of_enrToPublic _ pk hown, hso⟩

/-! ### Non-vacuity: the toy scheme is lawful; concrete records and calls satisfy the hypotheses -/

example : tinyS.Lawful := tinyS_lawful

/-- the hand-built record `r0` is valid, and it is what `build` returns on the empty builder -/
example : Valid tinyS r0 ∧ Builder.build tinyS {} pk0 (some (tinySign pk0 payload0)) = .ok r0 :=
  ⟨r0_valid, r0_built⟩

/-- `build_valid` applies to that build (its `SigOK` hypothesis holds for the toy signer) -/
example : Valid tinyS r0 ∧ tinyS.enrToPublic r0.content = .ok pk0 ∧ r0.nodeId = nodeIdOf tinyS pk0 :=
  build_valid tinyS tinyS_lawful {} pk0 _ r0 builder_empty_wf (tiny_keyOK pk0)
    (fun b' hb' => by
      have : b'.rlpContent = payload0 := by
        have h2 : Builder.prepare tinyS {} pk0 = .ok ⟨1, content0⟩ := rfl
        rw [h2] at hb'
        simp only [Except.ok.injEq] at hb'
        rw [← hb']; rfl
      rw [this]; exact tinySign_sigOK pk0 payload0)
    r0_built

/-- a successful own-key update (`set_udp4`) of `r0` gives the valid record `r1` … -/
example : Valid tinyS r1 :=
  step_valid tinyS tinyS_lawful r0 call1.op call1.pk call1.oracle _ r1 r0_valid call1_ok step1_ok

/-- … and a successful update with the *other* key `pk1` re-keys it: `r2` reads back `pk1`. -/
example : Valid tinyS r2 ∧ tinyS.enrToPublic r2.content = .ok pk1 ∧ r2.nodeId = [9, 9] := by
  have hv1 : Valid tinyS r1 :=
    step_valid tinyS tinyS_lawful r0 call1.op call1.pk call1.oracle _ r1 r0_valid call1_ok step1_ok
  have h := step_rekey tinyS tinyS_lawful r1 _ _ _ _ r2 hv1 (call2_ok r1) step2_ok
  exact ⟨step_valid tinyS tinyS_lawful r1 _ _ _ _ r2 hv1 (call2_ok r1) step2_ok, h.1, h.2.1⟩

/-- a three-call history (own key, other key, failing signer) satisfies `RunOK` -/
example : Valid tinyS (run tinyS r0 [call1, call2 r1, call3]) :=
  run_valid tinyS tinyS_lawful r0 _ r0_valid run_ok

/-! ### a builder that is used again

`Builder::build(&mut self, key)` writes the identity scheme and the signer's public key into the
builder before it validates and signs; `Builder.afterBuild` is the builder after any call of
`build`.  Using it again gives exactly what a fresh builder would give. -/

/-- a second build with the same key: the builder's own mutation is invisible -/
theorem build_again_same_key (S : Scheme) (b : Builder) (pk : S.PK) (o : Option Bytes)
    (hs : Map.Sorted b.content) :
    Builder.build S (Builder.afterBuild S b pk) pk o = Builder.build S b pk o :=
  build_afterBuild_same S b pk o hs

/-- a build with another key of the same scheme: the earlier build left no trace -/
theorem build_again_other_key (S : Scheme) (hL : S.Lawful) (b : Builder) (pk pk' : S.PK)
    (o : Option Bytes) (hs : Map.Sorted b.content) (hk : S.enrKey pk = S.enrKey pk') :
    Builder.build S (Builder.afterBuild S b pk) pk' o = Builder.build S b pk' o :=
  build_afterBuild_other S hL b pk pk' o hs hk

/-- whatever was built before, a record handed out by a reused builder is valid -/
theorem build_reused_is_valid (S : Scheme) (hL : S.Lawful) (b : Builder) (pk pk' : S.PK)
    (o : Option Bytes) (r : Record) (hb : b.WF) (hk : KeyOK S pk) (hk' : KeyOK S pk')
    (hso : ∀ b', Builder.prepare S (Builder.afterBuild S b pk) pk' = .ok b' →
      SigOK S pk' b'.rlpContent o)
    (h : Builder.build S (Builder.afterBuild S b pk) pk' o = .ok r) :
    Valid S r ∧ S.enrToPublic r.content = .ok pk' ∧ r.nodeId = nodeIdOf S pk' :=
  build_reused_valid S hL b pk pk' o r hb hk hk' hso h

#print axioms build_again_same_key
#print axioms build_again_other_key
#print axioms build_reused_is_valid
#print axioms step_valid
#print axioms step_rekey
#print axioms step_valid_any
#print axioms run_valid
#print axioms builder_empty_wf
#print axioms builder_addRaw_wf
#print axioms builder_addValue_wf
#print axioms builder_setSeq_wf
#print axioms build_valid
#print axioms build_size_check_sound
#print axioms decoded_valid
#print axioms parsed_valid
#print axioms valid_redecodes
#print axioms valid_verifies
#print axioms valid_size
#print axioms valid_id
#print axioms run_handed_out
#print axioms run_valid_k256
#print axioms run_valid_libsecp
#print axioms run_valid_ed
#print axioms run_valid_comb
#print axioms build_valid_k256
#print axioms build_valid_libsecp
#print axioms build_valid_ed
#print axioms build_valid_comb
#print axioms callOK_own_key_k256
#print axioms callOK_own_key_libsecp
#print axioms callOK_own_key_ed
#print axioms callOK_own_key_comb

end EnrVerif
