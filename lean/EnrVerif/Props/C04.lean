/-
  C04 — Lossless canonical round trip between bytes, record, text and JSON.

  "For every accepted input, re-encoding the decoded record reproduces the consumed input bytes
  exactly, and the record reports the same sequence number, key/value pairs (as raw RLP), signature,
  public key and node id as an independent parse of those bytes.  Every record the library returns
  from the builder, from an update or from a decode encodes to bytes, to text and to JSON that decode
  back to an equal record with identical observable fields."

  The second sentence is `Valid S r → decode S r.encode = ok (r, [])` (all four fields of the record,
  hence every accessor, are identical) together with C05 (`Valid` for every record handed out:
  `decode_valid`, `step_valid`, `build_valid` in Props/C05.lean).
-/
import EnrVerif.Proofs.CodecTheorems
import EnrVerif.Proofs.Examples

namespace EnrVerif

/-- Re-encoding the decoded record reproduces the consumed bytes exactly. -/
theorem C04_reencode (S : Scheme) (buf : Bytes) (r : Record) (rest : Bytes)
    (h : decode S buf = .ok (r, rest)) : r.encode ++ rest = buf :=
  decode_reencode S buf r rest h

/-- The consumed prefix has exactly `size()` bytes. -/
theorem C04_consumed_length (S : Scheme) (buf : Bytes) (r : Record) (rest : Bytes)
    (h : decode S buf = .ok (r, rest)) : buf.length = r.size + rest.length :=
  decode_used S buf r rest h

/-- "the same fields as an independent parse": the encoding determines sequence number, pairs and
    signature, so any record (e.g. one produced by an independent parser) whose canonical encoding
    is the consumed input has the same fields as the decoded one. -/
theorem C04_fields_determined (S : Scheme) (buf : Bytes) (r : Record) (rest : Bytes)
    (h : decode S buf = .ok (r, rest)) (r' : Record) (hr' : Valid S r') (henc : r'.encode ++ rest = buf) :
    r' = r := by
  have h1 := decode_reencode S buf r rest h
  have hv := decode_valid S buf r rest h
  have : r'.encode = r.encode := List.append_cancel_right (henc.trans h1.symm)
  exact encode_injective_valid S r' r hr' hv this

/-- bytes → record → bytes → record: identical record, nothing left over. -/
theorem C04_roundtrip_bytes (S : Scheme) (r : Record) (h : Valid S r) :
    decode S r.encode = .ok (r, []) :=
  encode_decode S r h

/-- text round trip (`to_base64` / `Display` then `from_str`) -/
theorem C04_roundtrip_text (S : Scheme) (r : Record) (h : Valid S r) :
    parseText S r.toText = some r :=
  parseText_toText S r h

/-- JSON round trip: the JSON document is the quoted text, no character of which needs escaping,
    so a JSON parser hands `from_str` exactly `r.toText`. -/
theorem C04_roundtrip_json (S : Scheme) (r : Record) (h : Valid S r) :
    r.toJson = [34] ++ r.toText ++ [34] ∧
    (∀ c ∈ r.toText, c.toNat ≠ 34 ∧ c.toNat ≠ 92 ∧ 0x20 ≤ c.toNat ∧ c.toNat < 0x7f) ∧
    parseText S r.toText = some r :=
  ⟨rfl, toJson_no_escape r, parseText_toText S r h⟩

/-- a decoded record survives the round trip (decode ∘ encode ∘ decode = decode) -/
theorem C04_decode_roundtrip (S : Scheme) (buf : Bytes) (r : Record) (rest : Bytes)
    (h : decode S buf = .ok (r, rest)) : decode S r.encode = .ok (r, []) :=
  encode_decode S r (decode_valid S buf r rest h)

/-! ### non-vacuity -/

/-- an actual record, byte by byte -/
example : r0.encode =
    [209, 132, 1, 2, 3, 13, 1, 130, 105, 100, 130, 118, 52, 116, 131, 1, 2, 3] := by decide

/-- `C04_roundtrip_bytes` applies to it (its hypothesis `Valid tinyS r0` holds) … -/
example : decode tinyS r0.encode = .ok (r0, []) := C04_roundtrip_bytes tinyS r0 r0_valid

/-- … and agrees with running the decoder on the literal bytes -/
example : decode tinyS [209, 132, 1, 2, 3, 13, 1, 130, 105, 100, 130, 118, 52, 116, 131, 1, 2, 3] =
    .ok (r0, []) := by decide +kernel

/-- records handed out by updates round-trip as well (`r1`: own-key update, `r2`: re-keyed) -/
example : decode tinyS r1.encode = .ok (r1, []) ∧ decode tinyS r2.encode = .ok (r2, []) :=
  ⟨C04_roundtrip_bytes tinyS r1 r1_valid, C04_roundtrip_bytes tinyS r2 r2_valid⟩

/-- an accepted input with bytes after the record: `C04_reencode`, `C04_consumed_length` and
    `C04_fields_determined` have a satisfiable hypothesis with `rest ≠ []` -/
example : decode tinyS (r0Bytes ++ [1, 2, 3]) = .ok (r0, [1, 2, 3]) := by decide +kernel

example : r0.encode ++ [1, 2, 3] = r0Bytes ++ [1, 2, 3] ∧
    (r0Bytes ++ [1, 2, 3]).length = r0.size + 3 :=
  have h : decode tinyS (r0Bytes ++ [1, 2, 3]) = .ok (r0, [1, 2, 3]) := by decide +kernel
  ⟨C04_reencode tinyS _ r0 _ h, C04_consumed_length tinyS _ r0 _ h⟩

example : r0.size = 18 := by decide

/-- an "independent parse" of the same bytes: the record written down by hand -/
example :
    ({ seq := 1, nodeId := [1, 2, 3],
       content := [([105, 100], [130, 118, 52]), ([116], [131, 1, 2, 3])],
       sig := [1, 2, 3, 13] } : Record) = r0 :=
  have h : decode tinyS (r0Bytes ++ [1, 2, 3]) = .ok (r0, [1, 2, 3]) := by decide +kernel
  C04_fields_determined tinyS _ r0 _ h _ r0_valid (by decide)

/-- the text form of `r0`, "enr:0YQBAgMNAYJpZIJ2NHSDAQID", and its round trip -/
example : r0.toText =
    [101, 110, 114, 58, 48, 89, 81, 66, 65, 103, 77, 78, 65, 89, 74, 112, 90, 73, 74, 50, 78, 72,
     83, 68, 65, 81, 73, 68] := by decide

example : parseText tinyS r0.toText = some r0 := C04_roundtrip_text tinyS r0 r0_valid

example : parseText tinyS r0Text = some r0 := by decide +kernel

/-- the JSON form is that text in quotes -/
example : r0.toJson = [34] ++ r0Text ++ [34] ∧ parseText tinyS r0.toText = some r0 :=
  have h := C04_roundtrip_json tinyS r0 r0_valid
  ⟨by rw [h.1, r0_toText], h.2.2⟩

/-- decode ∘ encode ∘ decode = decode on a concrete accepted input with trailing bytes -/
example : decode tinyS r0.encode = .ok (r0, []) :=
  C04_decode_roundtrip tinyS (r0Bytes ++ [1, 2, 3]) r0 [1, 2, 3] (by decide +kernel)

#print axioms C04_reencode
#print axioms C04_consumed_length
#print axioms C04_fields_determined
#print axioms C04_roundtrip_bytes
#print axioms C04_roundtrip_text
#print axioms C04_roundtrip_json
#print axioms C04_decode_roundtrip

end EnrVerif
