/-
  C12 — Text and JSON forms are canonical and strictly parsed.

  "The text form (also Display and the JSON string) of a record is 'enr:' followed by the unpadded
  URL-safe base64 of its RLP encoding, and parsing it returns an equal record.  The parser accepts
  that string and the same string without the prefix and nothing else for that record: padding,
  characters outside the URL-safe alphabet (including whitespace), non-zero trailing bits, other
  prefixes and any bytes after the record are rejected."
-/
import EnrVerif.Proofs.CodecTheorems
import EnrVerif.Proofs.JsonLemmas
import EnrVerif.Proofs.Examples

namespace EnrVerif

/-- the text form -/
theorem C12_text_form (r : Record) : r.toText = enrPrefix ++ b64enc r.encode := rfl

/-- the JSON form is the quoted text; nothing in it needs escaping -/
theorem C12_json_form (r : Record) :
    r.toJson = [34] ++ r.toText ++ [34] ∧
    ∀ c ∈ r.toText, c.toNat ≠ 34 ∧ c.toNat ≠ 92 ∧ 0x20 ≤ c.toNat ∧ c.toNat < 0x7f :=
  ⟨rfl, toJson_no_escape r⟩

/-- parsing the text returns the record -/
theorem C12_parse_text (S : Scheme) (r : Record) (h : Valid S r) : parseText S r.toText = some r :=
  parseText_toText S r h

/-- … and so does the same string without the prefix -/
theorem C12_parse_noprefix (S : Scheme) (r : Record) (h : Valid S r) :
    parseText S (b64enc r.encode) = some r :=
  parseText_noprefix S r h

/-- … and nothing else: any accepted string is one of those two (so padding, foreign characters,
    whitespace, non-zero trailing bits, other prefixes and trailing bytes are all rejected). -/
theorem C12_parse_exact (S : Scheme) (s : Bytes) (r : Record) :
    parseText S s = some r ↔ Valid S r ∧ (s = r.toText ∨ s = b64enc r.encode) :=
  parseText_iff S s r

/-- Rejection of the named classes, spelled out: a string that contains a character outside the
    URL-safe alphabet after an optional `enr:` prefix is rejected. -/
theorem C12_foreign_char_rejected (S : Scheme) (s : Bytes) (c : UInt8)
    (hc : c ∈ (if enrPrefix.isPrefixOf s then s.drop 4 else s)) (hbad : isB64Char c = false) :
    parseText S s = none := by
  cases hp : parseText S s with
  | none => rfl
  | some r =>
    exfalso
    unfold parseText at hp
    split at hp
    · simp at hp
    · simp only at hp
      split at hp
      · simp at hp
      · rename_i bytes hb
        have := b64dec_alphabet _ _ hb c hc
        rw [hbad] at this
        exact Bool.false_ne_true this

/-- the characters the property names are outside the alphabet -/
theorem C12_named_chars_foreign :
    isB64Char 61 = false ∧ isB64Char 32 = false ∧ isB64Char 10 = false ∧ isB64Char 43 = false ∧
    isB64Char 47 = false ∧ isB64Char 58 = false :=
  ⟨b64_eq_not_alphabet, b64_space_not_alphabet, b64_newline_not_alphabet, b64_plus_not_alphabet,
   b64_slash_not_alphabet, b64_colon_not_alphabet⟩

/-- bytes after the record are rejected: the base64 of `encoding ++ extra` does not parse -/
theorem C12_trailing_bytes_rejected (S : Scheme) (r : Record) (h : Valid S r) (extra : Bytes)
    (hne : extra ≠ []) : parseText S (enrPrefix ++ b64enc (r.encode ++ extra)) = none := by
  cases hp : parseText S (enrPrefix ++ b64enc (r.encode ++ extra)) with
  | none => rfl
  | some r' =>
    exfalso
    have hex := parseText_exact S _ r' hp
    have hv := parseText_valid S _ r' hp
    rcases hex with h1 | h1
    · have h2 : b64enc (r.encode ++ extra) = b64enc r'.encode := by
        unfold Record.toText at h1
        exact List.append_cancel_left h1
      have h3 := b64enc_injective h2
      -- r.encode ++ extra = r'.encode, but decoding r'.encode consumes everything and yields r'
      have hd := encode_decode_append S r extra h
      rw [h3] at hd
      have hd' := encode_decode S r' hv
      rw [hd'] at hd
      simp only [Except.ok.injEq, Prod.mk.injEq] at hd
      exact hne hd.2.symm
    · have : enrPrefix.isPrefixOf (b64enc r'.encode) = true := by
        rw [← h1]; exact enrPrefix_isPrefixOf_append _
      rw [enrPrefix_not_prefix_b64] at this
      exact Bool.false_ne_true this

/-! ### JSON through the model of serde_json's string layer (`Model/Json.lean`)

`Serialize` writes the text as a JSON string literal (`jsonQuote`), `Deserialize` reads any JSON
string literal (`jsonUnquote`: escapes, surrounding whitespace) and hands the unescaped content to
`from_str`.  The JSON *document* of a record is therefore canonical on output, while on input every
JSON spelling of the same string is accepted — and nothing else. -/

/-- the JSON document serde_json writes is the quoted text, without any escape -/
theorem C12_json_document (r : Record) : r.toJsonDoc = r.toJson ∧ r.toJsonDoc = jsonQuote r.toText :=
  ⟨toJsonDoc_eq r, rfl⟩

/-- deserialising the serialised form returns the record -/
theorem C12_parse_json (S : Scheme) (r : Record) (h : Valid S r) : parseJson S r.toJson = some r :=
  parseJson_toJson S r h

/-- a JSON document is accepted exactly when it is a string literal whose content is the text of a
    valid record, with or without the prefix -/
theorem C12_parse_json_exact (S : Scheme) (j : Bytes) (r : Record) :
    parseJson S j = some r ↔
      ∃ s, jsonUnquote j = some s ∧ Valid S r ∧ (s = r.toText ∨ s = b64enc r.encode) :=
  parseJson_iff S j r

/-- quoting is lossless for every string -/
theorem C12_json_quote_roundtrip (s : Bytes) : jsonUnquote (jsonQuote s) = some s :=
  jsonUnquote_jsonQuote s

/-- the reader is not injective: an escaped spelling of the text is a different document that
    parses to the same record (so "canonical" holds of the writer, not of the reader) -/
theorem C12_json_escaped_spelling (S : Scheme) (r : Record) (h : Valid S r) :
    parseJson S ([34, 92, 117, 48, 48, 54, 53] ++ r.toText.drop 1 ++ [34]) = some r ∧
      [34, 92, 117, 48, 48, 54, 53] ++ r.toText.drop 1 ++ [34] ≠ r.toJson :=
  parseJson_escaped S r h

/-! ### non-vacuity -/

/-- the text form of the record `r0` (18 bytes of RLP, 24 base64 characters):
    "enr:0YQBAgMNAYJpZIJ2NHSDAQID" -/
example : r0.toText =
    [101, 110, 114, 58, 48, 89, 81, 66, 65, 103, 77, 78, 65, 89, 74, 112, 90, 73, 74, 50, 78, 72,
     83, 68, 65, 81, 73, 68] := by decide

/-- and of `r1` (25 bytes, 34 characters, the last one carrying four trailing zero bits):
    "enr:2IQBAgMUAoJpZIJ2NHSDAQIDg3VkcIJ2Xw" -/
example : r1.toText =
    [101, 110, 114, 58, 50, 73, 81, 66, 65, 103, 77, 85, 65, 111, 74, 112, 90, 73, 74, 50, 78, 72,
     83, 68, 65, 81, 73, 68, 103, 51, 86, 107, 99, 73, 74, 50, 88, 119] := by decide

/-- the hypothesis `Valid S r` of `C12_parse_text`/`C12_parse_noprefix` holds for them … -/
example : parseText tinyS r0.toText = some r0 ∧ parseText tinyS (b64enc r0.encode) = some r0 :=
  ⟨C12_parse_text tinyS r0 r0_valid, C12_parse_noprefix tinyS r0 r0_valid⟩

example : parseText tinyS r1.toText = some r1 := C12_parse_text tinyS r1 r1_valid

/-- … and the parser, run on the literal characters, agrees (with and without the prefix) -/
example : parseText tinyS r0Text = some r0 ∧ parseText tinyS (r0Text.drop 4) = some r0 ∧
    parseText tinyS r1Text = some r1 := by decide +kernel

/-- both directions of `C12_parse_exact` on `r0` -/
example : parseText tinyS r0.toText = some r0 :=
  (C12_parse_exact tinyS _ r0).2 ⟨r0_valid, .inl rfl⟩

example : Valid tinyS r0 ∧ (r0Text = r0.toText ∨ r0Text = b64enc r0.encode) :=
  (C12_parse_exact tinyS r0Text r0).1 (by decide +kernel)

/-! the named classes of rejected strings, as variants of "enr:0YQBAgMNAYJpZIJ2NHSDAQID" -/

/-- padding: "…AQID=" and "…AQID==" -/
example : parseText tinyS (r0Text ++ [61]) = none ∧ parseText tinyS (r0Text ++ [61, 61]) = none := by
  decide +kernel

/-- whitespace: a trailing newline, a leading space, a space after the prefix -/
example : parseText tinyS (r0Text ++ [10]) = none ∧ parseText tinyS (32 :: r0Text) = none ∧
    parseText tinyS (enrPrefix ++ 32 :: r0Text.drop 4) = none := by decide +kernel

/-- the standard alphabet's `+` and `/` in place of `-` and `_`: "enr:0YQB+gMN…", "enr:0YQB/gMN…" -/
example : parseText tinyS (r0Text.set 8 43) = none ∧ parseText tinyS (r0Text.set 8 47) = none := by
  decide +kernel

/-- other prefixes: "ENR:", "enr-", "enr:enr:" and none of the base64 -/
example : parseText tinyS ([69, 78, 82, 58] ++ r0Text.drop 4) = none ∧
    parseText tinyS ([101, 110, 114, 45] ++ r0Text.drop 4) = none ∧
    parseText tinyS (enrPrefix ++ r0Text) = none ∧
    parseText tinyS enrPrefix = none ∧ parseText tinyS [] = none := by decide +kernel

/-- non-zero trailing bits: the last character `w` (110000) of `r1`'s text replaced by `x` (110001) -/
example : parseText tinyS (r1Text.dropLast ++ [120]) = none := by decide +kernel

/-- a character dropped or added at the end -/
example : parseText tinyS r0Text.dropLast = none ∧ parseText tinyS (r0Text ++ [65]) = none ∧
    parseText tinyS (r0Text ++ [65, 65]) = none := by decide +kernel

/-- `C12_foreign_char_rejected` on the padded string: `=` occurs after the prefix -/
example : parseText tinyS (r0Text ++ [61]) = none :=
  C12_foreign_char_rejected tinyS (r0Text ++ [61]) 61 (by decide) C12_named_chars_foreign.1

/-- `C12_trailing_bytes_rejected`: the base64 of `r0`'s encoding followed by one more byte,
    "enr:0YQBAgMNAYJpZIJ2NHSDAQIDAA" -/
example : parseText tinyS (enrPrefix ++ b64enc (r0.encode ++ [0])) = none :=
  C12_trailing_bytes_rejected tinyS r0 r0_valid [0] (by decide)

example : enrPrefix ++ b64enc (r0.encode ++ [0]) = r0Text ++ [65, 65] := by decide

/-- the text of a byte string that is not a record (`r0` with its pairs swapped) -/
example : parseText tinyS (enrPrefix ++ b64enc r0Swapped) = none := by decide +kernel

/-- JSON: the document of `r0` is its text in quotes; reading it back gives `r0` -/
example : r0.toJson = [34] ++ r0Text ++ [34] ∧ r0.toJsonDoc = r0.toJson :=
  ⟨by rw [(C12_json_form r0).1, r0_toText], (C12_json_document r0).1⟩

example : parseJson tinyS r0.toJson = some r0 := C12_parse_json tinyS r0 r0_valid

example : parseJson tinyS ([34] ++ r0Text ++ [34]) = some r0 := by decide +kernel

/-- `C12_parse_json_exact`, left to right, on a document with whitespace around the literal -/
example : ∃ s, jsonUnquote ([32, 34] ++ r0Text ++ [34, 10]) = some s ∧ Valid tinyS r0 ∧
    (s = r0.toText ∨ s = b64enc r0.encode) :=
  (C12_parse_json_exact tinyS _ r0).1 (by decide +kernel)

/-- the escaped spelling "\\u0065nr:0YQB…" of `C12_json_escaped_spelling`, literally -/
example : parseJson tinyS ([34, 92, 117, 48, 48, 54, 53] ++ r0Text.drop 1 ++ [34]) = some r0 := by
  have h := (C12_json_escaped_spelling tinyS r0 r0_valid).1
  rw [r0_toText] at h
  exact h

/-- JSON documents that are rejected: unquoted text, `null`, a missing closing quote, text after
    the literal, an escape that is not JSON -/
example : parseJson tinyS r0Text = none ∧ parseJson tinyS [110, 117, 108, 108] = none ∧
    parseJson tinyS ([34] ++ r0Text) = none ∧ parseJson tinyS ([34] ++ r0Text ++ [34, 120]) = none ∧
    parseJson tinyS ([34, 92, 120] ++ r0Text ++ [34]) = none := by decide +kernel

#print axioms C12_json_document
#print axioms C12_parse_json
#print axioms C12_parse_json_exact
#print axioms C12_json_quote_roundtrip
#print axioms C12_json_escaped_spelling
#print axioms C12_text_form
#print axioms C12_json_form
#print axioms C12_parse_text
#print axioms C12_parse_noprefix
#print axioms C12_parse_exact
#print axioms C12_foreign_char_rejected
#print axioms C12_named_chars_foreign
#print axioms C12_trailing_bytes_rejected

end EnrVerif
