/-
  All property files C01 … C17 together: building this module checks every property theorem and
  that the proof libraries have no name clashes.
-/
import EnrVerif.Props.C01
import EnrVerif.Props.C02
import EnrVerif.Props.C03
import EnrVerif.Props.C04
import EnrVerif.Props.C05
import EnrVerif.Props.C05Monitor
import EnrVerif.Props.C06
import EnrVerif.Props.C07
import EnrVerif.Props.C08
import EnrVerif.Props.C08Monitor
import EnrVerif.Props.C08BuildMonitor
import EnrVerif.Props.C08NonVacuity
import EnrVerif.Props.C09
import EnrVerif.Props.C10
import EnrVerif.Props.C10Shape
import EnrVerif.Props.C11
import EnrVerif.Props.C12
import EnrVerif.Props.C12Shape
import EnrVerif.Props.C13
import EnrVerif.Props.C14
import EnrVerif.Props.C15
import EnrVerif.Props.C16
import EnrVerif.Props.C17
