/-
  C12, continuation: the *shape* of the text form — its exact length as a function of the record's
  size, the resulting bound for every valid record (300 bytes ↦ at most 404 characters), and its
  alphabet (`enr:` followed by URL-safe base64 characters only: no padding, no whitespace, nothing
  that needs a JSON escape).
-/
import EnrVerif.Props.C12
import EnrVerif.Proofs.Base64Lemmas

namespace EnrVerif

/-- `to_base64().len() = 4 + ⌈4·size/3⌉`. -/
theorem C12_text_length (r : Record) : r.toText.length = 4 + (4 * r.size + 2) / 3 := by
  rw [C12_text_form, List.length_append, b64enc_length]; rfl

/-- Every valid record's text form has at most 404 characters. -/
theorem C12_text_length_le (S : Scheme) (r : Record) (h : Valid S r) : r.toText.length ≤ 404 := by
  have hs := h.size_le
  rw [C12_text_length]
  simp only [MAX_ENR_SIZE] at hs
  omega

/-- The text form is the prefix followed by characters of the URL-safe alphabet only. -/
theorem C12_text_alphabet (r : Record) :
    r.toText.take 4 = enrPrefix ∧ ∀ c ∈ r.toText.drop 4, isB64Char c = true := by
  rw [C12_text_form]
  refine ⟨by simp [enrPrefix], ?_⟩
  have : (enrPrefix ++ b64enc r.encode).drop 4 = b64enc r.encode := by simp [enrPrefix]
  rw [this]; exact b64enc_alphabet _

/-- The text is longer for a longer encoding and never shorter than the encoding. -/
theorem C12_text_longer_than_bytes (r : Record) : r.size < r.toText.length := by
  rw [C12_text_length]; omega

/-- The JSON form adds exactly the two quotes: at most 406 characters for a valid record. -/
theorem C12_json_length (r : Record) : r.toJson.length = r.toText.length + 2 := by
  simp [Record.toJson]

theorem C12_json_length_le (S : Scheme) (r : Record) (h : Valid S r) : r.toJson.length ≤ 406 := by
  have := C12_text_length_le S r h
  rw [C12_json_length]; omega

#print axioms C12_text_length
#print axioms C12_text_length_le
#print axioms C12_text_alphabet
end EnrVerif
