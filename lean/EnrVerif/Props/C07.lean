/-
  Property C07 — sequence-number discipline.

  "Sequence-number discipline: +1 per successful update, exact set, no wrap"

  Reading: every successful update other than `set_seq` increases the sequence number by exactly
  one; `set_seq(s)` sets it to exactly `s`; at the largest `u64` value no update succeeds and the
  number never wraps around (the call fails, with `SequenceNumberTooHigh` when nothing else is
  wrong, and the record is unchanged); sequence numbers of valid records fit in 64 bits and survive
  an encode/decode round trip.

  Model: `step` (`Model/Mutators.lean`), `bumpSeq` = `seq.checked_add(1)`.
  Lemmas: `Proofs/StepLemmas.lean` (§2 `opStage`, §5, §5b).
-/
import EnrVerif.Proofs.StepLemmas
import EnrVerif.Proofs.ToyScheme
import EnrVerif.Proofs.Examples

namespace EnrVerif

/-- Every successful update other than `set_seq` increments the sequence number by one
    (for every record, key, and signer answer). -/
theorem step_seq_succ (S : Scheme) (r : Record) (op : Op S) (pk : S.PK) (o : Option Bytes)
    (ret : Ret) (r' : Record) (hop : op.isSetSeq = false)
    (h : step S r op pk o = (.ok ret, r')) : r'.seq = r.seq + 1 :=
  ((step_ok_seq h).1 hop).1

/-- A successful `set_seq(s)` sets the sequence number to exactly `s`. -/
theorem step_setSeq_exact (S : Scheme) (r : Record) (s : Nat) (pk : S.PK) (o : Option Bytes)
    (ret : Ret) (r' : Record) (h : step S r (.setSeq s) pk o = (.ok ret, r')) : r'.seq = s :=
  (step_ok_seq h).2 s rfl

/-- At `seq = 2^64 - 1` an update other than `set_seq` is never `Ok` and never wraps: it fails
    before the signer is consulted (so never with `SigningError`) and leaves the record as it is. -/
theorem step_no_wrap (S : Scheme) (r : Record) (op : Op S) (pk : S.PK) (o : Option Bytes)
    (h : r.seq + 1 = 2 ^ 64) (hop : op.isSetSeq = false) :
    ∃ e, (step S r op pk o).1 = .err e ∧ e ≠ .signingError ∧ (step S r op pk o).2 = r := by
  obtain ⟨e, hs, hk⟩ := step_seq_max r op pk o h hop
  refine ⟨e, by rw [hs], ?_, by rw [hs]⟩
  rcases hk with hk | rfl | rfl
  · exact hk.ne_signingError
  · simp
  · simp

/-- The errors possible at `seq = 2^64 - 1`: a value error of the content stage
    (`InvalidRlp(_)`, `UnsupportedIdentityScheme`), `ExceedsMaxSize` from the size check that
    `insert_raw_rlp`/`set_socket` make before the increment, or `SequenceNumberTooHigh`. -/
theorem step_no_wrap_errors (S : Scheme) (r : Record) (op : Op S) (pk : S.PK) (o : Option Bytes)
    (h : r.seq + 1 = 2 ^ 64) (hop : op.isSetSeq = false) :
    ∃ e, step S r op pk o = (.err e, r) ∧
      ((∃ x, e = .invalidRlp x) ∨ e = .unsupportedId ∨ e = .exceedsMaxSize ∨ e = .seqTooHigh) := by
  obtain ⟨e, hs, hk⟩ := step_seq_max r op pk o h hop
  refine ⟨e, hs, ?_⟩
  rcases hk with (hk | hk) | hk | hk
  · exact Or.inr (Or.inl hk)
  · exact Or.inl hk
  · exact Or.inr (Or.inr (Or.inl hk))
  · exact Or.inr (Or.inr (Or.inr hk))

/-- When only the overflow is wrong the error is exactly `SequenceNumberTooHigh`:
    if the content stage of the update succeeds (`opStage`: the value checks pass) and the record
    with the new content passes the pre-increment size check (when the update makes one). -/
theorem step_no_wrap_kind_stage (S : Scheme) (r : Record) (op : Op S) (pk : S.PK) (o : Option Bytes)
    (h : r.seq + 1 = 2 ^ 64) (hop : op.isSetSeq = false) (c : Content) (ret : Ret) (sc : Bool)
    (hst : opStage S r.content op = .ok (c, ret, sc))
    (hsz : sc = true → ({ r with content := withPubkey S c pk } : Record).size ≤ MAX_ENR_SIZE) :
    step S r op pk o = (.err .seqTooHigh, r) :=
  step_seq_max_kind r op pk o h hop hst hsz

/-- The same, phrased with the update itself: if the update would go through on the same record
    with sequence number 0 (size check before signing not counted: `prepareG … false`), and the
    record it would sign — put back at the old sequence number — is within the size limit, then at
    `seq = 2^64 - 1` the update fails with exactly `SequenceNumberTooHigh`.
    (The size hypothesis cannot be replaced by "the size check passes at sequence number 0":
    the sequence number 2^64 - 1 takes 9 bytes, 0 takes 1, and `insert_raw_rlp`/`set_socket`
    check the size *before* the increment, so a record within 8 bytes of the limit reports
    `ExceedsMaxSize` first — see `step_no_wrap_errors`.) -/
theorem step_no_wrap_kind (S : Scheme) (r : Record) (op : Op S) (pk : S.PK) (o : Option Bytes)
    (p : Prepared) (h : r.seq + 1 = 2 ^ 64) (hop : op.isSetSeq = false)
    (hp : prepareG S { r with seq := 0 } op pk false = .ok p)
    (hsz : ({ p.enr with seq := r.seq } : Record).size ≤ MAX_ENR_SIZE) :
    step S r op pk o = (.err .seqTooHigh, r) := by
  obtain ⟨c, ret, sc, hst, _, henr, _⟩ := prepareG_ok_inv hp
  refine step_seq_max_kind r op pk o h hop hst (fun _ => ?_)
  rw [henr] at hsz
  exact hsz

/-- Sequence numbers of valid records are `u64` values. -/
theorem seq_lt_of_valid (S : Scheme) (r : Record) (h : Valid S r) : r.seq < 2 ^ 64 := h.seq_lt

/-- … and stay so after every successful update with in-range arguments (the bound does not even
    need the record to be valid: the increment is checked, `set_seq` takes a `u64`). -/
theorem step_seq_lt (S : Scheme) (r : Record) (op : Op S) (pk : S.PK) (o : Option Bytes)
    (ret : Ret) (r' : Record) (hwf : op.WF) (h : step S r op pk o = (.ok ret, r')) :
    r'.seq < 2 ^ 64 := by
  obtain ⟨h1, h2⟩ := step_ok_seq h
  cases op with
  | setSeq s => rw [h2 s rfl]; exact hwf
  | _ => obtain ⟨h3, h4⟩ := h1 rfl; rw [h3]; exact h4

/-- The `u64` codec round-trips every sequence number below `2^64`. -/
theorem seq_roundtrip (n : Nat) (h : n < 2 ^ 64) (rest : Bytes) :
    decodeUint 8 (encUint n ++ rest) = .ok (n, rest) :=
  decodeUint_encUint 8 n rest (Nat.le_refl 8) (by rw [← two64]; exact h)

/-- Encoding and decoding a valid record preserves its sequence number (indeed the record). -/
theorem decode_preserves_seq (S : Scheme) (r : Record) (h : Valid S r) :
    ∃ r', decode S r.encode = .ok (r', []) ∧ r'.seq = r.seq :=
  ⟨r, encode_decode S r h, rfl⟩

/-! ### Non-vacuity (toy scheme, concrete records) -/

/-- a successful update: 1 ↦ 2 -/
example : r1.seq = r0.seq + 1 :=
  step_seq_succ tinyS r0 call1.op call1.pk call1.oracle _ r1 rfl step1_ok

/-- a successful `set_seq(2^64 - 1)` on `r0`, then no further update goes through -/
example :
    let o := (signRequest tinyS r0 (.setSeq (2 ^ 64 - 1)) pk0).map (tinySign pk0)
    step tinyS r0 (.setSeq (2 ^ 64 - 1)) pk0 o = (.ok .unit, rMax) ∧
    step tinyS rMax (.setUdp4 30303) pk0 (some []) = (.err .seqTooHigh, rMax) := ⟨rfl, rfl⟩

/-- the hypotheses of `step_no_wrap_kind` hold for the valid record `rMax` -/
example : step tinyS rMax (.setUdp4 30303) pk0 none = (.err .seqTooHigh, rMax) :=
  step_no_wrap_kind tinyS rMax _ pk0 none pMax (by decide) rfl pMax_ok (by decide)

/-! ### non-vacuity, continued: the remaining theorems on the same records -/

/-- `step_setSeq_exact` and `step_seq_lt` on that `set_seq` call -/
example : rMax.seq = 2 ^ 64 - 1 ∧ rMax.seq < 2 ^ 64 :=
  have h : step tinyS r0 (.setSeq (2 ^ 64 - 1)) pk0
      ((signRequest tinyS r0 (.setSeq (2 ^ 64 - 1)) pk0).map (tinySign pk0)) = (.ok .unit, rMax) := rfl
  ⟨step_setSeq_exact tinyS r0 _ pk0 _ _ rMax h,
   step_seq_lt tinyS r0 (.setSeq (2 ^ 64 - 1)) pk0 _ _ rMax
     (show (2 ^ 64 - 1 : Nat) < 2 ^ 64 by decide) h⟩

/-- `step_no_wrap` / `step_no_wrap_errors` at `rMax`, for an update whose value is ill-typed:
    not `Ok`, not `SigningError`, record unchanged -/
example : ∃ e, (step tinyS rMax (.insertRaw kTcp (encBytes [1, 2, 3])) pk0 none).1 = .err e ∧
    e ≠ .signingError ∧ (step tinyS rMax (.insertRaw kTcp (encBytes [1, 2, 3])) pk0 none).2 = rMax :=
  step_no_wrap tinyS rMax _ pk0 none (by decide) rfl

example : step tinyS rMax (.insertRaw kTcp (encBytes [1, 2, 3])) pk0 none =
    (.err (.invalidRlp .overflow), rMax) := rfl

/-- the largest sequence number on the wire: `88 ff ff ff ff ff ff ff ff`; one more is rejected -/
example : encUint (2 ^ 64 - 1) = [136, 255, 255, 255, 255, 255, 255, 255, 255] := by decide

example : decodeUint 8 ([136, 255, 255, 255, 255, 255, 255, 255, 255] ++ [7]) = .ok (2 ^ 64 - 1, [7]) := by
  have h := seq_roundtrip (2 ^ 64 - 1) (by decide) [7]
  rwa [show encUint (2 ^ 64 - 1) = [136, 255, 255, 255, 255, 255, 255, 255, 255] by decide] at h

example : decodeUint 8 [137, 1, 0, 0, 0, 0, 0, 0, 0, 0] = .error .overflow := by decide

/-- `rMax` as bytes, and `decode_preserves_seq` on it -/
example : rMax.encode = [217, 132, 1, 2, 3, 21, 136, 255, 255, 255, 255, 255, 255, 255, 255,
    130, 105, 100, 130, 118, 52, 116, 131, 1, 2, 3] := by decide

example : ∃ r', decode tinyS rMax.encode = .ok (r', []) ∧ r'.seq = 2 ^ 64 - 1 :=
  decode_preserves_seq tinyS rMax rMax_valid

example : decode tinyS [217, 132, 1, 2, 3, 21, 136, 255, 255, 255, 255, 255, 255, 255, 255,
    130, 105, 100, 130, 118, 52, 116, 131, 1, 2, 3] = .ok (rMax, []) := by decide +kernel

#print axioms step_seq_succ
#print axioms step_setSeq_exact
#print axioms step_no_wrap
#print axioms step_no_wrap_errors
#print axioms step_no_wrap_kind_stage
#print axioms step_no_wrap_kind
#print axioms seq_lt_of_valid
#print axioms step_seq_lt
#print axioms seq_roundtrip
#print axioms decode_preserves_seq

end EnrVerif
