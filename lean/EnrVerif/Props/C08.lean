/-
  Property C08 — "Builder and updates behave like a sorted key/value map (effects, returns)".

  "After a successful build or update the record's key/value pairs are exactly those of a plain
   sorted-map model: the builder's pairs plus id=v4 and the signer's public key; an insert or typed
   setter replaces exactly one key with the canonical encoding of the value; a removal deletes
   exactly the named keys; a socket setter writes only that address family's ip and port keys;
   setting the public key to the signer's own key succeeds; every other pair is untouched.  Updates
   return the previous value(s) of the keys they touched, and a failing call reports the error kind
   that matches its cause."

  Model: `Model/Mutators.lean` (`step`, `prepare`, `Builder.build`), map model `Model/Map.lean`
  (`Map.insert`, `Map.erase`, `Map.lookup` on a strictly sorted association list).
  Lemmas: `Proofs/MapEffects.lean` (namespace `Eff`).  Throughout, `S.enrKey pk` is the name of the
  signer's public-key entry and `pubValue S pk` the RLP string stored under it.

  Every theorem is about an arbitrary key type `S : Scheme`; `S.Lawful` (proved for the four
  built-in key types in `Props/C11.lean`) and the per-key length bound `KeyOK S pk` are used only
  by the theorems about `set_public_key` with the signer's own key.
-/
import EnrVerif.Proofs.MapEffects

namespace EnrVerif

open Eff

/-! ### The general form: every update is "change the content, then store the signer's key" -/

/-- A successful update: the new content is the map-model content `Eff.opRaw` of the operation with
    the signer's public key stored, the returned value is `Eff.opRet` (computed from the *old*
    content), the sequence number, node id and signature are the new ones. -/
theorem C08_step_effect {S : Scheme} {r r' : Record} {op : Op S} {pk : S.PK} {o : Option Bytes}
    {ret : Ret} (h : step S r op pk o = (.ok ret, r')) :
    r'.content = Map.insert (opRaw S op r.content) (S.enrKey pk) (pubValue S pk) ∧
    ret = opRet S op r.content ∧ r'.seq = newSeq op r ∧ r'.nodeId = nodeIdOf S pk ∧
    (∃ sig, o = some sig ∧ r'.sig = sig) :=
  let ⟨h1, h2, h3, h4, h5, _⟩ := step_effect h
  ⟨h1, h2, h3, h4, h5⟩

/-- The content stays a strictly sorted map. -/
theorem C08_step_sorted {S : Scheme} {r r' : Record} {op : Op S} {pk : S.PK} {o : Option Bytes}
    {ret : Ret} (h : step S r op pk o = (.ok ret, r')) (hs : Map.Sorted r.content) :
    Map.Sorted r'.content := by
  rw [(step_effect h).1]
  exact newContent_sorted S op pk r.content hs

/-- The signer's public key is stored by every successful update. -/
theorem C08_step_pubkey {S : Scheme} {r r' : Record} {op : Op S} {pk : S.PK} {o : Option Bytes}
    {ret : Ret} (h : step S r op pk o = (.ok ret, r')) :
    Map.lookup r'.content (S.enrKey pk) = some (pubValue S pk) := by
  rw [(step_effect h).1]
  exact newContent_pubkey S op pk r.content

/-- "Every other pair is untouched": a key outside `Eff.touched op pk` (the keys named by the
    operation and the signer's public-key entry) has the same value before and after. -/
theorem C08_step_untouched {S : Scheme} {r r' : Record} {op : Op S} {pk : S.PK} {o : Option Bytes}
    {ret : Ret} (h : step S r op pk o = (.ok ret, r')) (k : Bytes) (hk : k ∉ touched S op pk) :
    Map.lookup r'.content k = Map.lookup r.content k := by
  rw [(step_effect h).1]
  exact newContent_untouched S op pk r.content k hk

/-- A failing update leaves the record exactly as it was. -/
theorem C08_step_err_unchanged {S : Scheme} {r r2 : Record} {op : Op S} {pk : S.PK}
    {o : Option Bytes} {e : EnrErr} (h : step S r op pk o = (.err e, r2)) : r2 = r :=
  (step_err_inv h).1

/-! ### Inserts and typed setters: exactly one key replaced by the canonical encoding -/

theorem C08_step_content_insertRaw {S : Scheme} {r r' : Record} {key raw : Bytes} {pk : S.PK}
    {o : Option Bytes} {ret : Ret} (h : step S r (.insertRaw key raw) pk o = (.ok ret, r')) :
    r'.content = Map.insert (Map.insert r.content key raw) (S.enrKey pk) (pubValue S pk) ∧
    ret = .prevRaw (Map.lookup r.content key) :=
  ⟨(step_effect h).1, (step_effect h).2.1⟩

theorem C08_step_content_insert {S : Scheme} {r r' : Record} {key : Bytes} {v : Val} {pk : S.PK}
    {o : Option Bytes} {ret : Ret} (h : step S r (.insert key v) pk o = (.ok ret, r')) :
    r'.content = Map.insert (Map.insert r.content key v.enc) (S.enrKey pk) (pubValue S pk) ∧
    ret = .prevRaw (Map.lookup r.content key) :=
  ⟨(step_effect h).1, (step_effect h).2.1⟩

theorem C08_step_content_setUdp4 {S : Scheme} {r r' : Record} {p : Nat} {pk : S.PK}
    {o : Option Bytes} {ret : Ret} (h : step S r (.setUdp4 p) pk o = (.ok ret, r')) :
    r'.content = Map.insert (Map.insert r.content kUdp (encUint p)) (S.enrKey pk) (pubValue S pk) ∧
    ret = prevPort (Map.lookup r.content kUdp) :=
  ⟨(step_effect h).1, (step_effect h).2.1⟩

theorem C08_step_content_setUdp6 {S : Scheme} {r r' : Record} {p : Nat} {pk : S.PK}
    {o : Option Bytes} {ret : Ret} (h : step S r (.setUdp6 p) pk o = (.ok ret, r')) :
    r'.content = Map.insert (Map.insert r.content kUdp6 (encUint p)) (S.enrKey pk) (pubValue S pk) ∧
    ret = prevPort (Map.lookup r.content kUdp6) :=
  ⟨(step_effect h).1, (step_effect h).2.1⟩

theorem C08_step_content_setTcp4 {S : Scheme} {r r' : Record} {p : Nat} {pk : S.PK}
    {o : Option Bytes} {ret : Ret} (h : step S r (.setTcp4 p) pk o = (.ok ret, r')) :
    r'.content = Map.insert (Map.insert r.content kTcp (encUint p)) (S.enrKey pk) (pubValue S pk) ∧
    ret = prevPort (Map.lookup r.content kTcp) :=
  ⟨(step_effect h).1, (step_effect h).2.1⟩

theorem C08_step_content_setTcp6 {S : Scheme} {r r' : Record} {p : Nat} {pk : S.PK}
    {o : Option Bytes} {ret : Ret} (h : step S r (.setTcp6 p) pk o = (.ok ret, r')) :
    r'.content = Map.insert (Map.insert r.content kTcp6 (encUint p)) (S.enrKey pk) (pubValue S pk) ∧
    ret = prevPort (Map.lookup r.content kTcp6) :=
  ⟨(step_effect h).1, (step_effect h).2.1⟩

/-- `set_ip`: the key is chosen by the address family (`ip` for 4 bytes, `ip6` otherwise). -/
theorem C08_step_content_setIp {S : Scheme} {r r' : Record} {ip : Bytes} {pk : S.PK}
    {o : Option Bytes} {ret : Ret} (h : step S r (.setIp ip) pk o = (.ok ret, r')) :
    r'.content = Map.insert (Map.insert r.content (if ip.length = 4 then kIp else kIp6) (encBytes ip))
      (S.enrKey pk) (pubValue S pk) ∧
    ret = (if ip.length = 4 then prevIp 4 (Map.lookup r.content kIp)
           else prevIp 16 (Map.lookup r.content kIp6)) :=
  ⟨(step_effect h).1, (step_effect h).2.1⟩

theorem C08_step_content_setClientInfo {S : Scheme} {r r' : Record} {name version : Bytes}
    {build : Option Bytes} {pk : S.PK} {o : Option Bytes} {ret : Ret}
    (h : step S r (.setClientInfo name version build) pk o = (.ok ret, r')) :
    r'.content = Map.insert
      (Map.insert r.content kClient (encList (encStrs (clientList name version build))))
      (S.enrKey pk) (pubValue S pk) ∧
    ret = .unit :=
  ⟨(step_effect h).1, (step_effect h).2.1⟩

theorem C08_step_content_setPublicKey {S : Scheme} {r r' : Record} {pk' pk : S.PK}
    {o : Option Bytes} {ret : Ret} (h : step S r (.setPublicKey pk') pk o = (.ok ret, r')) :
    r'.content = Map.insert (Map.insert r.content (S.enrKey pk') (pubValue S pk'))
      (S.enrKey pk) (pubValue S pk) ∧
    ret = .unit :=
  ⟨(step_effect h).1, (step_effect h).2.1⟩

/-! ### Removals: exactly the named keys deleted -/

theorem C08_step_content_removeKey {S : Scheme} {r r' : Record} {key : Bytes} {pk : S.PK}
    {o : Option Bytes} {ret : Ret} (h : step S r (.removeKey key) pk o = (.ok ret, r')) :
    r'.content = Map.insert (Map.erase r.content key) (S.enrKey pk) (pubValue S pk) ∧ ret = .unit :=
  ⟨(step_effect h).1, (step_effect h).2.1⟩

/-- the four `remove_*` port methods are `remove_key` on their key -/
theorem C08_step_content_removePort {S : Scheme} {r r' : Record} {pk : S.PK} {o : Option Bytes}
    {ret : Ret} :
    (step S r .removeUdp4 pk o = (.ok ret, r') →
      r'.content = Map.insert (Map.erase r.content kUdp) (S.enrKey pk) (pubValue S pk) ∧ ret = .unit) ∧
    (step S r .removeUdp6 pk o = (.ok ret, r') →
      r'.content = Map.insert (Map.erase r.content kUdp6) (S.enrKey pk) (pubValue S pk) ∧ ret = .unit) ∧
    (step S r .removeTcp pk o = (.ok ret, r') →
      r'.content = Map.insert (Map.erase r.content kTcp) (S.enrKey pk) (pubValue S pk) ∧ ret = .unit) ∧
    (step S r .removeTcp6 pk o = (.ok ret, r') →
      r'.content = Map.insert (Map.erase r.content kTcp6) (S.enrKey pk) (pubValue S pk) ∧ ret = .unit) :=
  ⟨fun h => ⟨(step_effect h).1, (step_effect h).2.1⟩,
   fun h => ⟨(step_effect h).1, (step_effect h).2.1⟩,
   fun h => ⟨(step_effect h).1, (step_effect h).2.1⟩,
   fun h => ⟨(step_effect h).1, (step_effect h).2.1⟩⟩

/-- the four `remove_*_socket` methods delete that family's ip key and port key -/
theorem C08_step_content_removeSocket {S : Scheme} {r r' : Record} {pk : S.PK} {o : Option Bytes}
    {ret : Ret} :
    (step S r .removeUdpSocket pk o = (.ok ret, r') →
      r'.content = Map.insert (Map.erase (Map.erase r.content kIp) kUdp) (S.enrKey pk) (pubValue S pk)
      ∧ ret = .unit) ∧
    (step S r .removeUdp6Socket pk o = (.ok ret, r') →
      r'.content = Map.insert (Map.erase (Map.erase r.content kIp6) kUdp6) (S.enrKey pk) (pubValue S pk)
      ∧ ret = .unit) ∧
    (step S r .removeTcpSocket pk o = (.ok ret, r') →
      r'.content = Map.insert (Map.erase (Map.erase r.content kIp) kTcp) (S.enrKey pk) (pubValue S pk)
      ∧ ret = .unit) ∧
    (step S r .removeTcp6Socket pk o = (.ok ret, r') →
      r'.content = Map.insert (Map.erase (Map.erase r.content kIp6) kTcp6) (S.enrKey pk) (pubValue S pk)
      ∧ ret = .unit) :=
  ⟨fun h => ⟨(step_effect h).1, (step_effect h).2.1⟩,
   fun h => ⟨(step_effect h).1, (step_effect h).2.1⟩,
   fun h => ⟨(step_effect h).1, (step_effect h).2.1⟩,
   fun h => ⟨(step_effect h).1, (step_effect h).2.1⟩⟩

/-! ### Socket setters: only that family's ip key and port key -/

theorem C08_step_content_setUdpSocket {S : Scheme} {r r' : Record} {ip : Bytes} {port : Nat}
    {pk : S.PK} {o : Option Bytes} {ret : Ret}
    (h : step S r (.setUdpSocket ip port) pk o = (.ok ret, r')) :
    r'.content = Map.insert (Map.insert (Map.insert r.content
        (if ip.length = 4 then kIp else kIp6) (encBytes ip))
        (if ip.length = 4 then kUdp else kUdp6) (encUint port))
      (S.enrKey pk) (pubValue S pk) ∧ ret = .unit :=
  ⟨(step_effect h).1, (step_effect h).2.1⟩

theorem C08_step_content_setTcpSocket {S : Scheme} {r r' : Record} {ip : Bytes} {port : Nat}
    {pk : S.PK} {o : Option Bytes} {ret : Ret}
    (h : step S r (.setTcpSocket ip port) pk o = (.ok ret, r')) :
    r'.content = Map.insert (Map.insert (Map.insert r.content
        (if ip.length = 4 then kIp else kIp6) (encBytes ip))
        (if ip.length = 4 then kTcp else kTcp6) (encUint port))
      (S.enrKey pk) (pubValue S pk) ∧ ret = .unit :=
  ⟨(step_effect h).1, (step_effect h).2.1⟩

/-! ### `remove_insert` -/

/-- The content is "remove all, insert all, store the key", and the two returned lists are the ones
    the loops produce. -/
theorem C08_step_content_removeInsert {S : Scheme} {r r' : Record} {rm : List Bytes}
    {ins : List (Bytes × Bytes)} {pk : S.PK} {o : Option Bytes} {ret : Ret}
    (h : step S r (.removeInsert rm ins) pk o = (.ok ret, r')) :
    ∃ c2 inserted, insertAll (removeAll r.content rm).1 ins = .ok (c2, inserted) ∧
      r'.content = withPubkey S c2 pk ∧ ret = .prevLists (removeAll r.content rm).2 inserted := by
  obtain ⟨p, sig, hp, _, _, _, _⟩ := step_ok_inv h
  have hpre := (prepareG_ok_inv hp).1
  simp only [opPre] at hpre
  cases hi : insertAll (removeAll r.content rm).1 ins with
  | error e => rw [hi] at hpre; cases hpre
  | ok x =>
    obtain ⟨c2, inserted⟩ := x
    obtain ⟨h1, h2⟩ := insertAll_ok hi
    refine ⟨c2, inserted, rfl, ?_, ?_⟩
    · rw [(step_effect h).1, h1]; rfl
    · rw [(step_effect h).2.1, h2]; rfl

/-- After the removal loop a named key is absent and every other key is untouched. -/
theorem C08_removeAll_lookup (c : Content) (rm : List Bytes) (k : Bytes) (hs : Map.Sorted c) :
    Map.lookup (removeAll c rm).1 k = if k ∈ rm then none else Map.lookup c k :=
  removeAll_lookup c rm k hs

/-- The removal loop returns, for each named key in order, its previous value — `none` if an
    earlier position of the same call has removed it already (`Eff.removedSpec`). -/
theorem C08_removeAll_returns (c : Content) (rm : List Bytes) (hs : Map.Sorted c) :
    (removeAll c rm).2 = removedSpec c [] rm :=
  removeAll_returns c rm hs

/-- With pairwise different keys these are exactly the values in the old content. -/
theorem C08_removeAll_returns_nodup (c : Content) (rm : List Bytes) (hs : Map.Sorted c)
    (hn : rm.Nodup) : (removeAll c rm).2 = rm.map (Map.lookup c) :=
  removeAll_returns_nodup c rm hs hn

/-- After the insertion loop a key holds the string encoding of the LAST value given for it
    (`Eff.lastVal`), and is untouched if none was given. -/
theorem C08_insertAll_lookup {c c' : Content} {ins : List (Bytes × Bytes)}
    {out : List (Option Bytes)} (h : insertAll c ins = .ok (c', out)) (k : Bytes) :
    Map.lookup c' k =
      match lastVal k ins with
      | some v => some (encBytes v)
      | none => Map.lookup c k :=
  insertAll_lookup h k

/-- The insertion loop returns, for each pair in order, the value the key had just before
    (`Eff.insertedSpec`). -/
theorem C08_insertAll_returns {c c' : Content} {ins : List (Bytes × Bytes)}
    {out : List (Option Bytes)} (h : insertAll c ins = .ok (c', out)) :
    out = insertedSpec c [] ins :=
  insertAll_returns h

/-- Lookup-level description of a successful `remove_insert`. -/
theorem C08_step_removeInsert_lookup {S : Scheme} {r r' : Record} {rm : List Bytes}
    {ins : List (Bytes × Bytes)} {pk : S.PK} {o : Option Bytes} {ret : Ret}
    (h : step S r (.removeInsert rm ins) pk o = (.ok ret, r')) (hs : Map.Sorted r.content)
    (k : Bytes) (hk : k ≠ S.enrKey pk) :
    Map.lookup r'.content k =
      match lastVal k ins with
      | some v => some (encBytes v)
      | none => if k ∈ rm then none else Map.lookup r.content k := by
  rw [(step_effect h).1]
  simp only [newContent, opRaw, riRaw, withPubkey]
  rw [Map.lookup_insert_ne _ _ _ _ hk, insertAllMap_lookup, removeAll_lookup _ _ _ hs]
  rfl

/-! ### `set_seq` -/

theorem C08_step_set_seq_content {S : Scheme} {r r' : Record} {s : Nat} {pk : S.PK}
    {o : Option Bytes} {ret : Ret} (h : step S r (.setSeq s) pk o = (.ok ret, r')) :
    r'.content = withPubkey S r.content pk ∧ r'.seq = s ∧ ret = .unit :=
  ⟨(step_effect h).1, (step_effect h).2.2.1, (step_effect h).2.1⟩

/-! ### Returned previous values of the typed setters -/

/-- A port setter returns the decoded previous port when the stored value was canonical. -/
theorem C08_prevPort_spec :
    prevPort none = .prevPort none ∧
    ∀ p, p < 65536 → prevPort (some (encUint p)) = .prevPort (some p) :=
  ⟨rfl, prevPort_canonical⟩

/-- `set_ip` returns the previous address of the same family when the stored value was canonical. -/
theorem C08_prevIp_spec :
    (∀ n, prevIp n none = .prevIp none) ∧
    (∀ ip : Bytes, ip.length = 4 → prevIp 4 (some (encBytes ip)) = .prevIp (some ip)) ∧
    (∀ ip : Bytes, ip.length = 16 → prevIp 16 (some (encBytes ip)) = .prevIp (some ip)) :=
  ⟨fun _ => rfl, fun ip h => prevIp_canonical 4 ip h (by decide),
   fun ip h => prevIp_canonical 16 ip h (by decide)⟩

/-! ### The builder -/

/-- A built record holds the builder's pairs plus `id = v4` and the signer's public key, and the
    builder's sequence number. -/
theorem C08_build_content {S : Scheme} {b : Builder} {pk : S.PK} {o : Option Bytes} {r : Record}
    (h : Builder.build S b pk o = .ok r) :
    r.content = withPubkey S (Map.insert b.content kId (encBytes vV4)) pk ∧ r.seq = b.seq ∧
    r.nodeId = nodeIdOf S pk ∧ ∃ sig, o = some sig ∧ r.sig = sig := by
  obtain ⟨b', sig, hp, ho, _, hr⟩ := build_ok_inv h
  obtain ⟨h1, h2, _, _⟩ := builder_prepare_ok_inv hp
  subst hr
  exact ⟨h2, h1, rfl, sig, ho, rfl⟩

theorem C08_build_sorted {S : Scheme} {b : Builder} {pk : S.PK} {o : Option Bytes} {r : Record}
    (h : Builder.build S b pk o = .ok r) (hs : Map.Sorted b.content) : Map.Sorted r.content := by
  rw [(C08_build_content h).1]
  exact Map.sorted_insert _ _ _ (Map.sorted_insert _ _ _ hs)

/-- Every pair the builder was given under another key than `id` and the signer's key entry is in
    the record unchanged. -/
theorem C08_build_untouched {S : Scheme} {b : Builder} {pk : S.PK} {o : Option Bytes} {r : Record}
    (h : Builder.build S b pk o = .ok r) (k : Bytes) (h1 : k ≠ kId) (h2 : k ≠ S.enrKey pk) :
    Map.lookup r.content k = Map.lookup b.content k := by
  rw [(C08_build_content h).1]
  simp only [withPubkey]
  rw [Map.lookup_insert_ne _ _ _ _ h2, Map.lookup_insert_ne _ _ _ _ h1]

/-! ### `set_public_key` with the signer's own key -/

/-- Setting the public key to the signer's own key never fails with a value error, an
    identity-scheme error or a signing error: only for size or at the maximal sequence number.
    `hstored` says that the record stores its key in the canonical form (true for every record the
    builder or an update produced; a *decoded* record may store e.g. an uncompressed secp256k1 key,
    for which the theorem needs `Eff.setPublicKey_own_error` with its `hread` hypothesis). -/
theorem C08_setPublicKey_own_succeeds {S : Scheme} (hL : S.Lawful) {r : Record} {pk : S.PK}
    {e : EnrErr} (hk : KeyOK S pk) (hv : Valid S r) (hpk : S.enrToPublic r.content = .ok pk)
    (hstored : Map.lookup r.content (S.enrKey pk) = some (pubValue S pk))
    (h : prepare S r (.setPublicKey pk) pk = .error e) : e = .exceedsMaxSize ∨ e = .seqTooHigh :=
  setPublicKey_own_error hL hk hv.id_v4 (checkSigningKey_own hv.content.1 hpk hstored) h

/-- … and the content does not change (`Map.insert_idem`); the call succeeds as soon as the
    sequence number can be incremented, the signer answers, and the re-signed record fits. -/
theorem C08_setPublicKey_own_ok {S : Scheme} (hL : S.Lawful) {r : Record} {pk : S.PK} {sig : Bytes}
    (hk : KeyOK S pk) (hv : Valid S r) (hpk : S.enrToPublic r.content = .ok pk)
    (hstored : Map.lookup r.content (S.enrKey pk) = some (pubValue S pk))
    (hseq : r.seq + 1 < 2 ^ 64)
    (hfinal : (⟨r.seq + 1, nodeIdOf S pk, r.content, sig⟩ : Record).size ≤ 300) :
    step S r (.setPublicKey pk) pk (some sig) =
      (.ok .unit, ⟨r.seq + 1, nodeIdOf S pk, r.content, sig⟩) := by
  have hidem := withPubkey_idem hv.content.1 hstored
  have := setPublicKey_own_ok hL (r := r) (pk := pk) (sig := sig) hk hv.id_v4
    (checkSigningKey_own hv.content.1 hpk hstored) hseq
    (by rw [hidem]; exact hv.size_le) (by rw [hidem]; exact hfinal)
  rw [hidem] at this
  exact this

/-- A convenient sufficient condition: a signature of the old length (not 1 byte) and two bytes of
    room for the incremented sequence number. -/
theorem C08_setPublicKey_own_ok' {S : Scheme} (hL : S.Lawful) {r : Record} {pk : S.PK} {sig : Bytes}
    (hk : KeyOK S pk) (hv : Valid S r) (hpk : S.enrToPublic r.content = .ok pk)
    (hstored : Map.lookup r.content (S.enrKey pk) = some (pubValue S pk))
    (hseq : r.seq + 1 < 2 ^ 64) (hl : sig.length = r.sig.length) (h1 : r.sig.length ≠ 1)
    (hroom : r.size + 2 ≤ 300) :
    step S r (.setPublicKey pk) pk (some sig) =
      (.ok .unit, ⟨r.seq + 1, nodeIdOf S pk, r.content, sig⟩) := by
  apply C08_setPublicKey_own_ok hL hk hv hpk hstored hseq
  have e1 := Sz.size_sig_len (⟨r.seq + 1, nodeIdOf S pk, r.content, sig⟩ : Record)
    ({ r with seq := r.seq + 1 } : Record) hl (by simp only; omega) rfl rfl
  have e2 := Sz.size_bump_le r hseq
  omega

/-! ### Error kinds match their causes -/

/-- `insert_raw_rlp` (and every typed setter built on it): the error is the one of the value check
    `checkReserved key raw`, or the value check passed and one of the checks of the common tail
    fired on the staged record `n` (old record with the new pairs): `exceedsMaxSize` because `n` is
    larger than 300 bytes, `seqTooHigh` because the sequence number cannot be incremented,
    `unsupportedId` because `n`'s identity scheme is not v4, `signingError` because `n` would not
    be read back with the signer's key. -/
theorem C08_insertRaw_error_cause {S : Scheme} {r : Record} {key raw : Bytes} {pk : S.PK}
    {mk : Option Bytes → Ret} {e : EnrErr}
    (h : prepInsertRaw S r key raw pk true mk = .error e) :
    checkReserved key raw = .error e ∨
    (checkReserved key raw = .ok () ∧
      let n : Record := { r with content := withPubkey S (Map.insert r.content key raw) pk }
      (e = .exceedsMaxSize ∧ n.size > 300) ∨
      (e = .seqTooHigh ∧ 2 ^ 64 ≤ r.seq + 1) ∨
      (e = .unsupportedId ∧ n.id ≠ some vV4) ∨
      (e = .signingError ∧ n.id = some vV4 ∧
        checkSigningKey S n.content pk = .error .signingError)) := by
  rcases prepInsertRaw_error_cause h with h1 | ⟨h1, h2⟩
  · exact Or.inl h1
  · refine Or.inr ⟨h1, ?_⟩
    rcases h2 with ⟨a, _, b⟩ | h2 | h2 | h2
    · exact Or.inl ⟨a, b⟩
    · exact Or.inr (Or.inl h2)
    · exact Or.inr (Or.inr (Or.inl h2))
    · exact Or.inr (Or.inr (Or.inr h2))

/-- `remove_key`: there is no value check and no size check before signing. -/
theorem C08_removeKey_error_cause {S : Scheme} {r : Record} {key : Bytes} {pk : S.PK} {e : EnrErr}
    (h : prepRemoveKey S r key pk = .error e) :
    let n : Record := { r with content := withPubkey S (Map.erase r.content key) pk }
    (e = .seqTooHigh ∧ 2 ^ 64 ≤ r.seq + 1) ∨
    (e = .unsupportedId ∧ n.id ≠ some vV4) ∨
    (e = .signingError ∧ n.id = some vV4 ∧
      checkSigningKey S n.content pk = .error .signingError) := by
  rcases prepRemoveKey_error_cause h with ⟨_, a, _⟩ | h2 | h2 | h2
  · cases a
  · exact Or.inl h2
  · exact Or.inr (Or.inl h2)
  · exact Or.inr (Or.inr h2)

/-- `set_socket` -/
theorem C08_setSocket_error_cause {S : Scheme} {r : Record} {ip : Bytes} {port : Nat} {isTcp : Bool}
    {pk : S.PK} {e : EnrErr} (h : prepSetSocket S r ip port isTcp pk true = .error e) :
    let n : Record := stagedSocket S r ip port isTcp pk
    (e = .exceedsMaxSize ∧ n.size > 300) ∨
    (e = .seqTooHigh ∧ 2 ^ 64 ≤ r.seq + 1) ∨
    (e = .unsupportedId ∧ n.id ≠ some vV4) ∨
    (e = .signingError ∧ n.id = some vV4 ∧
      checkSigningKey S n.content pk = .error .signingError) := by
  rcases prepSetSocket_error_cause h with ⟨a, _, b⟩ | h2 | h2 | h2
  · exact Or.inl ⟨a, b⟩
  · exact Or.inr (Or.inl h2)
  · exact Or.inr (Or.inr (Or.inl h2))
  · exact Or.inr (Or.inr (Or.inr h2))

/-- `remove_insert`: the error is the one of the first refused pair (an `id` other than v4, or the
    pair's own `checkReserved` error), or the tail's. -/
theorem C08_removeInsert_error_cause {S : Scheme} {r : Record} {rm : List Bytes}
    {ins : List (Bytes × Bytes)} {pk : S.PK} {mk : List (Option Bytes) → List (Option Bytes) → Ret}
    {e : EnrErr} (h : prepRemoveInsert S r rm ins pk mk = .error e) :
    (∃ pre k v post, ins = pre ++ (k, v) :: post ∧
      ((k = kId ∧ v ≠ vV4 ∧ e = .unsupportedId) ∨ checkReserved k (encBytes v) = .error e)) ∨
    ((∃ x, insertAll (removeAll r.content rm).1 ins = .ok x) ∧
      let n : Record := { r with content := withPubkey S (riRaw r.content rm ins) pk }
      (e = .seqTooHigh ∧ 2 ^ 64 ≤ r.seq + 1) ∨
      (e = .unsupportedId ∧ n.id ≠ some vV4) ∨
      (e = .signingError ∧ n.id = some vV4 ∧
        checkSigningKey S n.content pk = .error .signingError)) := by
  rcases prepRemoveInsert_error_cause h with h1 | ⟨h1, h2⟩
  · exact Or.inl (insertAll_error_cause h1)
  · refine Or.inr ⟨h1, ?_⟩
    rcases h2 with ⟨_, a, _⟩ | h2 | h2 | h2
    · cases a
    · exact Or.inl h2
    · exact Or.inr (Or.inl h2)
    · exact Or.inr (Or.inr h2)

/-- `set_seq`: only the identity-scheme and signing-key checks can fail before signing. -/
theorem C08_setSeq_error_cause {S : Scheme} {r : Record} {s : Nat} {pk : S.PK} {e : EnrErr}
    (h : prepare S r (.setSeq s) pk = .error e) :
    let n : Record := { r with content := withPubkey S r.content pk }
    (e = .unsupportedId ∧ n.id ≠ some vV4) ∨
    (e = .signingError ∧ n.id = some vV4 ∧
      checkSigningKey S n.content pk = .error .signingError) :=
  prepareG_setSeq_error_cause h

/-- All updates at once: an error of `step` is an error of the argument check of that update, one
    of the four tail checks on the staged record, the signer's failure, or the final size check
    on the signed result. -/
theorem C08_step_error_cause {S : Scheme} {r r2 : Record} {op : Op S} {pk : S.PK} {o : Option Bytes}
    {e : EnrErr} (hop : op.isSetSeq = false) (h : step S r op pk o = (.err e, r2)) :
    opPre S op r.content = .error e ∨
    (opPre S op r.content = .ok () ∧
      TailCause S { r with content := newContent S op pk r.content } pk (opChk op) e) ∨
    (e = .signingError ∧ o = none) ∨
    (e = .exceedsMaxSize ∧ ∃ sig, o = some sig ∧ (resultOf S r op pk sig).size > 300) := by
  rcases (step_err_inv h).2 with hp | ⟨p, _, ho, he⟩ | ⟨p, sig, hp, ho, he, hbig⟩
  · rcases prepareG_error_cause hop hp with h1 | h1
    · exact Or.inl h1
    · exact Or.inr (Or.inl (by simpa using h1))
  · exact Or.inr (Or.inr (Or.inl ⟨he, ho⟩))
  · refine Or.inr (Or.inr (Or.inr ⟨he, sig, ho, ?_⟩))
    obtain ⟨_, h2, _⟩ := prepareG_ok_inv hp
    have : (resultOf S r op pk sig).size =
        ({ p.enr with sig := sig, nodeId := nodeIdOf S pk } : Record).size := by
      apply Sz.size_congr <;> simp [resultOf, h2]
    omega

/-- The value checks report only value errors: `unsupportedId` or `invalidRlp _`. -/
theorem C08_value_error_kinds {S : Scheme} {op : Op S} {c : Content} {e : EnrErr}
    (h : opPre S op c = .error e) : e = .unsupportedId ∨ ∃ x, e = .invalidRlp x :=
  opPre_error_kind h

/-- The builder: a refused pair (with the error of its own check), a key the record would not be
    read back with, a failing signer, or the size bound. -/
theorem C08_build_error_cause {S : Scheme} {b : Builder} {pk : S.PK} {o : Option Bytes} {e : EnrErr}
    (h : Builder.build S b pk o = .err e) :
    (∃ k v, (k, v) ∈ builtContent S b pk ∧ checkReserved k v = .error e) ∨
    (e = .signingError ∧ Builder.checkAll (builtContent S b pk) = .ok () ∧
      checkSigningKey S (builtContent S b pk) pk = .error .signingError) ∨
    (e = .signingError ∧ o = none ∧ ∃ b', Builder.prepare S b pk = .ok b') ∨
    (e = .exceedsMaxSize ∧ ∃ b' sig, Builder.prepare S b pk = .ok b' ∧ o = some sig ∧
      b'.rlpContent.length + sig.length + 8 > 300) :=
  build_error_cause h

/-! ### Examples (a toy key type: the key is its own encoding, every signature verifies) -/

namespace C08ex

def toy : Scheme where
  PK := Bytes
  enrKey := fun _ => kSecp
  encodePub := fun pk => pk
  uncompressed := fun pk => pk
  enrToPublic := fun c =>
    match Map.lookup c kSecp with
    | none => .error (.custom .invalidPubkey)
    | some v =>
      match decodeBytes v false with
      | .ok (b, _) => .ok b
      | .error e => .error e
  verify := fun _ _ _ => true
  digest := fun b => b

def pk0 : toy.PK := [2, 7, 7]
def sig0 : Bytes := List.replicate 64 1
def sig1 : Bytes := List.replicate 64 2

/-- a built record: `id`, the key, and a udp port -/
def r0 : Record :=
  match Builder.build toy ((({} : Builder).addValue kUdp (.uint 30303))) pk0 (some sig0) with
  | .ok r => r
  | _ => ⟨0, [], [], []⟩

example : r0.content =
    [(kId, encBytes vV4), (kSecp, encBytes pk0), (kUdp, encUint 30303)] := by decide

example : r0.seq = 1 := by decide

/-- `set_tcp4` adds exactly the `tcp` pair and returns no previous port -/
example : (step toy r0 (.setTcp4 9000) pk0 (some sig1)).2.content =
    [(kId, encBytes vV4), (kSecp, encBytes pk0), (kTcp, encUint 9000), (kUdp, encUint 30303)] := by
  decide

/-- `set_udp4` replaces the port and returns the previous one -/
example : (step toy r0 (.setUdp4 1) pk0 (some sig1)).2.content =
      [(kId, encBytes vV4), (kSecp, encBytes pk0), (kUdp, [1])] ∧
    opRet toy (.setUdp4 1) r0.content = .prevPort (some 30303) := by decide

/-- a socket setter writes the family's two keys only -/
example : (step toy r0 (.setTcpSocket [10, 0, 0, 1] 80) pk0 (some sig1)).2.content =
    [(kId, encBytes vV4), (kIp, encBytes [10, 0, 0, 1]), (kSecp, encBytes pk0),
     (kTcp, encUint 80), (kUdp, encUint 30303)] := by decide

/-- `remove_insert` with a key named twice: the second removal reports `none` -/
example : (removeAll r0.content [kUdp, kUdp]).2 = [some (encUint 30303), none] := by decide

/-- a malformed raw value is refused with the decoder's error, and nothing changes -/
example : (step toy r0 (.insertRaw kTcp [0x82, 0, 1]) pk0 (some sig1)).2 = r0 ∧
    (match prepare toy r0 (.insertRaw kTcp [0x82, 0, 1]) pk0 with
     | .error e => some e
     | .ok _ => none) = some (.invalidRlp .leadingZero) := by
  decide

end C08ex

/-! ### Axioms -/

#print axioms C08_step_effect
#print axioms C08_step_sorted
#print axioms C08_step_pubkey
#print axioms C08_step_untouched
#print axioms C08_step_err_unchanged
#print axioms C08_step_content_insertRaw
#print axioms C08_step_content_insert
#print axioms C08_step_content_setUdp4
#print axioms C08_step_content_setUdp6
#print axioms C08_step_content_setTcp4
#print axioms C08_step_content_setTcp6
#print axioms C08_step_content_setIp
#print axioms C08_step_content_setClientInfo
#print axioms C08_step_content_setPublicKey
#print axioms C08_step_content_removeKey
#print axioms C08_step_content_removePort
#print axioms C08_step_content_removeSocket
#print axioms C08_step_content_setUdpSocket
#print axioms C08_step_content_setTcpSocket
#print axioms C08_step_content_removeInsert
#print axioms C08_removeAll_lookup
#print axioms C08_removeAll_returns
#print axioms C08_removeAll_returns_nodup
#print axioms C08_insertAll_lookup
#print axioms C08_insertAll_returns
#print axioms C08_step_removeInsert_lookup
#print axioms C08_step_set_seq_content
#print axioms C08_prevPort_spec
#print axioms C08_prevIp_spec
#print axioms C08_build_content
#print axioms C08_build_sorted
#print axioms C08_build_untouched
#print axioms C08_setPublicKey_own_succeeds
#print axioms C08_setPublicKey_own_ok
#print axioms C08_setPublicKey_own_ok'
#print axioms C08_insertRaw_error_cause
#print axioms C08_removeKey_error_cause
#print axioms C08_setSocket_error_cause
#print axioms C08_removeInsert_error_cause
#print axioms C08_setSeq_error_cause
#print axioms C08_step_error_cause
#print axioms C08_value_error_kinds
#print axioms C08_build_error_cause

end EnrVerif
