/-
  Property C11 — key back-ends are interchangeable and signature schemes are isolated.

  "Key back-ends are interchangeable and signature schemes are isolated: The three
   secp256k1-capable key types (k256, rust-secp256k1, CombinedKey) accept exactly the same inputs
   and report identical sequence number, pairs, signature, public-key bytes and node id for them,
   and a record signed through any of them is accepted by all; the same holds between the ed25519
   key type and CombinedKey for ed25519 records.  A single-scheme key type never accepts a record
   that carries only the other scheme's key, and CombinedKey verifies against the secp256k1 entry
   whenever that entry is a valid key."
  (Quantifier: public keys restricted to the 33-byte compressed form or invalid encodings.)

  Model: `k256S`, `libsecpS`, `edS`, `combS` (`Model/Schemes.lean`); the two secp256k1 public-key
  parsers `Secp.decodePubK256` / `Secp.decodePubLibsecp` are written independently from the rules
  of the two crates.  Curve arithmetic (`liftX`, `fromXY`, `ecdsaCore`, `Ed.decompress`, …) and
  Keccak are never unfolded.

  What the quantifier restriction is about (proved here, `decodePub_hybrid_differs`): the two
  parsers differ exactly on the 65-byte *hybrid* SEC1 forms (tags 06/07: libsecp256k1 accepts,
  k256 rejects) and on the compact tag 05 (k256 accepts, libsecp256k1 rejects; `enr` filters 05
  out before calling k256, `rejectCompact`).  The interchangeability theorems are proved under the
  requested restriction "the secp256k1 entry is not 65 bytes long" (`SecpEntryNot65`) and, more
  sharply, under "not a 65-byte hybrid form" (`SecpEntryNotHybrid`, suffix `_nohybrid`): with a
  65-byte *uncompressed* `04` key the two back-ends still agree.

  A decoded record is the tuple (seq, nodeId, content, sig); "report identical sequence number,
  pairs, signature and node id" is therefore equality of the decoded `Record`s, and "public-key
  bytes" equality of `Record.publicKey`.

  `Scheme.Lawful` (Spec.lean: `pub_inj`, `key_not_reserved`, `pub_local`) is PROVED for k256S /
  libsecpS / edS / combS (`k256S_lawful` …, `Proofs/SchemeLemmas.lean`; restated in §6).  The bound
  on the length of a key's encoding is not a law of the key type (the model's `PK` is all of
  `Bytes`) but the per-key predicate `KeyOK`; it holds for every key `enrToPublic` can return
  (`k256S_keyOK_of_enrToPublic`, …) and for every key of fewer than 2^64 bytes (`k256S_keyOK`, …).
-/
import EnrVerif.Proofs.SchemeLemmas
import EnrVerif.Proofs.Examples

namespace EnrVerif

/-! ### 1. the two secp256k1 public-key parsers -/

/-- Outside the 65-byte SEC1 forms, and once the compact tag `05` is excluded, k256 and
    libsecp256k1 accept the same public-key encodings and decode them to the same point. -/
theorem decodePub_k256_eq_libsecp (b : Bytes) (hl : b.length ≠ 65) (h5 : b.head? ≠ some 5) :
    Secp.decodePubK256 b = Secp.decodePubLibsecp b :=
  decodePub_k256_eq_libsecp' b (fun h => absurd h hl) h5

/-- Sharper: they agree on everything but the hybrid tags `06`/`07` (65 bytes) and tag `05`. -/
theorem decodePub_k256_eq_libsecp_nohybrid (b : Bytes)
    (hhyb : b.length = 65 → b.head? ≠ some 6 ∧ b.head? ≠ some 7) (h5 : b.head? ≠ some 5) :
    Secp.decodePubK256 b = Secp.decodePubLibsecp b :=
  decodePub_k256_eq_libsecp' b hhyb h5

/-- libsecp256k1 rejects tag `05` (so does `enr`'s k256 back-end, before calling k256). -/
theorem decodePub_libsecp_rejects_compact (b : Bytes) (h : b.head? = some 5) :
    Secp.decodePubLibsecp b = none :=
  decodePubLibsecp_tag5 b h

/-- Where the two parsers really differ: the hybrid encoding (`06`, even y) of a curve point is
    accepted by libsecp256k1 and rejected by k256.  (`fromXY` is the on-curve check, opaque here.) -/
theorem decodePub_hybrid_differs (x y : Nat) (P : Secp.Pt) (hx : x < 256 ^ 32) (hy : y < 256 ^ 32)
    (hP : Secp.fromXY x y = some P) (hev : y % 2 = 0) :
    Secp.decodePubLibsecp (6 :: (natToBeFixed 32 x ++ natToBeFixed 32 y)) = some P ∧
    Secp.decodePubK256 (6 :: (natToBeFixed 32 x ++ natToBeFixed 32 y)) = none := by
  have h6 : (6 : UInt8).toNat = 6 := rfl
  have hlen : (natToBeFixed 32 x ++ natToBeFixed 32 y).length = 64 := by
    rw [List.length_append, natToBeFixed_length, natToBeFixed_length]
  have htake : (natToBeFixed 32 x ++ natToBeFixed 32 y).take 32 = natToBeFixed 32 x := by
    rw [List.take_append_of_le_length (by rw [natToBeFixed_length]; omega),
      List.take_of_length_le (by rw [natToBeFixed_length]; omega)]
  have hdrop : (natToBeFixed 32 x ++ natToBeFixed 32 y).drop 32 = natToBeFixed 32 y := by
    have := List.drop_left (l₁ := natToBeFixed 32 x) (l₂ := natToBeFixed 32 y)
    rwa [natToBeFixed_length] at this
  constructor
  · unfold Secp.decodePubLibsecp
    simp only
    rw [if_neg (by omega), if_pos hlen, if_pos (by rw [h6]; omega), htake, hdrop,
      beToNat_natToBeFixed _ _ hx, beToNat_natToBeFixed _ _ hy, if_neg (by rw [h6]; omega)]
    exact hP
  · unfold Secp.decodePubK256
    simp only
    rw [if_neg (by rw [h6]; omega), if_neg (by rw [h6]; omega), if_neg (by rw [h6]; omega)]

/-! ### 2. k256 ≡ rust-secp256k1 -/

theorem enrToPublic_k256_eq_libsecp (c : Content)
    (h : ∀ raw b rest, Map.lookup c kSecp = some raw → decodeBytes raw false = .ok (b, rest) →
      b.length ≠ 65) : k256S.enrToPublic c = libsecpS.enrToPublic c :=
  enrToPublic_k256_eq_libsecp' c (SecpEntryNot65.notHybrid h)

theorem enrToPublic_k256_eq_libsecp_nohybrid (c : Content) (h : SecpEntryNotHybrid c) :
    k256S.enrToPublic c = libsecpS.enrToPublic c :=
  enrToPublic_k256_eq_libsecp' c h

/-- the two key types share everything but `enr_to_public` -/
theorem libsecpS_eq_k256S_with :
    libsecpS = { k256S with enrToPublic := secpEnrToPublic Secp.decodePubLibsecp false } := rfl

/-- the verification functions (hence "signed through one, accepted by the other"), the public-key
    encodings and the node-id derivations coincide -/
theorem k256_libsecp_same_verify :
    k256S.verify = libsecpS.verify ∧ k256S.encodePub = libsecpS.encodePub ∧
    k256S.enrKey = libsecpS.enrKey ∧ (∀ pk : Bytes, nodeIdOf k256S pk = nodeIdOf libsecpS pk) :=
  ⟨rfl, rfl, rfl, fun _ => rfl⟩

/-- Same inputs accepted, same record (seq, pairs, signature, node id), same rest of buffer —
    and the same error otherwise.  `contentOf buf` is the list of pairs the decoder extracts from
    `buf`, whichever the key type (`contentOf_of_decode`). -/
theorem decode_k256_eq_libsecp_nohybrid (buf : Bytes)
    (h : ∀ c, contentOf buf = some c → SecpEntryNotHybrid c) :
    decode k256S buf = decode libsecpS buf := by
  rw [libsecpS_eq_k256S_with]
  exact decode_congr k256S _ buf (fun c hc => enrToPublic_k256_eq_libsecp' c (h c hc))

theorem decode_k256_eq_libsecp (buf : Bytes)
    (h : ∀ c, contentOf buf = some c → SecpEntryNot65 c) :
    decode k256S buf = decode libsecpS buf :=
  decode_k256_eq_libsecp_nohybrid buf (fun c hc => (h c hc).notHybrid)

/-- the same at the level of the payload of the outer list -/
theorem decodeBody_k256_eq_libsecp (payload : Bytes)
    (h : ∀ c, bodyContent payload = some c → SecpEntryNot65 c) :
    decodeBody k256S payload = decodeBody libsecpS payload := by
  rw [libsecpS_eq_k256S_with]
  exact decodeBody_congr k256S _ payload
    (fun c hc => enrToPublic_k256_eq_libsecp' c (h c hc).notHybrid)

/-- The record invariant does not depend on which of the two back-ends is used. -/
theorem valid_k256_iff_libsecp (r : Record) (h : SecpEntryNotHybrid r.content) :
    Valid k256S r ↔ Valid libsecpS r := by
  have he := enrToPublic_k256_eq_libsecp' r.content h
  constructor
  · intro hv
    obtain ⟨pk, hpk, hn, hver⟩ := hv.authentic
    exact hv.transfer ⟨pk, by rw [← he]; exact hpk, hn, hver⟩
  · intro hv
    obtain ⟨pk, hpk, hn, hver⟩ := hv.authentic
    exact hv.transfer ⟨pk, by rw [he]; exact hpk, hn, hver⟩

/-- success direction without `contentOf`: an accepted record whose secp256k1 entry is not a
    hybrid form is accepted, identically, by the other back-end -/
theorem decode_libsecp_of_k256 (buf : Bytes) (r : Record) (rest : Bytes)
    (h : decode k256S buf = .ok (r, rest)) (hc : SecpEntryNotHybrid r.content) :
    decode libsecpS buf = .ok (r, rest) :=
  decode_transfer k256S libsecpS buf r rest h (valid_k256_iff_libsecp r hc).mp

theorem decode_k256_of_libsecp (buf : Bytes) (r : Record) (rest : Bytes)
    (h : decode libsecpS buf = .ok (r, rest)) (hc : SecpEntryNotHybrid r.content) :
    decode k256S buf = .ok (r, rest) :=
  decode_transfer libsecpS k256S buf r rest h (valid_k256_iff_libsecp r hc).mpr

/-- identical public-key bytes (`public_key()`), including the panic behaviour -/
theorem publicKey_k256_eq_libsecp (r : Record) (h : SecpEntryNotHybrid r.content) :
    r.publicKey k256S = r.publicKey libsecpS := by
  unfold Record.publicKey
  rw [enrToPublic_k256_eq_libsecp' r.content h]
  cases libsecpS.enrToPublic r.content <;> rfl

/-- identical `verify()` -/
theorem verify_k256_eq_libsecp (r : Record) (h : SecpEntryNotHybrid r.content) :
    r.verify k256S = r.verify libsecpS := by
  unfold Record.verify
  rw [enrToPublic_k256_eq_libsecp' r.content h]
  cases libsecpS.enrToPublic r.content <;> rfl

/-! ### 3. k256 ≡ CombinedKey on secp256k1 records -/

/-- CombinedKey reads the secp256k1 entry first: whenever that entry is a valid key, it is the
    key CombinedKey verifies against. -/
theorem comb_prefers_secp (c : Content) (pk : Bytes) (h : k256S.enrToPublic c = .ok pk) :
    combS.enrToPublic c = .ok pk :=
  combS_enrToPublic_of_k256 c pk h

/-- … whatever the ed25519 entry says; in particular `public_key()` is the secp256k1 key. -/
theorem publicKey_comb_of_k256 (r : Record) (pk : Bytes)
    (h : k256S.enrToPublic r.content = .ok pk) :
    r.publicKey combS = .ok pk ∧ r.publicKey k256S = .ok pk := by
  unfold Record.publicKey
  rw [comb_prefers_secp r.content pk h, h]
  exact ⟨rfl, rfl⟩

/-- on a secp256k1 key CombinedKey verifies and derives the node id exactly as k256 does -/
theorem comb_secp_same_verify (pk : Bytes) (h : pk.length = 33) :
    (∀ msg sig, combS.verify pk msg sig = k256S.verify pk msg sig) ∧
    nodeIdOf combS pk = nodeIdOf k256S pk ∧ combS.enrKey pk = k256S.enrKey pk ∧
    combS.encodePub pk = k256S.encodePub pk := by
  refine ⟨fun msg sig => verify_comb_secp pk msg sig h, nodeIdOf_comb_secp pk h, ?_, rfl⟩
  show (if pk.length = 33 then kSecp else kEd) = kSecp
  rw [if_pos h]

theorem valid_comb_of_k256 (r : Record) (hv : Valid k256S r) : Valid combS r := by
  obtain ⟨pk, hpk, hn, hver⟩ := hv.authentic
  have hl := secpEnrToPublic_len _ _ _ _ hpk
  refine hv.transfer ⟨pk, comb_prefers_secp _ _ hpk, ?_, ?_⟩
  · rw [nodeIdOf_comb_secp pk hl]; exact hn
  · rw [verify_comb_secp pk _ _ hl]; exact hver

theorem valid_k256_of_comb (r : Record) (hv : Valid combS r)
    (hk : ∃ pk, k256S.enrToPublic r.content = .ok pk) : Valid k256S r := by
  obtain ⟨pk', hpk'⟩ := hk
  obtain ⟨pk, hpk, hn, hver⟩ := hv.authentic
  rw [comb_prefers_secp _ _ hpk'] at hpk
  have e : pk' = pk := Except.ok.inj hpk
  subst e
  have hl := secpEnrToPublic_len _ _ _ _ hpk'
  refine hv.transfer ⟨pk', hpk', ?_, ?_⟩
  · rw [← nodeIdOf_comb_secp pk' hl]; exact hn
  · rw [← verify_comb_secp pk' _ _ hl]; exact hver

theorem valid_k256_iff_comb (r : Record) :
    Valid k256S r ↔ Valid combS r ∧ ∃ pk, k256S.enrToPublic r.content = .ok pk :=
  ⟨fun hv => ⟨valid_comb_of_k256 r hv, hv.authentic.imp fun _ h => h.1⟩,
   fun h => valid_k256_of_comb r h.1 h.2⟩

/-- Whatever k256 decodes, CombinedKey decodes to the identical record. -/
theorem decode_comb_of_k256 (buf : Bytes) (r : Record) (rest : Bytes)
    (h : decode k256S buf = .ok (r, rest)) : decode combS buf = .ok (r, rest) :=
  decode_transfer k256S combS buf r rest h (valid_comb_of_k256 r)

/-- Conversely, whatever CombinedKey decodes and carries a valid secp256k1 key, k256 decodes to the
    identical record. -/
theorem decode_k256_of_comb (buf : Bytes) (r : Record) (rest : Bytes)
    (h : decode combS buf = .ok (r, rest)) (hk : (k256S.enrToPublic r.content).isOk = true) :
    decode k256S buf = .ok (r, rest) :=
  decode_transfer combS k256S buf r rest h
    (fun hv => valid_k256_of_comb r hv ((except_isOk_iff _).mp hk))

theorem decode_k256_iff_comb (buf : Bytes) (r : Record) (rest : Bytes) :
    decode k256S buf = .ok (r, rest) ↔
      decode combS buf = .ok (r, rest) ∧ ∃ pk, k256S.enrToPublic r.content = .ok pk := by
  constructor
  · intro h
    exact ⟨decode_comb_of_k256 buf r rest h,
      (decode_valid k256S buf r rest h).authentic.imp fun _ h => h.1⟩
  · rintro ⟨h, hk⟩
    exact decode_k256_of_comb buf r rest h ((except_isOk_iff _).mpr hk)

/-- the three secp256k1-capable key types together -/
theorem decode_secp_three (buf : Bytes) (r : Record) (rest : Bytes)
    (hc : ∀ c, contentOf buf = some c → SecpEntryNot65 c) :
    (decode k256S buf = .ok (r, rest) ↔ decode libsecpS buf = .ok (r, rest)) ∧
    (decode k256S buf = .ok (r, rest) ↔
      decode combS buf = .ok (r, rest) ∧ ∃ pk, k256S.enrToPublic r.content = .ok pk) := by
  rw [decode_k256_eq_libsecp buf hc]
  exact ⟨Iff.rfl, by rw [← decode_k256_eq_libsecp buf hc]; exact decode_k256_iff_comb buf r rest⟩

/-- "a record signed through any of them is accepted by all": for a record with a (non-hybrid)
    secp256k1 key, validity under the three key types coincides -/
theorem valid_secp_three (r : Record) (hc : SecpEntryNotHybrid r.content) :
    (Valid k256S r ↔ Valid libsecpS r) ∧
    (Valid k256S r ↔ Valid combS r ∧ ∃ pk, k256S.enrToPublic r.content = .ok pk) :=
  ⟨valid_k256_iff_libsecp r hc, valid_k256_iff_comb r⟩

/-- CombinedKey verifies against the secp256k1 entry whenever that entry is a valid key: a record
    it accepts is then valid *as a secp256k1 record* (node id and signature are those of the
    secp256k1 key, the ed25519 entry plays no role). -/
theorem comb_verifies_against_secp (r : Record) (pk : Bytes) (hv : Valid combS r)
    (hk : k256S.enrToPublic r.content = .ok pk) :
    r.nodeId = nodeIdOf k256S pk ∧ secpVerify pk r.rlpContent r.sig = true := by
  obtain ⟨pk', hpk', hn, hver⟩ := (valid_k256_of_comb r hv ⟨pk, hk⟩).authentic
  rw [hk] at hpk'
  have e : pk = pk' := Except.ok.inj hpk'
  subst e
  exact ⟨hn, hver⟩

/-! ### 4. ed25519 ≡ CombinedKey on ed25519 records -/

theorem comb_ed_same_verify (pk : Bytes) (h : pk.length ≠ 33) :
    (∀ msg sig, combS.verify pk msg sig = edS.verify pk msg sig) ∧
    nodeIdOf combS pk = nodeIdOf edS pk ∧ combS.enrKey pk = edS.enrKey pk ∧
    combS.encodePub pk = edS.encodePub pk := by
  refine ⟨fun msg sig => verify_comb_ed pk msg sig h, nodeIdOf_comb_ed pk h, ?_, rfl⟩
  show (if pk.length = 33 then kSecp else kEd) = kEd
  rw [if_neg h]

theorem valid_comb_of_ed (r : Record) (hv : Valid edS r)
    (hk : ∀ pk, k256S.enrToPublic r.content ≠ .ok pk) : Valid combS r := by
  obtain ⟨pk, hpk, hn, hver⟩ := hv.authentic
  have hl : pk.length = 32 := edEnrToPublic_len _ _ hpk
  have hc : combS.enrToPublic r.content = .ok pk := by
    cases hk' : k256S.enrToPublic r.content with
    | ok pk' => exact absurd hk' (hk pk')
    | error e => rw [comb_falls_back_to_ed _ e hk']; exact hpk
  refine hv.transfer ⟨pk, hc, ?_, ?_⟩
  · rw [nodeIdOf_comb_ed pk (by omega)]; exact hn
  · rw [verify_comb_ed pk _ _ (by omega)]; exact hver

theorem valid_ed_of_comb (r : Record) (hv : Valid combS r)
    (hk : ∀ pk, k256S.enrToPublic r.content ≠ .ok pk) : Valid edS r := by
  obtain ⟨pk, hpk, hn, hver⟩ := hv.authentic
  rcases combS_enrToPublic_cases _ _ hpk with ⟨h1, _⟩ | ⟨_, h2, hl⟩
  · exact absurd h1 (hk pk)
  · refine hv.transfer ⟨pk, h2, ?_, ?_⟩
    · rw [← nodeIdOf_comb_ed pk (by omega)]; exact hn
    · rw [← verify_comb_ed pk _ _ (by omega)]; exact hver

theorem valid_ed_iff_comb (r : Record) (hk : ∀ pk, k256S.enrToPublic r.content ≠ .ok pk) :
    Valid edS r ↔ Valid combS r :=
  ⟨fun hv => valid_comb_of_ed r hv hk, fun hv => valid_ed_of_comb r hv hk⟩

/-- Whatever the ed25519 key type decodes, CombinedKey decodes to the identical record — unless
    the record also carries a valid secp256k1 key (which CombinedKey would then use). -/
theorem decode_comb_of_ed (buf : Bytes) (r : Record) (rest : Bytes)
    (h : decode edS buf = .ok (r, rest)) (hk : ∀ pk, k256S.enrToPublic r.content ≠ .ok pk) :
    decode combS buf = .ok (r, rest) :=
  decode_transfer edS combS buf r rest h (fun hv => valid_comb_of_ed r hv hk)

theorem decode_ed_of_comb (buf : Bytes) (r : Record) (rest : Bytes)
    (h : decode combS buf = .ok (r, rest)) (hk : ∀ pk, k256S.enrToPublic r.content ≠ .ok pk) :
    decode edS buf = .ok (r, rest) :=
  decode_transfer combS edS buf r rest h (fun hv => valid_ed_of_comb r hv hk)

/-- every record CombinedKey accepts is accepted, identically, by exactly the single-scheme key
    type CombinedKey used -/
theorem decode_comb_cases (buf : Bytes) (r : Record) (rest : Bytes)
    (h : decode combS buf = .ok (r, rest)) :
    (decode k256S buf = .ok (r, rest) ∧ ∃ pk, k256S.enrToPublic r.content = .ok pk) ∨
    (decode edS buf = .ok (r, rest) ∧ ∀ pk, k256S.enrToPublic r.content ≠ .ok pk) := by
  cases hk : k256S.enrToPublic r.content with
  | ok pk =>
    exact Or.inl ⟨decode_k256_of_comb buf r rest h ((except_isOk_iff _).mpr ⟨pk, hk⟩), pk, rfl⟩
  | error e =>
    have hne : ∀ pk, k256S.enrToPublic r.content ≠ .ok pk := by
      intro pk hp; rw [hk] at hp; cases hp
    refine Or.inr ⟨decode_ed_of_comb buf r rest h hne, ?_⟩
    intro pk hp
    cases hp

/-! ### 5. isolation of the signature schemes -/

theorem k256_needs_secp_entry (c : Content) (h : Map.lookup c kSecp = none) :
    ∃ e, k256S.enrToPublic c = .error e :=
  ⟨_, secpEnrToPublic_none _ _ c h⟩

theorem libsecp_needs_secp_entry (c : Content) (h : Map.lookup c kSecp = none) :
    ∃ e, libsecpS.enrToPublic c = .error e :=
  ⟨_, secpEnrToPublic_none _ _ c h⟩

theorem ed_needs_ed_entry (c : Content) (h : Map.lookup c kEd = none) :
    ∃ e, edS.enrToPublic c = .error e :=
  ⟨_, edEnrToPublic_none c h⟩

/-- the precise error: `Custom("Unknown signature")` -/
theorem needs_entry_error (c : Content) :
    (Map.lookup c kSecp = none → k256S.enrToPublic c = .error (.custom .unknownSignature) ∧
      libsecpS.enrToPublic c = .error (.custom .unknownSignature)) ∧
    (Map.lookup c kEd = none → edS.enrToPublic c = .error (.custom .unknownSignature)) ∧
    (Map.lookup c kSecp = none → Map.lookup c kEd = none →
      combS.enrToPublic c = .error (.custom .unknownSignature)) := by
  refine ⟨fun h => ⟨secpEnrToPublic_none _ _ c h, secpEnrToPublic_none _ _ c h⟩,
    fun h => edEnrToPublic_none c h, fun h1 h2 => ?_⟩
  rw [comb_falls_back_to_ed c _ (secpEnrToPublic_none _ _ c h1)]
  exact edEnrToPublic_none c h2

theorem comb_needs_some_entry (c : Content) (h1 : Map.lookup c kSecp = none)
    (h2 : Map.lookup c kEd = none) : ∃ e, combS.enrToPublic c = .error e :=
  ⟨_, (needs_entry_error c).2.2 h1 h2⟩

private theorem isSome_of_ok {S : Scheme} {r : Record} {key : Bytes} (hv : Valid S r)
    (hn : Map.lookup r.content key = none → ∃ e, S.enrToPublic r.content = .error e) :
    (Map.lookup r.content key).isSome = true := by
  cases hl : Map.lookup r.content key with
  | some v => rfl
  | none =>
    obtain ⟨e, he⟩ := hn hl
    obtain ⟨pk, hpk, _⟩ := hv.authentic
    rw [he] at hpk
    cases hpk

/-- A secp256k1 key type only accepts records that carry a secp256k1 entry … -/
theorem decode_k256_has_secp (buf : Bytes) (r : Record) (rest : Bytes)
    (h : decode k256S buf = .ok (r, rest)) : (Map.lookup r.content kSecp).isSome = true :=
  isSome_of_ok (decode_valid _ _ _ _ h) (k256_needs_secp_entry r.content)

theorem decode_libsecp_has_secp (buf : Bytes) (r : Record) (rest : Bytes)
    (h : decode libsecpS buf = .ok (r, rest)) : (Map.lookup r.content kSecp).isSome = true :=
  isSome_of_ok (decode_valid _ _ _ _ h) (libsecp_needs_secp_entry r.content)

/-- … and the ed25519 key type only records that carry an ed25519 entry. -/
theorem decode_ed_has_ed (buf : Bytes) (r : Record) (rest : Bytes)
    (h : decode edS buf = .ok (r, rest)) : (Map.lookup r.content kEd).isSome = true :=
  isSome_of_ok (decode_valid _ _ _ _ h) (ed_needs_ed_entry r.content)

theorem decode_comb_has_entry (buf : Bytes) (r : Record) (rest : Bytes)
    (h : decode combS buf = .ok (r, rest)) :
    (Map.lookup r.content kSecp).isSome = true ∨ (Map.lookup r.content kEd).isSome = true := by
  cases h1 : Map.lookup r.content kSecp with
  | some v => exact Or.inl rfl
  | none =>
    right
    exact isSome_of_ok (decode_valid _ _ _ _ h) (fun h2 => comb_needs_some_entry r.content h1 h2)

/-- A record that carries only an ed25519 key — even a perfectly valid ed25519 record — is
    rejected by both secp256k1 key types. -/
theorem secp_rejects_ed_only (S : Scheme) (r : Record) (rest : Bytes) (hv : Valid S r)
    (h : Map.lookup r.content kSecp = none) :
    (∃ e, decode k256S (r.encode ++ rest) = .error e) ∧
    (∃ e, decode libsecpS (r.encode ++ rest) = .error e) := by
  have hc := contentOf_of_decode S _ r rest (encode_decode_append S r rest hv)
  constructor
  · cases hd : decode k256S (r.encode ++ rest) with
    | error e => exact ⟨e, rfl⟩
    | ok v =>
      obtain ⟨r', rest'⟩ := v
      have hc' := contentOf_of_decode k256S _ r' rest' hd
      rw [hc] at hc'
      have e : r.content = r'.content := Option.some.inj hc'
      have := decode_k256_has_secp _ r' rest' hd
      rw [← e, h] at this
      cases this
  · cases hd : decode libsecpS (r.encode ++ rest) with
    | error e => exact ⟨e, rfl⟩
    | ok v =>
      obtain ⟨r', rest'⟩ := v
      have hc' := contentOf_of_decode libsecpS _ r' rest' hd
      rw [hc] at hc'
      have e : r.content = r'.content := Option.some.inj hc'
      have := decode_libsecp_has_secp _ r' rest' hd
      rw [← e, h] at this
      cases this

/-- A record that carries only a secp256k1 key is rejected by the ed25519 key type. -/
theorem ed_rejects_secp_only (S : Scheme) (r : Record) (rest : Bytes) (hv : Valid S r)
    (h : Map.lookup r.content kEd = none) : ∃ e, decode edS (r.encode ++ rest) = .error e := by
  have hc := contentOf_of_decode S _ r rest (encode_decode_append S r rest hv)
  cases hd : decode edS (r.encode ++ rest) with
  | error e => exact ⟨e, rfl⟩
  | ok v =>
    obtain ⟨r', rest'⟩ := v
    have hc' := contentOf_of_decode edS _ r' rest' hd
    rw [hc] at hc'
    have e : r.content = r'.content := Option.some.inj hc'
    have := decode_ed_has_ed _ r' rest' hd
    rw [← e, h] at this
    cases this

/-! ### 6. `Scheme.Lawful` for the real key types

  Proved in `Proofs/SchemeLemmas.lean` (last section): `k256S_pub_inj`, `k256S_key_not_reserved`,
  `k256S_pub_local`, … for each key type, assembled into `k256S_lawful`, `libsecpS_lawful`,
  `edS_lawful`, `combS_lawful` (and `toyS_lawful`).  Restated here so that the file shows them. -/

/-- The three scheme laws hold for every built-in key type, so the history theorems of C05, C10,
    C03 apply to them. -/
theorem builtin_schemes_lawful :
    k256S.Lawful ∧ libsecpS.Lawful ∧ edS.Lawful ∧ combS.Lawful :=
  ⟨k256S_lawful, libsecpS_lawful, edS_lawful, combS_lawful⟩

/-- The per-key length bound `KeyOK` holds for every key a key type can read back from a record
    (33 bytes for secp256k1, 32 for ed25519), e.g. for the record's own key. -/
theorem builtin_keyOK_on_range :
    (∀ c pk, k256S.enrToPublic c = .ok pk → KeyOK k256S pk) ∧
    (∀ c pk, libsecpS.enrToPublic c = .ok pk → KeyOK libsecpS pk) ∧
    (∀ c pk, edS.enrToPublic c = .ok pk → KeyOK edS pk) ∧
    (∀ c pk, combS.enrToPublic c = .ok pk → KeyOK combS pk) :=
  ⟨k256S_keyOK_of_enrToPublic, libsecpS_keyOK_of_enrToPublic, edS_keyOK_of_enrToPublic,
   combS_keyOK_of_enrToPublic⟩

/-! ### examples (parser guards only; no curve arithmetic is evaluated) -/

/-- a 33-byte key with tag `05` is rejected by libsecp, whatever x is -/
example (x : Bytes) : Secp.decodePubLibsecp (5 :: x) = none := decodePubLibsecp_tag5 _ rfl
/-- tags other than 02/03/04/05 are rejected by k256 -/
example (x : Bytes) : Secp.decodePubK256 (7 :: x) = none := rfl
example : Secp.decodePubK256 [] = none ∧ Secp.decodePubLibsecp [] = none := ⟨rfl, rfl⟩
/-- wrong length with a good tag -/
example : Secp.decodePubK256 [2, 1, 2, 3] = none ∧ Secp.decodePubLibsecp [2, 1, 2, 3] = none :=
  ⟨by decide, by decide⟩
/-- an empty record content names no key for any key type -/
example : k256S.enrToPublic [] = .error (.custom .unknownSignature) ∧
    edS.enrToPublic [] = .error (.custom .unknownSignature) ∧
    combS.enrToPublic [] = .error (.custom .unknownSignature) :=
  ⟨(needs_entry_error []).1 rfl |>.1, (needs_entry_error []).2.1 rfl,
   (needs_entry_error []).2.2 rfl rfl⟩

/-! ### non-vacuity

The equivalence theorems above are conditional on a record being accepted by one of the real key
types; exhibiting such a record inside Lean would mean evaluating Keccak and curve arithmetic in the
kernel, which is left to the compiled driver (`Tests/`, `Main.lean`).  What can be instantiated here:
the isolation theorems, whose hypothesis is `Valid S r` for *any* scheme `S` — the toy record `r0` of
`Proofs/ToyScheme.lean` (a valid record whose only key entry is `"t"`) — and the parser-level
statements on concrete key encodings. -/

/-- `r0` has neither a `secp256k1` nor an `ed25519` entry … -/
example : Map.lookup r0.content kSecp = none ∧ Map.lookup r0.content kEd = none := by decide

/-- … so although it is a valid record (of `tinyS`), every built-in key type rejects its encoding,
    whatever follows it (`secp_rejects_ed_only`, `ed_rejects_secp_only`) -/
example : (∃ e, decode k256S (r0.encode ++ [1, 2]) = .error e) ∧
    (∃ e, decode libsecpS (r0.encode ++ [1, 2]) = .error e) :=
  secp_rejects_ed_only tinyS r0 [1, 2] r0_valid (by decide)

example : ∃ e, decode edS (r0.encode ++ [1, 2]) = .error e :=
  ed_rejects_secp_only tinyS r0 [1, 2] r0_valid (by decide)

/-- the decoders of the four key types, run on the 18 bytes of `r0`: "Unknown signature" -/
example : decode k256S r0Bytes = .error (.custom .unknownSignature) ∧
    decode libsecpS r0Bytes = .error (.custom .unknownSignature) ∧
    decode edS r0Bytes = .error (.custom .unknownSignature) ∧
    decode combS r0Bytes = .error (.custom .unknownSignature) := by decide +kernel

example : k256S.enrToPublic r0.content = .error (.custom .unknownSignature) ∧
    libsecpS.enrToPublic r0.content = .error (.custom .unknownSignature) :=
  (needs_entry_error r0.content).1 (by decide)

example : ∃ e, combS.enrToPublic r0.content = .error e :=
  comb_needs_some_entry r0.content (by decide) (by decide)

/-- `decode_k256_eq_libsecp` / `decode_secp_three`: the hypothesis on the pairs of the input holds
    for `r0Bytes` (its pairs are those of `r0`: no `secp256k1` entry at all) -/
example : decode k256S r0Bytes = decode libsecpS r0Bytes :=
  decode_k256_eq_libsecp r0Bytes (fun c hc raw b rest h1 _ => by
    have h0 := contentOf_of_decode tinyS r0Bytes r0 [] r0Bytes_decodes
    rw [h0] at hc
    cases hc
    have : Map.lookup r0.content kSecp = none := by decide
    rw [this] at h1
    cases h1)

/-- a content with a 33-byte `secp256k1` entry (tag `02`): the hypothesis "not a 65-byte form" of
    `enrToPublic_k256_eq_libsecp` holds, the two back-ends read the same key or fail alike -/
example :
    let c : Content := [(kSecp, encBytes (2 :: List.replicate 32 1))]
    k256S.enrToPublic c = libsecpS.enrToPublic c := by
  intro c
  apply enrToPublic_k256_eq_libsecp
  intro raw b rest h1 h2
  have hl : Map.lookup c kSecp = some (encBytes (2 :: List.replicate 32 1)) := by decide
  rw [hl] at h1
  cases h1
  have hd : decodeBytes (encBytes (2 :: List.replicate 32 1)) false =
      .ok (2 :: List.replicate 32 1, []) := by decide
  rw [hd] at h2
  cases h2
  decide

/-- the parsers agree on every 33-byte input (`decodePub_k256_eq_libsecp`: not 65 bytes, tag not 5) -/
example : Secp.decodePubK256 (2 :: List.replicate 32 1) = Secp.decodePubLibsecp (2 :: List.replicate 32 1) :=
  decodePub_k256_eq_libsecp _ (by decide) (by decide)

example : Secp.decodePubLibsecp (5 :: List.replicate 32 1) = none :=
  decodePub_libsecp_rejects_compact _ rfl

/-- `comb_secp_same_verify` / `comb_ed_same_verify`: a 33-byte and a 32-byte key -/
example : combS.enrKey (List.replicate 33 2) = kSecp ∧ combS.enrKey (List.replicate 32 2) = kEd :=
  ⟨(comb_secp_same_verify (List.replicate 33 2) (by decide)).2.2.1,
   (comb_ed_same_verify (List.replicate 32 2) (by decide)).2.2.1⟩

/-- the laws hold of the toy scheme as well as of the built-in ones -/
example : tinyS.Lawful ∧ k256S.Lawful := ⟨tinyS_lawful, builtin_schemes_lawful.1⟩

end EnrVerif

section Axioms
open EnrVerif
#print axioms decodePub_k256_eq_libsecp
#print axioms decodePub_k256_eq_libsecp_nohybrid
#print axioms decodePub_libsecp_rejects_compact
#print axioms decodePub_hybrid_differs
#print axioms enrToPublic_k256_eq_libsecp
#print axioms enrToPublic_k256_eq_libsecp_nohybrid
#print axioms libsecpS_eq_k256S_with
#print axioms k256_libsecp_same_verify
#print axioms decode_k256_eq_libsecp_nohybrid
#print axioms decode_k256_eq_libsecp
#print axioms decodeBody_k256_eq_libsecp
#print axioms valid_k256_iff_libsecp
#print axioms decode_libsecp_of_k256
#print axioms decode_k256_of_libsecp
#print axioms valid_secp_three
#print axioms publicKey_k256_eq_libsecp
#print axioms verify_k256_eq_libsecp
#print axioms comb_prefers_secp
#print axioms publicKey_comb_of_k256
#print axioms comb_secp_same_verify
#print axioms valid_comb_of_k256
#print axioms valid_k256_of_comb
#print axioms valid_k256_iff_comb
#print axioms decode_comb_of_k256
#print axioms decode_k256_of_comb
#print axioms decode_k256_iff_comb
#print axioms decode_secp_three
#print axioms comb_verifies_against_secp
#print axioms comb_ed_same_verify
#print axioms valid_comb_of_ed
#print axioms valid_ed_of_comb
#print axioms valid_ed_iff_comb
#print axioms decode_comb_of_ed
#print axioms decode_ed_of_comb
#print axioms decode_comb_cases
#print axioms k256_needs_secp_entry
#print axioms libsecp_needs_secp_entry
#print axioms ed_needs_ed_entry
#print axioms needs_entry_error
#print axioms comb_needs_some_entry
#print axioms decode_k256_has_secp
#print axioms decode_libsecp_has_secp
#print axioms decode_ed_has_ed
#print axioms decode_comb_has_entry
#print axioms secp_rejects_ed_only
#print axioms ed_rejects_secp_only
#print axioms builtin_schemes_lawful
#print axioms builtin_keyOK_on_range
#print axioms k256S_lawful
#print axioms libsecpS_lawful
#print axioms edS_lawful
#print axioms combS_lawful
#print axioms toyS_lawful
#print axioms k256S_keyOK_of_enrToPublic
#print axioms libsecpS_keyOK_of_enrToPublic
#print axioms edS_keyOK_of_enrToPublic
#print axioms combS_keyOK_of_enrToPublic
end Axioms
