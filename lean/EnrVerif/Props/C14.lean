/-
  Property C14 — "Typed accessors agree with the raw content for every value".

  "ip4/ip6, tcp4/tcp6/udp4/udp6, id, client_info and get_decodable report a value exactly when the
   raw RLP stored under the corresponding key is the canonical encoding of such a value, and then
   report exactly that value; what a typed setter or builder method stores is the canonical
   encoding (no leading zeros) and reads back as the value set.  The socket accessors and
   reachability flags are exactly the combination of the same family's ip and port accessors."

  Model: the accessors of `Model/Enr.lean`.  Lemmas: `Proofs/AccessorLemmas.lean` (namespace `Acc`).

  Reading of "is the canonical encoding": the accessors decode the FIRST item of the stored raw
  value and ignore what follows it (`Decodable::decode(&mut raw)` does not check that the buffer
  is consumed), so the general characterisations have the form "the stored value is
  `enc value ++ rest`".  In a record that satisfies the record invariant every stored value is
  exactly one item (`ContentOK`), and the `…_exact` theorems state "the stored value IS
  `enc value`".
-/
import EnrVerif.Proofs.AccessorLemmas
import EnrVerif.Model.Strings
import EnrVerif.Proofs.Utf8Lemmas
import EnrVerif.Proofs.DecodeLemmas
import EnrVerif.Proofs.Examples

namespace EnrVerif

open Eff EnrVerif.Acc

/-! ### Ports (`get_decodable::<u16>`) -/

/-- A port accessor reports `p` exactly when the stored value starts with the canonical encoding of
    a `u16` `p`. -/
theorem C14_port_get_iff (r : Record) (key : Bytes) (p : Nat) :
    r.getPort key = some p ↔
      ∃ rest, Map.lookup r.content key = some (encUint p ++ rest) ∧ p < 65536 :=
  getPort_iff r key p

/-- In a well-formed content: exactly when the stored value IS the canonical encoding of `p`. -/
theorem C14_port_get_exact (r : Record) (key : Bytes) (p : Nat) (hc : ContentOK r.content)
    (hk : isPortKey key = true) :
    r.getPort key = some p ↔ Map.lookup r.content key = some (encUint p) :=
  getPort_iff_of_contentOK r key p hc hk

theorem C14_tcp4_iff (r : Record) (p : Nat) :
    r.tcp4 = some p ↔ ∃ rest, Map.lookup r.content kTcp = some (encUint p ++ rest) ∧ p < 65536 :=
  getPort_iff r kTcp p

theorem C14_tcp6_iff (r : Record) (p : Nat) :
    r.tcp6 = some p ↔ ∃ rest, Map.lookup r.content kTcp6 = some (encUint p ++ rest) ∧ p < 65536 :=
  getPort_iff r kTcp6 p

theorem C14_udp4_iff (r : Record) (p : Nat) :
    r.udp4 = some p ↔ ∃ rest, Map.lookup r.content kUdp = some (encUint p ++ rest) ∧ p < 65536 :=
  getPort_iff r kUdp p

theorem C14_udp6_iff (r : Record) (p : Nat) :
    r.udp6 = some p ↔ ∃ rest, Map.lookup r.content kUdp6 = some (encUint p ++ rest) ∧ p < 65536 :=
  getPort_iff r kUdp6 p

theorem C14_ports_exact (r : Record) (p : Nat) (hc : ContentOK r.content) :
    (r.tcp4 = some p ↔ Map.lookup r.content kTcp = some (encUint p)) ∧
    (r.tcp6 = some p ↔ Map.lookup r.content kTcp6 = some (encUint p)) ∧
    (r.udp4 = some p ↔ Map.lookup r.content kUdp = some (encUint p)) ∧
    (r.udp6 = some p ↔ Map.lookup r.content kUdp6 = some (encUint p)) :=
  ⟨getPort_iff_of_contentOK r kTcp p hc (by decide), getPort_iff_of_contentOK r kTcp6 p hc (by decide),
   getPort_iff_of_contentOK r kUdp p hc (by decide), getPort_iff_of_contentOK r kUdp6 p hc (by decide)⟩

/-- every `u16` round-trips through its canonical encoding — all 65536 ports by proof -/
theorem C14_u16_roundtrip (p : Nat) (h : p < 65536) : decodeUint 2 (encUint p) = .ok (p, []) :=
  u16_roundtrip p h

/-- what the setters store for an integer is the string of its minimal big-endian bytes: no
    leading zero, for every value -/
theorem C14_encUint_canonical (p : Nat) :
    encUint p = encBytes (natToBe p) ∧ ∀ b0 rest, natToBe p = b0 :: rest → b0.toNat ≠ 0 :=
  encUint_canonical p

/-- a stored port with a leading zero, or one that does not fit a `u16`, is not reported -/
example : (⟨1, [], [(kTcp, [0x82, 0x00, 0x50])], []⟩ : Record).tcp4 = none ∧
    (⟨1, [], [(kTcp, [0x83, 0x01, 0x00, 0x00])], []⟩ : Record).tcp4 = none ∧
    (⟨1, [], [(kTcp, [0x50])], []⟩ : Record).tcp4 = some 80 := by decide

/-! ### Addresses, `id`, `get_decodable::<Bytes>` -/

theorem C14_getBytes_iff (r : Record) (k bs : Bytes) :
    r.getBytes k = some bs ↔
      ∃ rest, Map.lookup r.content k = some (encBytes bs ++ rest) ∧ bs.length < 2 ^ 64 :=
  getBytes_iff r k bs

theorem C14_id_iff (r : Record) (i : Bytes) :
    r.id = some i ↔
      ∃ rest, Map.lookup r.content kId = some (encBytes i ++ rest) ∧ i.length < 2 ^ 64 :=
  id_iff r i

theorem C14_ip4_iff (r : Record) (ip : Bytes) :
    r.ip4 = some ip ↔
      ∃ rest, Map.lookup r.content kIp = some (encBytes ip ++ rest) ∧ ip.length = 4 :=
  ip4_iff r ip

theorem C14_ip6_iff (r : Record) (ip : Bytes) :
    r.ip6 = some ip ↔
      ∃ rest, Map.lookup r.content kIp6 = some (encBytes ip ++ rest) ∧ ip.length = 16 :=
  ip6_iff r ip

theorem C14_ip_exact (r : Record) (ip : Bytes) (hc : ContentOK r.content) :
    (r.ip4 = some ip ↔ Map.lookup r.content kIp = some (encBytes ip)) ∧
    (r.ip6 = some ip ↔ Map.lookup r.content kIp6 = some (encBytes ip)) :=
  ⟨ip4_iff_of_contentOK r ip hc, ip6_iff_of_contentOK r ip hc⟩

/-- the deprecated `get()` agrees with `get_decodable::<Bytes>` on canonical strings -/
theorem C14_get_of_lookup (r : Record) (k bs : Bytes) (hl : bs.length < 2 ^ 64)
    (h : Map.lookup r.content k = some (encBytes bs)) :
    r.get k = .ok (some bs) ∧ r.getBytes k = some bs := by
  refine ⟨?_, getBytes_of_lookup r k bs hl h⟩
  unfold Record.get Record.getRaw
  rw [h]
  have := decodeHeader_encBytes bs [] hl
  rw [List.append_nil] at this
  simp only [this, List.append_nil, Nat.lt_irrefl, if_false, List.take_length]

/-! ### `client_info` -/

/-- `client_info()` reports a value exactly when the stored value starts with a list item whose
    payload is the concatenation of two or three canonical strings (`Acc.clientOf`: two strings ↦
    `(a, b, none)`, three ↦ `(a, b, some c)`, any other number ↦ nothing). -/
theorem C14_clientInfo_iff (r : Record) (x : Bytes × Bytes × Option Bytes) :
    r.clientInfo = some x ↔
      ∃ l rest, Map.lookup r.content kClient = some (encList (encStrs l) ++ rest) ∧
        (encStrs l).length < 2 ^ 64 ∧ (∀ s ∈ l, s.length < 2 ^ 64) ∧ clientOf l = some x :=
  clientInfo_iff r x

theorem C14_clientInfo_two (r : Record) (a b : Bytes) (ha : a.length < 2 ^ 64)
    (hb : b.length < 2 ^ 64) (hlen : (encBytes a ++ encBytes b).length < 2 ^ 64)
    (h : Map.lookup r.content kClient = some (encList (encBytes a ++ encBytes b))) :
    r.clientInfo = some (a, b, none) := by
  have := clientInfo_of_lookup r [a, b] (by simpa [encStrs] using h) (by simpa [encStrs] using hlen)
    (by intro s hs; simp only [List.mem_cons, List.not_mem_nil, or_false] at hs
        rcases hs with rfl | rfl <;> assumption)
  exact this

theorem C14_clientInfo_three (r : Record) (a b c : Bytes) (ha : a.length < 2 ^ 64)
    (hb : b.length < 2 ^ 64) (hc : c.length < 2 ^ 64)
    (hlen : (encBytes a ++ encBytes b ++ encBytes c).length < 2 ^ 64)
    (h : Map.lookup r.content kClient = some (encList (encBytes a ++ encBytes b ++ encBytes c))) :
    r.clientInfo = some (a, b, some c) := by
  have := clientInfo_of_lookup r [a, b, c] (by simpa [encStrs] using h)
    (by simpa [encStrs] using hlen)
    (by intro s hs; simp only [List.mem_cons, List.not_mem_nil, or_false] at hs
        rcases hs with rfl | rfl | rfl <;> assumption)
  exact this

/-- any other number of strings: nothing is reported -/
theorem C14_clientInfo_other_arity (r : Record) (l : List Bytes)
    (h : Map.lookup r.content kClient = some (encList (encStrs l)))
    (hlen : (encStrs l).length < 2 ^ 64) (hs : ∀ s ∈ l, s.length < 2 ^ 64)
    (h2 : l.length ≠ 2) (h3 : l.length ≠ 3) : r.clientInfo = none := by
  rw [clientInfo_of_lookup r l h hlen hs]
  match l, h2, h3 with
  | [], _, _ => rfl
  | [_], _, _ => rfl
  | [_, _], h2, _ => exact absurd rfl h2
  | [_, _, _], _, h3 => exact absurd rfl h3
  | _ :: _ :: _ :: _ :: _, _, _ => rfl

/-! ### Sockets and reachability: the combination of ip and port accessors -/

theorem C14_socket_is_combination (r : Record) :
    r.udp4Socket = Record.socket r.ip4 r.udp4 ∧ r.udp6Socket = Record.socket r.ip6 r.udp6 ∧
    r.tcp4Socket = Record.socket r.ip4 r.tcp4 ∧ r.tcp6Socket = Record.socket r.ip6 r.tcp6 :=
  ⟨rfl, rfl, rfl, rfl⟩

theorem C14_socket_eq_some (r : Record) (i : Bytes) (p : Nat) :
    (r.udp4Socket = some (i, p) ↔ r.ip4 = some i ∧ r.udp4 = some p) ∧
    (r.udp6Socket = some (i, p) ↔ r.ip6 = some i ∧ r.udp6 = some p) ∧
    (r.tcp4Socket = some (i, p) ↔ r.ip4 = some i ∧ r.tcp4 = some p) ∧
    (r.tcp6Socket = some (i, p) ↔ r.ip6 = some i ∧ r.tcp6 = some p) :=
  ⟨socket_eq_some _ _ i p, socket_eq_some _ _ i p, socket_eq_some _ _ i p, socket_eq_some _ _ i p⟩

theorem C14_socket_isSome (r : Record) :
    (r.udp4Socket.isSome ↔ r.ip4.isSome ∧ r.udp4.isSome) ∧
    (r.udp6Socket.isSome ↔ r.ip6.isSome ∧ r.udp6.isSome) ∧
    (r.tcp4Socket.isSome ↔ r.ip4.isSome ∧ r.tcp4.isSome) ∧
    (r.tcp6Socket.isSome ↔ r.ip6.isSome ∧ r.tcp6.isSome) := by
  simp only [Record.udp4Socket, Record.udp6Socket, Record.tcp4Socket, Record.tcp6Socket,
    socket_isSome, Bool.and_eq_true, and_self]

theorem C14_reachable (r : Record) :
    (r.isUdpReachable ↔ (r.ip4.isSome ∧ r.udp4.isSome) ∨ (r.ip6.isSome ∧ r.udp6.isSome)) ∧
    (r.isTcpReachable ↔ (r.ip4.isSome ∧ r.tcp4.isSome) ∨ (r.ip6.isSome ∧ r.tcp6.isSome)) := by
  simp only [Record.isUdpReachable, Record.isTcpReachable, Record.udp4Socket, Record.udp6Socket,
    Record.tcp4Socket, Record.tcp6Socket, socket_isSome, Bool.or_eq_true, Bool.and_eq_true,
    and_self]

/-! ### What a setter stores reads back as the value set -/

/-- the four port setters (`hL`: the signer's key entry is not a port key) -/
theorem C14_setter_reads_back_port {S : Scheme} (hL : S.Lawful) {r r' : Record} {p : Nat}
    {pk : S.PK} {o : Option Bytes} {ret : Ret} (hp : p < 65536) :
    (step S r (.setTcp4 p) pk o = (.ok ret, r') → r'.tcp4 = some p) ∧
    (step S r (.setTcp6 p) pk o = (.ok ret, r') → r'.tcp6 = some p) ∧
    (step S r (.setUdp4 p) pk o = (.ok ret, r') → r'.udp4 = some p) ∧
    (step S r (.setUdp6 p) pk o = (.ok ret, r') → r'.udp6 = some p) := by
  refine ⟨fun h => ?_, fun h => ?_, fun h => ?_, fun h => ?_⟩ <;>
  · apply getPort_of_lookup _ _ p hp
    rw [step_lookup h _ (portKey_ne_pub hL pk (by decide))]
    exact Map.lookup_insert_self _ _ _

theorem C14_setter_reads_back_ip {S : Scheme} (hL : S.Lawful) {r r' : Record} {ip : Bytes}
    {pk : S.PK} {o : Option Bytes} {ret : Ret} (h : step S r (.setIp ip) pk o = (.ok ret, r')) :
    (ip.length = 4 → r'.ip4 = some ip) ∧ (ip.length = 16 → r'.ip6 = some ip) := by
  obtain ⟨_, _, h3, h4⟩ := hL.key_not_reserved pk
  constructor
  · intro h4'
    refine (ip4_iff r' ip).mpr ⟨[], ?_, h4'⟩
    rw [step_lookup h _ (fun e => h3 e.symm), List.append_nil]
    simp only [opRaw, ipKey, h4', if_true]
    exact Map.lookup_insert_self _ _ _
  · intro h16
    refine (ip6_iff r' ip).mpr ⟨[], ?_, h16⟩
    rw [step_lookup h _ (fun e => h4 e.symm), List.append_nil]
    simp only [opRaw, ipKey, h16]
    exact Map.lookup_insert_self _ _ _

theorem C14_setter_reads_back_udpSocket {S : Scheme} (hL : S.Lawful) {r r' : Record} {ip : Bytes}
    {port : Nat} {pk : S.PK} {o : Option Bytes} {ret : Ret} (hp : port < 65536)
    (h : step S r (.setUdpSocket ip port) pk o = (.ok ret, r')) :
    (ip.length = 4 → r'.udp4Socket = some (ip, port)) ∧
    (ip.length = 16 → r'.udp6Socket = some (ip, port)) := by
  obtain ⟨_, _, h3, h4⟩ := hL.key_not_reserved pk
  constructor
  · intro h4'
    refine (socket_eq_some _ _ ip port).mpr ⟨(ip4_iff r' ip).mpr ⟨[], ?_, h4'⟩,
      getPort_of_lookup _ _ port hp ?_⟩
    · rw [step_lookup h _ (fun e => h3 e.symm), List.append_nil]
      simp only [opRaw, ipKey, udpKey, h4', if_true]
      rw [Map.lookup_insert_ne _ _ _ _ (by decide)]
      exact Map.lookup_insert_self _ _ _
    · rw [step_lookup h _ (portKey_ne_pub hL pk (by decide))]
      simp only [opRaw, ipKey, udpKey, h4', if_true]
      exact Map.lookup_insert_self _ _ _
  · intro h16
    refine (socket_eq_some _ _ ip port).mpr ⟨(ip6_iff r' ip).mpr ⟨[], ?_, h16⟩,
      getPort_of_lookup _ _ port hp ?_⟩
    · rw [step_lookup h _ (fun e => h4 e.symm), List.append_nil]
      simp only [opRaw, ipKey, udpKey, h16]
      rw [Map.lookup_insert_ne _ _ _ _ (by decide)]
      exact Map.lookup_insert_self _ _ _
    · rw [step_lookup h _ (portKey_ne_pub hL pk (by decide))]
      simp only [opRaw, ipKey, udpKey, h16]
      exact Map.lookup_insert_self _ _ _

theorem C14_setter_reads_back_tcpSocket {S : Scheme} (hL : S.Lawful) {r r' : Record} {ip : Bytes}
    {port : Nat} {pk : S.PK} {o : Option Bytes} {ret : Ret} (hp : port < 65536)
    (h : step S r (.setTcpSocket ip port) pk o = (.ok ret, r')) :
    (ip.length = 4 → r'.tcp4Socket = some (ip, port)) ∧
    (ip.length = 16 → r'.tcp6Socket = some (ip, port)) := by
  obtain ⟨_, _, h3, h4⟩ := hL.key_not_reserved pk
  constructor
  · intro h4'
    refine (socket_eq_some _ _ ip port).mpr ⟨(ip4_iff r' ip).mpr ⟨[], ?_, h4'⟩,
      getPort_of_lookup _ _ port hp ?_⟩
    · rw [step_lookup h _ (fun e => h3 e.symm), List.append_nil]
      simp only [opRaw, ipKey, tcpKey, h4', if_true]
      rw [Map.lookup_insert_ne _ _ _ _ (by decide)]
      exact Map.lookup_insert_self _ _ _
    · rw [step_lookup h _ (portKey_ne_pub hL pk (by decide))]
      simp only [opRaw, ipKey, tcpKey, h4', if_true]
      exact Map.lookup_insert_self _ _ _
  · intro h16
    refine (socket_eq_some _ _ ip port).mpr ⟨(ip6_iff r' ip).mpr ⟨[], ?_, h16⟩,
      getPort_of_lookup _ _ port hp ?_⟩
    · rw [step_lookup h _ (fun e => h4 e.symm), List.append_nil]
      simp only [opRaw, ipKey, tcpKey, h16]
      rw [Map.lookup_insert_ne _ _ _ _ (by decide)]
      exact Map.lookup_insert_self _ _ _
    · rw [step_lookup h _ (portKey_ne_pub hL pk (by decide))]
      simp only [opRaw, ipKey, tcpKey, h16]
      exact Map.lookup_insert_self _ _ _

/-- `set_client_info` (the signer's key entry must not be called `client`; `Scheme.Lawful` does not
    say so, the built-in entries are `secp256k1` and `ed25519`) -/
theorem C14_setter_reads_back_clientInfo {S : Scheme} {r r' : Record} {name version : Bytes}
    {build : Option Bytes} {pk : S.PK} {o : Option Bytes} {ret : Ret}
    (hk : S.enrKey pk ≠ kClient)
    (hwf : (Op.setClientInfo name version build : Op S).WF)
    (h : step S r (.setClientInfo name version build) pk o = (.ok ret, r')) :
    r'.clientInfo = some (name, version, build) := by
  obtain ⟨h1, h2, h3, h4⟩ := hwf
  have hl : Map.lookup r'.content kClient = some (encList (encStrs (clientList name version build))) := by
    rw [step_lookup h _ (fun e => hk e.symm)]
    exact Map.lookup_insert_self _ _ _
  have hlen : (encStrs (clientList name version build)).length < 2 ^ 64 := by
    cases build <;> exact h1
  rw [clientInfo_of_lookup r' _ hl hlen]
  · cases build <;> rfl
  · intro s hs
    cases build with
    | none =>
      simp only [clientList, List.mem_cons, List.not_mem_nil, or_false] at hs
      rcases hs with rfl | rfl <;> assumption
    | some b =>
      simp only [clientList, List.mem_cons, List.not_mem_nil, or_false] at hs
      rcases hs with rfl | rfl | rfl
      · exact h2
      · exact h3
      · exact h4 _ rfl

/-- the generic `insert`: the raw value is the encoding of the value, and a byte string reads back
    through `get_decodable::<Bytes>` -/
theorem C14_insert_reads_back {S : Scheme} {r r' : Record} {key : Bytes} {v : Val} {pk : S.PK}
    {o : Option Bytes} {ret : Ret} (hk : key ≠ S.enrKey pk)
    (h : step S r (.insert key v) pk o = (.ok ret, r')) :
    r'.getRaw key = some v.enc ∧
    (∀ bs, v = .bytes bs → bs.length < 2 ^ 64 → r'.getBytes key = some bs) := by
  have hl : Map.lookup r'.content key = some v.enc := by
    rw [step_lookup h _ hk]
    exact Map.lookup_insert_self _ _ _
  refine ⟨hl, ?_⟩
  rintro bs rfl hb
  exact getBytes_of_lookup r' key bs hb hl

/-- every update stores the signer's public key, and it reads back through `get_decodable` -/
theorem C14_pubkey_reads_back {S : Scheme} {r r' : Record} {op : Op S} {pk : S.PK}
    (hk : KeyOK S pk)
    {o : Option Bytes} {ret : Ret} (h : step S r op pk o = (.ok ret, r')) :
    r'.getBytes (S.enrKey pk) = some (S.encodePub pk) := by
  apply getBytes_of_lookup _ _ _ hk.1
  rw [(step_effect h).1]
  exact newContent_pubkey S op pk r.content

/-! ### Builder methods -/

/-- `add_value(key, v)` then `build`: the value reads back (for a key other than `id` and the
    signer's key entry, and when no later `add_value` overwrites it) -/
theorem C14_builder_reads_back {S : Scheme} {b : Builder} {key : Bytes} {v : Val} {pk : S.PK}
    {o : Option Bytes} {r : Record} (h1 : key ≠ kId) (h2 : key ≠ S.enrKey pk)
    (h : Builder.build S (b.addValue key v) pk o = .ok r) : r.getRaw key = some v.enc := by
  unfold Record.getRaw
  rw [build_lookup h key h1 h2]
  exact Map.lookup_insert_self _ _ _

theorem C14_builder_reads_back_port {S : Scheme} (hL : S.Lawful) {b : Builder} {p : Nat} {pk : S.PK}
    {o : Option Bytes} {r : Record} (hp : p < 65536) :
    (Builder.build S (b.addValue kTcp (.uint p)) pk o = .ok r → r.tcp4 = some p) ∧
    (Builder.build S (b.addValue kTcp6 (.uint p)) pk o = .ok r → r.tcp6 = some p) ∧
    (Builder.build S (b.addValue kUdp (.uint p)) pk o = .ok r → r.udp4 = some p) ∧
    (Builder.build S (b.addValue kUdp6 (.uint p)) pk o = .ok r → r.udp6 = some p) := by
  refine ⟨fun h => ?_, fun h => ?_, fun h => ?_, fun h => ?_⟩ <;>
  · exact getPort_of_lookup _ _ p hp
      (C14_builder_reads_back (by decide) (portKey_ne_pub hL pk (by decide)) h)

theorem C14_builder_reads_back_ip {S : Scheme} (hL : S.Lawful) {b : Builder} {ip : Bytes} {pk : S.PK}
    {o : Option Bytes} {r : Record} :
    (ip.length = 4 → Builder.build S (b.addValue kIp (.bytes ip)) pk o = .ok r → r.ip4 = some ip) ∧
    (ip.length = 16 → Builder.build S (b.addValue kIp6 (.bytes ip)) pk o = .ok r →
      r.ip6 = some ip) := by
  obtain ⟨_, _, h3, h4⟩ := hL.key_not_reserved pk
  constructor
  · intro hl h
    refine (ip4_iff r ip).mpr ⟨[], ?_, hl⟩
    rw [List.append_nil]
    exact C14_builder_reads_back (by decide) (fun e => h3 e.symm) h
  · intro hl h
    refine (ip6_iff r ip).mpr ⟨[], ?_, hl⟩
    rw [List.append_nil]
    exact C14_builder_reads_back (by decide) (fun e => h4 e.symm) h

/-- every built record has `id = "v4"` -/
theorem C14_builder_id {S : Scheme} (hL : S.Lawful) {b : Builder} {pk : S.PK} {o : Option Bytes}
    {r : Record} (h : Builder.build S b pk o = .ok r) : r.id = some vV4 := by
  apply getBytes_kId_of_lookup
  obtain ⟨b', sig, hp, _, _, hr⟩ := build_ok_inv h
  obtain ⟨_, hc, _, _⟩ := builder_prepare_ok_inv hp
  subst hr
  simp only [hc, builtContent, withPubkey]
  rw [Map.lookup_insert_ne _ _ _ _ (fun e => (hL.key_not_reserved pk).1 e.symm)]
  exact Map.lookup_insert_self _ _ _

/-! ### non-vacuity

`rF` (`Proofs/Examples.lean`) is the toy record `r0` after six successful own-key updates
`set_udp_socket(10.0.0.1, 30303)`, `set_tcp4(80)`, `set_ip(2001:db8::1)`,
`set_client_info("a", "bb", Some("c"))`, `insert("x", [7, 7])`, `set_tcp_socket(2001:db8::1, 443)`:
a valid record with every kind of entry the accessors of this file read. -/

section NonVacuity
set_option maxRecDepth 100000

example : rF.content =
    [(kClient, [197, 97, 130, 98, 98, 99]), (kId, [130, 118, 52]), (kIp, [132, 10, 0, 0, 1]),
     (kIp6, 144 :: ip6x), (kT, [131, 1, 2, 3]), (kTcp, [80]), (kTcp6, [130, 1, 187]),
     (kUdp, [130, 118, 95]), ([120], [130, 7, 7])] := by rw [rF_eq]

example : Valid tinyS rF ∧ rF.size = 85 := ⟨rF_valid, by decide⟩

/-! ports -/

/-- right to left: the stored value `82 76 5f` is the canonical encoding of 30303 … -/
example : rF.udp4 = some 30303 := (C14_udp4_iff rF 30303).2 ⟨[], by decide, by decide⟩

/-- … left to right: what the accessor reports is what is stored -/
example : ∃ rest, Map.lookup rF.content kTcp6 = some (encUint 443 ++ rest) ∧ 443 < 65536 :=
  (C14_tcp6_iff rF 443).1 (by decide)

example : rF.tcp4 = some 80 ∧ rF.tcp6 = some 443 ∧ rF.udp4 = some 30303 ∧ rF.udp6 = none := by
  decide

/-- the exact form, whose hypothesis `ContentOK` holds for the valid record -/
example : rF.tcp4 = some 80 :=
  ((C14_ports_exact rF 80 rF_valid.content).1).2 (by decide)

example : rF.getPort kUdp = some 30303 :=
  (C14_port_get_exact rF kUdp 30303 rF_valid.content (by decide)).2 (by decide)

/-- a value that merely *starts* with an encoded port is reported by `C14_port_get_iff` (such a
    content is not `ContentOK`: no valid record has it) -/
example : (⟨1, [], [(kUdp, [130, 118, 95, 1, 2])], []⟩ : Record).getPort kUdp = some 30303 :=
  (C14_port_get_iff _ kUdp 30303).2 ⟨[1, 2], by decide, by decide⟩

example : decodeUint 2 [130, 118, 95] = .ok (30303, []) := C14_u16_roundtrip 30303 (by decide)

example : encUint 30303 = [130, 118, 95] ∧ encUint 80 = [80] ∧ encUint 0 = [128] := by decide

/-! addresses, `id`, byte strings -/

example : rF.id = some vV4 := (C14_id_iff rF vV4).2 ⟨[], by decide, by decide⟩

example : rF.ip4 = some [10, 0, 0, 1] := (C14_ip4_iff rF _).2 ⟨[], by decide, by decide⟩

example : rF.ip6 = some ip6x := ((C14_ip_exact rF ip6x rF_valid.content).2).2 (by decide)

example : ∃ rest, Map.lookup rF.content kIp = some (encBytes [10, 0, 0, 1] ++ rest) ∧
    ([10, 0, 0, 1] : Bytes).length = 4 := (C14_ip4_iff rF _).1 (by decide)

example : rF.getBytes [120] = some [7, 7] := (C14_getBytes_iff rF [120] [7, 7]).2 ⟨[], by decide, by decide⟩

example : rF.get [120] = .ok (some [7, 7]) ∧ rF.getBytes [120] = some [7, 7] :=
  C14_get_of_lookup rF [120] [7, 7] (by decide) (by decide)

/-- an `ip` entry of the wrong length is not reported -/
example : (⟨1, [], [(kIp, [131, 10, 0, 0])], []⟩ : Record).ip4 = none ∧
    (⟨1, [], [(kIp6, [132, 10, 0, 0, 1])], []⟩ : Record).ip6 = none := by decide

/-! `client_info` -/

example : rF.clientInfo = some ([97], [98, 98], some [99]) :=
  C14_clientInfo_three rF [97] [98, 98] [99] (by decide) (by decide) (by decide) (by decide)
    (by decide)

/-- the accessor's list loop, run by the kernel -/
example : rF.clientInfo = some ([97], [98, 98], some [99]) := by decide +kernel

example : ∃ l rest, Map.lookup rF.content kClient = some (encList (encStrs l) ++ rest) ∧
    (encStrs l).length < 2 ^ 64 ∧ (∀ s ∈ l, s.length < 2 ^ 64) ∧
    clientOf l = some ([97], [98, 98], some [99]) :=
  (C14_clientInfo_iff rF _).1 (by decide +kernel)

/-- two strings; one string and four strings (nothing reported) -/
example : (⟨1, [], [(kClient, [196, 97, 130, 98, 98])], []⟩ : Record).clientInfo =
    some ([97], [98, 98], none) :=
  C14_clientInfo_two _ [97] [98, 98] (by decide) (by decide) (by decide) (by decide)

example : (⟨1, [], [(kClient, [193, 97])], []⟩ : Record).clientInfo = none :=
  C14_clientInfo_other_arity _ [[97]] (by decide) (by decide) (by decide) (by decide) (by decide)

example : (⟨1, [], [(kClient, [196, 97, 98, 99, 100])], []⟩ : Record).clientInfo = none :=
  C14_clientInfo_other_arity _ [[97], [98], [99], [100]] (by decide) (by decide) (by decide)
    (by decide) (by decide)

/-! sockets and reachability -/

example : rF.udp4Socket = some ([10, 0, 0, 1], 30303) :=
  ((C14_socket_eq_some rF [10, 0, 0, 1] 30303).1).2 ⟨by decide, by decide⟩

example : rF.udp4Socket = some ([10, 0, 0, 1], 30303) ∧ rF.tcp4Socket = some ([10, 0, 0, 1], 80) ∧
    rF.tcp6Socket = some (ip6x, 443) ∧ rF.udp6Socket = none ∧
    rF.isUdpReachable = true ∧ rF.isTcpReachable = true := by decide

/-- an ip without a port is no socket: `rC` has `ip6` but no `tcp6`/`udp6` yet -/
example : rC.ip6 = some ip6x ∧ rC.tcp6Socket = none ∧ rC.udp6Socket = none := by decide

example : r0.isUdpReachable = false ∧ r0.isTcpReachable = false := by decide

/-! what a setter stores reads back: the hypotheses (a successful `step`) hold for the six updates -/

example : rA.udp4Socket = some ([10, 0, 0, 1], 30303) :=
  (C14_setter_reads_back_udpSocket tinyS_lawful (by decide) stepA_ok).1 (by decide)

example : rB.tcp4 = some 80 :=
  (C14_setter_reads_back_port tinyS_lawful (by decide : (80 : Nat) < 65536)).1 stepB_ok

example : r1.udp4 = some 30303 :=
  (C14_setter_reads_back_port tinyS_lawful (by decide : (30303 : Nat) < 65536)).2.2.1 step1_ok

example : rC.ip6 = some ip6x := (C14_setter_reads_back_ip tinyS_lawful stepC_ok).2 (by decide)

example : rD.clientInfo = some ([97], [98, 98], some [99]) :=
  C14_setter_reads_back_clientInfo (by decide) opsAF_wf.2.2.2.1 stepD_ok

example : rE.getRaw [120] = some [130, 7, 7] ∧ rE.getBytes [120] = some [7, 7] :=
  have h := C14_insert_reads_back (by decide) stepE_ok
  ⟨h.1, h.2 [7, 7] rfl (by decide)⟩

example : rF.tcp6Socket = some (ip6x, 443) :=
  (C14_setter_reads_back_tcpSocket tinyS_lawful (by decide) stepF_ok).2 (by decide)

/-- the signer's key after the re-keying update `r1 → r2` (`pk1` = `09 09`) -/
example : r2.getBytes kT = some [9, 9] := C14_pubkey_reads_back (tiny_keyOK pk1) step2_ok

/-! the builder (`build` does not look at the signer's answer beyond its length: `[1]` will do) -/

example :
    let r : Record := ⟨1, [1, 2, 3], [(kId, [130, 118, 52]), (kT, [131, 1, 2, 3]), (kUdp, [130, 118, 95])], [1]⟩
    Builder.build tinyS (({} : Builder).addValue kUdp (.uint 30303)) pk0 (some [1]) = .ok r ∧
      r.udp4 = some 30303 ∧ r.getRaw kUdp = some [130, 118, 95] ∧ r.id = some vV4 := by
  intro r
  have hb : Builder.build tinyS (({} : Builder).addValue kUdp (.uint 30303)) pk0 (some [1]) = .ok r := rfl
  exact ⟨hb, (C14_builder_reads_back_port tinyS_lawful (by decide : (30303 : Nat) < 65536)).2.2.1 hb,
    C14_builder_reads_back (by decide) (by decide) hb, C14_builder_id tinyS_lawful hb⟩

example :
    let r : Record := ⟨1, [1, 2, 3], [(kId, [130, 118, 52]), (kIp, [132, 10, 0, 0, 1]), (kT, [131, 1, 2, 3])], [1]⟩
    Builder.build tinyS (({} : Builder).addValue kIp (.bytes [10, 0, 0, 1])) pk0 (some [1]) = .ok r ∧
      r.ip4 = some [10, 0, 0, 1] := by
  intro r
  have hb : Builder.build tinyS (({} : Builder).addValue kIp (.bytes [10, 0, 0, 1])) pk0 (some [1]) = .ok r := rfl
  exact ⟨hb, (C14_builder_reads_back_ip tinyS_lawful).1 (by decide) hb⟩

/-- `r0` is a built record -/
example : r0.id = some vV4 := C14_builder_id tinyS_lawful r0_built

end NonVacuity

/-! ### Axioms -/

#print axioms C14_port_get_iff
#print axioms C14_port_get_exact
#print axioms C14_tcp4_iff
#print axioms C14_tcp6_iff
#print axioms C14_udp4_iff
#print axioms C14_udp6_iff
#print axioms C14_ports_exact
#print axioms C14_u16_roundtrip
#print axioms C14_encUint_canonical
#print axioms C14_getBytes_iff
#print axioms C14_id_iff
#print axioms C14_ip4_iff
#print axioms C14_ip6_iff
#print axioms C14_ip_exact
#print axioms C14_get_of_lookup
#print axioms C14_clientInfo_iff
#print axioms C14_clientInfo_two
#print axioms C14_clientInfo_three
#print axioms C14_clientInfo_other_arity
#print axioms C14_socket_is_combination
#print axioms C14_socket_eq_some
#print axioms C14_socket_isSome
#print axioms C14_reachable
#print axioms C14_setter_reads_back_port
#print axioms C14_setter_reads_back_ip
#print axioms C14_setter_reads_back_udpSocket
#print axioms C14_setter_reads_back_tcpSocket
#print axioms C14_setter_reads_back_clientInfo
#print axioms C14_insert_reads_back
#print axioms C14_pubkey_reads_back
#print axioms C14_builder_reads_back
#print axioms C14_builder_reads_back_port
#print axioms C14_builder_reads_back_ip
#print axioms C14_builder_id


/-! ### the `String`-valued accessors (`from_utf8_lossy`) -/

/-- `id()` of a valid record is the string "v4" -/
theorem C14_idString_valid (S : Scheme) (r : Record) (h : Valid S r) : r.idString = some vV4 := by
  unfold Record.idString
  rw [getBytes_kId_of_lookup r h.id_v4]
  simp only [Option.map_some]
  congr 1

/-- the lossy conversion is the identity on well-formed UTF-8 (in particular on ASCII), so `id()`
    and `client_info()` return exactly the stored strings whenever those are well-formed -/
theorem C14_clientInfoStrings_of_valid_utf8 (r : Record) (a b : Bytes) (c : Option Bytes)
    (h : r.clientInfo = some (a, b, c)) (ha : utf8Valid a = true) (hb : utf8Valid b = true)
    (hc : ∀ x, c = some x → utf8Valid x = true) : r.clientInfoStrings = some (a, b, c) := by
  unfold Record.clientInfoStrings
  rw [h]
  simp only [Option.map_some, utf8Lossy_of_valid a ha, utf8Lossy_of_valid b hb]
  cases c with
  | none => rfl
  | some x => simp only [Option.map_some, utf8Lossy_of_valid x (hc x rfl)]

/-- whatever is stored, the reported strings are well-formed UTF-8 -/
theorem C14_strings_wellformed (r : Record) :
    (∀ i, r.idString = some i → utf8Valid i = true) ∧
    (∀ a b c, r.clientInfoStrings = some (a, b, c) →
      utf8Valid a = true ∧ utf8Valid b = true ∧ ∀ x, c = some x → utf8Valid x = true) := by
  constructor
  · intro i hi
    unfold Record.idString at hi
    cases hid : r.id with
    | none => rw [hid] at hi; simp at hi
    | some v => rw [hid] at hi; simp only [Option.map_some, Option.some.injEq] at hi; rw [← hi]; exact utf8Lossy_valid v
  · intro a b c hc
    unfold Record.clientInfoStrings at hc
    cases hci : r.clientInfo with
    | none => rw [hci] at hc; simp at hc
    | some t =>
      obtain ⟨a0, b0, c0⟩ := t
      rw [hci] at hc
      simp only [Option.map_some, Option.some.injEq, Prod.mk.injEq] at hc
      obtain ⟨rfl, rfl, rfl⟩ := hc
      refine ⟨utf8Lossy_valid a0, utf8Lossy_valid b0, ?_⟩
      intro x hx
      cases c0 with
      | none => simp at hx
      | some y => simp only [Option.map_some, Option.some.injEq] at hx; rw [← hx]; exact utf8Lossy_valid y

/-! ### non-vacuity (strings) -/

example : rF.idString = some [118, 52] := C14_idString_valid tinyS rF rF_valid

/-- `rF`'s client strings "a", "bb", "c" are ASCII, so they come back unchanged -/
example : rF.clientInfoStrings = some ([97], [98, 98], some [99]) :=
  C14_clientInfoStrings_of_valid_utf8 rF [97] [98, 98] (some [99]) (by decide +kernel) (by decide)
    (by decide) (fun x hx => by cases hx; decide)

/-- a stored name that is not UTF-8 (`ff`) is replaced by U+FFFD (`ef bf bd`); what is reported is
    well-formed, as `C14_strings_wellformed` says -/
example :
    let r : Record := ⟨1, [], [(kClient, [197, 129, 255, 130, 98, 98])], []⟩
    r.clientInfo = some ([255], [98, 98], none) ∧
      r.clientInfoStrings = some ([239, 191, 189], [98, 98], none) ∧
      utf8Valid [255] = false ∧ utf8Valid [239, 191, 189] = true := by
  intro r
  have h : r.clientInfoStrings = some ([239, 191, 189], [98, 98], none) := by decide +kernel
  exact ⟨by decide +kernel, h, by decide, ((C14_strings_wellformed r).2 _ _ _ h).1⟩

#print axioms C14_idString_valid
#print axioms C14_clientInfoStrings_of_valid_utf8
#print axioms C14_strings_wellformed

end EnrVerif
