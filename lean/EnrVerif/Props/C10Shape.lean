/-
  C10, continuation: the node id as a *value* — for every built-in key type the node id of a valid
  record is a 32-byte string (the `[u8; 32]` of `NodeId`, C16's well-formedness), because it is a
  Keccak-256 digest; the link between the record model (`Record.nodeId : Bytes`) and the `NodeId`
  model of C16.
-/
import EnrVerif.Props.C10
import EnrVerif.Proofs.KeccakLemmas
import EnrVerif.Model.NodeId
import EnrVerif.Model.Schemes

namespace EnrVerif

/-- For any scheme whose digest is Keccak-256 the node id of a valid record has 32 bytes. -/
theorem C10_nodeId_length (S : Scheme) (hd : S.digest = keccak256) (r : Record) (h : Valid S r) :
    r.nodeId.length = 32 := by
  obtain ⟨pk, _, hn⟩ := nodeId_spec S r h
  rw [hn, hd]; exact keccak256_length _

theorem C10_nodeId_length_k256 (r : Record) (h : Valid k256S r) : r.nodeId.length = 32 :=
  C10_nodeId_length k256S rfl r h
theorem C10_nodeId_length_libsecp (r : Record) (h : Valid libsecpS r) : r.nodeId.length = 32 :=
  C10_nodeId_length libsecpS rfl r h
theorem C10_nodeId_length_ed (r : Record) (h : Valid edS r) : r.nodeId.length = 32 :=
  C10_nodeId_length edS rfl r h
theorem C10_nodeId_length_comb (r : Record) (h : Valid combS r) : r.nodeId.length = 32 :=
  C10_nodeId_length combS rfl r h

/-- Hence `enr.node_id()` is a well-formed `NodeId` (C16's invariant) whose raw bytes are the digest. -/
theorem C10_nodeId_wf (S : Scheme) (hd : S.digest = keccak256) (r : Record) (h : Valid S r) :
    (NodeId.new r.nodeId).WF ∧ (NodeId.new r.nodeId).raw = r.nodeId :=
  ⟨C10_nodeId_length S hd r h, rfl⟩

/-- `NodeId::parse(enr.node_id().raw())` gives the id back (C16's strict parse accepts every node id
    the record layer produces). -/
theorem C10_nodeId_parse (S : Scheme) (hd : S.digest = keccak256) (r : Record) (h : Valid S r) :
    NodeId.parse r.nodeId = some (NodeId.new r.nodeId) :=
  by unfold NodeId.parse NodeId.new; rw [if_pos (C10_nodeId_length S hd r h)]

/-- Every decoded record, under any built-in key type, carries a 32-byte node id. -/
theorem C10_decoded_nodeId_length (S : Scheme) (hd : S.digest = keccak256) (buf : Bytes) (r : Record)
    (rest : Bytes) (h : decode S buf = .ok (r, rest)) : r.nodeId.length = 32 :=
  C10_nodeId_length S hd r (decode_valid S buf r rest h)

#print axioms C10_nodeId_length
#print axioms C10_nodeId_wf
end EnrVerif
