/-
  C10, continuation: the node id as a *value* — for every built-in key type the node id of a valid
  record is a 32-byte string (the `[u8; 32]` of `NodeId`, C16's well-formedness), because it is a
  Keccak-256 digest; the link between the record model (`Record.nodeId : Bytes`) and the `NodeId`
  model of C16.
-/
import EnrVerif.Props.C10
import EnrVerif.Proofs.KeccakLemmas
import EnrVerif.Model.NodeId
import EnrVerif.Model.Schemes
import EnrVerif.Proofs.SecpShape
import EnrVerif.Proofs.SchemeLemmas

namespace EnrVerif

/-- For any scheme whose digest is Keccak-256 the node id of a valid record has 32 bytes. -/
theorem C10_nodeId_length (S : Scheme) (hd : S.digest = keccak256) (r : Record) (h : Valid S r) :
    r.nodeId.length = 32 := by
  obtain ⟨pk, _, hn⟩ := nodeId_spec S r h
  rw [hn, hd]; exact keccak256_length _

theorem C10_nodeId_length_k256 (r : Record) (h : Valid k256S r) : r.nodeId.length = 32 :=
  C10_nodeId_length k256S rfl r h
theorem C10_nodeId_length_libsecp (r : Record) (h : Valid libsecpS r) : r.nodeId.length = 32 :=
  C10_nodeId_length libsecpS rfl r h
theorem C10_nodeId_length_ed (r : Record) (h : Valid edS r) : r.nodeId.length = 32 :=
  C10_nodeId_length edS rfl r h
theorem C10_nodeId_length_comb (r : Record) (h : Valid combS r) : r.nodeId.length = 32 :=
  C10_nodeId_length combS rfl r h

/-- Hence `enr.node_id()` is a well-formed `NodeId` (C16's invariant) whose raw bytes are the digest. -/
theorem C10_nodeId_wf (S : Scheme) (hd : S.digest = keccak256) (r : Record) (h : Valid S r) :
    (NodeId.new r.nodeId).WF ∧ (NodeId.new r.nodeId).raw = r.nodeId :=
  ⟨C10_nodeId_length S hd r h, rfl⟩

/-- `NodeId::parse(enr.node_id().raw())` gives the id back (C16's strict parse accepts every node id
    the record layer produces). -/
theorem C10_nodeId_parse (S : Scheme) (hd : S.digest = keccak256) (r : Record) (h : Valid S r) :
    NodeId.parse r.nodeId = some (NodeId.new r.nodeId) :=
  by unfold NodeId.parse NodeId.new; rw [if_pos (C10_nodeId_length S hd r h)]

/-- Every decoded record, under any built-in key type, carries a 32-byte node id. -/
theorem C10_decoded_nodeId_length (S : Scheme) (hd : S.digest = keccak256) (buf : Bytes) (r : Record)
    (rest : Bytes) (h : decode S buf = .ok (r, rest)) : r.nodeId.length = 32 :=
  C10_nodeId_length S hd r (decode_valid S buf r rest h)

/-! ### the hashed preimage is the 64-byte `x ‖ y` (compressed public-key entries, the form EIP-778
    prescribes).  `nodeId_spec` says `nodeId = digest (uncompressed pk)`; in the model `uncompressed`
    of an undecodable key would be the empty string, so the statement below is what excludes that:
    the stored key always decodes again, to the very point the entry denotes. -/

theorem xy_length (P : Secp.Pt) : (Secp.xy P).length = 64 := by
  unfold Secp.xy; rw [List.length_append, natToBeFixed_length, natToBeFixed_length]

/-- a 33-byte entry that k256 accepts is decompressed by `liftX` -/
theorem decodePubK256_33 (b : Bytes) (P : Secp.Pt) (hl : b.length = 33)
    (h : Secp.decodePubK256 b = some P) : ∃ x odd, Secp.liftX x odd = some P := by
  cases b with
  | nil => simp at hl
  | cons tag rest =>
    have hr : rest.length = 32 := by simpa using hl
    simp only [Secp.decodePubK256] at h
    split at h
    · rw [if_neg (by omega)] at h; exact ⟨_, _, h⟩
    · split at h
      · rw [if_neg (by omega)] at h; exact ⟨_, _, h⟩
      · split at h
        · rw [if_pos (by omega)] at h; cases h
        · cases h

theorem decodePubLibsecp_33 (b : Bytes) (P : Secp.Pt) (hl : b.length = 33)
    (h : Secp.decodePubLibsecp b = some P) : ∃ x odd, Secp.liftX x odd = some P := by
  cases b with
  | nil => simp at hl
  | cons tag rest =>
    have hr : rest.length = 32 := by simpa using hl
    simp only [Secp.decodePubLibsecp] at h
    rw [if_pos hr] at h
    split at h
    · exact ⟨_, _, h⟩
    · cases h

/-- k256: the node id of a valid record with a compressed key entry `b` is the Keccak-256 of the
    64 bytes `x ‖ y` of the point `b` denotes. -/
theorem C10_k256_preimage_is_xy (r : Record) (h : Valid k256S r) (b : Bytes)
    (hb : pubEntry r.content kSecp = .ok b) (h33 : b.length = 33) :
    ∃ P, Secp.decodePubK256 b = some P ∧ r.nodeId = keccak256 (Secp.xy P) ∧ (Secp.xy P).length = 64 := by
  obtain ⟨pk, hpk, hn⟩ := nodeId_spec k256S r h
  obtain ⟨b', P, hb', hP, rfl⟩ := secpEnrToPublic_ok_inv _ _ _ _ hpk
  rw [hb] at hb'
  cases hb'
  obtain ⟨x, odd, hx⟩ := decodePubK256_33 b P h33 hP
  refine ⟨P, hP, ?_, xy_length P⟩
  rw [hn]
  show keccak256 (secpUncompressed (Secp.compress P)) = _
  unfold secpUncompressed
  rw [decodePubK256_compress_of_liftX x odd P hx]

/-- the same for the rust-secp256k1 back-end -/
theorem C10_libsecp_preimage_is_xy (r : Record) (h : Valid libsecpS r) (b : Bytes)
    (hb : pubEntry r.content kSecp = .ok b) (h33 : b.length = 33) :
    ∃ P, Secp.decodePubLibsecp b = some P ∧ r.nodeId = keccak256 (Secp.xy P) ∧ (Secp.xy P).length = 64 := by
  obtain ⟨pk, hpk, hn⟩ := nodeId_spec libsecpS r h
  obtain ⟨b', P, hb', hP, rfl⟩ := secpEnrToPublic_ok_inv _ _ _ _ hpk
  rw [hb] at hb'
  cases hb'
  obtain ⟨x, odd, hx⟩ := decodePubLibsecp_33 b P h33 hP
  refine ⟨P, hP, ?_, xy_length P⟩
  rw [hn]
  show keccak256 (secpUncompressed (Secp.compress P)) = _
  unfold secpUncompressed
  rw [decodePubK256_compress_of_liftX x odd P hx]

/-- ed25519: the preimage is the 32 key bytes themselves. -/
theorem C10_ed_preimage_is_key (r : Record) (h : Valid edS r) :
    ∃ pk, pubEntry r.content kEd = .ok pk ∧ pk.length = 32 ∧ r.nodeId = keccak256 pk := by
  obtain ⟨pk, hpk, hn⟩ := nodeId_spec edS r h
  obtain ⟨he, hl, _⟩ := edEnrToPublic_ok_inv _ _ hpk
  exact ⟨pk, he, hl, hn⟩

/-- ed25519: the key the accessor returns parses again to the same key (`VerifyingKey::to_bytes` keeps
    the bytes it was parsed from). -/
theorem C10_ed_key_redecodes (b : Bytes) (A : Ed.EdPub) (h : Ed.decodePub b = some A) :
    A.bytes = b ∧ Ed.decodePub A.bytes = some A := by
  unfold Ed.decodePub at h
  split at h
  · cases h
  · cases hd : Ed.decompress b with
    | none => rw [hd] at h; cases h
    | some P =>
      rw [hd] at h
      simp only [Option.map_some, Option.some.injEq] at h
      subst h
      exact ⟨rfl, by unfold Ed.decodePub; simp_all⟩

#print axioms C10_k256_preimage_is_xy
#print axioms C10_libsecp_preimage_is_xy
#print axioms C10_ed_preimage_is_key
#print axioms C10_nodeId_length
#print axioms C10_nodeId_wf
end EnrVerif
