/-
  Property C03 — totality.

  "Total functions: no input or call sequence makes the library panic"

  Reading.  The model turns every place where the Rust code can panic (`expect`, `unwrap`,
  slice indexing: `PanicSite`) into an explicit outcome `Res.panic site`; integer arithmetic that
  could overflow is modelled with its checked form (`bumpSeq` = `checked_add`) and lengths are
  unbounded naturals.  The theorems say that this outcome is unreachable:
   * update methods and `build` never panic, for every record (valid or not), every argument and
     every signer answer;
   * `verify()`, `public_key()` and the deprecated `get()` — the accessors that contain
     `expect`/slicing — never panic on a record the library handed out (`Valid`), hence on no
     record reachable by any history of calls from a decoded or built record;
   * `decode` and `from_str` return a value (`Ok`/`Err`) on every input.  Their termination, and
     that of every loop of the model (`decodePairs`, `decodeBytesList`, …), is established by Lean's
     termination checker when the definitions are accepted (`termination_by payload.length` in
     `Model/Enr.lean`): every Lean function is total, so a model function that type-checks returns
     a value on every input.  All remaining accessors return `Option` values and contain no panic
     site.
  On records that are *not* valid the three accessors can panic (examples at the end): this is why
  C05 (every record handed out is valid) matters.

  `run_no_panic`/`built_no_panic` assume `S.Lawful` (proved for the four built-in key types:
  `k256S_lawful`, `libsecpS_lawful`, `edS_lawful`, `combS_lawful`, `Proofs/SchemeLemmas.lean`) and,
  per call, `CallOK` (arguments in range, signer's key shorter than 2^64 bytes — `KeyOK` —, the
  signer's answer verifies).

  Lemmas: `Proofs/StepLemmas.lean` (§1, §7).
-/
import EnrVerif.Proofs.StepLemmas
import EnrVerif.Proofs.ToyScheme

namespace EnrVerif

/-- No update call panics: the outcome is `Ok` or an `Error` value. -/
theorem step_no_panic (S : Scheme) (r : Record) (op : Op S) (pk : S.PK) (o : Option Bytes)
    (s : PanicSite) : (step S r op pk o).1 ≠ .panic s :=
  step_fst_ne_panic S r op pk o s

/-- … stated positively. -/
theorem step_total (S : Scheme) (r : Record) (op : Op S) (pk : S.PK) (o : Option Bytes) :
    (∃ ret, (step S r op pk o).1 = .ok ret) ∨ (∃ e, (step S r op pk o).1 = .err e) := by
  rcases step_ok_or_unchanged S r op pk o with ⟨ret, hs⟩ | ⟨e, he, _⟩
  · exact Or.inl ⟨ret, by rw [hs]⟩
  · exact Or.inr ⟨e, he⟩

/-- `Builder::build` never panics. -/
theorem build_no_panic (S : Scheme) (b : Builder) (pk : S.PK) (o : Option Bytes) (s : PanicSite) :
    Builder.build S b pk o ≠ .panic s := by
  unfold Builder.build
  split
  · simp
  · split
    · simp
    · split <;> simp

/-- On a valid record `verify()`, `public_key()` and `get(key)` never panic. -/
theorem accessors_no_panic (S : Scheme) (r : Record) (h : Valid S r) :
    (∀ s, r.verify S ≠ .panic s) ∧ (∀ s, r.publicKey S ≠ .panic s) ∧
    ∀ k s, r.get k ≠ .panic s := by
  refine ⟨?_, ?_, ?_⟩
  · intro s; rw [verify_of_Valid h]; simp
  · intro s
    obtain ⟨pk, hpk, _⟩ := publicKey_of_Valid h
    rw [hpk]; simp
  · intro k s; exact get_no_panic_of_contentOK h.content k s

/-- … and return what one expects: `verify()` is true, `public_key()` is the key the node id was
    derived from, `get` returns the payload of a present key and `None` for an absent one. -/
theorem accessors_values (S : Scheme) (r : Record) (h : Valid S r) :
    r.verify S = .ok true ∧
    (∃ pk, r.publicKey S = .ok pk ∧ r.nodeId = nodeIdOf S pk) ∧
    ∀ k, (Map.lookup r.content k = none → r.get k = .ok none) ∧
      (∀ v, Map.lookup r.content k = some v → ∃ payload, r.get k = .ok (some payload)) := by
  refine ⟨verify_of_Valid h, ?_, ?_⟩
  · obtain ⟨pk, hpk, _, hn⟩ := publicKey_of_Valid h
    exact ⟨pk, hpk, hn⟩
  · intro k
    refine ⟨fun hl => by unfold Record.get Record.getRaw; rw [hl], fun v hl => ?_⟩
    exact get_of_isItem hl (valueOK_isItem k v (h.content.2 k v (Map.lookup_mem _ _ _ hl)).2)

/-- No history of update calls (any operations, any keys, failing or succeeding signers, as long
    as signatures that are returned verify) leads to a record on which an accessor panics. -/
theorem run_no_panic (S : Scheme) (hL : S.Lawful) (r : Record) (cs : List (Call S))
    (hv : Valid S r) (hr : RunOK S r cs) :
    (∀ s, (run S r cs).verify S ≠ .panic s) ∧ (∀ s, (run S r cs).publicKey S ≠ .panic s) ∧
    ∀ k s, (run S r cs).get k ≠ .panic s :=
  accessors_no_panic S _ (run_valid' hL cs r hv hr)

/-- The same for records that come out of `decode` and of `build`. -/
theorem decoded_no_panic (S : Scheme) (buf : Bytes) (r : Record) (rest : Bytes)
    (h : decode S buf = .ok (r, rest)) :
    (∀ s, r.verify S ≠ .panic s) ∧ (∀ s, r.publicKey S ≠ .panic s) ∧ ∀ k s, r.get k ≠ .panic s :=
  accessors_no_panic S r (decode_valid S buf r rest h)

theorem built_no_panic (S : Scheme) (hL : S.Lawful) (b : Builder) (pk : S.PK) (o : Option Bytes)
    (r : Record) (hb : b.WF) (hk : KeyOK S pk)
    (hso : ∀ b', Builder.prepare S b pk = .ok b' → SigOK S pk b'.rlpContent o)
    (h : Builder.build S b pk o = .ok r) :
    (∀ s, r.verify S ≠ .panic s) ∧ (∀ s, r.publicKey S ≠ .panic s) ∧ ∀ k s, r.get k ≠ .panic s :=
  accessors_no_panic S r (build_ok_facts hL hb hk hso h).1

/-- `decode` returns `Ok` or `Err` on every input (termination: Lean's termination checker, see
    the header). -/
theorem decode_total (S : Scheme) (buf : Bytes) :
    (∃ x, decode S buf = .ok x) ∨ (∃ e, decode S buf = .error e) := by
  cases decode S buf with
  | ok x => exact Or.inl ⟨x, rfl⟩
  | error e => exact Or.inr ⟨e, rfl⟩

/-- `from_str` returns `Ok` or `Err` on every input. -/
theorem parseText_total (S : Scheme) (s : Bytes) :
    (∃ r, parseText S s = some r) ∨ parseText S s = none := by
  cases parseText S s with
  | some r => exact Or.inl ⟨r, rfl⟩
  | none => exact Or.inr rfl

/-- Everything an update does before the signing call returns `Ok` or an `Error` value. -/
theorem prepare_total (S : Scheme) (r : Record) (op : Op S) (pk : S.PK) :
    (∃ p, prepare S r op pk = .ok p) ∨ (∃ e, prepare S r op pk = .error e) := by
  cases prepare S r op pk with
  | ok x => exact Or.inl ⟨x, rfl⟩
  | error e => exact Or.inr ⟨e, rfl⟩

/-! ### Non-vacuity, and why validity is needed -/

example : (∀ s, r0.verify tinyS ≠ .panic s) ∧ (∀ s, r0.publicKey tinyS ≠ .panic s) ∧
    ∀ k s, r0.get k ≠ .panic s := accessors_no_panic tinyS r0 r0_valid

set_option maxRecDepth 8192 in
example : r0.get kT = .ok (some [1, 2, 3]) ∧ r0.get [120] = .ok none := ⟨rfl, rfl⟩

example : ∀ k s, (run tinyS r0 [call1, call2 r1, call3]).get k ≠ .panic s :=
  (run_no_panic tinyS tinyS_lawful r0 _ r0_valid run_ok).2.2

/-- A record that is not valid (it could not have come out of the library): `get` hits the
    `expect`, `public_key()` hits its `expect`. -/
example :
    let bad : Record := { seq := 1, nodeId := [], content := [([120], [0x85])], sig := [] }
    bad.get [120] = .panic .getExpect ∧ bad.publicKey tinyS = .panic .publicKeyExpect := ⟨rfl, rfl⟩

#print axioms step_no_panic
#print axioms step_total
#print axioms build_no_panic
#print axioms accessors_no_panic
#print axioms accessors_values
#print axioms run_no_panic
#print axioms decoded_no_panic
#print axioms built_no_panic
#print axioms decode_total
#print axioms parseText_total
#print axioms prepare_total

end EnrVerif
