/-
  Property C15 — equality, hashing and content comparison.

  "Equality, hashing and content comparison are coherent: Record equality is an equivalence
   relation under which equal records hash equally, carry identical key/value pairs and encode
   identically; a record equals its clone and its decode-after-encode image, and differs from any
   record with another sequence number, key or signature.  Content comparison is true exactly when
   two records have the same sequence number and pairs, regardless of signature."

  Model: `Record.eqv` (`PartialEq`), `Record.hashFeed` (what `Hash` feeds the hasher),
  `Record.compareContent` (`compare_content`), `decode`/`Record.encode`.

  NOTE.  `PartialEq for Enr<K>` compares the sequence number, the node id and the signature only
  (and `Hash` feeds exactly that triple).  Hence the clause "equal records carry identical
  key/value pairs and encode identically" is NOT a theorem of the code alone: it rests on
  signature unforgeability and on collision resistance of the node-id hash.  It is proved below
  (`eqv_same_content`) from two explicit hypotheses — never axioms —

    * `SigBinds S`   : under one public key a signature verifies for at most one payload;
    * `HashInj S a b`: the two public keys in play do not collide under `nodeIdOf`;

  and `eqv_content_needs_assumptions` exhibits a (degenerate) scheme and two valid records that
  are `==` but carry different pairs, showing that the hypotheses cannot be dropped.  "Differs from
  any record with another key" is accordingly stated for the node id (`ne_of_nodeId`) and, for
  public keys, under `HashInj`-style injectivity (`ne_of_pubkey`).
-/
import EnrVerif.Proofs.SchemeLemmas

namespace EnrVerif

/-! ### `==` is an equivalence relation on the compared triple -/

theorem eqv_iff (a b : Record) :
    a.eqv b = true ↔ a.seq = b.seq ∧ a.nodeId = b.nodeId ∧ a.sig = b.sig := by
  unfold Record.eqv
  simp only [Bool.and_eq_true, decide_eq_true_eq, and_assoc]

theorem eqv_refl (a : Record) : a.eqv a = true := by
  rw [eqv_iff]; exact ⟨rfl, rfl, rfl⟩

theorem eqv_symm (a b : Record) (h : a.eqv b = true) : b.eqv a = true := by
  rw [eqv_iff] at h ⊢
  exact ⟨h.1.symm, h.2.1.symm, h.2.2.symm⟩

/-- symmetric as a Bool-valued function (also covers `!=`) -/
theorem eqv_comm (a b : Record) : a.eqv b = b.eqv a := by
  cases h : a.eqv b with
  | true => exact (eqv_symm a b h).symm
  | false =>
    cases h' : b.eqv a with
    | false => rfl
    | true => rw [eqv_symm b a h'] at h; cases h

theorem eqv_trans (a b c : Record) (h1 : a.eqv b = true) (h2 : b.eqv c = true) :
    a.eqv c = true := by
  rw [eqv_iff] at h1 h2 ⊢
  exact ⟨h1.1.trans h2.1, h1.2.1.trans h2.2.1, h1.2.2.trans h2.2.2⟩

/-- the hasher is fed exactly the compared triple: equal records hash equally … -/
theorem eqv_hash (a b : Record) (h : a.eqv b = true) : a.hashFeed = b.hashFeed := by
  rw [eqv_iff] at h
  unfold Record.hashFeed
  rw [h.1, h.2.1, h.2.2]

/-- … and conversely (`Hash` and `PartialEq` look at the same data) -/
theorem eqv_iff_hashFeed (a b : Record) : a.eqv b = true ↔ a.hashFeed = b.hashFeed := by
  rw [eqv_iff]
  unfold Record.hashFeed
  simp only [Prod.mk.injEq]

/-- a record equals its clone -/
theorem eqv_clone (r : Record) : r.eqv r = true := eqv_refl r

/-- a record equals its decode-after-encode image (which is the record itself) -/
theorem eqv_redecode (S : Scheme) (r : Record) (h : Valid S r) :
    ∃ r', decode S r.encode = .ok (r', []) ∧ r.eqv r' = true ∧ r' = r :=
  ⟨r, encode_decode S r h, eqv_refl r, rfl⟩

/-! ### differing in one of the three compared fields -/

theorem ne_of_seq (a b : Record) (h : a.seq ≠ b.seq) : a.eqv b = false := by
  cases he : a.eqv b with
  | false => rfl
  | true => exact absurd ((eqv_iff a b).mp he).1 h

theorem ne_of_nodeId (a b : Record) (h : a.nodeId ≠ b.nodeId) : a.eqv b = false := by
  cases he : a.eqv b with
  | false => rfl
  | true => exact absurd ((eqv_iff a b).mp he).2.1 h

theorem ne_of_sig (a b : Record) (h : a.sig ≠ b.sig) : a.eqv b = false := by
  cases he : a.eqv b with
  | false => rfl
  | true => exact absurd ((eqv_iff a b).mp he).2.2 h

/-- Two valid records with different public keys are unequal, provided the node-id hash does not
    collide on these two keys. -/
theorem ne_of_pubkey (S : Scheme) (a b : Record) (ha : Valid S a) (hb : Valid S b)
    (pa pb : S.PK) (hpa : S.enrToPublic a.content = .ok pa) (hpb : S.enrToPublic b.content = .ok pb)
    (hne : pa ≠ pb) (hinj : nodeIdOf S pa = nodeIdOf S pb → pa = pb) : a.eqv b = false := by
  apply ne_of_nodeId
  obtain ⟨pa', hpa', hna, _⟩ := ha.authentic
  obtain ⟨pb', hpb', hnb, _⟩ := hb.authentic
  rw [hpa] at hpa'; rw [hpb] at hpb'
  cases hpa'; cases hpb'
  rw [hna, hnb]
  exact fun h => hne (hinj h)

/-! ### content comparison -/

/-- Content comparison is true exactly when the sequence numbers and the pairs agree. -/
theorem compareContent_iff_valid (S : Scheme) (a b : Record) (ha : Valid S a) (hb : Valid S b) :
    a.compareContent b = true ↔ a.seq = b.seq ∧ a.content = b.content :=
  compareContent_iff a b ha.content hb.content ha.seq_lt hb.seq_lt

/-- … regardless of signature (and of the cached node id). -/
theorem compareContent_ignores_sig (a b : Record) (sa sb na nb : Bytes) :
    ({ a with sig := sa, nodeId := na } : Record).compareContent { b with sig := sb, nodeId := nb }
      = a.compareContent b := rfl

theorem compareContent_of_same (a b : Record) (hs : a.seq = b.seq) (hc : a.content = b.content) :
    a.compareContent b = true := by
  unfold Record.compareContent Record.rlpContent
  rw [hs, hc]
  simp

theorem compareContent_refl (a : Record) : a.compareContent a = true :=
  compareContent_of_same a a rfl rfl

/-! ### equal records carry identical pairs — under the cryptographic hypotheses -/

/-- Under one public key a signature verifies for at most one payload (unforgeability, as a
    hypothesis). -/
def SigBinds (S : Scheme) : Prop :=
  ∀ pk m1 m2 sig, S.verify pk m1 sig = true → S.verify pk m2 sig = true → m1 = m2

/-- No node-id collision between the two public keys in play. -/
def HashInj (S : Scheme) (a b : Record) : Prop :=
  ∀ pa pb, S.enrToPublic a.content = .ok pa → S.enrToPublic b.content = .ok pb →
    nodeIdOf S pa = nodeIdOf S pb → pa = pb

/-- Equal valid records carry identical pairs and encode identically (indeed they are the same
    record). -/
theorem eqv_same_content (S : Scheme) (a b : Record) (ha : Valid S a) (hb : Valid S b)
    (hsb : SigBinds S) (hhi : HashInj S a b) (h : a.eqv b = true) :
    a.content = b.content ∧ a.encode = b.encode := by
  obtain ⟨hseq, hnode, hsig⟩ := (eqv_iff a b).mp h
  obtain ⟨pa, hpa, hna, hva⟩ := ha.authentic
  obtain ⟨pb, hpb, hnb, hvb⟩ := hb.authentic
  have hpk : pa = pb := hhi pa pb hpa hpb (by rw [← hna, ← hnb, hnode])
  subst hpk
  rw [← hsig] at hvb
  have hpay := hsb pa _ _ _ hva hvb
  obtain ⟨_, hc⟩ := payload_injective a b ha.content hb.content ha.seq_lt hb.seq_lt hpay
  refine ⟨hc, ?_⟩
  unfold Record.encode
  rw [hseq, hsig, hc]

theorem eqv_same_record (S : Scheme) (a b : Record) (ha : Valid S a) (hb : Valid S b)
    (hsb : SigBinds S) (hhi : HashInj S a b) (h : a.eqv b = true) : a = b :=
  encode_injective_valid S a b ha hb (eqv_same_content S a b ha hb hsb hhi h).2

/-- Under the hypotheses, `==` on valid records is exactly "same encoding". -/
theorem eqv_iff_encode (S : Scheme) (a b : Record) (ha : Valid S a) (hb : Valid S b)
    (hsb : SigBinds S) (hhi : HashInj S a b) : a.eqv b = true ↔ a.encode = b.encode := by
  constructor
  · exact fun h => (eqv_same_content S a b ha hb hsb hhi h).2
  · intro h
    rw [encode_injective_valid S a b ha hb h]
    exact eqv_refl b

/-! ### the hypotheses are satisfiable -/

/-- A small scheme: the "signature" is the payload itself, the node id is the key itself. -/
def echoS : Scheme where
  PK := Bytes
  enrKey _ := kToy
  encodePub pk := pk
  uncompressed pk := pk
  enrToPublic := toyEnrToPublic
  verify _ msg sig := decide (sig = msg)
  digest := id

example : SigBinds echoS := by
  intro pk m1 m2 sig h1 h2
  have e1 : sig = m1 := of_decide_eq_true h1
  have e2 : sig = m2 := of_decide_eq_true h2
  rw [← e1, ← e2]

example (a b : Record) : HashInj echoS a b := fun _ _ _ _ h => h

/-! ### … and cannot be dropped -/

/-- A degenerate scheme: every signature verifies and every key has the same node id. -/
def laxS : Scheme where
  PK := Bytes
  enrKey _ := kToy
  encodePub pk := pk
  uncompressed pk := pk
  enrToPublic := toyEnrToPublic
  verify _ _ _ := true
  digest _ := []

private def laxContent (x : UInt8) : Content := [(kId, encBytes vV4), (kToy, encBytes [1, 2, 3, x])]

private def laxRecord (x : UInt8) : Record :=
  { seq := 1, nodeId := [], content := laxContent x, sig := [] }

private theorem laxRecord_valid (x : UInt8) : Valid laxS (laxRecord x) := by
  have hlook : Map.lookup (laxContent x) kToy = some (encBytes [1, 2, 3, x]) := by
    unfold laxContent Map.lookup Map.lookup
    rw [if_neg (by decide), if_pos rfl]
  refine ⟨?_, ?_, ⟨?_, ?_⟩, ?_, ?_, [1, 2, 3, x], ?_, rfl, rfl⟩
  · show 1 < 2 ^ 64
    decide
  · show (0 : Nat) < 2 ^ 64
    decide
  · exact ⟨by decide, trivial⟩
  · intro k v hm
    have hm' : (k, v) ∈ laxContent x := hm
    simp only [laxContent, List.mem_cons, Prod.mk.injEq, List.not_mem_nil, or_false] at hm'
    rcases hm' with ⟨rfl, rfl⟩ | ⟨rfl, rfl⟩
    · exact ⟨by decide, by unfold ValueOK; rw [if_pos rfl]⟩
    · refine ⟨by decide, ?_⟩
      unfold ValueOK
      rw [if_neg (by decide), if_neg (by decide), if_neg (by decide), if_neg (by decide),
        if_neg (by decide)]
      exact Or.inl ⟨[1, 2, 3, x], by simp, rfl⟩
  · rfl
  · show (laxRecord x).encode.length ≤ 300
    unfold Record.encode
    rw [encList_length]
    have e0 := (encBytes_length ([] : Bytes) (by decide)).1
    have e1 := encUint_length_le 1 (by decide)
    have e2 := (encBytes_length kId (by decide)).1
    have e3 := (encBytes_length vV4 (by decide)).1
    have e4 := (encBytes_length kToy (by decide)).1
    have e5 := (encBytes_length [1, 2, 3, x] (by simp)).1
    have l2 : kId.length = 2 := rfl
    have l3 : vV4.length = 2 := rfl
    have l4 : kToy.length = 3 := rfl
    have hp : (encBytes (laxRecord x).sig ++ encUint (laxRecord x).seq ++
        Record.pairsBytes (laxRecord x).content).length ≤ 80 := by
      simp only [laxRecord, laxContent, Record.pairsBytes, List.length_append, List.length_nil,
        List.length_cons] at e0 e5 ⊢
      omega
    have hh := encodeHeader_length true _ (Nat.lt_of_le_of_lt hp (by decide))
    omega
  · have hpk : toyEnrToPublic (laxContent x) = .ok [1, 2, 3, x] := by
      unfold toyEnrToPublic pubEntry
      rw [hlook]
      have := decodeBytes_encBytes [1, 2, 3, x] [] (by simp)
      rw [List.append_nil] at this
      simp only [this]
      rfl
    have e1 : laxS.enrToPublic = toyEnrToPublic := rfl
    have e2 : (laxRecord x).content = laxContent x := rfl
    rw [e1, e2]
    exact hpk

/-- Without `SigBinds`/`HashInj`: two valid records that are `==` (and hash equally) but carry
    different pairs and encode differently. -/
theorem eqv_content_needs_assumptions :
    ∃ (S : Scheme) (a b : Record), Valid S a ∧ Valid S b ∧ a.eqv b = true ∧
      a.hashFeed = b.hashFeed ∧ a.content ≠ b.content ∧ a.encode ≠ b.encode := by
  refine ⟨laxS, laxRecord 4, laxRecord 5, laxRecord_valid 4, laxRecord_valid 5, by decide, rfl,
    ?_, ?_⟩
  · intro h
    have h2 : Map.lookup (laxRecord 4).content kToy = Map.lookup (laxRecord 5).content kToy := by
      rw [h]
    revert h2
    decide
  · intro h
    have := encode_injective_valid laxS _ _ (laxRecord_valid 4) (laxRecord_valid 5) h
    have h2 : (laxRecord 4).content.length = (laxRecord 5).content.length := by rw [this]
    have h3 := congrArg Record.content this
    revert h3
    decide

/-! ### examples -/

example : ({ seq := 1, nodeId := [1], content := [], sig := [2] } : Record).eqv
    { seq := 1, nodeId := [1], content := [(kIp, [3])], sig := [2] } = true := by decide
example : ({ seq := 1, nodeId := [1], content := [], sig := [2] } : Record).eqv
    { seq := 2, nodeId := [1], content := [], sig := [2] } = false := by decide
example : ({ seq := 1, nodeId := [1], content := [], sig := [2] } : Record).eqv
    { seq := 1, nodeId := [9], content := [], sig := [2] } = false := by decide
example : ({ seq := 1, nodeId := [1], content := [], sig := [2] } : Record).eqv
    { seq := 1, nodeId := [1], content := [], sig := [] } = false := by decide

end EnrVerif

section Axioms
open EnrVerif
#print axioms eqv_iff
#print axioms eqv_refl
#print axioms eqv_symm
#print axioms eqv_comm
#print axioms eqv_trans
#print axioms eqv_hash
#print axioms eqv_iff_hashFeed
#print axioms eqv_clone
#print axioms eqv_redecode
#print axioms ne_of_seq
#print axioms ne_of_nodeId
#print axioms ne_of_sig
#print axioms ne_of_pubkey
#print axioms compareContent_iff_valid
#print axioms compareContent_ignores_sig
#print axioms compareContent_of_same
#print axioms compareContent_refl
#print axioms eqv_same_content
#print axioms eqv_same_record
#print axioms eqv_iff_encode
#print axioms eqv_content_needs_assumptions
end Axioms
