/-
  Property C15 — equality, hashing and content comparison.

  "Equality, hashing and content comparison are coherent: Record equality is an equivalence
   relation under which equal records hash equally, carry identical key/value pairs and encode
   identically; a record equals its clone and its decode-after-encode image, and differs from any
   record with another sequence number, key or signature.  Content comparison is true exactly when
   two records have the same sequence number and pairs, regardless of signature."

  Model: `Record.eqv` (`PartialEq`), `Record.hashFeed` (what `Hash` feeds the hasher),
  `Record.compareContent` (`compare_content`), `decode`/`Record.encode`.

  `PartialEq for Enr<K>` compares the sequence number, the node id, the signature AND the key/value
  pairs; a `Record` is exactly these four fields, so `==` is structural equality (`eqv_iff_eq`) and
  the clause "equal records carry identical key/value pairs and encode identically" is a theorem of
  the code alone (`eqv_same_pairs`, `eqv_same_encoding`: no `Valid`, no cryptographic hypothesis).
  `Hash` still feeds only (seq, node id, signature): equal records hash equally (`eqv_hash`), the
  converse does not hold (`hashFeed_eq_not_eqv`) — which is all `Hash`/`Eq` coherence requires.

  HISTORY (section "the repaired defect" below).  `PartialEq` used to compare the sequence number,
  the node id and the signature only (`eqvLegacy`).  Under that definition "equal records carry
  identical pairs" rested on signature unforgeability and collision resistance of the node-id hash:
  it is provable from two explicit hypotheses (`SigBinds`, `HashInj`; `eqvLegacy_same_content`) and
  false without them (`eqvLegacy_content_needs_assumptions`: a degenerate scheme and two valid
  records that are legacy-equal with different pairs).  On the real code the hypothesis `SigBinds`
  does fail: a small-order ed25519 public key makes one signature valid for every content.  The
  crate was repaired by comparing the pairs as well.

  "Differs from any record with another key" is stated for the node id (`ne_of_nodeId`), for the
  pairs (`ne_of_content`: the key is one of the pairs) and, for public keys of valid records,
  `ne_of_pubkey` (unconditional now: different keys come from different pairs).
-/
import EnrVerif.Proofs.SchemeLemmas
import EnrVerif.Proofs.Examples

namespace EnrVerif

/-! ### `==` is structural equality, hence an equivalence relation -/

theorem eqv_iff (a b : Record) :
    a.eqv b = true ↔
      a.seq = b.seq ∧ a.nodeId = b.nodeId ∧ a.sig = b.sig ∧ a.content = b.content := by
  unfold Record.eqv
  simp only [Bool.and_eq_true, decide_eq_true_eq, and_assoc]

/-- a record is exactly the four compared fields -/
theorem eqv_iff_eq (a b : Record) : a.eqv b = true ↔ a = b := by
  rw [eqv_iff]
  constructor
  · rintro ⟨h1, h2, h3, h4⟩
    cases a; cases b
    simp only at h1 h2 h3 h4
    subst h1 h2 h3 h4
    rfl
  · rintro rfl
    exact ⟨rfl, rfl, rfl, rfl⟩

theorem eqv_refl (a : Record) : a.eqv a = true := (eqv_iff_eq a a).mpr rfl

theorem eqv_symm (a b : Record) (h : a.eqv b = true) : b.eqv a = true :=
  (eqv_iff_eq b a).mpr ((eqv_iff_eq a b).mp h).symm

/-- symmetric as a Bool-valued function (also covers `!=`) -/
theorem eqv_comm (a b : Record) : a.eqv b = b.eqv a := by
  cases h : a.eqv b with
  | true => exact (eqv_symm a b h).symm
  | false =>
    cases h' : b.eqv a with
    | false => rfl
    | true => rw [eqv_symm b a h'] at h; cases h

theorem eqv_trans (a b c : Record) (h1 : a.eqv b = true) (h2 : b.eqv c = true) :
    a.eqv c = true :=
  (eqv_iff_eq a c).mpr (((eqv_iff_eq a b).mp h1).trans ((eqv_iff_eq b c).mp h2))

/-- equal records hash equally (the hasher is fed a sub-tuple of what is compared) -/
theorem eqv_hash (a b : Record) (h : a.eqv b = true) : a.hashFeed = b.hashFeed := by
  rw [(eqv_iff_eq a b).mp h]

/-- The converse fails (and need not hold): the hasher does not see the pairs. -/
theorem hashFeed_eq_not_eqv :
    ∃ a b : Record, a.hashFeed = b.hashFeed ∧ a.eqv b = false :=
  ⟨{ seq := 1, nodeId := [1], content := [], sig := [2] },
   { seq := 1, nodeId := [1], content := [(kIp, [3])], sig := [2] }, rfl, by decide⟩

/-- a record equals its clone -/
theorem eqv_clone (r : Record) : r.eqv r = true := eqv_refl r

/-- a record equals its decode-after-encode image (which is the record itself) -/
theorem eqv_redecode (S : Scheme) (r : Record) (h : Valid S r) :
    ∃ r', decode S r.encode = .ok (r', []) ∧ r.eqv r' = true ∧ r' = r :=
  ⟨r, encode_decode S r h, eqv_refl r, rfl⟩

/-! ### equal records carry identical pairs and encode identically — unconditionally -/

theorem eqv_same_pairs (a b : Record) (h : a.eqv b = true) : a.content = b.content :=
  ((eqv_iff a b).mp h).2.2.2

theorem eqv_same_encoding (a b : Record) (h : a.eqv b = true) : a.encode = b.encode := by
  rw [(eqv_iff_eq a b).mp h]

/-- on valid records `==` is exactly "same encoding" -/
theorem eqv_iff_encode (S : Scheme) (a b : Record) (ha : Valid S a) (hb : Valid S b) :
    a.eqv b = true ↔ a.encode = b.encode :=
  ⟨eqv_same_encoding a b,
   fun h => (eqv_iff_eq a b).mpr (encode_injective_valid S a b ha hb h)⟩

/-- equal records have equal content comparison -/
theorem eqv_compareContent (a b : Record) (h : a.eqv b = true) : a.compareContent b = true := by
  rw [(eqv_iff_eq a b).mp h]
  unfold Record.compareContent
  simp

/-! ### differing in one of the compared fields -/

theorem ne_of_seq (a b : Record) (h : a.seq ≠ b.seq) : a.eqv b = false := by
  cases he : a.eqv b with
  | false => rfl
  | true => exact absurd ((eqv_iff a b).mp he).1 h

theorem ne_of_nodeId (a b : Record) (h : a.nodeId ≠ b.nodeId) : a.eqv b = false := by
  cases he : a.eqv b with
  | false => rfl
  | true => exact absurd ((eqv_iff a b).mp he).2.1 h

theorem ne_of_sig (a b : Record) (h : a.sig ≠ b.sig) : a.eqv b = false := by
  cases he : a.eqv b with
  | false => rfl
  | true => exact absurd ((eqv_iff a b).mp he).2.2.1 h

theorem ne_of_content (a b : Record) (h : a.content ≠ b.content) : a.eqv b = false := by
  cases he : a.eqv b with
  | false => rfl
  | true => exact absurd ((eqv_iff a b).mp he).2.2.2 h

/-- Two records whose pairs name different public keys are unequal. -/
theorem ne_of_pubkey (S : Scheme) (a b : Record) (pa pb : S.PK)
    (hpa : S.enrToPublic a.content = .ok pa) (hpb : S.enrToPublic b.content = .ok pb)
    (hne : pa ≠ pb) : a.eqv b = false := by
  apply ne_of_content
  intro hc
  rw [hc, hpb] at hpa
  exact hne (Except.ok.inj hpa).symm

/-! ### content comparison -/

/-- Content comparison is true exactly when the sequence numbers and the pairs agree. -/
theorem compareContent_iff_valid (S : Scheme) (a b : Record) (ha : Valid S a) (hb : Valid S b) :
    a.compareContent b = true ↔ a.seq = b.seq ∧ a.content = b.content :=
  compareContent_iff a b ha.content hb.content ha.seq_lt hb.seq_lt

/-- … regardless of signature (and of the cached node id). -/
theorem compareContent_ignores_sig (a b : Record) (sa sb na nb : Bytes) :
    ({ a with sig := sa, nodeId := na } : Record).compareContent { b with sig := sb, nodeId := nb }
      = a.compareContent b := rfl

theorem compareContent_of_same (a b : Record) (hs : a.seq = b.seq) (hc : a.content = b.content) :
    a.compareContent b = true := by
  unfold Record.compareContent Record.rlpContent
  rw [hs, hc]
  simp

theorem compareContent_refl (a : Record) : a.compareContent a = true :=
  compareContent_of_same a a rfl rfl

/-! ### the repaired defect: `PartialEq` without the pairs -/

/-- `PartialEq` as it was before the repair: sequence number, node id and signature only. -/
def eqvLegacy (a b : Record) : Bool := a.seq = b.seq && a.nodeId = b.nodeId && a.sig = b.sig

theorem eqvLegacy_iff (a b : Record) :
    eqvLegacy a b = true ↔ a.seq = b.seq ∧ a.nodeId = b.nodeId ∧ a.sig = b.sig := by
  unfold eqvLegacy
  simp only [Bool.and_eq_true, decide_eq_true_eq, and_assoc]

/-- the old relation is exactly "same hash feed" -/
theorem eqvLegacy_iff_hashFeed (a b : Record) :
    eqvLegacy a b = true ↔ a.hashFeed = b.hashFeed := by
  rw [eqvLegacy_iff]
  unfold Record.hashFeed
  simp only [Prod.mk.injEq]

/-- the repaired `==` is the old one plus equality of the pairs -/
theorem eqv_eq_legacy_and_content (a b : Record) :
    a.eqv b = (eqvLegacy a b && decide (a.content = b.content)) := rfl

/-- Under one public key a signature verifies for at most one payload (unforgeability, as a
    hypothesis). -/
def SigBinds (S : Scheme) : Prop :=
  ∀ pk m1 m2 sig, S.verify pk m1 sig = true → S.verify pk m2 sig = true → m1 = m2

/-- No node-id collision between the two public keys in play. -/
def HashInj (S : Scheme) (a b : Record) : Prop :=
  ∀ pa pb, S.enrToPublic a.content = .ok pa → S.enrToPublic b.content = .ok pb →
    nodeIdOf S pa = nodeIdOf S pb → pa = pb

/-- Under the two cryptographic hypotheses the old `==` did imply identical pairs and encodings
    on valid records … -/
theorem eqvLegacy_same_content (S : Scheme) (a b : Record) (ha : Valid S a) (hb : Valid S b)
    (hsb : SigBinds S) (hhi : HashInj S a b) (h : eqvLegacy a b = true) :
    a.content = b.content ∧ a.encode = b.encode := by
  obtain ⟨hseq, hnode, hsig⟩ := (eqvLegacy_iff a b).mp h
  obtain ⟨pa, hpa, hna, hva⟩ := ha.authentic
  obtain ⟨pb, hpb, hnb, hvb⟩ := hb.authentic
  have hpk : pa = pb := hhi pa pb hpa hpb (by rw [← hna, ← hnb, hnode])
  subst hpk
  rw [← hsig] at hvb
  have hpay := hsb pa _ _ _ hva hvb
  obtain ⟨_, hc⟩ := payload_injective a b ha.content hb.content ha.seq_lt hb.seq_lt hpay
  refine ⟨hc, ?_⟩
  unfold Record.encode
  rw [hseq, hsig, hc]

/-- … i.e. the old and the repaired `==` agree on valid records exactly as far as the two
    hypotheses hold. -/
theorem eqvLegacy_eq_eqv (S : Scheme) (a b : Record) (ha : Valid S a) (hb : Valid S b)
    (hsb : SigBinds S) (hhi : HashInj S a b) : eqvLegacy a b = a.eqv b := by
  rw [eqv_eq_legacy_and_content]
  cases h : eqvLegacy a b with
  | false => rfl
  | true =>
    have := (eqvLegacy_same_content S a b ha hb hsb hhi h).1
    simp [this]

/-! ### the hypotheses are satisfiable -/

/-- A small scheme: the "signature" is the payload itself, the node id is the key itself. -/
def echoS : Scheme where
  PK := Bytes
  enrKey _ := kToy
  encodePub pk := pk
  uncompressed pk := pk
  enrToPublic := toyEnrToPublic
  verify _ msg sig := decide (sig = msg)
  digest := id

example : SigBinds echoS := by
  intro pk m1 m2 sig h1 h2
  have e1 : sig = m1 := of_decide_eq_true h1
  have e2 : sig = m2 := of_decide_eq_true h2
  rw [← e1, ← e2]

example (a b : Record) : HashInj echoS a b := fun _ _ _ _ h => h

/-! ### … and cannot be dropped -/

/-- A degenerate scheme: every signature verifies and every key has the same node id. -/
def laxS : Scheme where
  PK := Bytes
  enrKey _ := kToy
  encodePub pk := pk
  uncompressed pk := pk
  enrToPublic := toyEnrToPublic
  verify _ _ _ := true
  digest _ := []

private def laxContent (x : UInt8) : Content := [(kId, encBytes vV4), (kToy, encBytes [1, 2, 3, x])]

private def laxRecord (x : UInt8) : Record :=
  { seq := 1, nodeId := [], content := laxContent x, sig := [] }

private theorem laxRecord_valid (x : UInt8) : Valid laxS (laxRecord x) := by
  have hlook : Map.lookup (laxContent x) kToy = some (encBytes [1, 2, 3, x]) := by
    unfold laxContent Map.lookup Map.lookup
    rw [if_neg (by decide), if_pos rfl]
  refine ⟨?_, ?_, ⟨?_, ?_⟩, ?_, ?_, [1, 2, 3, x], ?_, rfl, rfl⟩
  · show 1 < 2 ^ 64
    decide
  · show (0 : Nat) < 2 ^ 64
    decide
  · exact ⟨by decide, trivial⟩
  · intro k v hm
    have hm' : (k, v) ∈ laxContent x := hm
    simp only [laxContent, List.mem_cons, Prod.mk.injEq, List.not_mem_nil, or_false] at hm'
    rcases hm' with ⟨rfl, rfl⟩ | ⟨rfl, rfl⟩
    · exact ⟨by decide, by unfold ValueOK; rw [if_pos rfl]⟩
    · refine ⟨by decide, ?_⟩
      unfold ValueOK
      rw [if_neg (by decide), if_neg (by decide), if_neg (by decide), if_neg (by decide),
        if_neg (by decide)]
      exact Or.inl ⟨[1, 2, 3, x], by simp, rfl⟩
  · rfl
  · show (laxRecord x).encode.length ≤ 300
    unfold Record.encode
    rw [encList_length]
    have e0 := (encBytes_length ([] : Bytes) (by decide)).1
    have e1 := encUint_length_le 1 (by decide)
    have e2 := (encBytes_length kId (by decide)).1
    have e3 := (encBytes_length vV4 (by decide)).1
    have e4 := (encBytes_length kToy (by decide)).1
    have e5 := (encBytes_length [1, 2, 3, x] (by simp)).1
    have l2 : kId.length = 2 := rfl
    have l3 : vV4.length = 2 := rfl
    have l4 : kToy.length = 3 := rfl
    have hp : (encBytes (laxRecord x).sig ++ encUint (laxRecord x).seq ++
        Record.pairsBytes (laxRecord x).content).length ≤ 80 := by
      simp only [laxRecord, laxContent, Record.pairsBytes, List.length_append, List.length_nil,
        List.length_cons] at e0 e5 ⊢
      omega
    have hh := encodeHeader_length true _ (Nat.lt_of_le_of_lt hp (by decide))
    omega
  · have hpk : toyEnrToPublic (laxContent x) = .ok [1, 2, 3, x] := by
      unfold toyEnrToPublic pubEntry
      rw [hlook]
      have := decodeBytes_encBytes [1, 2, 3, x] [] (by simp)
      rw [List.append_nil] at this
      simp only [this]
      rfl
    have e1 : laxS.enrToPublic = toyEnrToPublic := rfl
    have e2 : (laxRecord x).content = laxContent x := rfl
    rw [e1, e2]
    exact hpk

/-- Without `SigBinds`/`HashInj`: two valid records that were `==` under the old definition (and
    hash equally) but carry different pairs and encode differently — the defect that was repaired.
    The repaired `==` tells them apart. -/
theorem eqvLegacy_content_needs_assumptions :
    ∃ (S : Scheme) (a b : Record), Valid S a ∧ Valid S b ∧ eqvLegacy a b = true ∧
      a.hashFeed = b.hashFeed ∧ a.content ≠ b.content ∧ a.encode ≠ b.encode ∧
      a.eqv b = false := by
  have hc : (laxRecord 4).content ≠ (laxRecord 5).content := by
    intro h
    have h2 : Map.lookup (laxRecord 4).content kToy = Map.lookup (laxRecord 5).content kToy := by
      rw [h]
    revert h2
    decide
  refine ⟨laxS, laxRecord 4, laxRecord 5, laxRecord_valid 4, laxRecord_valid 5, by decide, rfl,
    hc, ?_, ne_of_content _ _ hc⟩
  intro h
  exact hc (congrArg Record.content
    (encode_injective_valid laxS _ _ (laxRecord_valid 4) (laxRecord_valid 5) h))

/-! ### examples -/

example : ({ seq := 1, nodeId := [1], content := [(kIp, [3])], sig := [2] } : Record).eqv
    { seq := 1, nodeId := [1], content := [(kIp, [3])], sig := [2] } = true := by decide
example : ({ seq := 1, nodeId := [1], content := [], sig := [2] } : Record).eqv
    { seq := 1, nodeId := [1], content := [(kIp, [3])], sig := [2] } = false := by decide
example : eqvLegacy { seq := 1, nodeId := [1], content := [], sig := [2] }
    { seq := 1, nodeId := [1], content := [(kIp, [3])], sig := [2] } = true := by decide
example : ({ seq := 1, nodeId := [1], content := [], sig := [2] } : Record).eqv
    { seq := 2, nodeId := [1], content := [], sig := [2] } = false := by decide
example : ({ seq := 1, nodeId := [1], content := [], sig := [2] } : Record).eqv
    { seq := 1, nodeId := [9], content := [], sig := [2] } = false := by decide
example : ({ seq := 1, nodeId := [1], content := [], sig := [2] } : Record).eqv
    { seq := 1, nodeId := [1], content := [], sig := [] } = false := by decide

/-! ### non-vacuity: the theorems with a validity hypothesis, on concrete valid records

`r0`, `r1` (= `r0` after `set_udp4(30303)`), `r2` (= `r1` re-keyed to `pk1`) and `rMax` are the valid
records of the toy scheme `tinyS` (`Proofs/ToyScheme.lean`). -/

example : ∃ r', decode tinyS r0.encode = .ok (r', []) ∧ r0.eqv r' = true ∧ r' = r0 :=
  eqv_redecode tinyS r0 r0_valid

/-- the same, with the decoder run on the literal bytes of `r0` -/
example : decode tinyS [209, 132, 1, 2, 3, 13, 1, 130, 105, 100, 130, 118, 52, 116, 131, 1, 2, 3] =
    .ok (r0, []) ∧ r0.eqv r0 = true := ⟨r0Bytes_decodes, by decide⟩

/-- `eqv_iff_encode` in both directions: `r0 ≠ r1`, so their encodings differ; a hand-written copy of
    `r0` has the same encoding, so it is `==` -/
example : r0.encode ≠ r1.encode := fun h =>
  absurd ((eqv_iff_encode tinyS r0 r1 r0_valid r1_valid).2 h) (by decide)

example : r0.eqv ⟨1, [1, 2, 3], [(kId, [130, 118, 52]), (kT, [131, 1, 2, 3])], [1, 2, 3, 13]⟩ = true :=
  (eqv_iff_encode tinyS r0 _ r0_valid r0_valid).2 rfl

/-- equal records hash equally; `r0` and `r1` differ in a hashed field -/
example : r0.hashFeed = (1, [1, 2, 3], [1, 2, 3, 13]) ∧ r1.hashFeed = (2, [1, 2, 3], [1, 2, 3, 20]) := by
  decide

/-- `ne_of_pubkey`: `r1` carries `pk0`, its re-keyed successor `r2` carries `pk1` -/
example : r1.eqv r2 = false :=
  ne_of_pubkey tinyS r1 r2 pk0 pk1
    (step_ok_facts tinyS_lawful r0_valid call1_ok step1_ok).2.1
    (step_ok_facts tinyS_lawful r1_valid (call2_ok r1) step2_ok).2.1
    (fun h => absurd (congrArg Subtype.val h) (by decide))

/-- `compareContent_iff_valid`: `r0` against itself with another signature, against `r1`, and
    against `rMax` (same pairs, other sequence number) -/
example : r0.compareContent { r0 with sig := [9] } = true :=
  (compareContent_ignores_sig r0 r0 r0.sig [9] r0.nodeId r0.nodeId).trans
    ((compareContent_iff_valid tinyS r0 r0 r0_valid r0_valid).2 ⟨rfl, rfl⟩)

example : r0.compareContent r1 = false ∧ r0.compareContent rMax = false := by
  constructor
  · cases h : r0.compareContent r1 with
    | false => rfl
    | true => exact absurd ((compareContent_iff_valid tinyS r0 r1 r0_valid r1_valid).1 h).1 (by decide)
  · cases h : r0.compareContent rMax with
    | false => rfl
    | true => exact absurd ((compareContent_iff_valid tinyS r0 rMax r0_valid rMax_valid).1 h).1 (by decide)

/-! `eqvLegacy_same_content` / `eqvLegacy_eq_eqv` need a scheme with `SigBinds` and valid records of it
at the same time: two valid records of `echoS` (the signature is the signed payload). -/

set_option maxRecDepth 100000 in
example :
    let c : Content := [(kId, encBytes vV4), (kToy, encBytes [1, 2, 3, 4])]
    let a : Record := ⟨1, [1, 2, 3, 4], c, encList (encUint 1 ++ Record.pairsBytes c)⟩
    let b : Record := ⟨2, [1, 2, 3, 4], c, encList (encUint 2 ++ Record.pairsBytes c)⟩
    Valid echoS a ∧ Valid echoS b ∧ eqvLegacy a a = a.eqv a ∧ eqvLegacy a b = a.eqv b ∧
      eqvLegacy a b = false := by
  intro c a b
  have hc : ContentOK c := by
    refine ⟨by decide, ?_⟩
    intro k v hm
    simp only [c, List.mem_cons, Prod.mk.injEq, List.not_mem_nil, or_false] at hm
    rcases hm with ⟨rfl, rfl⟩ | ⟨rfl, rfl⟩
    · exact ⟨by decide, by unfold ValueOK; rw [if_pos rfl]⟩
    · refine ⟨by decide, ?_⟩
      unfold ValueOK
      rw [if_neg (by decide), if_neg (by decide), if_neg (by decide), if_neg (by decide),
        if_neg (by decide)]
      exact Or.inl ⟨[1, 2, 3, 4], by decide, rfl⟩
  have hpk : echoS.enrToPublic c = .ok [1, 2, 3, 4] := by
    show toyEnrToPublic c = Except.ok ([1, 2, 3, 4] : Bytes)
    decide
  have ha : Valid echoS a :=
    ⟨by decide, by decide, hc, by decide, by decide, [1, 2, 3, 4], hpk, rfl, by decide⟩
  have hb : Valid echoS b :=
    ⟨by decide, by decide, hc, by decide, by decide, [1, 2, 3, 4], hpk, rfl, by decide⟩
  have hsb : SigBinds echoS := by
    intro pk m1 m2 sig h1 h2
    have e1 : sig = m1 := of_decide_eq_true h1
    have e2 : sig = m2 := of_decide_eq_true h2
    rw [← e1, ← e2]
  have hi : ∀ x y, HashInj echoS x y := fun _ _ _ _ _ _ h => h
  exact ⟨ha, hb, eqvLegacy_eq_eqv echoS a a ha ha hsb (hi a a),
    eqvLegacy_eq_eqv echoS a b ha hb hsb (hi a b), by decide⟩

end EnrVerif

section Axioms
open EnrVerif
#print axioms eqv_iff
#print axioms eqv_iff_eq
#print axioms eqv_refl
#print axioms eqv_symm
#print axioms eqv_comm
#print axioms eqv_trans
#print axioms eqv_hash
#print axioms hashFeed_eq_not_eqv
#print axioms eqv_clone
#print axioms eqv_redecode
#print axioms eqv_same_pairs
#print axioms eqv_same_encoding
#print axioms eqv_iff_encode
#print axioms eqv_compareContent
#print axioms ne_of_seq
#print axioms ne_of_nodeId
#print axioms ne_of_sig
#print axioms ne_of_content
#print axioms ne_of_pubkey
#print axioms compareContent_iff_valid
#print axioms compareContent_ignores_sig
#print axioms compareContent_of_same
#print axioms compareContent_refl
#print axioms eqvLegacy_iff
#print axioms eqvLegacy_iff_hashFeed
#print axioms eqv_eq_legacy_and_content
#print axioms eqvLegacy_same_content
#print axioms eqvLegacy_eq_eqv
#print axioms eqvLegacy_content_needs_assumptions
end Axioms
