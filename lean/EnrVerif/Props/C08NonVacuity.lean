/-
  C08, continued — non-vacuity: the theorems of `Props/C08.lean` applied to concrete successful and
  failing updates, so that every hypothesis is seen to be satisfiable.

  (A module of its own because `Props/C08.lean` opens `Eff`, whose lemma names partly coincide with
  those of `Proofs/StepLemmas.lean`, on which the toy scheme of the examples is built.)

  The records are those of `Proofs/ToyScheme.lean` and `Proofs/Examples.lean` (toy scheme `tinyS`,
  public key stored under `"t"`): `r0 → r1` is `set_udp4(30303)` with the record's own key,
  `r1 → r2` is `insert("x", 7)` with the other key `pk1`, `r0 → rA → … → rF → rG` are seven own-key
  updates (`opA` … `opG`), `tinyAns r op` is the toy signer's answer and `tinyUpd r op` the record
  after the update.  Concrete runs of `step` are evaluated by the kernel (`decide +kernel`).
-/
import EnrVerif.Props.C08
import EnrVerif.Proofs.Examples

namespace EnrVerif

open Eff

section NonVacuity
set_option maxRecDepth 100000

/-- the general form on `r0 → r1` -/
example : r1.content = Map.insert (opRaw tinyS (.setUdp4 30303) r0.content) kT (pubValue tinyS pk0) ∧
    Ret.prevPort none = opRet tinyS (.setUdp4 30303) r0.content ∧
    r1.seq = newSeq (S := tinyS) (.setUdp4 30303) r0 ∧ r1.nodeId = nodeIdOf tinyS pk0 ∧
    (∃ sig, call1.oracle = some sig ∧ r1.sig = sig) :=
  C08_step_effect step1_ok

/-- … whose right-hand sides are these concrete values -/
example : r1.content = [(kId, [130, 118, 52]), (kT, [131, 1, 2, 3]), (kUdp, [130, 118, 95])] ∧
    r1.seq = 2 ∧ r1.nodeId = [1, 2, 3] ∧ r1.sig = [1, 2, 3, 20] := by decide

example : Map.Sorted r1.content := C08_step_sorted step1_ok r0_valid.content.1

/-- the re-keying update stores the new signer's key `09 09` -/
example : Map.lookup r2.content kT = some [130, 9, 9] := C08_step_pubkey step2_ok

/-- `id` and `udp` are not touched by `insert("x", 7)` signed with `pk1`; `"t"` and `"x"` are -/
example : Map.lookup r2.content kUdp = Map.lookup r1.content kUdp ∧
    Map.lookup r2.content kId = Map.lookup r1.content kId :=
  ⟨C08_step_untouched step2_ok kUdp (by decide), C08_step_untouched step2_ok kId (by decide)⟩

example : Map.lookup r2.content kT ≠ Map.lookup r1.content kT ∧
    Map.lookup r2.content [120] ≠ Map.lookup r1.content [120] := by decide

/-- a failing update -/
example : (step tinyS r0 (.removeKey [120]) pk1 none).2 = r0 :=
  C08_step_err_unchanged (S := tinyS) (r := r0) (op := .removeKey [120]) (pk := pk1) (o := none)
    (e := .signingError) (by decide +kernel)

/-! inserts and typed setters -/

example : r2.content = Map.insert (Map.insert r1.content [120] (Val.uint 7).enc) kT (pubValue tinyS pk1) ∧
    Ret.prevRaw none = .prevRaw (Map.lookup r1.content [120]) :=
  C08_step_content_insert step2_ok

example : rE.content = Map.insert (Map.insert rD.content [120] (Val.bytes [7, 7]).enc) kT (pubValue tinyS pk0) ∧
    Ret.prevRaw none = .prevRaw (Map.lookup rD.content [120]) :=
  C08_step_content_insert stepE_ok

example : r1.content = Map.insert (Map.insert r0.content kUdp (encUint 30303)) kT (pubValue tinyS pk0) ∧
    Ret.prevPort none = prevPort (Map.lookup r0.content kUdp) :=
  C08_step_content_setUdp4 step1_ok

example : rB.content = Map.insert (Map.insert rA.content kTcp (encUint 80)) kT (pubValue tinyS pk0) ∧
    Ret.prevPort none = prevPort (Map.lookup rA.content kTcp) :=
  C08_step_content_setTcp4 stepB_ok

/-- a second `set_tcp4` returns the port the first one stored (`C08_prevPort_spec`) -/
example : step tinyS rF (.setTcp4 8080) pk0 (tinyAns rF (.setTcp4 8080)) =
    (.ok (.prevPort (some 80)), tinyUpd rF (.setTcp4 8080)) := by decide +kernel

example : prevPort (some (encUint 80)) = .prevPort (some 80) := C08_prevPort_spec.2 80 (by decide)

example : step tinyS rF (.setUdp6 9) pk0 (tinyAns rF (.setUdp6 9)) =
    (.ok (.prevPort none), tinyUpd rF (.setUdp6 9)) ∧
    (tinyUpd rF (.setUdp6 9)).content = Map.insert (Map.insert rF.content kUdp6 (encUint 9)) kT
      (pubValue tinyS pk0) := by
  have h : step tinyS rF (.setUdp6 9) pk0 (tinyAns rF (.setUdp6 9)) =
    (.ok (.prevPort none), tinyUpd rF (.setUdp6 9)) := by decide +kernel
  exact ⟨h, (C08_step_content_setUdp6 h).1⟩

example : step tinyS rF (.setTcp6 9) pk0 (tinyAns rF (.setTcp6 9)) =
    (.ok (.prevPort (some 443)), tinyUpd rF (.setTcp6 9)) ∧
    (tinyUpd rF (.setTcp6 9)).content = Map.insert (Map.insert rF.content kTcp6 (encUint 9)) kT
      (pubValue tinyS pk0) := by
  have h : step tinyS rF (.setTcp6 9) pk0 (tinyAns rF (.setTcp6 9)) =
    (.ok (.prevPort (some 443)), tinyUpd rF (.setTcp6 9)) := by decide +kernel
  exact ⟨h, (C08_step_content_setTcp6 h).1⟩

/-- `set_ip` with 16 bytes writes `ip6` -/
example : rC.content = Map.insert (Map.insert rB.content kIp6 (encBytes ip6x)) kT (pubValue tinyS pk0) ∧
    Ret.prevIp none = prevIp 16 (Map.lookup rB.content kIp6) := by
  have h := C08_step_content_setIp stepC_ok
  simp only [eq_false (by decide : ¬ ip6x.length = 4), if_false] at h
  exact h

/-- `set_ip` again, with 4 bytes: returns the previous `ip` (`C08_prevIp_spec`) -/
example : step tinyS rF (.setIp [10, 0, 0, 2]) pk0 (tinyAns rF (.setIp [10, 0, 0, 2])) =
    (.ok (.prevIp (some [10, 0, 0, 1])), tinyUpd rF (.setIp [10, 0, 0, 2])) := by decide +kernel

example : prevIp 4 (some (encBytes [10, 0, 0, 1])) = .prevIp (some [10, 0, 0, 1]) :=
  C08_prevIp_spec.2.1 _ (by decide)

example : rD.content = Map.insert
      (Map.insert rC.content kClient (encList (encStrs (clientList [97] [98, 98] (some [99])))))
      kT (pubValue tinyS pk0) ∧ Ret.unit = .unit :=
  C08_step_content_setClientInfo stepD_ok

/-- `set_public_key(pk1)` signed with `pk1` -/
example : step tinyS r0 (.setPublicKey pk1) pk1 ((signRequest tinyS r0 (.setPublicKey pk1) pk1).map (tinySign pk1)) =
    (.ok .unit, ⟨2, [9, 9], [(kId, [130, 118, 52]), (kT, [130, 9, 9])], [9, 9, 12]⟩) := by
  decide +kernel

example : ∀ r', step tinyS r0 (.setPublicKey pk1) pk1 (some [9, 9, 12]) = (.ok .unit, r') →
    r'.content = Map.insert (Map.insert r0.content kT (pubValue tinyS pk1)) kT (pubValue tinyS pk1) :=
  fun _ h => (C08_step_content_setPublicKey h).1

/-! socket setters -/

example : rA.content = Map.insert (Map.insert (Map.insert r0.content kIp (encBytes [10, 0, 0, 1]))
    kUdp (encUint 30303)) kT (pubValue tinyS pk0) := by
  have h := (C08_step_content_setUdpSocket stepA_ok).1
  simp only [eq_true (by decide : ([10, 0, 0, 1] : Bytes).length = 4), if_true] at h
  exact h

example : rF.content = Map.insert (Map.insert (Map.insert rE.content kIp6 (encBytes ip6x))
    kTcp6 (encUint 443)) kT (pubValue tinyS pk0) := by
  have h := (C08_step_content_setTcpSocket stepF_ok).1
  simp only [eq_false (by decide : ¬ ip6x.length = 4), if_false] at h
  exact h

/-! removals on `rF` -/

example : step tinyS rF (.removeKey [120]) pk0 (tinyAns rF (.removeKey [120])) =
      (.ok .unit, tinyUpd rF (.removeKey [120])) ∧
    (tinyUpd rF (.removeKey [120])).content = Map.insert (Map.erase rF.content [120]) kT (pubValue tinyS pk0) ∧
    Map.lookup (tinyUpd rF (.removeKey [120])).content [120] = none := by
  have h : step tinyS rF (.removeKey [120]) pk0 (tinyAns rF (.removeKey [120])) =
      (.ok .unit, tinyUpd rF (.removeKey [120])) := by decide +kernel
  exact ⟨h, (C08_step_content_removeKey h).1, by decide +kernel⟩

example : (tinyUpd rF .removeUdp4).content = Map.insert (Map.erase rF.content kUdp) kT (pubValue tinyS pk0) :=
  ((C08_step_content_removePort (S := tinyS)).1
    (by decide +kernel : step tinyS rF .removeUdp4 pk0 (tinyAns rF .removeUdp4) =
      (.ok .unit, tinyUpd rF .removeUdp4))).1

example : (tinyUpd rF .removeTcp6Socket).content =
    Map.insert (Map.erase (Map.erase rF.content kIp6) kTcp6) kT (pubValue tinyS pk0) :=
  ((C08_step_content_removeSocket (S := tinyS)).2.2.2
    (by decide +kernel : step tinyS rF .removeTcp6Socket pk0 (tinyAns rF .removeTcp6Socket) =
      (.ok .unit, tinyUpd rF .removeTcp6Socket))).1

example : (tinyUpd rF .removeTcp6Socket).content =
    [(kClient, [197, 97, 130, 98, 98, 99]), (kId, [130, 118, 52]), (kIp, [132, 10, 0, 0, 1]),
     (kT, [131, 1, 2, 3]), (kTcp, [80]), (kUdp, [130, 118, 95]), ([120], [130, 7, 7])] := by
  decide +kernel

/-! `remove_insert` on `rF` (`opG`, `rG`, `stepG_ok` in `Proofs/Examples.lean`): remove `udp` (named
twice) and `"x"`, insert `"y"` twice and `tcp` -/

example : opG = .removeInsert [kUdp, kUdp, [120]] [([121], [1]), ([121], [2, 2]), (kTcp, [31, 144])] ∧
    rG.content =
      [(kClient, [197, 97, 130, 98, 98, 99]), (kId, [130, 118, 52]), (kIp, [132, 10, 0, 0, 1]),
       (kIp6, 144 :: ip6x), (kT, [131, 1, 2, 3]), (kTcp, [130, 31, 144]), (kTcp6, [130, 1, 187]),
       ([121], [130, 2, 2])] := ⟨rfl, by decide +kernel⟩

/-- `C08_step_content_removeInsert` and `C08_step_removeInsert_lookup` on that call -/
example : ∃ c2 inserted,
    insertAll (removeAll rF.content [kUdp, kUdp, [120]]).1 [([121], [1]), ([121], [2, 2]), (kTcp, [31, 144])] =
      .ok (c2, inserted) ∧
    rG.content = withPubkey tinyS c2 pk0 ∧
    Ret.prevLists [some [130, 118, 95], none, some [130, 7, 7]] [none, some [1], some [80]] =
      .prevLists (removeAll rF.content [kUdp, kUdp, [120]]).2 inserted :=
  C08_step_content_removeInsert stepG_ok

/-- `"y"` holds the last value given for it, `udp` is gone, `ip` is untouched -/
example : Map.lookup rG.content [121] = some (encBytes [2, 2]) ∧ Map.lookup rG.content kUdp = none ∧
    Map.lookup rG.content kIp = Map.lookup rF.content kIp :=
  ⟨C08_step_removeInsert_lookup stepG_ok rF_valid.content.1 [121] (by decide),
   C08_step_removeInsert_lookup stepG_ok rF_valid.content.1 kUdp (by decide),
   C08_step_removeInsert_lookup stepG_ok rF_valid.content.1 kIp (by decide)⟩

/-- the two loops by themselves (`hs`: the content of the valid record `rF` is sorted) -/
example : Map.lookup (removeAll rF.content [kUdp, kUdp, [120]]).1 kUdp = none ∧
    Map.lookup (removeAll rF.content [kUdp, kUdp, [120]]).1 kTcp = Map.lookup rF.content kTcp :=
  ⟨(C08_removeAll_lookup rF.content _ kUdp rF_valid.content.1).trans (by decide),
   (C08_removeAll_lookup rF.content _ kTcp rF_valid.content.1).trans (by decide)⟩

example : (removeAll rF.content [kUdp, kUdp, [120]]).2 = removedSpec rF.content [] [kUdp, kUdp, [120]] :=
  C08_removeAll_returns rF.content _ rF_valid.content.1

example : (removeAll rF.content [kUdp, kUdp, [120]]).2 = [some [130, 118, 95], none, some [130, 7, 7]] := by
  decide

example : (removeAll rF.content [kUdp, [120]]).2 = [kUdp, [120]].map (Map.lookup rF.content) :=
  C08_removeAll_returns_nodup rF.content _ rF_valid.content.1 (by decide)

example : Map.lookup (insertAllMap r0.content [([121], [1]), ([121], [2, 2])]) [121] = some (encBytes [2, 2]) ∧
    [none, some [1]] = insertedSpec r0.content [] [([121], [1]), ([121], [2, 2])] :=
  have h : insertAll r0.content [([121], [1]), ([121], [2, 2])] =
      .ok (insertAllMap r0.content [([121], [1]), ([121], [2, 2])], [none, some [1]]) := by decide
  ⟨C08_insertAll_lookup h [121], C08_insertAll_returns h⟩

/-! `set_seq` -/

example : step tinyS r0 (.setSeq 1000) pk0 (tinyAns r0 (.setSeq 1000)) =
    (.ok .unit, tinyUpd r0 (.setSeq 1000)) ∧
    (tinyUpd r0 (.setSeq 1000)).content = withPubkey tinyS r0.content pk0 ∧
    (tinyUpd r0 (.setSeq 1000)).seq = 1000 := by
  have h : step tinyS r0 (.setSeq 1000) pk0 (tinyAns r0 (.setSeq 1000)) =
    (.ok .unit, tinyUpd r0 (.setSeq 1000)) := by decide +kernel
  exact ⟨h, (C08_step_set_seq_content h).1, (C08_step_set_seq_content h).2.1⟩

/-! the builder -/

example : r0.content = withPubkey tinyS (Map.insert ({} : Builder).content kId (encBytes vV4)) pk0 ∧
    r0.seq = ({} : Builder).seq ∧ r0.nodeId = nodeIdOf tinyS pk0 ∧
    ∃ sig, some (tinySign pk0 payload0) = some sig ∧ r0.sig = sig :=
  C08_build_content r0_built

example : Map.Sorted r0.content := C08_build_sorted r0_built (by decide)

example :
    let r : Record := ⟨1, [1, 2, 3], [(kId, [130, 118, 52]), (kT, [131, 1, 2, 3]), (kUdp, [130, 118, 95])], [1]⟩
    Builder.build tinyS (({} : Builder).addValue kUdp (.uint 30303)) pk0 (some [1]) = .ok r ∧
      Map.lookup r.content kUdp = Map.lookup (({} : Builder).addValue kUdp (.uint 30303)).content kUdp := by
  intro r
  have hb : Builder.build tinyS (({} : Builder).addValue kUdp (.uint 30303)) pk0 (some [1]) = .ok r := by
    decide +kernel
  exact ⟨hb, C08_build_untouched hb kUdp (by decide) (by decide)⟩

/-! `set_public_key` with the signer's own key: the hypotheses hold of `r0`/`pk0` -/

example : step tinyS r0 (.setPublicKey pk0) pk0 (some [1, 2, 3, 13]) =
    (.ok .unit, ⟨r0.seq + 1, nodeIdOf tinyS pk0, r0.content, [1, 2, 3, 13]⟩) :=
  C08_setPublicKey_own_ok' tinyS_lawful (tiny_keyOK pk0) r0_valid r0_pub (by decide) (by decide)
    (by decide) (by decide) (by decide)

example : step tinyS r0 (.setPublicKey pk0) pk0 (some [5]) =
    (.ok .unit, ⟨r0.seq + 1, nodeIdOf tinyS pk0, r0.content, [5]⟩) :=
  C08_setPublicKey_own_ok tinyS_lawful (tiny_keyOK pk0) r0_valid r0_pub (by decide) (by decide)
    (by decide)

/-- at the maximal sequence number it fails, with one of the two permitted errors -/
example : prepare tinyS rMax (.setPublicKey pk0) pk0 = .error .seqTooHigh := by decide +kernel

example : EnrErr.seqTooHigh = .exceedsMaxSize ∨ EnrErr.seqTooHigh = .seqTooHigh :=
  C08_setPublicKey_own_succeeds tinyS_lawful (tiny_keyOK pk0) rMax_valid r0_pub (by decide)
    (by decide +kernel : prepare tinyS rMax (.setPublicKey pk0) pk0 = .error .seqTooHigh)

/-! error kinds and their causes: each hypothesis is a concrete failing call -/

/-- an ill-typed `tcp` value: the value check's own error -/
example : prepInsertRaw tinyS r0 kTcp (encBytes [1, 2, 3]) pk0 true .prevRaw =
    .error (.invalidRlp .overflow) ∧ checkReserved kTcp (encBytes [1, 2, 3]) = .error (.invalidRlp .overflow) := by
  decide +kernel

example : True := by
  have c := C08_insertRaw_error_cause (S := tinyS) (r := r0) (key := kTcp) (raw := encBytes [1, 2, 3])
    (pk := pk0) (mk := .prevRaw) (e := .invalidRlp .overflow) (by decide +kernel)
  trivial

/-- `remove_key("id")`: the staged record has no identity scheme -/
example : prepRemoveKey tinyS r0 kId pk0 = .error .unsupportedId := by decide +kernel

example : True := by
  have c := C08_removeKey_error_cause (S := tinyS) (r := r0) (key := kId) (pk := pk0)
    (e := .unsupportedId) (by decide +kernel)
  trivial

/-- `set_udp_socket` at the maximal sequence number -/
example : prepSetSocket tinyS rMax [10, 0, 0, 1] 30303 false pk0 true = .error .seqTooHigh := by
  decide +kernel

example : True := by
  have c := C08_setSocket_error_cause (S := tinyS) (r := rMax) (ip := [10, 0, 0, 1]) (port := 30303)
    (isTcp := false) (pk := pk0) (e := .seqTooHigh) (by decide +kernel)
  trivial

/-- `remove_insert` with a 3-byte `ip`: the pair's own error -/
example : prepRemoveInsert tinyS r0 [] [(kIp, [10, 0, 0])] pk0 .prevLists =
    .error (.invalidRlp .unexpectedLength) := by decide +kernel

example : True := by
  have c := C08_removeInsert_error_cause (S := tinyS) (r := r0) (rm := []) (ins := [(kIp, [10, 0, 0])])
    (pk := pk0) (mk := .prevLists) (e := .invalidRlp .unexpectedLength) (by decide +kernel)
  trivial

/-- `set_seq` on a record whose `id` is missing (not a valid record) -/
example : prepare tinyS { r0 with content := [(kT, [131, 1, 2, 3])] } (.setSeq 5) pk0 =
    .error .unsupportedId := by decide +kernel

example : True := by
  have c := C08_setSeq_error_cause (S := tinyS) (r := { r0 with content := [(kT, [131, 1, 2, 3])] })
    (s := 5) (pk := pk0) (e := .unsupportedId) (by decide +kernel)
  trivial

/-- `C08_step_error_cause` / `C08_value_error_kinds`: a failing signer, and the ill-typed value -/
example : step tinyS r0 (.setUdp4 30303) pk0 none = (.err .signingError, r0) := by decide +kernel

example : True := by
  have c := C08_step_error_cause (S := tinyS) (r := r0) (r2 := r0) (op := .setUdp4 30303) (pk := pk0)
    (o := none) (e := .signingError) rfl (by decide +kernel)
  trivial

example : EnrErr.invalidRlp .overflow = .unsupportedId ∨ ∃ x, EnrErr.invalidRlp .overflow = .invalidRlp x :=
  C08_value_error_kinds (S := tinyS) (op := .insertRaw kTcp (encBytes [1, 2, 3])) (c := r0.content)
    (by decide +kernel)

/-- the builder: an `ip` of three bytes; a failing signer; a signature that is too long -/
example : Builder.build tinyS (({} : Builder).addValue kIp (.bytes [10, 0, 0])) pk0 (some [1]) =
      .err (.invalidRlp .unexpectedLength) ∧
    Builder.build tinyS {} pk0 none = .err .signingError ∧
    Builder.build tinyS {} pk0 (some (List.replicate 290 0)) = .err .exceedsMaxSize := by
  decide +kernel

example : True := by
  have c1 := C08_build_error_cause (S := tinyS) (b := ({} : Builder).addValue kIp (.bytes [10, 0, 0]))
    (pk := pk0) (o := some [1]) (e := .invalidRlp .unexpectedLength) (by decide +kernel)
  have c2 := C08_build_error_cause (S := tinyS) (b := {}) (pk := pk0) (o := none) (e := .signingError)
    (by decide +kernel)
  have c3 := C08_build_error_cause (S := tinyS) (b := {}) (pk := pk0) (o := some (List.replicate 290 0))
    (e := .exceedsMaxSize) (by decide +kernel)
  trivial

end NonVacuity

end EnrVerif
