/-
  Property C10 — the node id.

  "Node id is the keccak256 of the record's public key and depends on nothing else"

  Reading: for every record the library hands out (decoded, built, updated) the stored node id is
  `digest (uncompressed pk)` where `pk` is the public key read back from the record's content
  (`digest` is keccak256 for every real scheme, `Model/Schemes.lean`); it equals
  `NodeId::from(enr.public_key())`; updates signed with the record's own key never change it; two
  valid records whose public-key entries agree have the same node id whatever else they contain
  (sequence number, signature, other pairs).

  Hypotheses: `S.Lawful` (three laws of a key type; proved for the four built-in key types,
  `k256S_lawful`, `libsecpS_lawful`, `edS_lawful`, `combS_lawful` in `Proofs/SchemeLemmas.lean`)
  and `CallOK` per call (arguments in range, signer's key shorter than 2^64 bytes — `KeyOK` —,
  signer's answer verifies); `build` needs `KeyOK` of the signer's key.

  Model: `nodeIdOf S pk = S.digest (S.uncompressed pk)`; `Record.publicKey`.
  Lemmas: `Proofs/StepLemmas.lean`, `Props/C05.lean` facts via `step_ok_facts`/`build_ok_facts`.
-/
import EnrVerif.Proofs.StepLemmas
import EnrVerif.Proofs.ToyScheme
import EnrVerif.Proofs.Examples

namespace EnrVerif

/-- The node id of a valid record is the digest of its (uncompressed) public key. -/
theorem nodeId_spec (S : Scheme) (r : Record) (h : Valid S r) :
    ∃ pk, S.enrToPublic r.content = .ok pk ∧ r.nodeId = S.digest (S.uncompressed pk) := by
  obtain ⟨pk, hpk, hn, _⟩ := h.authentic
  exact ⟨pk, hpk, hn⟩

/-- `enr.node_id() == NodeId::from(enr.public_key())`. -/
theorem nodeId_accessor (S : Scheme) (r : Record) (pk : S.PK) (h : Valid S r)
    (hp : r.publicKey S = .ok pk) : r.nodeId = nodeIdOf S pk := by
  obtain ⟨pk', hpk, hn, _⟩ := h.authentic
  have := publicKey_ok_inv hp
  rw [hpk] at this
  simp only [Except.ok.injEq] at this
  rw [← this]; exact hn

/-- Any successful update signed with the record's own key keeps the node id. -/
theorem nodeId_same_key (S : Scheme) (hL : S.Lawful) (r : Record) (op : Op S) (pk : S.PK)
    (o : Option Bytes) (ret : Ret) (r' : Record) (hv : Valid S r)
    (hown : S.enrToPublic r.content = .ok pk) (hc : CallOK S r ⟨op, pk, o⟩)
    (h : step S r op pk o = (.ok ret, r')) : r'.nodeId = r.nodeId := by
  obtain ⟨pk', hpk, hn, _⟩ := hv.authentic
  rw [hown] at hpk
  simp only [Except.ok.injEq] at hpk
  rw [(step_ok_facts hL hv hc h).2.2.1, hn, hpk]

/-- Whatever an update call with the record's own key returns, the node id is the same after it
    (a failed call does not change the record at all). -/
theorem nodeId_same_key_any (S : Scheme) (hL : S.Lawful) (r : Record) (op : Op S) (pk : S.PK)
    (o : Option Bytes) (hv : Valid S r) (hown : S.enrToPublic r.content = .ok pk)
    (hc : CallOK S r ⟨op, pk, o⟩) : (step S r op pk o).2.nodeId = r.nodeId := by
  rcases step_ok_or_unchanged S r op pk o with ⟨ret, hs⟩ | ⟨e, _, hs⟩
  · exact nodeId_same_key S hL r op pk o ret _ hv hown hc hs
  · rw [hs]

/-- An update signed with another key sets the node id to that key's. -/
theorem nodeId_rekey (S : Scheme) (hL : S.Lawful) (r : Record) (op : Op S) (pk : S.PK)
    (o : Option Bytes) (ret : Ret) (r' : Record) (hv : Valid S r) (hc : CallOK S r ⟨op, pk, o⟩)
    (h : step S r op pk o = (.ok ret, r')) :
    S.enrToPublic r'.content = .ok pk ∧ r'.nodeId = S.digest (S.uncompressed pk) :=
  ⟨(step_ok_facts hL hv hc h).2.1, (step_ok_facts hL hv hc h).2.2.1⟩

/-- The node id depends on the public-key entries only: valid records that agree on every entry
    a public key of the scheme can be stored under have the same node id. -/
theorem nodeId_key_only (S : Scheme) (hL : S.Lawful) (r1 r2 : Record) (h1 : Valid S r1)
    (h2 : Valid S r2)
    (hk : ∀ pk : S.PK, Map.lookup r1.content (S.enrKey pk) = Map.lookup r2.content (S.enrKey pk)) :
    r1.nodeId = r2.nodeId := by
  obtain ⟨pk1, hp1, hn1, _⟩ := h1.authentic
  obtain ⟨pk2, hp2, hn2, _⟩ := h2.authentic
  rw [hL.pub_local r1.content r2.content hk, hp2] at hp1
  simp only [Except.ok.injEq] at hp1
  rw [hn1, hn2, hp1]

/-- Valid records with the same public key have the same node id (no law needed). -/
theorem nodeId_same_pk (S : Scheme) (r1 r2 : Record) (pk : S.PK) (h1 : Valid S r1)
    (h2 : Valid S r2) (hp1 : S.enrToPublic r1.content = .ok pk)
    (hp2 : S.enrToPublic r2.content = .ok pk) : r1.nodeId = r2.nodeId := by
  obtain ⟨pk1, hq1, hn1, _⟩ := h1.authentic
  obtain ⟨pk2, hq2, hn2, _⟩ := h2.authentic
  rw [hp1] at hq1; rw [hp2] at hq2
  simp only [Except.ok.injEq] at hq1 hq2
  rw [hn1, hn2, ← hq1, ← hq2]

/-- Decoded records. -/
theorem nodeId_decoded (S : Scheme) (buf : Bytes) (r : Record) (rest : Bytes)
    (h : decode S buf = .ok (r, rest)) :
    ∃ pk, S.enrToPublic r.content = .ok pk ∧ r.nodeId = S.digest (S.uncompressed pk) :=
  nodeId_spec S r (decode_valid S buf r rest h)

/-- Built records: the node id is the signer's. -/
theorem nodeId_built (S : Scheme) (hL : S.Lawful) (b : Builder) (pk : S.PK) (o : Option Bytes)
    (r : Record) (hb : b.WF) (hk : KeyOK S pk)
    (hso : ∀ b', Builder.prepare S b pk = .ok b' → SigOK S pk b'.rlpContent o)
    (h : Builder.build S b pk o = .ok r) :
    S.enrToPublic r.content = .ok pk ∧ r.nodeId = S.digest (S.uncompressed pk) :=
  (build_ok_facts hL hb hk hso h).2

/-- Along any history the node id is the digest of the current public key. -/
theorem nodeId_run (S : Scheme) (hL : S.Lawful) (r : Record) (cs : List (Call S))
    (hv : Valid S r) (hr : RunOK S r cs) :
    ∃ pk, S.enrToPublic (run S r cs).content = .ok pk ∧
      (run S r cs).nodeId = S.digest (S.uncompressed pk) :=
  nodeId_spec S _ (run_valid' hL cs r hv hr)

/-! ### Non-vacuity (toy scheme: the digest is the identity, the node id is the key itself) -/

example : ∃ pk, tinyS.enrToPublic r0.content = .ok pk ∧ r0.nodeId = tinyS.digest (tinyS.uncompressed pk) :=
  nodeId_spec tinyS r0 r0_valid

/-- own-key update `r0 → r1`: same node id, although sequence number, content and signature differ -/
example : r1.nodeId = r0.nodeId ∧ r1.seq ≠ r0.seq ∧ r1.content ≠ r0.content ∧ r1.sig ≠ r0.sig :=
  ⟨nodeId_same_key tinyS tinyS_lawful r0 call1.op pk0 call1.oracle _ r1 r0_valid r0_pub call1_ok step1_ok,
   by decide, by decide, by decide⟩

/-- re-keying update `r1 → r2`: the node id becomes `pk1`'s -/
example : r2.nodeId = [9, 9] ∧ r2.nodeId ≠ r1.nodeId := ⟨by decide, by decide⟩

/-- `r0` and `r1` agree on the only public-key entry ("t") -/
example : r0.nodeId = r1.nodeId :=
  nodeId_key_only tinyS tinyS_lawful r0 r1 r0_valid
    (step_ok_facts tinyS_lawful r0_valid call1_ok step1_ok).1 (fun _ => (by decide : Map.lookup r0.content kT = Map.lookup r1.content kT))

/-! ### non-vacuity, continued: the remaining theorems on the same records -/

/-- `nodeId_rekey` on the re-keying call: the hypotheses hold (`r1` valid, `call2 r1` is `CallOK`) -/
example : tinyS.enrToPublic r2.content = .ok pk1 ∧ r2.nodeId = tinyS.digest (tinyS.uncompressed pk1) :=
  nodeId_rekey tinyS tinyS_lawful r1 _ pk1 _ _ r2 r1_valid (call2_ok r1) step2_ok

/-- `nodeId_accessor`: `public_key()` of `r0` is `pk0` -/
example : r0.nodeId = nodeIdOf tinyS pk0 :=
  nodeId_accessor tinyS r0 pk0 r0_valid (by unfold Record.publicKey; rw [r0_pub])

/-- `nodeId_same_key_any` on a call that fails (the signer returns nothing) -/
example : (step tinyS r0 (.setUdp4 30303) pk0 none).2.nodeId = r0.nodeId :=
  nodeId_same_key_any tinyS tinyS_lawful r0 _ pk0 none r0_valid r0_pub
    ⟨(by decide : (30303 : Nat) < 65536), tiny_keyOK pk0, fun _ _ _ hs => by cases hs⟩

/-- `nodeId_same_pk`: `r0` and `rMax` carry the same key -/
example : r0.nodeId = rMax.nodeId := nodeId_same_pk tinyS r0 rMax pk0 r0_valid rMax_valid r0_pub r0_pub

/-- `nodeId_decoded` on the 18 bytes of `r0`; the id is the key `01 02 03` itself -/
example : ∃ pk, tinyS.enrToPublic r0.content = .ok pk ∧ r0.nodeId = tinyS.digest (tinyS.uncompressed pk) :=
  nodeId_decoded tinyS r0Bytes r0 [] r0Bytes_decodes

example : r0.nodeId = [1, 2, 3] := rfl

/-- `nodeId_built` on the build that produces `r0` -/
example : tinyS.enrToPublic r0.content = .ok pk0 ∧ r0.nodeId = tinyS.digest (tinyS.uncompressed pk0) :=
  nodeId_built tinyS tinyS_lawful {} pk0 _ r0 Builder.empty_wf (tiny_keyOK pk0)
    (fun b' hb' => by
      have h2 : Builder.prepare tinyS {} pk0 = .ok ⟨1, content0⟩ := rfl
      rw [h2] at hb'
      simp only [Except.ok.injEq] at hb'
      rw [← hb']
      exact tinySign_sigOK pk0 payload0)
    r0_built

/-- `nodeId_run` on the three-call history of `ToyScheme.lean`; it ends at `pk1`'s id -/
example : ∃ pk, tinyS.enrToPublic (run tinyS r0 [call1, call2 r1, call3]).content = .ok pk ∧
    (run tinyS r0 [call1, call2 r1, call3]).nodeId = tinyS.digest (tinyS.uncompressed pk) :=
  nodeId_run tinyS tinyS_lawful r0 _ r0_valid run_ok

#print axioms nodeId_spec
#print axioms nodeId_accessor
#print axioms nodeId_same_key
#print axioms nodeId_same_key_any
#print axioms nodeId_rekey
#print axioms nodeId_key_only
#print axioms nodeId_same_pk
#print axioms nodeId_decoded
#print axioms nodeId_built
#print axioms nodeId_run

end EnrVerif
