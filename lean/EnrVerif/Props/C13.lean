/-
  C13 — Decoding is prefix-local: records can be read from a stream or list.

  "For every buffer that begins with a complete RLP item, decoding yields the same outcome as
  decoding that item alone, whatever bytes follow it, and on success advances the buffer by exactly
  the item's length.  Hence consecutive records, and RLP lists of records, decode to the same records
  one would get individually."

  "Complete item" = the header decodes and the payload it announces is exactly the rest of `item`.
-/
import EnrVerif.Proofs.CodecTheorems
import EnrVerif.Model.Stream
import EnrVerif.Proofs.StreamLemmas

namespace EnrVerif

/-- `item` is one complete RLP item -/
def CompleteItem (item : Bytes) : Prop :=
  ∃ h r, decodeHeader item = .ok (h, r) ∧ r.length = h.len

/-- success: same record, and the buffer is advanced by exactly the item -/
theorem C13_prefix_local_ok (S : Scheme) (item suf : Bytes) (r : Record)
    (h : decode S item = .ok (r, [])) : decode S (item ++ suf) = .ok (r, suf) :=
  decode_prefix_local S item suf r h

/-- failure: the same error, whatever follows -/
theorem C13_prefix_local_err (S : Scheme) (item suf : Bytes) (e : RlpErr) (hc : CompleteItem item)
    (h : decode S item = .error e) : decode S (item ++ suf) = .error e :=
  decode_prefix_local_err_eq S item suf e hc h

/-- a complete item is consumed entirely when it decodes -/
theorem C13_complete_item_consumed (S : Scheme) (item : Bytes) (r : Record) (rest : Bytes)
    (hc : CompleteItem item) (h : decode S item = .ok (r, rest)) : rest = [] := by
  obtain ⟨hd, rr, hh, hlen⟩ := hc
  unfold decode at h
  rw [hh] at h
  simp only at h
  split at h
  · simp at h
  · split at h
    · simp at h
    · rename_i payload rest' hb
      split at h
      · simp at h
      · simp only [Except.ok.injEq, Prod.mk.injEq] at h
        rw [← h.2]
        unfold decodeBytes at hb
        rw [hh] at hb
        simp only at hb
        split at hb
        · simp at hb
        · simp only [Except.ok.injEq, Prod.mk.injEq] at hb
          rw [← hb.2]
          simp [← hlen]

/-- both directions at once: the outcome on `item ++ suf` is the outcome on `item` -/
theorem C13_same_outcome (S : Scheme) (item suf : Bytes) (hc : CompleteItem item) :
    decode S (item ++ suf) =
      (match decode S item with
       | .ok (r, _) => .ok (r, suf)
       | .error e => .error e) := by
  cases hd : decode S item with
  | error e => simp only; exact C13_prefix_local_err S item suf e hc hd
  | ok x =>
    obtain ⟨r, rest⟩ := x
    have := C13_complete_item_consumed S item r rest hc hd
    subst this
    simp only
    exact C13_prefix_local_ok S item suf r hd

/-- advance = the item's length -/
theorem C13_advance (S : Scheme) (buf : Bytes) (r : Record) (rest : Bytes)
    (h : decode S buf = .ok (r, rest)) : buf.length - rest.length = r.size ∧ r.encode ++ rest = buf := by
  have h1 := decode_used S buf r rest h
  exact ⟨by omega, decode_reencode S buf r rest h⟩

/-- consecutive records decode to the same records one would get individually -/
theorem C13_decode_many (S : Scheme) (rs : List Record) (hv : ∀ r ∈ rs, Valid S r) :
    decodeMany S (encodeAll rs) = .ok rs := by
  induction rs with
  | nil => unfold decodeMany encodeAll; simp
  | cons r rs ih =>
    have hr : Valid S r := hv r (List.mem_cons_self)
    have hne : (encodeAll (r :: rs)).isEmpty = false := by
      have := Record.encode_length_ge r
      show (r.encode ++ encodeAll rs).isEmpty = false
      cases hh : r.encode ++ encodeAll rs with
      | nil => simp at hh; rw [hh.1] at this; simp at this
      | cons a b => rfl
    rw [decodeMany]
    simp only [hne, Bool.false_eq_true, ↓reduceIte]
    have hd : decode S (encodeAll (r :: rs)) = .ok (r, encodeAll rs) := by
      show decode S (r.encode ++ encodeAll rs) = .ok (r, encodeAll rs)
      exact encode_decode_append S r (encodeAll rs) hr
    split
    · rename_i e he; rw [hd] at he; simp at he
    · rename_i r' rest' he
      rw [hd] at he
      simp only [Except.ok.injEq, Prod.mk.injEq] at he
      obtain ⟨rfl, rfl⟩ := he
      rw [ih (fun x hx => hv x (List.mem_cons_of_mem _ hx))]

/-- … and so does an RLP list of records (`Vec<Enr<K>>`), leaving what follows the list -/
theorem C13_decode_list (S : Scheme) (rs : List Record) (rest : Bytes) (hv : ∀ r ∈ rs, Valid S r)
    (hlen : (encodeAll rs).length < 2 ^ 64) :
    decodeList S (encList (encodeAll rs) ++ rest) = .ok (rs, rest) := by
  unfold decodeList
  rw [decodeBytes_encList _ _ hlen]
  simp only
  rw [C13_decode_many S rs hv]

/-- exactly: a buffer decodes as a sequence of records iff it is the concatenation of the encodings of
    valid records — and then those are the records (no other splitting, nothing dropped) -/
theorem C13_decode_many_iff (S : Scheme) (buf : Bytes) (rs : List Record) :
    decodeMany S buf = .ok rs ↔ (∀ r ∈ rs, Valid S r) ∧ encodeAll rs = buf :=
  decodeMany_iff S buf rs

/-- the same for an RLP list of records: what was decoded re-encodes to the list that was read -/
theorem C13_decode_list_spec (S : Scheme) (buf : Bytes) (rs : List Record) (rest : Bytes)
    (h : decodeList S buf = .ok (rs, rest)) :
    (∀ r ∈ rs, Valid S r) ∧ buf = encList (encodeAll rs) ++ rest :=
  decodeList_spec S buf rs rest h

/-- streams compose -/
theorem C13_decode_many_append (S : Scheme) (a b : Bytes) (ra rb : List Record)
    (ha : decodeMany S a = .ok ra) (hb : decodeMany S b = .ok rb) :
    decodeMany S (a ++ b) = .ok (ra ++ rb) :=
  decodeMany_append S a b ra rb ha hb

#print axioms C13_decode_many_iff
#print axioms C13_decode_list_spec
#print axioms C13_decode_many_append
#print axioms C13_prefix_local_ok
#print axioms C13_prefix_local_err
#print axioms C13_complete_item_consumed
#print axioms C13_same_outcome
#print axioms C13_advance
#print axioms C13_decode_many
#print axioms C13_decode_list

end EnrVerif
