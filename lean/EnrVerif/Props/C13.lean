/-
  C13 — Decoding is prefix-local: records can be read from a stream or list.

  "For every buffer that begins with a complete RLP item, decoding yields the same outcome as
  decoding that item alone, whatever bytes follow it, and on success advances the buffer by exactly
  the item's length.  Hence consecutive records, and RLP lists of records, decode to the same records
  one would get individually."

  "Complete item" = the header decodes and the payload it announces is exactly the rest of `item`.
-/
import EnrVerif.Proofs.CodecTheorems
import EnrVerif.Model.Stream
import EnrVerif.Proofs.StreamLemmas
import EnrVerif.Proofs.Examples

namespace EnrVerif

/-- `item` is one complete RLP item -/
def CompleteItem (item : Bytes) : Prop :=
  ∃ h r, decodeHeader item = .ok (h, r) ∧ r.length = h.len

/-- success: same record, and the buffer is advanced by exactly the item -/
theorem C13_prefix_local_ok (S : Scheme) (item suf : Bytes) (r : Record)
    (h : decode S item = .ok (r, [])) : decode S (item ++ suf) = .ok (r, suf) :=
  decode_prefix_local S item suf r h

/-- failure: the same error, whatever follows -/
theorem C13_prefix_local_err (S : Scheme) (item suf : Bytes) (e : RlpErr) (hc : CompleteItem item)
    (h : decode S item = .error e) : decode S (item ++ suf) = .error e :=
  decode_prefix_local_err_eq S item suf e hc h

/-- a complete item is consumed entirely when it decodes -/
theorem C13_complete_item_consumed (S : Scheme) (item : Bytes) (r : Record) (rest : Bytes)
    (hc : CompleteItem item) (h : decode S item = .ok (r, rest)) : rest = [] := by
  obtain ⟨hd, rr, hh, hlen⟩ := hc
  unfold decode at h
  rw [hh] at h
  simp only at h
  split at h
  · simp at h
  · split at h
    · simp at h
    · rename_i payload rest' hb
      split at h
      · simp at h
      · simp only [Except.ok.injEq, Prod.mk.injEq] at h
        rw [← h.2]
        unfold decodeBytes at hb
        rw [hh] at hb
        simp only at hb
        split at hb
        · simp at hb
        · simp only [Except.ok.injEq, Prod.mk.injEq] at hb
          rw [← hb.2]
          simp [← hlen]

/-- both directions at once: the outcome on `item ++ suf` is the outcome on `item` -/
theorem C13_same_outcome (S : Scheme) (item suf : Bytes) (hc : CompleteItem item) :
    decode S (item ++ suf) =
      (match decode S item with
       | .ok (r, _) => .ok (r, suf)
       | .error e => .error e) := by
  cases hd : decode S item with
  | error e => simp only; exact C13_prefix_local_err S item suf e hc hd
  | ok x =>
    obtain ⟨r, rest⟩ := x
    have := C13_complete_item_consumed S item r rest hc hd
    subst this
    simp only
    exact C13_prefix_local_ok S item suf r hd

/-- advance = the item's length -/
theorem C13_advance (S : Scheme) (buf : Bytes) (r : Record) (rest : Bytes)
    (h : decode S buf = .ok (r, rest)) : buf.length - rest.length = r.size ∧ r.encode ++ rest = buf := by
  have h1 := decode_used S buf r rest h
  exact ⟨by omega, decode_reencode S buf r rest h⟩

/-- consecutive records decode to the same records one would get individually -/
theorem C13_decode_many (S : Scheme) (rs : List Record) (hv : ∀ r ∈ rs, Valid S r) :
    decodeMany S (encodeAll rs) = .ok rs := by
  induction rs with
  | nil => unfold decodeMany encodeAll; simp
  | cons r rs ih =>
    have hr : Valid S r := hv r (List.mem_cons_self)
    have hne : (encodeAll (r :: rs)).isEmpty = false := by
      have := Record.encode_length_ge r
      show (r.encode ++ encodeAll rs).isEmpty = false
      cases hh : r.encode ++ encodeAll rs with
      | nil => simp at hh; rw [hh.1] at this; simp at this
      | cons a b => rfl
    rw [decodeMany]
    simp only [hne, Bool.false_eq_true, ↓reduceIte]
    have hd : decode S (encodeAll (r :: rs)) = .ok (r, encodeAll rs) := by
      show decode S (r.encode ++ encodeAll rs) = .ok (r, encodeAll rs)
      exact encode_decode_append S r (encodeAll rs) hr
    split
    · rename_i e he; rw [hd] at he; simp at he
    · rename_i r' rest' he
      rw [hd] at he
      simp only [Except.ok.injEq, Prod.mk.injEq] at he
      obtain ⟨rfl, rfl⟩ := he
      rw [ih (fun x hx => hv x (List.mem_cons_of_mem _ hx))]

/-- … and so does an RLP list of records (`Vec<Enr<K>>`), leaving what follows the list -/
theorem C13_decode_list (S : Scheme) (rs : List Record) (rest : Bytes) (hv : ∀ r ∈ rs, Valid S r)
    (hlen : (encodeAll rs).length < 2 ^ 64) :
    decodeList S (encList (encodeAll rs) ++ rest) = .ok (rs, rest) := by
  unfold decodeList
  rw [decodeBytes_encList _ _ hlen]
  simp only
  rw [C13_decode_many S rs hv]

/-- exactly: a buffer decodes as a sequence of records iff it is the concatenation of the encodings of
    valid records — and then those are the records (no other splitting, nothing dropped) -/
theorem C13_decode_many_iff (S : Scheme) (buf : Bytes) (rs : List Record) :
    decodeMany S buf = .ok rs ↔ (∀ r ∈ rs, Valid S r) ∧ encodeAll rs = buf :=
  decodeMany_iff S buf rs

/-- the same for an RLP list of records: what was decoded re-encodes to the list that was read -/
theorem C13_decode_list_spec (S : Scheme) (buf : Bytes) (rs : List Record) (rest : Bytes)
    (h : decodeList S buf = .ok (rs, rest)) :
    (∀ r ∈ rs, Valid S r) ∧ buf = encList (encodeAll rs) ++ rest :=
  decodeList_spec S buf rs rest h

/-- streams compose -/
theorem C13_decode_many_append (S : Scheme) (a b : Bytes) (ra rb : List Record)
    (ha : decodeMany S a = .ok ra) (hb : decodeMany S b = .ok rb) :
    decodeMany S (a ++ b) = .ok (ra ++ rb) :=
  decodeMany_append S a b ra rb ha hb

/-! ### non-vacuity -/

/-- the items used below, literally: the encodings of the toy records `r0`, `r1` (`r0` after
    `set_udp4(30303)`) and `r0Swapped`, which is `r0Bytes` with its two pairs exchanged -/
example : r0.encode = r0Bytes ∧ r1.encode = r1Bytes ∧
    r0Bytes = [209, 132, 1, 2, 3, 13, 1, 130, 105, 100, 130, 118, 52, 116, 131, 1, 2, 3] ∧
    r1Bytes = [216, 132, 1, 2, 3, 20, 2, 130, 105, 100, 130, 118, 52, 116, 131, 1, 2, 3,
      131, 117, 100, 112, 130, 118, 95] ∧
    r0Swapped = [209, 132, 1, 2, 3, 13, 1, 116, 131, 1, 2, 3, 130, 105, 100, 130, 118, 52] :=
  ⟨r0_encode, r1_encode, rfl, rfl, rfl⟩

/-- the encoding of `r0` is one complete RLP item: a list header announcing 17 bytes, and 17 bytes -/
example : CompleteItem r0Bytes := ⟨⟨true, 17⟩, r0Bytes.drop 1, r0Bytes_header, by decide⟩

/-- so is `r0Swapped` (the same item with the two pairs in the wrong order), which is rejected -/
example : CompleteItem r0Swapped := ⟨⟨true, 17⟩, r0Swapped.drop 1, r0Swapped_header, by decide⟩

/-- an incomplete item: the last byte is missing -/
example : ¬ CompleteItem r0Bytes.dropLast := by
  rintro ⟨h, r, hd, _⟩
  have : decodeHeader r0Bytes.dropLast = .error .inputTooShort := by decide
  rw [this] at hd
  cases hd

/-- what the decoder does on the two items alone -/
example : decode tinyS r0Bytes = .ok (r0, []) ∧
    decode tinyS r0Swapped = .error (.custom .unsorted) := by decide +kernel

/-- `C13_prefix_local_ok`: same record, buffer advanced by exactly the item … -/
example : decode tinyS (r0Bytes ++ [1, 2, 3]) = .ok (r0, [1, 2, 3]) :=
  C13_prefix_local_ok tinyS r0Bytes [1, 2, 3] r0 r0Bytes_decodes

/-- … also when what follows is another record … -/
example : decode tinyS (r0Bytes ++ r1Bytes) = .ok (r0, r1Bytes) :=
  C13_prefix_local_ok tinyS r0Bytes r1Bytes r0 r0Bytes_decodes

/-- … and the decoder, run on the concatenation, agrees -/
example : decode tinyS (r0Bytes ++ [1, 2, 3]) = .ok (r0, [1, 2, 3]) ∧
    decode tinyS (r0Bytes ++ r1Bytes) = .ok (r0, r1Bytes) := by decide +kernel

/-- `C13_prefix_local_err`: the same error, whatever follows -/
example : decode tinyS (r0Swapped ++ r1Bytes) = .error (.custom .unsorted) :=
  C13_prefix_local_err tinyS r0Swapped r1Bytes _ ⟨_, _, r0Swapped_header, by decide⟩ r0Swapped_rejected

example : decode tinyS (r0Swapped ++ r1Bytes) = .error (.custom .unsorted) := by decide +kernel

/-- why the error case needs a *complete* item: the truncated record fails with `InputTooShort`
    alone, and differently once bytes follow -/
example : decode tinyS r0Bytes.dropLast = .error .inputTooShort ∧
    decode tinyS (r0Bytes.dropLast ++ [4]) = .error (.custom .invalidSignature) := by decide +kernel

/-- `C13_complete_item_consumed`, `C13_same_outcome` (both branches), `C13_advance` -/
example : ([] : Bytes) = [] :=
  C13_complete_item_consumed tinyS r0Bytes r0 [] ⟨_, _, r0Bytes_header, by decide⟩ r0Bytes_decodes

example : decode tinyS (r0Bytes ++ [7]) = .ok (r0, [7]) := by
  have h := C13_same_outcome tinyS r0Bytes [7] ⟨_, _, r0Bytes_header, by decide⟩
  rw [r0Bytes_decodes] at h
  exact h

example : decode tinyS (r0Swapped ++ [7]) = .error (.custom .unsorted) := by
  have h := C13_same_outcome tinyS r0Swapped [7] ⟨_, _, r0Swapped_header, by decide⟩
  rw [r0Swapped_rejected] at h
  exact h

example : (r0Bytes ++ [1, 2, 3]).length - ([1, 2, 3] : Bytes).length = r0.size ∧
    r0.encode ++ [1, 2, 3] = r0Bytes ++ [1, 2, 3] :=
  C13_advance tinyS _ r0 _ (C13_prefix_local_ok tinyS r0Bytes [1, 2, 3] r0 r0Bytes_decodes)

/-- three consecutive records (`r0`, its update `r1`, the re-keyed `r2`): 68 bytes -/
example : encodeAll [r0, r1, r2] = r0Bytes ++ r1Bytes ++ r2Bytes := by decide

example : decodeMany tinyS (encodeAll [r0, r1, r2]) = .ok [r0, r1, r2] :=
  C13_decode_many tinyS [r0, r1, r2] r012_valid

example : decodeMany tinyS (r0.encode ++ r1.encode) = .ok [r0, r1] := by
  have h := C13_decode_many tinyS [r0, r1] (fun r hr => r012_valid r (by
    simp only [List.mem_cons, List.not_mem_nil, or_false] at hr ⊢
    rcases hr with h | h
    · exact .inl h
    · exact .inr (.inl h)))
  simpa [encodeAll] using h

/-- the loop, run on the literal bytes -/
example : decodeMany tinyS (r0Bytes ++ r1Bytes ++ r2Bytes) = .ok [r0, r1, r2] := by decide +kernel

/-- a stream with a bad record in second place fails as a whole, with that record's error -/
example : decodeMany tinyS (r0Bytes ++ r0Swapped ++ r2Bytes) = .error (.custom .unsorted) := by
  decide +kernel

/-- the RLP list of the three records (`Vec<Enr<K>>`): header `f8 44`, then the 68 bytes -/
example : encList (encodeAll [r0, r1, r2]) = [248, 68] ++ (r0Bytes ++ r1Bytes ++ r2Bytes) := by decide

example : decodeList tinyS (encList (encodeAll [r0, r1, r2]) ++ [9, 9]) = .ok ([r0, r1, r2], [9, 9]) :=
  C13_decode_list tinyS [r0, r1, r2] [9, 9] r012_valid (by decide)

example : decodeList tinyS ([248, 68] ++ (r0Bytes ++ r1Bytes ++ r2Bytes) ++ [9, 9]) =
    .ok ([r0, r1, r2], [9, 9]) := by decide +kernel

/-- `C13_decode_many_iff` / `C13_decode_list_spec`, from a run of the decoder to the specification -/
example : (∀ r ∈ [r0, r1], Valid tinyS r) ∧ encodeAll [r0, r1] = r0Bytes ++ r1Bytes :=
  (C13_decode_many_iff tinyS (r0Bytes ++ r1Bytes) [r0, r1]).1 (by decide +kernel)

example : (∀ r ∈ [r0, r1], Valid tinyS r) ∧
    [235] ++ (r0Bytes ++ r1Bytes) = encList (encodeAll [r0, r1]) ++ [] :=
  C13_decode_list_spec tinyS _ [r0, r1] [] (by decide +kernel)

/-- streams compose -/
example : decodeMany tinyS (r0Bytes ++ (r1Bytes ++ r2Bytes)) = .ok ([r0] ++ [r1, r2]) :=
  C13_decode_many_append tinyS r0Bytes (r1Bytes ++ r2Bytes) [r0] [r1, r2]
    (by decide +kernel) (by decide +kernel)

#print axioms C13_decode_many_iff
#print axioms C13_decode_list_spec
#print axioms C13_decode_many_append
#print axioms C13_prefix_local_ok
#print axioms C13_prefix_local_err
#print axioms C13_complete_item_consumed
#print axioms C13_same_outcome
#print axioms C13_advance
#print axioms C13_decode_many
#print axioms C13_decode_list

end EnrVerif
