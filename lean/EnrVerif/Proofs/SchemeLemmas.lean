/-
  Helper lemmas about the concrete key back-ends (`Schemes.lean`, `Secp256k1.lean`, `Ed25519.lean`,
  `Combined.lean`) used by `Props/C11.lean`, `Props/C15.lean`, `Props/C17.lean`.

  Nothing here unfolds the curve arithmetic: `Secp.liftX`, `Secp.fromXY`, `Ed.decompress`,
  `Secp.scalarMulG`, `keccak256` are treated as opaque functions.
-/
import EnrVerif.Model.Combined
import EnrVerif.Model.Spec
import EnrVerif.Proofs.CodecTheorems
import EnrVerif.Proofs.SigGuards

namespace EnrVerif

/-! ### big-endian padding -/

theorem beToNat_replicate_zero (k : Nat) : beToNat (List.replicate k (0 : UInt8)) = 0 := by
  induction k with
  | zero => rfl
  | succ k ih =>
    rw [List.replicate_succ, beToNat_cons, ih]
    simp

/-- left-padding with zero bytes: the fixed-width re-encoding of the value of `b` on `k` more bytes -/
theorem natToBeFixed_pad (k : Nat) (b : Bytes) :
    natToBeFixed (k + b.length) (beToNat b) = List.replicate k 0 ++ b := by
  have h := natToBeFixed_beToNat (List.replicate k 0 ++ b)
  rw [beToNat_append, beToNat_replicate_zero, List.length_append, List.length_replicate] at h
  simpa using h

/-! ### public-key encodings -/

theorem compress_length (P : Secp.Pt) : (Secp.compress P).length = 33 := by
  unfold Secp.compress
  rw [List.length_cons, natToBeFixed_length]

theorem edDecodePub_inv (b : Bytes) (A : Ed.EdPub) (h : Ed.decodePub b = some A) :
    A.bytes = b ∧ b.length = 32 := by
  unfold Ed.decodePub at h
  split at h
  · cases h
  · rename_i hl
    rw [Option.map_eq_some_iff] at h
    obtain ⟨P, _, hA⟩ := h
    subst hA
    exact ⟨rfl, by omega⟩

theorem head?_eq_some_of_toNat {tag : UInt8} {rest : Bytes} {n : Nat} (hn : n < 256)
    (h : tag.toNat = n) : (tag :: rest).head? = some (UInt8.ofNat n) := by
  have e : tag = UInt8.ofNat n := UInt8.toNat_inj.mp (by rw [h, toNat_ofNat_lt256 hn])
  rw [List.head?_cons, e]

/-- libsecp256k1 never accepts the "compact" tag `05`. -/
theorem decodePubLibsecp_tag5 (b : Bytes) (h : b.head? = some 5) :
    Secp.decodePubLibsecp b = none := by
  cases b with
  | nil => rfl
  | cons tag rest =>
    simp only [List.head?_cons, Option.some.injEq] at h
    subst h
    unfold Secp.decodePubLibsecp
    simp only
    have h5 : (5 : UInt8).toNat = 5 := rfl
    split
    · rw [if_neg (by rw [h5]; omega)]
    · split
      · rw [if_neg (by rw [h5]; omega)]
      · rfl

/-- The two secp256k1 public-key parsers (written from the two crates' rules) agree on every input
    except the 65-byte hybrid forms (tags `06`/`07`, libsecp only) and the compact tag `05`
    (k256 only; `enr` rejects it before calling k256). -/
theorem decodePub_k256_eq_libsecp' (b : Bytes)
    (hhyb : b.length = 65 → b.head? ≠ some 6 ∧ b.head? ≠ some 7) (h5 : b.head? ≠ some 5) :
    Secp.decodePubK256 b = Secp.decodePubLibsecp b := by
  cases b with
  | nil => rfl
  | cons tag rest =>
    have ht5 : tag.toNat ≠ 5 := fun h => h5 (head?_eq_some_of_toNat (n := 5) (by decide) h)
    have ht67 : rest.length = 64 → tag.toNat ≠ 6 ∧ tag.toNat ≠ 7 := by
      intro hl
      have := hhyb (by rw [List.length_cons, hl])
      exact ⟨fun h => this.1 (head?_eq_some_of_toNat (n := 6) (by decide) h),
             fun h => this.2 (head?_eq_some_of_toNat (n := 7) (by decide) h)⟩
    unfold Secp.decodePubK256 Secp.decodePubLibsecp
    simp only
    by_cases h23 : tag.toNat = 2 ∨ tag.toNat = 3
    · rw [if_pos h23]
      by_cases h32 : rest.length = 32
      · rw [if_neg (by omega), if_pos h32, if_pos h23]
      · rw [if_pos h32, if_neg h32]
        split
        · rw [if_neg (by omega)]
        · rfl
    · rw [if_neg h23, if_neg ht5]
      by_cases h4 : tag.toNat = 4
      · rw [if_pos h4]
        by_cases h64 : rest.length = 64
        · rw [if_neg (by omega), if_neg (by omega), if_pos h64, if_pos (Or.inl h4),
            if_neg (by omega)]
        · rw [if_pos h64, if_neg h64]
          split
          · first
            | rfl
            | rw [if_neg h23]
          · rfl
      · rw [if_neg h4]
        split
        · first
          | rfl
          | rw [if_neg h23]
        · split
          · rename_i h64
            have := ht67 h64
            rw [if_neg (by omega)]
          · rfl

/-! ### `enrToPublic` of the real schemes -/

/-- The secp256k1 entry, when it is a byte string, is not a 65-byte SEC1 form. -/
def SecpEntryNot65 (c : Content) : Prop :=
  ∀ raw b rest, Map.lookup c kSecp = some raw → decodeBytes raw false = .ok (b, rest) →
    b.length ≠ 65

/-- The secp256k1 entry is not a 65-byte *hybrid* (`06`/`07`) form — the only inputs on which
    k256 and libsecp256k1 disagree. -/
def SecpEntryNotHybrid (c : Content) : Prop :=
  ∀ raw b rest, Map.lookup c kSecp = some raw → decodeBytes raw false = .ok (b, rest) →
    b.length = 65 → b.head? ≠ some 6 ∧ b.head? ≠ some 7

theorem SecpEntryNot65.notHybrid {c : Content} (h : SecpEntryNot65 c) : SecpEntryNotHybrid c :=
  fun raw b rest h1 h2 h3 => absurd h3 (h raw b rest h1 h2)

theorem pubEntry_ok_inv (c : Content) (key b : Bytes) (h : pubEntry c key = .ok b) :
    ∃ raw rest, Map.lookup c key = some raw ∧ decodeBytes raw false = .ok (b, rest) := by
  unfold pubEntry at h
  split at h
  · cases h
  · rename_i raw hraw
    split at h
    · cases h
    · rename_i b' rest hd
      simp only [Except.ok.injEq] at h
      subst h
      exact ⟨raw, rest, hraw, hd⟩

theorem pubEntry_none (c : Content) (key : Bytes) (h : Map.lookup c key = none) :
    pubEntry c key = .error (.custom .unknownSignature) := by
  unfold pubEntry
  rw [h]

theorem pubEntry_local (c1 c2 : Content) (key : Bytes)
    (h : Map.lookup c1 key = Map.lookup c2 key) : pubEntry c1 key = pubEntry c2 key := by
  unfold pubEntry
  rw [h]

theorem enrToPublic_k256_eq_libsecp' (c : Content) (h : SecpEntryNotHybrid c) :
    k256S.enrToPublic c = libsecpS.enrToPublic c := by
  show secpEnrToPublic Secp.decodePubK256 true c = secpEnrToPublic Secp.decodePubLibsecp false c
  unfold secpEnrToPublic
  cases hp : pubEntry c kSecp with
  | error e => rfl
  | ok b =>
    obtain ⟨raw, rest, hraw, hd⟩ := pubEntry_ok_inv c kSecp b hp
    simp only [Bool.true_and, Bool.false_and, Bool.false_eq_true, if_false, beq_iff_eq]
    by_cases h5 : b.head? = some 5
    · rw [if_pos h5, decodePubLibsecp_tag5 b h5]
    · rw [if_neg h5, decodePub_k256_eq_libsecp' b (h raw b rest hraw hd) h5]

theorem secpEnrToPublic_ok_inv (dec : Bytes → Option Secp.Pt) (rc : Bool) (c : Content)
    (pk : Bytes) (h : secpEnrToPublic dec rc c = .ok pk) :
    ∃ b P, pubEntry c kSecp = .ok b ∧ dec b = some P ∧ pk = Secp.compress P := by
  unfold secpEnrToPublic at h
  split at h
  · cases h
  · rename_i b hb
    split at h
    · cases h
    · split at h
      · cases h
      · rename_i P hP
        simp only [Except.ok.injEq] at h
        exact ⟨b, P, hb, hP, h.symm⟩

theorem secpEnrToPublic_len (dec : Bytes → Option Secp.Pt) (rc : Bool) (c : Content) (pk : Bytes)
    (h : secpEnrToPublic dec rc c = .ok pk) : pk.length = 33 := by
  obtain ⟨_, P, _, _, rfl⟩ := secpEnrToPublic_ok_inv _ _ c pk h
  exact compress_length P

theorem edEnrToPublic_ok_inv (c : Content) (pk : Bytes) (h : edEnrToPublic c = .ok pk) :
    pubEntry c kEd = .ok pk ∧ pk.length = 32 ∧ ∃ A, Ed.decodePub pk = some A := by
  unfold edEnrToPublic at h
  split at h
  · cases h
  · rename_i b hb
    split at h
    · cases h
    · rename_i A hA
      simp only [Except.ok.injEq] at h
      obtain ⟨h1, h2⟩ := edDecodePub_inv b A hA
      rw [h1] at h
      subst h
      exact ⟨hb, h2, A, hA⟩

theorem edEnrToPublic_len (c : Content) (pk : Bytes) (h : edEnrToPublic c = .ok pk) :
    pk.length = 32 :=
  (edEnrToPublic_ok_inv c pk h).2.1

theorem combS_enrToPublic_of_k256 (c : Content) (pk : Bytes) (h : k256S.enrToPublic c = .ok pk) :
    combS.enrToPublic c = .ok pk := by
  show (match k256S.enrToPublic c with
      | .ok pk => .ok pk
      | .error _ => edEnrToPublic c) = Except.ok pk
  rw [h]

theorem comb_falls_back_to_ed (c : Content) (e : RlpErr) (h : k256S.enrToPublic c = .error e) :
    combS.enrToPublic c = edS.enrToPublic c := by
  show (match k256S.enrToPublic c with
      | .ok pk => .ok pk
      | .error _ => edEnrToPublic c) = edEnrToPublic c
  rw [h]

theorem combS_enrToPublic_cases (c : Content) (pk : Bytes) (h : combS.enrToPublic c = .ok pk) :
    (k256S.enrToPublic c = .ok pk ∧ pk.length = 33) ∨
    ((∃ e, k256S.enrToPublic c = .error e) ∧ edS.enrToPublic c = .ok pk ∧ pk.length = 32) := by
  cases hk : k256S.enrToPublic c with
  | ok pk' =>
    rw [combS_enrToPublic_of_k256 c pk' hk] at h
    have e : pk' = pk := Except.ok.inj h
    subst e
    exact Or.inl ⟨rfl, secpEnrToPublic_len _ _ c _ hk⟩
  | error e =>
    rw [comb_falls_back_to_ed c e hk] at h
    exact Or.inr ⟨⟨e, rfl⟩, h, edEnrToPublic_len c pk h⟩

theorem secpEnrToPublic_none (dec : Bytes → Option Secp.Pt) (rc : Bool) (c : Content)
    (h : Map.lookup c kSecp = none) :
    secpEnrToPublic dec rc c = .error (.custom .unknownSignature) := by
  unfold secpEnrToPublic
  rw [pubEntry_none c kSecp h]

theorem edEnrToPublic_none (c : Content) (h : Map.lookup c kEd = none) :
    edEnrToPublic c = .error (.custom .unknownSignature) := by
  unfold edEnrToPublic
  rw [pubEntry_none c kEd h]

/-! ### node ids and verification of `combS` on the two key shapes -/

theorem nodeIdOf_comb_secp (pk : Bytes) (h : pk.length = 33) :
    nodeIdOf combS pk = nodeIdOf k256S pk := by
  show keccak256 (if pk.length = 33 then secpUncompressed pk else pk) =
    keccak256 (secpUncompressed pk)
  rw [if_pos h]

theorem nodeIdOf_comb_ed (pk : Bytes) (h : pk.length ≠ 33) :
    nodeIdOf combS pk = nodeIdOf edS pk := by
  show keccak256 (if pk.length = 33 then secpUncompressed pk else pk) = keccak256 pk
  rw [if_neg h]

theorem verify_comb_secp (pk msg sig : Bytes) (h : pk.length = 33) :
    combS.verify pk msg sig = k256S.verify pk msg sig := by
  show (if pk.length = 33 then secpVerify pk msg sig else edVerify pk msg sig) = _
  rw [if_pos h]
  rfl

theorem verify_comb_ed (pk msg sig : Bytes) (h : pk.length ≠ 33) :
    combS.verify pk msg sig = edS.verify pk msg sig := by
  show (if pk.length = 33 then secpVerify pk msg sig else edVerify pk msg sig) = _
  rw [if_neg h]
  rfl

theorem except_isOk_iff {ε α : Type} (x : Except ε α) : x.isOk = true ↔ ∃ a, x = .ok a := by
  cases x with
  | ok a => exact ⟨fun _ => ⟨a, rfl⟩, fun _ => rfl⟩
  | error e =>
    constructor
    · intro h; cases h
    · rintro ⟨a, h⟩; cases h

/-! ### transferring acceptance between key types -/

/-- Only the `authentic` field of `Valid` depends on the key type. -/
theorem Valid.transfer {S T : Scheme} {r : Record} (h : Valid S r)
    (ha : ∃ pk, T.enrToPublic r.content = .ok pk ∧ r.nodeId = nodeIdOf T pk ∧
      T.verify pk r.rlpContent r.sig = true) : Valid T r :=
  ⟨h.seq_lt, h.sig_len, h.content, h.id_v4, h.size_le, ha⟩

/-- If every record valid for `S` is valid for `T`, whatever `S` decodes `T` decodes identically. -/
theorem decode_transfer (S T : Scheme) (buf : Bytes) (r : Record) (rest : Bytes)
    (h : decode S buf = .ok (r, rest)) (hv : Valid S r → Valid T r) :
    decode T buf = .ok (r, rest) := by
  rw [← decode_reencode S buf r rest h]
  exact encode_decode_append T r rest (hv (decode_valid S buf r rest h))

/-! ### the pairs a buffer carries, whichever the key type -/

/-- the content the decoder extracts from the payload of the outer list (scheme independent) -/
def bodyContent (payload : Bytes) : Option Content :=
  match decodeBytes payload false with
  | .error _ => none
  | .ok (_, p1) =>
    match decodeUint 8 p1 with
    | .error _ => none
    | .ok (_, p2) =>
      match decodePairs p2 none [] with
      | .error _ => none
      | .ok c => some c

/-- the content the decoder extracts from a buffer (scheme independent) -/
def contentOf (buf : Bytes) : Option Content :=
  match decodeBytes buf true with
  | .error _ => none
  | .ok (payload, _) => bodyContent payload

theorem bodyContent_of_decodeBody (S : Scheme) (payload : Bytes) (r : Record)
    (h : decodeBody S payload = .ok r) : bodyContent payload = some r.content := by
  unfold decodeBody at h
  unfold bodyContent
  split at h
  · cases h
  · split at h
    · cases h
    · rename_i sig p1 hsig
      split at h
      · cases h
      · split at h
        · cases h
        · rename_i seq p2 hseq
          split at h
          · cases h
          · rename_i content hpairs
            split at h
            · cases h
            · simp only at h
              split at h
              · simp only [Except.ok.injEq] at h
                subst h
                simp only [hsig, hseq, hpairs]
              · cases h

theorem contentOf_of_decode (S : Scheme) (buf : Bytes) (r : Record) (rest : Bytes)
    (h : decode S buf = .ok (r, rest)) : contentOf buf = some r.content := by
  unfold decode at h
  unfold contentOf
  split at h
  · cases h
  · split at h
    · cases h
    · split at h
      · cases h
      · rename_i payload rest' hb
        split at h
        · cases h
        · rename_i r' hbody
          simp only [Except.ok.injEq, Prod.mk.injEq] at h
          obtain ⟨rfl, _⟩ := h
          simp only [hb]
          exact bodyContent_of_decodeBody S payload r' hbody

theorem contentOf_encode (S : Scheme) (r : Record) (rest : Bytes) (hv : Valid S r) :
    contentOf (r.encode ++ rest) = some r.content :=
  contentOf_of_decode S _ r rest (encode_decode_append S r rest hv)

/-- `decodeBody` uses the key type's `enrToPublic` only on the content it extracted. -/
theorem decodeBody_congr (S : Scheme) (f : Content → Except RlpErr S.PK) (payload : Bytes)
    (h : ∀ c, bodyContent payload = some c → S.enrToPublic c = f c) :
    decodeBody S payload = decodeBody { S with enrToPublic := f } payload := by
  unfold decodeBody
  split
  · rfl
  · cases h1 : decodeBytes payload false with
    | error e => rfl
    | ok v =>
      obtain ⟨sig, p1⟩ := v
      simp only
      split
      · rfl
      · cases h2 : decodeUint 8 p1 with
        | error e => rfl
        | ok v2 =>
          obtain ⟨seq, p2⟩ := v2
          simp only
          cases h3 : decodePairs p2 none [] with
          | error e => rfl
          | ok c =>
            have hc := h c (by unfold bodyContent; simp only [h1, h2, h3])
            simp only
            rw [← hc]
            cases h4 : S.enrToPublic c with
            | error e => rfl
            | ok pk =>
              simp only [Record.verify, nodeIdOf]
              rw [← hc, h4]

theorem decode_congr (S : Scheme) (f : Content → Except RlpErr S.PK) (buf : Bytes)
    (h : ∀ c, contentOf buf = some c → S.enrToPublic c = f c) :
    decode S buf = decode { S with enrToPublic := f } buf := by
  unfold decode
  cases h1 : decodeHeader buf with
  | error e => rfl
  | ok v =>
    obtain ⟨hd, item⟩ := v
    simp only
    split
    · rfl
    · cases h2 : decodeBytes buf true with
      | error e => rfl
      | ok v2 =>
        obtain ⟨payload, rest⟩ := v2
        simp only
        rw [decodeBody_congr S f payload (fun c hc => h c (by unfold contentOf; simp only [h2, hc]))]

/-! ### `Scheme.Lawful` for the built-in key types

  The three laws hold unconditionally for `k256S`, `libsecpS`, `edS`, `combS` (and for the
  harness's `toyS`); curve arithmetic and Keccak are never unfolded.  The per-key length bound
  `KeyOK` holds for every key `enrToPublic` can return. -/

theorem k256S_pub_inj (a b : k256S.PK) (_h : k256S.enrKey a = k256S.enrKey b)
    (h : k256S.encodePub a = k256S.encodePub b) : a = b := h
theorem libsecpS_pub_inj (a b : libsecpS.PK) (_h : libsecpS.enrKey a = libsecpS.enrKey b)
    (h : libsecpS.encodePub a = libsecpS.encodePub b) : a = b := h
theorem edS_pub_inj (a b : edS.PK) (_h : edS.enrKey a = edS.enrKey b)
    (h : edS.encodePub a = edS.encodePub b) : a = b := h
theorem combS_pub_inj (a b : combS.PK) (_h : combS.enrKey a = combS.enrKey b)
    (h : combS.encodePub a = combS.encodePub b) : a = b := h

theorem kSecp_not_reserved :
    kSecp ≠ kId ∧ isPortKey kSecp = false ∧ kSecp ≠ kIp ∧ kSecp ≠ kIp6 := by decide
theorem kEd_not_reserved :
    kEd ≠ kId ∧ isPortKey kEd = false ∧ kEd ≠ kIp ∧ kEd ≠ kIp6 := by decide

theorem k256S_key_not_reserved (pk : k256S.PK) : k256S.enrKey pk ≠ kId ∧
    isPortKey (k256S.enrKey pk) = false ∧ k256S.enrKey pk ≠ kIp ∧ k256S.enrKey pk ≠ kIp6 :=
  kSecp_not_reserved
theorem libsecpS_key_not_reserved (pk : libsecpS.PK) : libsecpS.enrKey pk ≠ kId ∧
    isPortKey (libsecpS.enrKey pk) = false ∧ libsecpS.enrKey pk ≠ kIp ∧
    libsecpS.enrKey pk ≠ kIp6 :=
  kSecp_not_reserved
theorem edS_key_not_reserved (pk : edS.PK) : edS.enrKey pk ≠ kId ∧
    isPortKey (edS.enrKey pk) = false ∧ edS.enrKey pk ≠ kIp ∧ edS.enrKey pk ≠ kIp6 :=
  kEd_not_reserved
theorem combS_key_not_reserved (pk : combS.PK) : combS.enrKey pk ≠ kId ∧
    isPortKey (combS.enrKey pk) = false ∧ combS.enrKey pk ≠ kIp ∧ combS.enrKey pk ≠ kIp6 := by
  show (if pk.length = 33 then kSecp else kEd) ≠ kId ∧
    isPortKey (if pk.length = 33 then kSecp else kEd) = false ∧
    (if pk.length = 33 then kSecp else kEd) ≠ kIp ∧ (if pk.length = 33 then kSecp else kEd) ≠ kIp6
  split
  · exact kSecp_not_reserved
  · exact kEd_not_reserved

theorem secpEnrToPublic_local (dec : Bytes → Option Secp.Pt) (rc : Bool) (c1 c2 : Content)
    (h : Map.lookup c1 kSecp = Map.lookup c2 kSecp) :
    secpEnrToPublic dec rc c1 = secpEnrToPublic dec rc c2 := by
  unfold secpEnrToPublic
  rw [pubEntry_local c1 c2 kSecp h]

theorem edEnrToPublic_local (c1 c2 : Content) (h : Map.lookup c1 kEd = Map.lookup c2 kEd) :
    edEnrToPublic c1 = edEnrToPublic c2 := by
  unfold edEnrToPublic
  rw [pubEntry_local c1 c2 kEd h]

theorem k256S_pub_local (c1 c2 : Content)
    (h : ∀ pk : k256S.PK, Map.lookup c1 (k256S.enrKey pk) = Map.lookup c2 (k256S.enrKey pk)) :
    k256S.enrToPublic c1 = k256S.enrToPublic c2 :=
  secpEnrToPublic_local _ _ c1 c2 (h [])

theorem libsecpS_pub_local (c1 c2 : Content)
    (h : ∀ pk : libsecpS.PK,
      Map.lookup c1 (libsecpS.enrKey pk) = Map.lookup c2 (libsecpS.enrKey pk)) :
    libsecpS.enrToPublic c1 = libsecpS.enrToPublic c2 :=
  secpEnrToPublic_local _ _ c1 c2 (h [])

theorem edS_pub_local (c1 c2 : Content)
    (h : ∀ pk : edS.PK, Map.lookup c1 (edS.enrKey pk) = Map.lookup c2 (edS.enrKey pk)) :
    edS.enrToPublic c1 = edS.enrToPublic c2 :=
  edEnrToPublic_local c1 c2 (h [])

theorem combS_pub_local (c1 c2 : Content)
    (h : ∀ pk : combS.PK, Map.lookup c1 (combS.enrKey pk) = Map.lookup c2 (combS.enrKey pk)) :
    combS.enrToPublic c1 = combS.enrToPublic c2 := by
  have hs : Map.lookup c1 kSecp = Map.lookup c2 kSecp := h (List.replicate 33 0)
  have he : Map.lookup c1 kEd = Map.lookup c2 kEd := h []
  have hk := k256S_pub_local c1 c2 (fun _ => hs)
  cases h1 : k256S.enrToPublic c1 with
  | ok pk =>
    rw [combS_enrToPublic_of_k256 c1 pk h1, combS_enrToPublic_of_k256 c2 pk (by rw [← hk]; exact h1)]
  | error e =>
    rw [comb_falls_back_to_ed c1 e h1, comb_falls_back_to_ed c2 e (by rw [← hk]; exact h1)]
    exact edEnrToPublic_local c1 c2 he

/-- every key `enr_to_public` can return is a 33-byte (secp256k1) resp. 32-byte (ed25519) string -/
theorem k256S_enrToPublic_len (c : Content) (pk : Bytes) (h : k256S.enrToPublic c = .ok pk) :
    pk.length = 33 := secpEnrToPublic_len _ _ c pk h
theorem libsecpS_enrToPublic_len (c : Content) (pk : Bytes)
    (h : libsecpS.enrToPublic c = .ok pk) : pk.length = 33 := secpEnrToPublic_len _ _ c pk h
theorem edS_enrToPublic_len (c : Content) (pk : Bytes) (h : edS.enrToPublic c = .ok pk) :
    pk.length = 32 := edEnrToPublic_len c pk h
theorem combS_enrToPublic_len (c : Content) (pk : Bytes) (h : combS.enrToPublic c = .ok pk) :
    pk.length = 33 ∨ pk.length = 32 := by
  rcases combS_enrToPublic_cases c pk h with ⟨_, hl⟩ | ⟨_, _, hl⟩
  · exact Or.inl hl
  · exact Or.inr hl

/-- `KeyOK` holds for every key the key type can read back from a record (33 resp. 32 bytes), in
    particular for the record's own key when an update is signed with it -/
theorem k256S_keyOK_of_enrToPublic (c : Content) (pk : k256S.PK)
    (h : k256S.enrToPublic c = .ok pk) : KeyOK k256S pk := by
  have hl : (k256S.encodePub pk).length = 33 := k256S_enrToPublic_len c pk h
  exact ⟨by rw [hl]; decide, show kSecp.length < 2 ^ 64 by decide⟩
theorem libsecpS_keyOK_of_enrToPublic (c : Content) (pk : libsecpS.PK)
    (h : libsecpS.enrToPublic c = .ok pk) : KeyOK libsecpS pk := by
  have hl : (libsecpS.encodePub pk).length = 33 := libsecpS_enrToPublic_len c pk h
  exact ⟨by rw [hl]; decide, show kSecp.length < 2 ^ 64 by decide⟩
theorem edS_keyOK_of_enrToPublic (c : Content) (pk : edS.PK) (h : edS.enrToPublic c = .ok pk) :
    KeyOK edS pk := by
  have hl : (edS.encodePub pk).length = 32 := edS_enrToPublic_len c pk h
  exact ⟨by rw [hl]; decide, show kEd.length < 2 ^ 64 by decide⟩
theorem combS_keyOK_of_enrToPublic (c : Content) (pk : combS.PK)
    (h : combS.enrToPublic c = .ok pk) : KeyOK combS pk := by
  have hl : (combS.encodePub pk).length = 33 ∨ (combS.encodePub pk).length = 32 :=
    combS_enrToPublic_len c pk h
  refine ⟨by rcases hl with hl | hl <;> rw [hl] <;> decide, ?_⟩
  show (if pk.length = 33 then kSecp else kEd).length < 2 ^ 64
  split <;> decide

/-- `KeyOK` for any key of a plausible length (every real key is 32 or 33 bytes long) -/
theorem k256S_keyOK (pk : k256S.PK) (h : pk.length < 2 ^ 64) : KeyOK k256S pk :=
  ⟨h, show kSecp.length < 2 ^ 64 by decide⟩
theorem libsecpS_keyOK (pk : libsecpS.PK) (h : pk.length < 2 ^ 64) : KeyOK libsecpS pk :=
  ⟨h, show kSecp.length < 2 ^ 64 by decide⟩
theorem edS_keyOK (pk : edS.PK) (h : pk.length < 2 ^ 64) : KeyOK edS pk :=
  ⟨h, show kEd.length < 2 ^ 64 by decide⟩
theorem combS_keyOK (pk : combS.PK) (h : pk.length < 2 ^ 64) : KeyOK combS pk := by
  refine ⟨h, ?_⟩
  show (if pk.length = 33 then kSecp else kEd).length < 2 ^ 64
  split <;> decide

/-- The scheme laws hold for the four built-in key types. -/
theorem k256S_lawful : k256S.Lawful :=
  ⟨k256S_pub_inj, k256S_key_not_reserved, k256S_pub_local⟩
theorem libsecpS_lawful : libsecpS.Lawful :=
  ⟨libsecpS_pub_inj, libsecpS_key_not_reserved, libsecpS_pub_local⟩
theorem edS_lawful : edS.Lawful :=
  ⟨edS_pub_inj, edS_key_not_reserved, edS_pub_local⟩
theorem combS_lawful : combS.Lawful :=
  ⟨combS_pub_inj, combS_key_not_reserved, combS_pub_local⟩

/-- … and for the toy scheme of the differential harness (Keccak stays opaque). -/
theorem toyS_lawful : toyS.Lawful where
  pub_inj := fun _ _ _ h => h
  key_not_reserved := fun _ =>
    (by decide : kToy ≠ kId ∧ isPortKey kToy = false ∧ kToy ≠ kIp ∧ kToy ≠ kIp6)
  pub_local := by
    intro c1 c2 h
    have h' : Map.lookup c1 kToy = Map.lookup c2 kToy := h []
    show toyEnrToPublic c1 = toyEnrToPublic c2
    unfold toyEnrToPublic
    rw [pubEntry_local c1 c2 kToy h']

theorem toyS_keyOK_of_enrToPublic (c : Content) (pk : toyS.PK) (h : toyS.enrToPublic c = .ok pk) :
    KeyOK toyS pk := by
  have h' : toyEnrToPublic c = .ok pk := h
  unfold toyEnrToPublic at h'
  split at h'
  · cases h'
  · split at h'
    · rename_i b _ hl
      have e : b = pk := by injection h'
      subst e
      exact ⟨show b.length < 2 ^ 64 by rw [hl]; decide, show kToy.length < 2 ^ 64 by decide⟩
    · cases h'

end EnrVerif
