/-
  Helper lemmas about the concrete key back-ends (`Schemes.lean`, `Secp256k1.lean`, `Ed25519.lean`,
  `Combined.lean`) used by `Props/C11.lean`, `Props/C15.lean`, `Props/C17.lean`.

  Nothing here unfolds the curve arithmetic: `Secp.liftX`, `Secp.fromXY`, `Ed.decompress`,
  `Secp.scalarMulG`, `keccak256` are treated as opaque functions.
-/
import EnrVerif.Model.Combined
import EnrVerif.Model.Spec
import EnrVerif.Proofs.CodecTheorems
import EnrVerif.Proofs.SigGuards

namespace EnrVerif

/-! ### big-endian padding -/

theorem beToNat_replicate_zero (k : Nat) : beToNat (List.replicate k (0 : UInt8)) = 0 := by
  induction k with
  | zero => rfl
  | succ k ih =>
    rw [List.replicate_succ, beToNat_cons, ih]
    simp

/-- left-padding with zero bytes: the fixed-width re-encoding of the value of `b` on `k` more bytes -/
theorem natToBeFixed_pad (k : Nat) (b : Bytes) :
    natToBeFixed (k + b.length) (beToNat b) = List.replicate k 0 ++ b := by
  have h := natToBeFixed_beToNat (List.replicate k 0 ++ b)
  rw [beToNat_append, beToNat_replicate_zero, List.length_append, List.length_replicate] at h
  simpa using h

end EnrVerif
