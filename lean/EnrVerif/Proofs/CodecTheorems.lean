/-
  The codec theorems: canonicity and round trips of the binary record codec (C01, C02, C04, C05,
  C13, C15) and of the text form (C12).  The value-level (A) and pairs-loop (B) theorems are in
  `Proofs/DecodeLemmas.lean` (`decodeValue_reencode`, `decodeValue_valueOK`,
  `decodeValue_of_valueOK`, `decodeValue_append`, `checkReserved_valueOK`, `valueOK_checkReserved`,
  `valueOK_ne_nil`, `decodePairs_spec`, `decodePairs_nil_spec`, `decodePairs_complete`).

  Everything here holds for an arbitrary `S : Scheme`; no law of the scheme is used.
-/
import EnrVerif.Model.Text
import EnrVerif.Proofs.DecodeLemmas
import EnrVerif.Proofs.Base64Lemmas

namespace EnrVerif

/-! ### C. whole record -/

/-- C04: the decoder is canonical: re-encoding the decoded record gives back exactly the bytes
    consumed. -/
theorem decode_reencode (S : Scheme) (buf : Bytes) (r : Record) (rest : Bytes)
    (h : decode S buf = .ok (r, rest)) : r.encode ++ rest = buf := by
  obtain ⟨payload, hbuf, _, _, hbody⟩ := decode_ok_inv S buf r rest h
  obtain ⟨hp, _⟩ := decodeBody_ok_inv S payload r hbody
  rw [hbuf, hp]
  rfl

/-- C05: every decoded record satisfies the record invariant. -/
theorem decode_valid (S : Scheme) (buf : Bytes) (r : Record) (rest : Bytes)
    (h : decode S buf = .ok (r, rest)) : Valid S r := by
  obtain ⟨payload, hbuf, _, hsz, hbody⟩ := decode_ok_inv S buf r rest h
  obtain ⟨hp, hsig, hseq, hc, hver, pk, hpk, hnode⟩ := decodeBody_ok_inv S payload r hbody
  obtain ⟨hid, pk', hpk', hv⟩ := verify_ok_true_inv S r hc hver
  refine ⟨hseq, hsig, hc, hid, ?_, pk, hpk, hnode, ?_⟩
  · unfold Record.size Record.encode
    rw [← hp]; exact hsz
  · rw [hpk] at hpk'
    simp only [Except.ok.injEq] at hpk'
    subst hpk'
    exact hv

/-- C01: a decoded record always reports itself as verifying. -/
theorem decode_verifies (S : Scheme) (buf : Bytes) (r : Record) (rest : Bytes)
    (h : decode S buf = .ok (r, rest)) : r.verify S = .ok true := by
  obtain ⟨payload, _, _, _, hbody⟩ := decode_ok_inv S buf r rest h
  exact (decodeBody_ok_inv S payload r hbody).2.2.2.2.1

theorem Valid.payload_length_lt {S : Scheme} {r : Record} (h : Valid S r) :
    (encBytes r.sig ++ encUint r.seq ++ Record.pairsBytes r.content).length < 2 ^ 64 := by
  have h1 := h.size_le
  unfold Record.size Record.encode at h1
  rw [encList_length] at h1
  unfold MAX_ENR_SIZE at h1
  omega

/-- Prefix form of C4: a valid record's encoding followed by anything decodes to the record and
    leaves the rest. -/
theorem encode_decode_append (S : Scheme) (r : Record) (rest : Bytes) (h : Valid S r) :
    decode S (r.encode ++ rest) = .ok (r, rest) := by
  unfold Record.encode
  rw [decode_encList_eq S _ rest h.payload_length_lt]
  rw [if_neg (by have := h.size_le; unfold Record.size Record.encode at this; omega)]
  rw [decodeBody_of_valid S r h]

/-- C04/C05: the encoding of a valid record is accepted again and yields identical fields. -/
theorem encode_decode (S : Scheme) (r : Record) (h : Valid S r) :
    decode S r.encode = .ok (r, []) := by
  have := encode_decode_append S r [] h
  rwa [List.append_nil] at this

/-- C07: the number of bytes consumed is the record's size. -/
theorem decode_used (S : Scheme) (buf : Bytes) (r : Record) (rest : Bytes)
    (h : decode S buf = .ok (r, rest)) : buf.length = r.size + rest.length := by
  rw [← decode_reencode S buf r rest h, List.length_append]
  rfl

/-- C13 (success direction, general form): decoding only looks at the item. -/
theorem decode_append (S : Scheme) (buf suf : Bytes) (r : Record) (rest : Bytes)
    (h : decode S buf = .ok (r, rest)) : decode S (buf ++ suf) = .ok (r, rest ++ suf) := by
  have hv := decode_valid S buf r rest h
  rw [← decode_reencode S buf r rest h, List.append_assoc]
  exact encode_decode_append S r (rest ++ suf) hv

theorem decode_prefix_local (S : Scheme) (item suf : Bytes) (r : Record)
    (h : decode S item = .ok (r, [])) : decode S (item ++ suf) = .ok (r, suf) := by
  simpa using decode_append S item suf r [] h

/-- C13 (error direction): if the item is complete (its header decodes and the payload is exactly
    the rest of the buffer), a rejection of the item is a rejection, *with the same error*, of the
    item followed by anything. -/
theorem decode_prefix_local_err_eq (S : Scheme) (item suf : Bytes) (e : RlpErr)
    (hc : ∃ h r, decodeHeader item = .ok (h, r) ∧ r.length = h.len)
    (h : decode S item = .error e) : decode S (item ++ suf) = .error e := by
  obtain ⟨hd, r, hh, hlen⟩ := hc
  have hle := (decodeHeader_rest_le item hd r hh).1
  unfold decode at h ⊢
  rw [hh] at h
  rw [decodeHeader_append item suf hd r hh]
  simp only at h ⊢
  have hsz : (item ++ suf).length - (r ++ suf).length = item.length - r.length := by
    simp only [List.length_append]; omega
  rw [hsz]
  split at h
  · rename_i hgt; rw [if_pos hgt]; exact h
  · rename_i hgt
    rw [if_neg hgt]
    rw [decodeBytes_of_header true hh] at h
    rw [decodeBytes_of_header true (decodeHeader_append item suf hd r hh)]
    cases hl : hd.list with
    | false =>
      simp only [hl, if_true] at h ⊢
      exact h
    | true =>
      have e1 : List.take hd.len (r ++ suf) = List.take hd.len r :=
        List.take_append_of_le_length (by omega)
      simp only [hl, bne_self_eq_false, Bool.false_eq_true, if_false, e1] at h ⊢
      split at h
      · exact h
      · cases h

theorem decode_prefix_local_err (S : Scheme) (item suf : Bytes) (e : RlpErr)
    (hc : ∃ h r, decodeHeader item = .ok (h, r) ∧ r.length = h.len)
    (h : decode S item = .error e) : ∃ e', decode S (item ++ suf) = .error e' :=
  ⟨e, decode_prefix_local_err_eq S item suf e hc h⟩

/-- C02: the decoder accepts exactly the well-formed byte strings. -/
theorem decode_iff_wellformed (S : Scheme) (buf : Bytes) :
    (∃ r, decode S buf = .ok (r, [])) ↔ WellFormed S buf := by
  constructor
  · rintro ⟨r, h⟩
    have hv := decode_valid S buf r [] h
    have hre := decode_reencode S buf r [] h
    rw [List.append_nil] at hre
    obtain ⟨pk, hpk, _, hver⟩ := hv.authentic
    refine ⟨r.sig, r.seq, r.content, hre.symm, ?_, hv.seq_lt, hv.content, hv.id_v4, pk, hpk, hver⟩
    rw [← hre]; exact hv.size_le
  · rintro ⟨sig, seq, c, hbuf, hsz, hseq, hc, hid, pk, hpk, hver⟩
    let r : Record := { seq := seq, nodeId := nodeIdOf S pk, content := c, sig := sig }
    have henc : r.encode = buf := hbuf.symm
    have hv : Valid S r := by
      refine ⟨hseq, ?_, hc, hid, ?_, pk, hpk, rfl, hver⟩
      · have h1 : r.encode.length ≤ MAX_ENR_SIZE := by rw [henc]; exact hsz
        unfold Record.encode at h1
        rw [encList_length] at h1
        simp only [List.length_append] at h1
        have h2 : sig.length ≤ (encBytes r.sig).length := encBytes_length_ge sig
        show sig.length < 2 ^ 64
        unfold MAX_ENR_SIZE at h1
        omega
      · unfold Record.size; rw [henc]; exact hsz
    exact ⟨r, by rw [← henc]; exact encode_decode S r hv⟩

/-! ### injectivity of the signed payload and of the encoding -/

theorem seq_pairs_injective (s1 s2 : Nat) (c1 c2 : Content)
    (h1 : ContentOK c1) (h2 : ContentOK c2) (hs1 : s1 < 2 ^ 64) (hs2 : s2 < 2 ^ 64)
    (h : encUint s1 ++ Record.pairsBytes c1 = encUint s2 ++ Record.pairsBytes c2) :
    s1 = s2 ∧ c1 = c2 := by
  have d1 := decodeUint_encUint 8 s1 (Record.pairsBytes c1) (by omega)
    (by rw [← two64_256]; exact hs1)
  have d2 := decodeUint_encUint 8 s2 (Record.pairsBytes c2) (by omega)
    (by rw [← two64_256]; exact hs2)
  rw [h, d2] at d1
  simp only [Except.ok.injEq, Prod.mk.injEq] at d1
  obtain ⟨hs, hp⟩ := d1
  have p1 := decodePairs_complete c1 h1
  have p2 := decodePairs_complete c2 h2
  rw [← hp, p2] at p1
  simp only [Except.ok.injEq] at p1
  exact ⟨hs.symm, p1.symm⟩

/-- C01/C15: the signed payload determines the sequence number and the pairs. -/
theorem payload_injective (r1 r2 : Record)
    (h1 : ContentOK r1.content) (h2 : ContentOK r2.content)
    (hs1 : r1.seq < 2 ^ 64) (hs2 : r2.seq < 2 ^ 64)
    (h : r1.rlpContent = r2.rlpContent) : r1.seq = r2.seq ∧ r1.content = r2.content := by
  unfold Record.rlpContent at h
  exact seq_pairs_injective _ _ _ _ h1 h2 hs1 hs2 (encList_injective h)

theorem compareContent_iff (r1 r2 : Record)
    (h1 : ContentOK r1.content) (h2 : ContentOK r2.content)
    (hs1 : r1.seq < 2 ^ 64) (hs2 : r2.seq < 2 ^ 64) :
    r1.compareContent r2 = true ↔ r1.seq = r2.seq ∧ r1.content = r2.content := by
  unfold Record.compareContent
  simp only [decide_eq_true_eq]
  constructor
  · exact payload_injective r1 r2 h1 h2 hs1 hs2
  · rintro ⟨hs, hc⟩
    unfold Record.rlpContent
    rw [hs, hc]

theorem encode_injective (r1 r2 : Record)
    (h1 : ContentOK r1.content) (h2 : ContentOK r2.content)
    (hs1 : r1.seq < 2 ^ 64) (hs2 : r2.seq < 2 ^ 64)
    (hg1 : r1.sig.length < 2 ^ 64) (hg2 : r2.sig.length < 2 ^ 64)
    (h : r1.encode = r2.encode) :
    r1.seq = r2.seq ∧ r1.content = r2.content ∧ r1.sig = r2.sig := by
  unfold Record.encode at h
  have hp := encList_injective h
  rw [List.append_assoc, List.append_assoc] at hp
  have d1 := decodeBytes_encBytes r1.sig (encUint r1.seq ++ Record.pairsBytes r1.content) hg1
  have d2 := decodeBytes_encBytes r2.sig (encUint r2.seq ++ Record.pairsBytes r2.content) hg2
  rw [hp, d2] at d1
  simp only [Except.ok.injEq, Prod.mk.injEq] at d1
  obtain ⟨hsig, hrest⟩ := d1
  obtain ⟨hs, hc⟩ := seq_pairs_injective _ _ _ _ h1 h2 hs1 hs2 hrest.symm
  exact ⟨hs, hc, hsig.symm⟩

/-- Two valid records with the same encoding are the same record (the node id is a function of
    the content). -/
theorem encode_injective_valid (S : Scheme) (r1 r2 : Record) (h1 : Valid S r1) (h2 : Valid S r2)
    (h : r1.encode = r2.encode) : r1 = r2 := by
  have d1 := encode_decode S r1 h1
  rw [h, encode_decode S r2 h2] at d1
  simp only [Except.ok.injEq, Prod.mk.injEq, and_true] at d1
  exact d1.symm

/-- C01 (tamper): if the signature does not verify over the payload made of exactly this sequence
    number and these pairs, under the public key the pairs name, the decoder rejects.
    Stated under `ContentOK c` (for other `c` the byte string either is rejected for another reason
    or is the encoding of a *different* content) and for payloads below `2^64` bytes (the RLP
    length field; always true for anything that fits in memory; it implies `sig.length < 2^64`).
    Without the bound the statement is false for an arbitrary scheme: the first byte of
    `encodeHeader` wraps modulo 256 once the length needs more than 8 bytes, so an astronomically
    long payload (≥ 256^200 bytes) starts with a byte that is again a list header and is parsed
    as some other, short, record. -/
theorem tamper_rejected (S : Scheme) (sig : Bytes) (seq : Nat) (c : Content)
    (hc : ContentOK c) (hseq : seq < 2 ^ 64)
    (hlen : (encBytes sig ++ encUint seq ++ Record.pairsBytes c).length < 2 ^ 64)
    (hbad : ∀ pk, S.enrToPublic c = .ok pk →
      S.verify pk (encList (encUint seq ++ Record.pairsBytes c)) sig = false) :
    ∀ rest, ∃ e, decode S (encList (encBytes sig ++ encUint seq ++ Record.pairsBytes c) ++ rest)
      = .error e := by
  intro rest
  have hsig : sig.length < 2 ^ 64 := by
    have := encBytes_length_ge sig
    simp only [List.length_append] at hlen
    omega
  cases hd : decode S (encList (encBytes sig ++ encUint seq ++ Record.pairsBytes c) ++ rest) with
  | error e => exact ⟨e, rfl⟩
  | ok v =>
    exfalso
    obtain ⟨r, rest'⟩ := v
    have hv := decode_valid S _ r rest' hd
    rw [decode_encList_eq S _ rest hlen] at hd
    split at hd
    · cases hd
    · split at hd
      · cases hd
      · rename_i r' hbody
        simp only [Except.ok.injEq, Prod.mk.injEq] at hd
        obtain ⟨rfl, _⟩ := hd
        obtain ⟨hp, _⟩ := decodeBody_ok_inv S _ r' hbody
        rw [List.append_assoc, List.append_assoc] at hp
        have d1 := decodeBytes_encBytes sig (encUint seq ++ Record.pairsBytes c) hsig
        rw [hp, decodeBytes_encBytes _ _ hv.sig_len] at d1
        simp only [Except.ok.injEq, Prod.mk.injEq] at d1
        obtain ⟨hsigeq, hrest⟩ := d1
        obtain ⟨hs, hcc⟩ := seq_pairs_injective _ _ _ _ hv.content hc hv.seq_lt hseq hrest
        obtain ⟨pk, hpk, _, hver⟩ := hv.authentic
        have := hbad pk (by rw [← hcc]; exact hpk)
        unfold Record.rlpContent at hver
        rw [hs, hcc, hsigeq, this] at hver
        cases hver

/-! ### D. text form (C12) -/

theorem toText_form (r : Record) : r.toText = enrPrefix ++ b64enc r.encode := rfl

theorem enrPrefix_isPrefixOf_append (x : Bytes) : enrPrefix.isPrefixOf (enrPrefix ++ x) = true := by
  rw [List.isPrefixOf_iff_prefix]
  exact List.prefix_append _ _

theorem enrPrefix_not_prefix_b64 (x : Bytes) : enrPrefix.isPrefixOf (b64enc x) = false := by
  cases hp : enrPrefix.isPrefixOf (b64enc x) with
  | false => rfl
  | true =>
    exfalso
    rw [List.isPrefixOf_iff_prefix] at hp
    obtain ⟨t, ht⟩ := hp
    have hm : (58 : UInt8) ∈ b64enc x := by
      rw [← ht]; simp [enrPrefix]
    have := b64enc_alphabet x 58 hm
    rw [b64_colon_not_alphabet] at this
    cases this

theorem Record.encode_length_ge (r : Record) : 3 ≤ r.encode.length := by
  unfold Record.encode
  rw [encList_length]
  have h1 := encodeHeader_length_pos true
    (encBytes r.sig ++ encUint r.seq ++ Record.pairsBytes r.content).length
  have h2 : 0 < (encBytes r.sig).length := List.length_pos_iff.mpr (encBytes_ne_nil _)
  have h3 : 0 < (encUint r.seq).length := List.length_pos_iff.mpr (encBytes_ne_nil _)
  simp only [List.length_append] at h1 ⊢
  omega

theorem parseText_b64 (S : Scheme) (r : Record) (s : Bytes) (h : Valid S r)
    (hs : 4 ≤ s.length)
    (hbody : (if enrPrefix.isPrefixOf s then s.drop 4 else s) = b64enc r.encode) :
    parseText S s = some r := by
  unfold parseText
  rw [if_neg (by omega)]
  simp only [hbody, b64dec_enc, encode_decode S r h, List.isEmpty_nil, if_true]

theorem parseText_toText (S : Scheme) (r : Record) (h : Valid S r) :
    parseText S r.toText = some r := by
  apply parseText_b64 S r _ h
  · rw [toText_form, List.length_append]
    show 4 ≤ 4 + _
    omega
  · rw [toText_form, enrPrefix_isPrefixOf_append, if_pos rfl]
    exact List.drop_left' rfl

theorem parseText_noprefix (S : Scheme) (r : Record) (h : Valid S r) :
    parseText S (b64enc r.encode) = some r := by
  apply parseText_b64 S r _ h
  · rw [b64enc_length]
    have := r.encode_length_ge
    omega
  · rw [enrPrefix_not_prefix_b64]
    simp

theorem parseText_exact (S : Scheme) (s : Bytes) (r : Record) (h : parseText S s = some r) :
    s = r.toText ∨ s = b64enc r.encode := by
  unfold parseText at h
  split at h
  · cases h
  · simp only at h
    split at h
    · cases h
    · rename_i bytes hb
      split at h
      · cases h
      · rename_i r' rest hd
        split at h
        · rename_i hrest
          simp only [Option.some.injEq] at h
          subst h
          have hr : rest = [] := by simpa using hrest
          subst hr
          have hre := decode_reencode S bytes r' [] hd
          rw [List.append_nil] at hre
          subst hre
          have hbody := b64enc_dec _ _ hb
          by_cases hp : enrPrefix.isPrefixOf s = true
          · left
            rw [if_pos hp] at hbody
            rw [List.isPrefixOf_iff_prefix] at hp
            obtain ⟨t, ht⟩ := hp
            rw [toText_form, hbody, ← ht]
            congr 1
          · right
            rw [if_neg hp] at hbody
            exact hbody.symm
        · cases h

/-- The record that a parsed text names is valid, and the text is one of its two spellings. -/
theorem parseText_valid (S : Scheme) (s : Bytes) (r : Record) (h : parseText S s = some r) :
    Valid S r := by
  unfold parseText at h
  split at h
  · cases h
  · simp only at h
    split at h
    · cases h
    · split at h
      · cases h
      · rename_i r' rest hd
        split at h
        · simp only [Option.some.injEq] at h
          subst h
          exact decode_valid S _ _ _ hd
        · cases h

/-- C12: the parser accepts, for a valid record, exactly its text form and the same string without
    the prefix. -/
theorem parseText_iff (S : Scheme) (s : Bytes) (r : Record) :
    parseText S s = some r ↔ Valid S r ∧ (s = r.toText ∨ s = b64enc r.encode) := by
  constructor
  · intro h; exact ⟨parseText_valid S s r h, parseText_exact S s r h⟩
  · rintro ⟨hv, rfl | rfl⟩
    · exact parseText_toText S r hv
    · exact parseText_noprefix S r hv

theorem toJson_no_escape (r : Record) :
    ∀ c ∈ r.toText, c.toNat ≠ 34 ∧ c.toNat ≠ 92 ∧ 0x20 ≤ c.toNat ∧ c.toNat < 0x7f := by
  intro c hc
  rw [toText_form, List.mem_append] at hc
  rcases hc with hc | hc
  · simp only [enrPrefix, List.mem_cons, List.not_mem_nil, or_false] at hc
    rcases hc with rfl | rfl | rfl | rfl <;> decide
  · have := isB64Char_printable c (b64enc_alphabet _ c hc)
    omega

end EnrVerif
