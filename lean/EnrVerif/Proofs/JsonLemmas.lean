/-
  The JSON string layer (`Model/Json.lean`): the reader inverts the writer on every byte string, the
  writer is the identity-with-quotes on text without `"`, `\` and control characters (so
  `Record.toJsonDoc = Record.toJson`), and the JSON reader of records accepts exactly the string
  literals whose content the text parser accepts -- among them non-canonical spellings such as
  `"\u0065nr:…"`.
-/
import EnrVerif.Model.Json
import EnrVerif.Proofs.CodecTheorems

namespace EnrVerif

/-! ### bytes -/

private theorem u8_eq_of_toNat {c : UInt8} {n : Nat} (h : c.toNat = n) : c = UInt8.ofNat n := by
  subst h
  exact (UInt8.ofNat_toNat).symm

/-- `\u00XX` (lower-case, as written by the serialiser) reads back as `XX`. -/
theorem jsonHexVal_hexDigit (k : Nat) (h : k < 16) : jsonHexVal (hexDigit k) = some k := by
  revert k
  decide

theorem jsonHex4_hexDigit (n : Nat) (h : n < 256) :
    jsonHex4 48 48 (hexDigit (n / 16)) (hexDigit (n % 16)) = some n := by
  have h0 : jsonHexVal 48 = some 0 := by decide
  unfold jsonHex4
  rw [h0, jsonHexVal_hexDigit _ (by omega), jsonHexVal_hexDigit _ (by omega)]
  simp only [Option.some.injEq]
  omega

theorem utf8Encode_ascii (c : UInt8) (h : c.toNat < 0x80) : utf8Encode c.toNat = [c] := by
  unfold utf8Encode
  rw [if_pos h, UInt8.ofNat_toNat]

/-! ### one step of the reader -/

theorem jsonStrBody_quote (tl : Bytes) : jsonStrBody (34 :: tl) = some ([], tl) := by
  rw [jsonStrBody.eq_def]
  simp

theorem jsonStrBody_plain (c : UInt8) (cs : Bytes) (h34 : c.toNat ≠ 34) (h92 : c.toNat ≠ 92)
    (h20 : 0x20 ≤ c.toNat) : jsonStrBody (c :: cs) = jsonEmit [c] (jsonStrBody cs) := by
  have h20' : ¬ c.toNat < 0x20 := by omega
  rw [jsonStrBody.eq_def]
  simp only [if_neg h34, if_neg h20', ne_eq, h92, not_false_eq_true, if_true]

theorem jsonStrBody_simple (e b : UInt8) (cs : Bytes) (h : jsonSimpleEscape e = some b) :
    jsonStrBody (92 :: e :: cs) = jsonEmit [b] (jsonStrBody cs) := by
  have hu : e.toNat ≠ 117 := by
    intro hu
    simp [jsonSimpleEscape, hu] at h
  rw [jsonStrBody.eq_def]
  simp [hu, h]

/-- `\uXXXX` outside the surrogate ranges -/
theorem jsonStrBody_u (h1 h2 h3 h4 : UInt8) (n : Nat) (rest : Bytes)
    (h : jsonHex4 h1 h2 h3 h4 = some n) (hlo : isLowSurrogate n = false)
    (hhi : isHighSurrogate n = false) :
    jsonStrBody (92 :: 117 :: h1 :: h2 :: h3 :: h4 :: rest)
      = jsonEmit (utf8Encode n) (jsonStrBody rest) := by
  rw [jsonStrBody.eq_def]
  simp [h, hlo, hhi]

/-- `\uHHHH\uLLLL`, a surrogate pair -/
theorem jsonStrBody_pair (h1 h2 h3 h4 k1 k2 k3 k4 : UInt8) (n n2 : Nat) (rest : Bytes)
    (h : jsonHex4 h1 h2 h3 h4 = some n) (hhi : isHighSurrogate n = true)
    (h' : jsonHex4 k1 k2 k3 k4 = some n2) (hlo : isLowSurrogate n2 = true) :
    jsonStrBody (92 :: 117 :: h1 :: h2 :: h3 :: h4 :: 92 :: 117 :: k1 :: k2 :: k3 :: k4 :: rest)
      = jsonEmit (utf8Encode (surrogatePair n n2)) (jsonStrBody rest) := by
  have hnl : isLowSurrogate n = false := by
    simp only [isHighSurrogate, isLowSurrogate, Bool.and_eq_true, decide_eq_true_eq,
      Bool.and_eq_false_iff, decide_eq_false_iff_not] at hhi ⊢
    omega
  rw [jsonStrBody.eq_def]
  simp [h, hhi, hnl, h', hlo]

/-- a leading surrogate that is not followed by `\u` + trailing surrogate is an error, whatever
    follows (here: followed by a well-formed `\uXXXX` that is not a trailing surrogate) -/
theorem jsonStrBody_lone_high (h1 h2 h3 h4 k1 k2 k3 k4 : UInt8) (n n2 : Nat) (rest : Bytes)
    (h : jsonHex4 h1 h2 h3 h4 = some n) (hhi : isHighSurrogate n = true)
    (h' : jsonHex4 k1 k2 k3 k4 = some n2) (hlo : isLowSurrogate n2 = false) :
    jsonStrBody (92 :: 117 :: h1 :: h2 :: h3 :: h4 :: 92 :: 117 :: k1 :: k2 :: k3 :: k4 :: rest)
      = none := by
  have hnl : isLowSurrogate n = false := by
    simp only [isHighSurrogate, isLowSurrogate, Bool.and_eq_true, decide_eq_true_eq,
      Bool.and_eq_false_iff, decide_eq_false_iff_not] at hhi ⊢
    omega
  rw [jsonStrBody.eq_def]
  simp [h, hhi, hnl, h', hlo]

/-- a trailing surrogate on its own is an error -/
theorem jsonStrBody_lone_low (h1 h2 h3 h4 : UInt8) (n : Nat) (rest : Bytes)
    (h : jsonHex4 h1 h2 h3 h4 = some n) (hlo : isLowSurrogate n = true) :
    jsonStrBody (92 :: 117 :: h1 :: h2 :: h3 :: h4 :: rest) = none := by
  rw [jsonStrBody.eq_def]
  simp [h, hlo]

/-- a raw control character inside the literal is an error -/
theorem jsonStrBody_control (c : UInt8) (cs : Bytes) (h : c.toNat < 0x20) :
    jsonStrBody (c :: cs) = none := by
  have h34 : c.toNat ≠ 34 := by omega
  rw [jsonStrBody.eq_def]
  simp [h34, h]

/-! ### the reader inverts the writer -/

/-- one escaped byte is read back as that byte -/
theorem jsonStrBody_escapeByte (c : UInt8) (tl : Bytes) :
    jsonStrBody (jsonEscapeByte c ++ tl) = jsonEmit [c] (jsonStrBody tl) := by
  unfold jsonEscapeByte
  split
  · next h => rw [u8_eq_of_toNat h]; exact jsonStrBody_simple _ _ _ (by decide)
  split
  · next h => rw [u8_eq_of_toNat h]; exact jsonStrBody_simple _ _ _ (by decide)
  split
  · next h => rw [u8_eq_of_toNat h]; exact jsonStrBody_simple _ _ _ (by decide)
  split
  · next h => rw [u8_eq_of_toNat h]; exact jsonStrBody_simple _ _ _ (by decide)
  split
  · next h => rw [u8_eq_of_toNat h]; exact jsonStrBody_simple _ _ _ (by decide)
  split
  · next h => rw [u8_eq_of_toNat h]; exact jsonStrBody_simple _ _ _ (by decide)
  split
  · next h => rw [u8_eq_of_toNat h]; exact jsonStrBody_simple _ _ _ (by decide)
  split
  · next h =>
    have hn : c.toNat < 256 := by omega
    have hl : isLowSurrogate c.toNat = false := by
      simp only [isLowSurrogate, Bool.and_eq_false_iff, decide_eq_false_iff_not]; omega
    have hh : isHighSurrogate c.toNat = false := by
      simp only [isHighSurrogate, Bool.and_eq_false_iff, decide_eq_false_iff_not]; omega
    have := jsonStrBody_u 48 48 (hexDigit (c.toNat / 16)) (hexDigit (c.toNat % 16)) c.toNat tl
      (jsonHex4_hexDigit _ hn) hl hh
    rw [utf8Encode_ascii c (by omega)] at this
    exact this
  · next h34 h92 _ _ _ _ _ h20 =>
    exact jsonStrBody_plain c tl h34 h92 (by omega)

theorem jsonStrBody_escape (s tl : Bytes) :
    jsonStrBody (jsonEscape s ++ 34 :: tl) = some (s, tl) := by
  induction s with
  | nil => exact jsonStrBody_quote tl
  | cons c cs ih =>
    rw [jsonEscape, List.append_assoc, jsonStrBody_escapeByte, ih]
    rfl

/-- **Round trip of the JSON string layer**: `from_str::<String>(&to_string(s))` is `s`, for every
    byte string (bytes ≥ 0x80 are opaque to both directions). -/
theorem jsonUnquote_jsonQuote (s : Bytes) : jsonUnquote (jsonQuote s) = some s := by
  have hws : skipJsonWs (jsonQuote s) = jsonQuote s := by
    simp [jsonQuote, skipJsonWs, isJsonWs]
  unfold jsonUnquote
  rw [hws]
  simp only [jsonQuote]
  rw [jsonStrBody_escape s []]
  simp [skipJsonWs]

theorem jsonQuote_injective (s t : Bytes) (h : jsonQuote s = jsonQuote t) : s = t := by
  have := jsonUnquote_jsonQuote s
  rw [h, jsonUnquote_jsonQuote] at this
  exact (Option.some.inj this).symm

/-! ### text that needs no escaping -/

theorem jsonEscapeByte_of_plain (c : UInt8) (h : c.toNat ≠ 34 ∧ c.toNat ≠ 92 ∧ 0x20 ≤ c.toNat) :
    jsonEscapeByte c = [c] := by
  obtain ⟨h34, h92, h20⟩ := h
  have h8 : c.toNat ≠ 8 := by omega
  have h12 : c.toNat ≠ 12 := by omega
  have h10 : c.toNat ≠ 10 := by omega
  have h13 : c.toNat ≠ 13 := by omega
  have h9 : c.toNat ≠ 9 := by omega
  have hlt : ¬ c.toNat < 0x20 := by omega
  simp only [jsonEscapeByte, if_neg h34, if_neg h92, if_neg h8, if_neg h12, if_neg h10, if_neg h13,
    if_neg h9, if_neg hlt]

theorem jsonEscape_of_plain (s : Bytes)
    (h : ∀ c ∈ s, c.toNat ≠ 34 ∧ c.toNat ≠ 92 ∧ 0x20 ≤ c.toNat) : jsonEscape s = s := by
  induction s with
  | nil => rfl
  | cons c cs ih =>
    rw [jsonEscape, jsonEscapeByte_of_plain c (h c List.mem_cons_self),
      ih (fun d hd => h d (List.mem_cons_of_mem _ hd))]
    rfl

theorem jsonQuote_of_plain (s : Bytes)
    (h : ∀ c ∈ s, c.toNat ≠ 34 ∧ c.toNat ≠ 92 ∧ 0x20 ≤ c.toNat) :
    jsonQuote s = [34] ++ s ++ [34] := by
  rw [jsonQuote, jsonEscape_of_plain s h]
  rfl

/-- reading a literal whose content is plain text (nothing to unescape) -/
theorem jsonUnquote_of_plain (s : Bytes)
    (h : ∀ c ∈ s, c.toNat ≠ 34 ∧ c.toNat ≠ 92 ∧ 0x20 ≤ c.toNat) :
    jsonUnquote ([34] ++ s ++ [34]) = some s := by
  rw [← jsonQuote_of_plain s h]
  exact jsonUnquote_jsonQuote s

/-! ### records -/

/-- the serialiser never has anything to escape in the text of a record: the document that
    `serde_json::to_string` produces is the simple quoted text of `Record.toJson` -/
theorem toJsonDoc_eq (r : Record) : r.toJsonDoc = r.toJson := by
  unfold Record.toJsonDoc Record.toJson
  exact jsonQuote_of_plain r.toText (fun c hc =>
    let ⟨a, b, c', _⟩ := toJson_no_escape r c hc
    ⟨a, b, c'⟩)

/-- JSON round trip of a valid record -/
theorem parseJson_toJson (S : Scheme) (r : Record) (h : Valid S r) :
    parseJson S r.toJson = some r := by
  rw [← toJsonDoc_eq]
  unfold parseJson Record.toJsonDoc
  rw [jsonUnquote_jsonQuote]
  exact parseText_toText S r h

theorem parseJson_toJsonDoc (S : Scheme) (r : Record) (h : Valid S r) :
    parseJson S r.toJsonDoc = some r := by
  rw [toJsonDoc_eq]
  exact parseJson_toJson S r h

/-- the JSON reader accepts exactly the string literals whose (unescaped) content is the text form of
    the record, with or without the `enr:` prefix -/
theorem parseJson_iff (S : Scheme) (j : Bytes) (r : Record) :
    parseJson S j = some r ↔
      ∃ s, jsonUnquote j = some s ∧ Valid S r ∧ (s = r.toText ∨ s = b64enc r.encode) := by
  unfold parseJson
  cases hj : jsonUnquote j with
  | none => simp
  | some s =>
    simp only [Option.bind_some, Option.some.injEq, exists_eq_left']
    exact parseText_iff S s r

/-! ### non-canonical spellings are accepted -/

/-- Any ASCII character may be spelled `\u00XX`: the escaped spelling of a text (first character
    written as a `\u` escape, lower-case hex) unquotes to the same text. -/
theorem jsonUnquote_u00_escape (c : UInt8) (rest : Bytes) (hc : c.toNat < 0x80)
    (h : ∀ d ∈ rest, d.toNat ≠ 34 ∧ d.toNat ≠ 92 ∧ 0x20 ≤ d.toNat) :
    jsonUnquote ([34, 92, 117, 48, 48, hexDigit (c.toNat / 16), hexDigit (c.toNat % 16)] ++ rest ++ [34])
      = some (c :: rest) := by
  have hl : isLowSurrogate c.toNat = false := by
    simp only [isLowSurrogate, Bool.and_eq_false_iff, decide_eq_false_iff_not]; omega
  have hh : isHighSurrogate c.toNat = false := by
    simp only [isHighSurrogate, Bool.and_eq_false_iff, decide_eq_false_iff_not]; omega
  have hbody : jsonStrBody (rest ++ 34 :: []) = some (rest, []) := by
    have := jsonStrBody_escape rest []
    rwa [jsonEscape_of_plain rest h] at this
  unfold jsonUnquote
  simp only [List.cons_append, List.nil_append]
  have hws : ∀ tl : Bytes, skipJsonWs (34 :: tl) = 34 :: tl := by
    intro tl; simp [skipJsonWs, isJsonWs]
  rw [hws]
  simp only [show ((34 : UInt8).toNat ≠ 34) = False from by decide, if_false]
  rw [jsonStrBody_u 48 48 _ _ c.toNat _ (jsonHex4_hexDigit _ (by omega)) hl hh, hbody,
    utf8Encode_ascii c hc]
  simp [jsonEmit, skipJsonWs]

/-- the instance asked for: `"\u0065` ++ rest ++ `"` reads as `e` ++ rest -/
theorem jsonUnquote_escape_example (rest : Bytes)
    (h : ∀ d ∈ rest, d.toNat ≠ 34 ∧ d.toNat ≠ 92 ∧ 0x20 ≤ d.toNat) :
    jsonUnquote ([34, 92, 117, 48, 48, 54, 53] ++ rest ++ [34]) = some (101 :: rest) :=
  jsonUnquote_u00_escape 101 rest (by decide) h

/-- Consequence for records: the JSON form is not canonical.  The document `"\u0065nr:…"` (different
    from `r.toJson`) is accepted and yields the same record. -/
theorem parseJson_escaped (S : Scheme) (r : Record) (h : Valid S r) :
    parseJson S ([34, 92, 117, 48, 48, 54, 53] ++ r.toText.drop 1 ++ [34]) = some r ∧
      [34, 92, 117, 48, 48, 54, 53] ++ r.toText.drop 1 ++ [34] ≠ r.toJson := by
  have htext : r.toText = 101 :: r.toText.drop 1 := by
    simp [Record.toText, enrPrefix]
  constructor
  · unfold parseJson
    rw [jsonUnquote_escape_example _ (fun d hd =>
      let ⟨a, b, c, _⟩ := toJson_no_escape r d (List.mem_of_mem_drop hd)
      ⟨a, b, c⟩), ← htext]
    exact parseText_toText S r h
  · intro heq
    have : r.toJson = 34 :: 101 :: (r.toText.drop 1 ++ [34]) := by
      show [34] ++ r.toText ++ [34] = _
      rw [htext]
      simp
    rw [this] at heq
    simp at heq

/-- a surrogate pair is combined into one 4-byte character: `"\ud83d\ude00"` is U+1F600 -/
theorem jsonUnquote_pair_example :
    jsonUnquote [34, 92, 117, 100, 56, 51, 100, 92, 117, 100, 101, 48, 48, 34]
      = some [0xF0, 0x9F, 0x98, 0x80] := by decide

/-- lone surrogates and a raw control character are rejected; surrounding whitespace is allowed,
    trailing characters are not -/
theorem jsonUnquote_reject_examples :
    jsonUnquote [34, 92, 117, 100, 56, 51, 100, 34] = none ∧            -- "\ud83d"
    jsonUnquote [34, 92, 117, 100, 101, 48, 48, 34] = none ∧            -- "\ude00"
    jsonUnquote [34, 92, 117, 100, 56, 51, 100, 92, 117, 48, 48, 52, 49, 34] = none ∧  -- "\ud83d\u0041"
    jsonUnquote [34, 10, 34] = none ∧                                   -- raw newline
    jsonUnquote [34, 92, 120, 34] = none ∧                              -- "\x"
    jsonUnquote [32, 10, 34, 97, 34, 9, 13] = some [97] ∧               -- whitespace around
    jsonUnquote [34, 97, 34, 98] = none ∧                               -- trailing garbage
    jsonUnquote [34, 97] = none := by decide                            -- missing quote

end EnrVerif
