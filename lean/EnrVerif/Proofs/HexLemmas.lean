/-
  Hex lemmas (`hexLower`, `hexUpper`, `fromHex`, `fromHex32`, `packHex`) and the helper lemmas on
  the `NodeId` model that the property file `Props/C16.lean` is assembled from.
-/
import EnrVerif.Model.NodeId

namespace EnrVerif

/-! ### Single digits -/

theorem hexVal_hexDigit_fin : ∀ n : Fin 16, hexVal (hexDigit n.val) = some n.val := by decide

theorem hexVal_hexDigitUpper_fin : ∀ n : Fin 16, hexVal (hexDigitUpper n.val) = some n.val := by
  decide

theorem isLowerHexChar_hexDigit_fin : ∀ n : Fin 16, isLowerHexChar (hexDigit n.val) = true := by
  decide

theorem hexVal_hexDigit {n : Nat} (h : n < 16) : hexVal (hexDigit n) = some n :=
  hexVal_hexDigit_fin ⟨n, h⟩

theorem hexVal_hexDigitUpper {n : Nat} (h : n < 16) : hexVal (hexDigitUpper n) = some n :=
  hexVal_hexDigitUpper_fin ⟨n, h⟩

theorem isLowerHexChar_hexDigit {n : Nat} (h : n < 16) : isLowerHexChar (hexDigit n) = true :=
  isLowerHexChar_hexDigit_fin ⟨n, h⟩

/-- Exact description of the accepted digits. -/
theorem isHexChar_iff (c : UInt8) :
    isHexChar c = true ↔
      (48 ≤ c.toNat ∧ c.toNat ≤ 57) ∨ (97 ≤ c.toNat ∧ c.toNat ≤ 102) ∨
      (65 ≤ c.toNat ∧ c.toNat ≤ 70) := by
  unfold isHexChar hexVal
  simp only
  split
  · simp; omega
  · split
    · simp; omega
    · split
      · simp; omega
      · simp; omega

theorem isLowerHexChar_iff (c : UInt8) :
    isLowerHexChar c = true ↔
      (48 ≤ c.toNat ∧ c.toNat ≤ 57) ∨ (97 ≤ c.toNat ∧ c.toNat ≤ 102) := by
  simp [isLowerHexChar]

theorem isHexChar_of_isLowerHexChar {c : UInt8} (h : isLowerHexChar c = true) :
    isHexChar c = true := by
  rw [isLowerHexChar_iff] at h
  rw [isHexChar_iff]
  omega

theorem hexVal_lt {c : UInt8} {n : Nat} (h : hexVal c = some n) : n < 16 := by
  unfold hexVal at h
  simp only at h
  split at h
  · simp only [Option.some.injEq] at h; omega
  · split at h
    · simp only [Option.some.injEq] at h; omega
    · split at h
      · simp only [Option.some.injEq] at h; omega
      · simp at h

theorem hexVal_of_isHexChar {c : UInt8} (h : isHexChar c = true) :
    hexVal c = some ((hexVal c).getD 0) := by
  unfold isHexChar at h
  cases hv : hexVal c with
  | none => simp [hv] at h
  | some n => simp

/-- `x` (120) and `X` (88) are not hex digits. -/
theorem x_not_hex : isHexChar 120 = false ∧ isHexChar 88 = false := by decide

private theorem lt256 (a : UInt8) : a.toNat < 256 := UInt8.toNat_lt a

private theorem ofNat_eq_of_toNat {n : Nat} {a : UInt8} (h : a.toNat = n) : UInt8.ofNat n = a := by
  subst h; exact UInt8.ofNat_toNat

/-! ### `hexLower` / `hexUpper` -/

theorem hexLower_length (bs : Bytes) : (hexLower bs).length = 2 * bs.length := by
  induction bs with
  | nil => rfl
  | cons b bs ih => simp only [hexLower, List.length_cons, ih]; omega

theorem hexUpper_length (bs : Bytes) : (hexUpper bs).length = 2 * bs.length := by
  induction bs with
  | nil => rfl
  | cons b bs ih => simp only [hexUpper, List.length_cons, ih]; omega

theorem hexLower_append (xs ys : Bytes) : hexLower (xs ++ ys) = hexLower xs ++ hexLower ys := by
  induction xs with
  | nil => rfl
  | cons b bs ih => simp only [List.cons_append, hexLower, ih]

theorem hexLower_take (k : Nat) (bs : Bytes) :
    (hexLower bs).take (2 * k) = hexLower (bs.take k) := by
  induction k generalizing bs with
  | zero => simp [hexLower]
  | succ k ih =>
    cases bs with
    | nil => simp [hexLower]
    | cons b bs =>
      have : 2 * (k + 1) = 2 * k + 1 + 1 := by omega
      simp only [this, hexLower, List.take_succ_cons, ih]

theorem hexLower_drop (k : Nat) (bs : Bytes) :
    (hexLower bs).drop (2 * k) = hexLower (bs.drop k) := by
  induction k generalizing bs with
  | zero => simp
  | succ k ih =>
    cases bs with
    | nil => simp [hexLower]
    | cons b bs =>
      have : 2 * (k + 1) = 2 * k + 1 + 1 := by omega
      simp only [this, hexLower, List.drop_succ_cons, ih]

theorem hexLower_all_lower (bs : Bytes) : ∀ c ∈ hexLower bs, isLowerHexChar c = true := by
  induction bs with
  | nil => intro c hc; simp [hexLower] at hc
  | cons b bs ih =>
    intro c hc
    have hb := lt256 b
    simp only [hexLower, List.mem_cons] at hc
    rcases hc with rfl | rfl | hc
    · exact isLowerHexChar_hexDigit (by omega)
    · exact isLowerHexChar_hexDigit (by omega)
    · exact ih c hc

theorem hexLower_all_hex (bs : Bytes) : ∀ c ∈ hexLower bs, isHexChar c = true :=
  fun c hc => isHexChar_of_isLowerHexChar (hexLower_all_lower bs c hc)

theorem hexLower_injective {a b : Bytes} (h : hexLower a = hexLower b) : a = b := by
  induction a generalizing b with
  | nil =>
    cases b with
    | nil => rfl
    | cons y ys => simp [hexLower] at h
  | cons x xs ih =>
    cases b with
    | nil => simp [hexLower] at h
    | cons y ys =>
      simp only [hexLower, List.cons.injEq] at h
      obtain ⟨h1, h2, h3⟩ := h
      have hx := lt256 x
      have hy := lt256 y
      have e1 := congrArg hexVal h1
      have e2 := congrArg hexVal h2
      rw [hexVal_hexDigit (by omega), hexVal_hexDigit (by omega)] at e1 e2
      simp only [Option.some.injEq] at e1 e2
      have : x = y := UInt8.toNat_inj.mp (by omega)
      rw [this, ih h3]

/-! ### `fromHex` -/

theorem fromHex_hexLower (bs : Bytes) : fromHex (hexLower bs) = some bs := by
  induction bs with
  | nil => rfl
  | cons b bs ih =>
    have hb := lt256 b
    have h1 : hexVal (hexDigit (b.toNat / 16)) = some (b.toNat / 16) := hexVal_hexDigit (by omega)
    have h2 : hexVal (hexDigit (b.toNat % 16)) = some (b.toNat % 16) := hexVal_hexDigit (by omega)
    simp only [hexLower, fromHex, h1, h2, ih]
    have : UInt8.ofNat (b.toNat / 16 * 16 + b.toNat % 16) = b := ofNat_eq_of_toNat (by omega)
    rw [this]

/-- The upper-case hex of `bs` also decodes to `bs`. -/
theorem fromHex_upper (bs : Bytes) : fromHex (hexUpper bs) = some bs := by
  induction bs with
  | nil => rfl
  | cons b bs ih =>
    have hb := lt256 b
    have h1 : hexVal (hexDigitUpper (b.toNat / 16)) = some (b.toNat / 16) :=
      hexVal_hexDigitUpper (by omega)
    have h2 : hexVal (hexDigitUpper (b.toNat % 16)) = some (b.toNat % 16) :=
      hexVal_hexDigitUpper (by omega)
    simp only [hexUpper, fromHex, h1, h2, ih]
    have : UInt8.ofNat (b.toNat / 16 * 16 + b.toNat % 16) = b := ofNat_eq_of_toNat (by omega)
    rw [this]

theorem packHex_length (s : Bytes) : (packHex s).length = s.length / 2 := by
  fun_induction packHex s with
  | case1 a b rest ih => simp only [List.length_cons, ih]; omega
  | case2 t h =>
    match t, h with
    | [], _ => rfl
    | [_], _ => simp
    | a :: b :: r, h => exact (h a b r rfl).elim

/-- Acceptance of `hex::decode`: even length, all digits valid; the result is the packed value. -/
theorem fromHex_iff (s : Bytes) : ∀ out : Bytes,
    fromHex s = some out ↔
      s.length % 2 = 0 ∧ (∀ c ∈ s, isHexChar c = true) ∧ out = packHex s := by
  fun_induction fromHex s with
  | case1 =>
    intro out
    simp only [Option.some.injEq, List.length_nil, List.not_mem_nil, false_imp_iff, implies_true,
      packHex, true_and]
    exact ⟨fun h => h.symm, fun h => h.symm⟩
  | case2 c => intro out; simp
  | case3 a b rest h l r hr hb ha ih =>
    intro out
    have ihr := (ih r).mp hr
    obtain ⟨ilen, iall, ipk⟩ := ihr
    constructor
    · intro e
      simp only [Option.some.injEq] at e
      subst e
      refine ⟨by simp only [List.length_cons]; omega, ?_, ?_⟩
      · intro c hc
        simp only [List.mem_cons] at hc
        rcases hc with rfl | rfl | hc
        · simp [isHexChar, ha]
        · simp [isHexChar, hb]
        · exact iall c hc
      · simp only [packHex, ha, hb, Option.getD_some, ipk]
    · rintro ⟨_, _, e⟩
      subst e
      simp only [packHex, ha, hb, Option.getD_some, ipk]
  | case4 a b rest hno ih =>
    intro out
    constructor
    · intro e; simp at e
    · rintro ⟨hlen, hall, _⟩
      exfalso
      have ha := hexVal_of_isHexChar (hall a (by simp))
      have hb := hexVal_of_isHexChar (hall b (by simp))
      have hr : fromHex rest = some (packHex rest) :=
        (ih (packHex rest)).mpr
          ⟨by simp only [List.length_cons] at hlen; omega,
           fun c hc => hall c (by simp [hc]), rfl⟩
      exact hno _ _ _ ha hb hr

theorem fromHex_length {s out : Bytes} (h : fromHex s = some out) : 2 * out.length = s.length := by
  obtain ⟨hl, _, rfl⟩ := (fromHex_iff s out).mp h
  rw [packHex_length]; omega

theorem packHex_hexLower (bs : Bytes) : packHex (hexLower bs) = bs := by
  have := (fromHex_iff (hexLower bs) bs).mp (fromHex_hexLower bs)
  exact this.2.2.symm

theorem packHex_hexUpper (bs : Bytes) : packHex (hexUpper bs) = bs := by
  have := (fromHex_iff (hexUpper bs) bs).mp (fromHex_upper bs)
  exact this.2.2.symm

/-! ### `fromHex32` -/

/-- `<[u8; 32]>::from_hex` accepts exactly the texts of 64 hex digits. -/
theorem fromHex32_iff (s : Bytes) (out : Bytes) :
    fromHex32 s = some out ↔
      s.length = 64 ∧ (∀ c ∈ s, isHexChar c = true) ∧ out = packHex s := by
  unfold fromHex32
  split
  · constructor
    · intro h; simp at h
    · rintro ⟨h, _, _⟩; omega
  · split
    · constructor
      · intro h; simp at h
      · rintro ⟨h, _, _⟩; omega
    · rw [fromHex_iff]
      constructor
      · rintro ⟨_, h2, h3⟩; exact ⟨by omega, h2, h3⟩
      · rintro ⟨_, h2, h3⟩; exact ⟨by omega, h2, h3⟩

theorem fromHex32_length {s out : Bytes} (h : fromHex32 s = some out) : out.length = 32 := by
  obtain ⟨hl, _, rfl⟩ := (fromHex32_iff s out).mp h
  rw [packHex_length]; omega

theorem fromHex32_hexLower {bs : Bytes} (h : bs.length = 32) : fromHex32 (hexLower bs) = some bs := by
  rw [fromHex32_iff]
  exact ⟨by rw [hexLower_length]; omega, hexLower_all_hex bs, (packHex_hexLower bs).symm⟩

theorem fromHex32_hexUpper {bs : Bytes} (h : bs.length = 32) : fromHex32 (hexUpper bs) = some bs := by
  have hu := fromHex_upper bs
  have := (fromHex_iff (hexUpper bs) bs).mp hu
  rw [fromHex32_iff]
  exact ⟨by rw [hexUpper_length]; omega, this.2.1, this.2.2⟩

/-! ### `strip0x` -/

namespace NodeId

/-- `strip0x` is `s.strip_prefix("0x").unwrap_or(s)`. -/
theorem strip0x_eq (s : Bytes) :
    strip0x s = if prefix0x.isPrefixOf s then s.drop 2 else s := by
  unfold strip0x prefix0x
  match s with
  | [] => simp
  | [a] => simp [List.isPrefixOf]
  | a :: b :: t =>
    simp only [List.isPrefixOf, List.drop_succ_cons, List.drop_zero, Bool.and_true,
      Bool.and_eq_true, beq_iff_eq]
    have ea : (48 : UInt8) = a ↔ a.toNat = 48 := by
      rw [← UInt8.toNat_inj]; exact ⟨fun h => h.symm, fun h => h.symm⟩
    have eb : (120 : UInt8) = b ↔ b.toNat = 120 := by
      rw [← UInt8.toNat_inj]; exact ⟨fun h => h.symm, fun h => h.symm⟩
    simp only [ea, eb]

theorem strip0x_prefix (t : Bytes) : strip0x (prefix0x ++ t) = t := by
  simp [strip0x, prefix0x]

/-- A text made of hex digits only has no `0x` prefix to strip (`x` is not a hex digit). -/
theorem strip0x_of_all_hex {s : Bytes} (h : ∀ c ∈ s, isHexChar c = true) : strip0x s = s := by
  unfold strip0x
  match s, h with
  | [], _ => rfl
  | [_], _ => rfl
  | a :: b :: t, h =>
    have hb := (isHexChar_iff b).mp (h b (by simp))
    have : ¬ (a.toNat = 48 ∧ b.toNat = 120) := by omega
    simp only [this, if_false]

/-! ### `deser` -/

theorem deser_iff (s : Bytes) (id : NodeId) :
    deser s = some id ↔
      (strip0x s).length = 64 ∧ (∀ c ∈ strip0x s, isHexChar c = true) ∧
        id.raw = packHex (strip0x s) := by
  unfold deser
  cases h : fromHex32 (strip0x s) with
  | none =>
    simp only [reduceCtorEq, false_iff]
    rintro ⟨h1, h2, h3⟩
    have := (fromHex32_iff (strip0x s) id.raw).mpr ⟨h1, h2, h3⟩
    rw [h] at this
    simp at this
  | some b =>
    obtain ⟨h1, h2, h3⟩ := (fromHex32_iff _ _).mp h
    constructor
    · intro e
      simp only [Option.some.injEq] at e
      subst e
      exact ⟨h1, h2, h3⟩
    · rintro ⟨_, _, e⟩
      cases id with
      | mk raw =>
        simp only at e
        simp only [Option.some.injEq, NodeId.mk.injEq]
        rw [h3, e]

theorem deser_wf {s : Bytes} {id : NodeId} (h : deser s = some id) : id.WF := by
  obtain ⟨h1, _, h3⟩ := (deser_iff s id).mp h
  unfold WF
  rw [h3, packHex_length]; omega

theorem deser_of_fromHex32 {t : Bytes} {id : NodeId} (h : fromHex32 t = some id.raw)
    (hs : strip0x t = t) : deser t = some id := by
  unfold deser
  rw [hs, h]

theorem hexUpper_all_hex (bs : Bytes) : ∀ c ∈ hexUpper bs, isHexChar c = true :=
  ((fromHex_iff (hexUpper bs) bs).mp (fromHex_upper bs)).2.1

end NodeId

end EnrVerif
