/-
  Reading several records from one buffer (`Model/Stream.lean`): the converse directions of C13.

  `Props/C13.lean` shows that the concatenated encodings of valid records decode to those records
  (`C13_decode_many`, `C13_decode_list`).  Here: whatever `decodeMany` / `decodeList` return are
  valid records whose encodings, concatenated, are exactly the bytes read — so the two functions are
  characterised completely (`decodeMany_iff`, `decodeList_iff`) — and decoding a concatenation of
  two streams gives the concatenation of the results (`decodeMany_append`).

  Everything holds for an arbitrary `S : Scheme`.
-/
import EnrVerif.Proofs.CodecTheorems
import EnrVerif.Model.Stream

set_option linter.unusedVariables false

namespace EnrVerif

/-! ### unfolding `decodeMany` (well-founded recursion) -/

theorem decodeMany_nil (S : Scheme) : decodeMany S [] = .ok [] := by
  rw [decodeMany]; rfl

theorem decodeMany_of_decode_ok (S : Scheme) (buf : Bytes) (r : Record) (rest : Bytes)
    (hne : buf ≠ []) (hd : decode S buf = .ok (r, rest)) :
    decodeMany S buf =
      (match decodeMany S rest with
       | .error e => .error e
       | .ok rs => .ok (r :: rs)) := by
  have hemp : buf.isEmpty = false := by
    cases buf with
    | nil => exact absurd rfl hne
    | cons a t => rfl
  rw [decodeMany]
  simp only [hemp, Bool.false_eq_true, ↓reduceIte]
  split
  · rename_i e he; rw [hd] at he; simp at he
  · rename_i r' rest' he
    rw [hd] at he
    simp only [Except.ok.injEq, Prod.mk.injEq] at he
    obtain ⟨rfl, rfl⟩ := he
    rfl

theorem decodeMany_of_decode_error (S : Scheme) (buf : Bytes) (e : RlpErr)
    (hne : buf ≠ []) (hd : decode S buf = .error e) : decodeMany S buf = .error e := by
  have hemp : buf.isEmpty = false := by
    cases buf with
    | nil => exact absurd rfl hne
    | cons a t => rfl
  rw [decodeMany]
  simp only [hemp, Bool.false_eq_true, ↓reduceIte]
  split
  · rename_i e' he; rw [hd] at he; simp only [Except.error.injEq] at he; rw [he]
  · rename_i r' rest' he; rw [hd] at he; simp at he

/-- The two ways `decodeMany` succeeds. -/
theorem decodeMany_ok_inv (S : Scheme) (buf : Bytes) (rs : List Record)
    (h : decodeMany S buf = .ok rs) :
    (buf = [] ∧ rs = []) ∨
    (∃ r rest rs', buf ≠ [] ∧ decode S buf = .ok (r, rest) ∧ decodeMany S rest = .ok rs' ∧
      rs = r :: rs') := by
  cases buf with
  | nil =>
    rw [decodeMany_nil] at h
    simp only [Except.ok.injEq] at h
    exact Or.inl ⟨rfl, h.symm⟩
  | cons a t =>
    refine Or.inr ?_
    have hne : (a :: t) ≠ [] := by simp
    cases hd : decode S (a :: t) with
    | error e => rw [decodeMany_of_decode_error S _ e hne hd] at h; simp at h
    | ok x =>
      obtain ⟨r, rest⟩ := x
      rw [decodeMany_of_decode_ok S _ r rest hne hd] at h
      cases hm : decodeMany S rest with
      | error e => rw [hm] at h; simp at h
      | ok rs' =>
        rw [hm] at h
        simp only [Except.ok.injEq] at h
        exact ⟨r, rest, rs', hne, rfl, hm, h.symm⟩

/-! ### `encodeAll` -/

@[simp] theorem encodeAll_nil : encodeAll [] = [] := rfl
@[simp] theorem encodeAll_cons (r : Record) (rs : List Record) :
    encodeAll (r :: rs) = r.encode ++ encodeAll rs := rfl

theorem encodeAll_append (ra rb : List Record) :
    encodeAll (ra ++ rb) = encodeAll ra ++ encodeAll rb := by
  induction ra with
  | nil => rfl
  | cons r ra ih => simp only [List.cons_append, encodeAll_cons, ih, List.append_assoc]

theorem Record.encode_ne_nil (r : Record) : r.encode ≠ [] := by
  intro h
  have := Record.encode_length_ge r
  rw [h] at this
  simp at this

/-! ### the characterisation of `decodeMany` -/

/-- What `decodeMany` returns are valid records, and their encodings back to back are exactly the
    buffer (the decoder is canonical record by record). -/
theorem decodeMany_spec (S : Scheme) (buf : Bytes) (rs : List Record)
    (h : decodeMany S buf = .ok rs) : (∀ r ∈ rs, Valid S r) ∧ encodeAll rs = buf := by
  induction rs generalizing buf with
  | nil =>
    rcases decodeMany_ok_inv S buf [] h with ⟨hb, _⟩ | ⟨r, rest, rs', _, _, _, hrs⟩
    · exact ⟨fun r hr => absurd hr List.not_mem_nil, by rw [hb]; rfl⟩
    · simp at hrs
  | cons r0 rs0 ih =>
    rcases decodeMany_ok_inv S buf (r0 :: rs0) h with ⟨_, hrs⟩ | ⟨r, rest, rs', _, hd, hm, hrs⟩
    · simp at hrs
    · simp only [List.cons.injEq] at hrs
      obtain ⟨rfl, rfl⟩ := hrs
      obtain ⟨hv, henc⟩ := ih rest hm
      refine ⟨?_, ?_⟩
      · intro x hx
        rcases List.mem_cons.mp hx with hx | hx
        · rw [hx]; exact decode_valid S buf r0 rest hd
        · exact hv x hx
      · rw [encodeAll_cons, henc]
        exact decode_reencode S buf r0 rest hd

/-- The concatenated encodings of valid records decode to those records (`C13_decode_many`,
    re-proved here from the unfolding lemmas so that this file does not depend on `Props/`). -/
theorem decodeMany_encodeAll (S : Scheme) (rs : List Record) (hv : ∀ r ∈ rs, Valid S r) :
    decodeMany S (encodeAll rs) = .ok rs := by
  induction rs with
  | nil => exact decodeMany_nil S
  | cons r rs ih =>
    have hr : Valid S r := hv r List.mem_cons_self
    have hne : encodeAll (r :: rs) ≠ [] := by
      rw [encodeAll_cons]
      intro hh
      exact Record.encode_ne_nil r (List.append_eq_nil_iff.mp hh).1
    rw [decodeMany_of_decode_ok S _ r (encodeAll rs) hne
      (by rw [encodeAll_cons]; exact encode_decode_append S r (encodeAll rs) hr)]
    rw [ih (fun x hx => hv x (List.mem_cons_of_mem _ hx))]

/-- `decodeMany` accepts exactly the concatenations of encodings of valid records, and returns
    those records. -/
theorem decodeMany_iff (S : Scheme) (buf : Bytes) (rs : List Record) :
    decodeMany S buf = .ok rs ↔ (∀ r ∈ rs, Valid S r) ∧ encodeAll rs = buf := by
  constructor
  · exact decodeMany_spec S buf rs
  · rintro ⟨hv, rfl⟩
    exact decodeMany_encodeAll S rs hv

/-- The result is determined by the buffer (trivially) and the buffer by the result. -/
theorem decodeMany_buf_unique (S : Scheme) (b1 b2 : Bytes) (rs : List Record)
    (h1 : decodeMany S b1 = .ok rs) (h2 : decodeMany S b2 = .ok rs) : b1 = b2 := by
  rw [← (decodeMany_spec S b1 rs h1).2, ← (decodeMany_spec S b2 rs h2).2]

/-- Two streams one after the other decode to the records of the first followed by the records of
    the second. -/
theorem decodeMany_append (S : Scheme) (a b : Bytes) (ra rb : List Record)
    (ha : decodeMany S a = .ok ra) (hb : decodeMany S b = .ok rb) :
    decodeMany S (a ++ b) = .ok (ra ++ rb) := by
  obtain ⟨hva, hea⟩ := decodeMany_spec S a ra ha
  obtain ⟨hvb, heb⟩ := decodeMany_spec S b rb hb
  rw [← hea, ← heb, ← encodeAll_append]
  apply decodeMany_encodeAll
  intro r hr
  rcases List.mem_append.mp hr with hr | hr
  · exact hva r hr
  · exact hvb r hr

/-- Conversely a successfully decoded stream can be cut after any record. -/
theorem decodeMany_split (S : Scheme) (buf : Bytes) (ra rb : List Record)
    (h : decodeMany S buf = .ok (ra ++ rb)) :
    buf = encodeAll ra ++ encodeAll rb ∧ decodeMany S (encodeAll ra) = .ok ra ∧
      decodeMany S (encodeAll rb) = .ok rb := by
  obtain ⟨hv, he⟩ := decodeMany_spec S buf _ h
  refine ⟨by rw [← he, encodeAll_append], ?_, ?_⟩
  · exact decodeMany_encodeAll S ra (fun r hr => hv r (List.mem_append_left _ hr))
  · exact decodeMany_encodeAll S rb (fun r hr => hv r (List.mem_append_right _ hr))

/-- The number of bytes read is the sum of the records' sizes. -/
theorem decodeMany_length (S : Scheme) (buf : Bytes) (rs : List Record)
    (h : decodeMany S buf = .ok rs) : buf.length = (rs.map Record.size).sum := by
  rw [← (decodeMany_spec S buf rs h).2]
  clear h
  induction rs with
  | nil => rfl
  | cons r rs ih =>
    simp only [encodeAll_cons, List.length_append, List.map_cons, List.sum_cons, ih]
    rfl

/-! ### RLP lists of records -/

/-- What `decodeList` returns: valid records whose encodings form the payload of the list item at
    the head of the buffer, and the bytes after that item. -/
theorem decodeList_spec (S : Scheme) (buf : Bytes) (rs : List Record) (rest : Bytes)
    (h : decodeList S buf = .ok (rs, rest)) :
    (∀ r ∈ rs, Valid S r) ∧ buf = encList (encodeAll rs) ++ rest := by
  unfold decodeList at h
  split at h
  · simp at h
  · rename_i payload rest' hb
    split at h
    · simp at h
    · rename_i rs' hm
      simp only [Except.ok.injEq, Prod.mk.injEq] at h
      obtain ⟨rfl, rfl⟩ := h
      obtain ⟨hv, he⟩ := decodeMany_spec S payload rs' hm
      refine ⟨hv, ?_⟩
      rw [he]
      exact decodeBytes_true_reencode buf payload rest' hb

/-- … and the payload is shorter than 2^64 bytes. -/
theorem decodeList_payload_lt (S : Scheme) (buf : Bytes) (rs : List Record) (rest : Bytes)
    (h : decodeList S buf = .ok (rs, rest)) : (encodeAll rs).length < 2 ^ 64 := by
  unfold decodeList at h
  split at h
  · simp at h
  · rename_i payload rest' hb
    split at h
    · simp at h
    · rename_i rs' hm
      simp only [Except.ok.injEq, Prod.mk.injEq] at h
      obtain ⟨rfl, rfl⟩ := h
      rw [(decodeMany_spec S payload rs' hm).2]
      exact decodeBytes_payload_length_lt buf true payload rest' hb

/-- `decodeList` accepts exactly a list item (payload shorter than 2^64 bytes) holding the
    encodings of valid records, followed by anything. -/
theorem decodeList_iff (S : Scheme) (buf : Bytes) (rs : List Record) (rest : Bytes) :
    decodeList S buf = .ok (rs, rest) ↔
      (∀ r ∈ rs, Valid S r) ∧ (encodeAll rs).length < 2 ^ 64 ∧
        buf = encList (encodeAll rs) ++ rest := by
  constructor
  · intro h
    exact ⟨(decodeList_spec S buf rs rest h).1, decodeList_payload_lt S buf rs rest h,
      (decodeList_spec S buf rs rest h).2⟩
  · rintro ⟨hv, hlen, rfl⟩
    unfold decodeList
    rw [decodeBytes_encList _ _ hlen]
    simp only
    rw [decodeMany_encodeAll S rs hv]

/-- `decodeList` only looks at the list item: what follows is handed back untouched. -/
theorem decodeList_append (S : Scheme) (buf suf : Bytes) (rs : List Record) (rest : Bytes)
    (h : decodeList S buf = .ok (rs, rest)) : decodeList S (buf ++ suf) = .ok (rs, rest ++ suf) := by
  obtain ⟨hv, hlen, hb⟩ := (decodeList_iff S buf rs rest).mp h
  rw [hb, List.append_assoc]
  exact (decodeList_iff S _ rs (rest ++ suf)).mpr ⟨hv, hlen, rfl⟩

#print axioms decodeMany_ok_inv
#print axioms decodeMany_spec
#print axioms decodeMany_encodeAll
#print axioms decodeMany_iff
#print axioms decodeMany_buf_unique
#print axioms decodeMany_append
#print axioms decodeMany_split
#print axioms decodeMany_length
#print axioms decodeList_spec
#print axioms decodeList_payload_lt
#print axioms decodeList_iff
#print axioms decodeList_append

end EnrVerif
