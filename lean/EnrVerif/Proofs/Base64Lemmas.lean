/-
  Base64 (URL-safe, unpadded) lemmas: round trip, canonicity, alphabet, length, injectivity.
-/
import EnrVerif.Model.Base64

namespace EnrVerif

/-- Finite case analysis over all 256 bytes (there is no `Decidable (∀ c : UInt8, _)` instance). -/
private theorem forall_uint8 {P : UInt8 → Prop} (h : ∀ i : Fin 256, P (UInt8.ofNat i.val)) :
    ∀ c, P c := by
  intro c
  have := h ⟨c.toNat, UInt8.toNat_lt c⟩
  simpa using this

/-! ### The symbol table and the decode table are inverse to each other -/

theorem b64val_sym_fin : ∀ n : Fin 64, b64val (b64sym n.val) = some n.val := by decide

theorem b64val_sym {n : Nat} (h : n < 64) : b64val (b64sym n) = some n :=
  b64val_sym_fin ⟨n, h⟩

theorem b64sym_of_val {c : UInt8} {n : Nat} (h : b64val c = some n) : b64sym n = c ∧ n < 64 := by
  have key : ∀ c : UInt8,
      (b64val c).all (fun n => b64sym n == c && decide (n < 64)) = true := by
    apply forall_uint8; decide +kernel
  have := key c
  rw [h] at this
  simpa using this

theorem isB64Char_sym {n : Nat} (h : n < 64) : isB64Char (b64sym n) = true := by
  simp [isB64Char, b64val_sym h]

theorem isB64Char_of_val {c : UInt8} {n : Nat} (h : b64val c = some n) : isB64Char c = true := by
  simp [isB64Char, h]

/-! ### Byte arithmetic helpers -/

private theorem ofNat_toNat_of_lt {n : Nat} (h : n < 256) : (UInt8.ofNat n).toNat = n := by
  rw [UInt8.toNat_ofNat']; omega

private theorem lt256 (a : UInt8) : a.toNat < 256 := UInt8.toNat_lt a

private theorem ofNat_eq_of_toNat {n : Nat} {a : UInt8} (h : a.toNat = n) : UInt8.ofNat n = a := by
  subst h; exact UInt8.ofNat_toNat

/-! ### decode ∘ encode -/

theorem b64dec_enc (bs : Bytes) : b64dec (b64enc bs) = some bs := by
  fun_induction b64enc bs with
  | case1 => simp [b64dec]
  | case2 a =>
    have ha := lt256 a
    have h0 : b64val (b64sym (a.toNat / 4)) = some (a.toNat / 4) := b64val_sym (by omega)
    have h1 : b64val (b64sym (a.toNat % 4 * 16)) = some (a.toNat % 4 * 16) := b64val_sym (by omega)
    simp only [b64dec, h0, h1]
    have e : a.toNat % 4 * 16 % 16 = 0 := by omega
    rw [if_pos e]
    have : UInt8.ofNat (a.toNat / 4 * 4 + a.toNat % 4 * 16 / 16) = a :=
      ofNat_eq_of_toNat (by omega)
    rw [this]
  | case3 a b =>
    have ha := lt256 a
    have hb := lt256 b
    have h0 : b64val (b64sym (a.toNat / 4)) = some (a.toNat / 4) := b64val_sym (by omega)
    have h1 : b64val (b64sym (a.toNat % 4 * 16 + b.toNat / 16))
        = some (a.toNat % 4 * 16 + b.toNat / 16) := b64val_sym (by omega)
    have h2 : b64val (b64sym (b.toNat % 16 * 4)) = some (b.toNat % 16 * 4) := b64val_sym (by omega)
    simp only [b64dec, h0, h1, h2]
    have e : b.toNat % 16 * 4 % 4 = 0 := by omega
    rw [if_pos e]
    have e1 : UInt8.ofNat (a.toNat / 4 * 4 + (a.toNat % 4 * 16 + b.toNat / 16) / 16) = a :=
      ofNat_eq_of_toNat (by omega)
    have e2 : UInt8.ofNat ((a.toNat % 4 * 16 + b.toNat / 16) % 16 * 16 + b.toNat % 16 * 4 / 4) = b :=
      ofNat_eq_of_toNat (by omega)
    rw [e1, e2]
  | case4 a b c rest ih =>
    have ha := lt256 a
    have hb := lt256 b
    have hc := lt256 c
    have h0 : b64val (b64sym (a.toNat / 4)) = some (a.toNat / 4) := b64val_sym (by omega)
    have h1 : b64val (b64sym (a.toNat % 4 * 16 + b.toNat / 16))
        = some (a.toNat % 4 * 16 + b.toNat / 16) := b64val_sym (by omega)
    have h2 : b64val (b64sym (b.toNat % 16 * 4 + c.toNat / 64))
        = some (b.toNat % 16 * 4 + c.toNat / 64) := b64val_sym (by omega)
    have h3 : b64val (b64sym (c.toNat % 64)) = some (c.toNat % 64) := b64val_sym (by omega)
    simp only [b64dec, h0, h1, h2, h3, ih]
    have e1 : UInt8.ofNat (a.toNat / 4 * 4 + (a.toNat % 4 * 16 + b.toNat / 16) / 16) = a :=
      ofNat_eq_of_toNat (by omega)
    have e2 : UInt8.ofNat ((a.toNat % 4 * 16 + b.toNat / 16) % 16 * 16
        + (b.toNat % 16 * 4 + c.toNat / 64) / 4) = b :=
      ofNat_eq_of_toNat (by omega)
    have e3 : UInt8.ofNat ((b.toNat % 16 * 4 + c.toNat / 64) % 4 * 64 + c.toNat % 64) = c :=
      ofNat_eq_of_toNat (by omega)
    rw [e1, e2, e3]

/-! ### encode ∘ decode (canonicity) and the alphabet of accepted texts -/

/-- Everything `b64dec` accepts is the encoding of its result and consists of alphabet symbols. -/
theorem b64dec_spec (s : Bytes) :
    ∀ bs, b64dec s = some bs → b64enc bs = s ∧ ∀ c ∈ s, isB64Char c = true := by
  fun_induction b64dec s with
  | case1 => intro bs h; simp at h; subst h; simp [b64enc]
  | case2 => intro bs h; simp at h
  | case3 c0 c1 v0 v1 h1 h0 hz =>
    intro bs h
    obtain ⟨s0, l0⟩ := b64sym_of_val h0
    obtain ⟨s1, l1⟩ := b64sym_of_val h1
    simp only [Option.some.injEq] at h
    subst h
    have t : (UInt8.ofNat (v0 * 4 + v1 / 16)).toNat = v0 * 4 + v1 / 16 :=
      ofNat_toNat_of_lt (by omega)
    refine ⟨?_, ?_⟩
    · simp only [b64enc, t]
      have a0 : (v0 * 4 + v1 / 16) / 4 = v0 := by omega
      have a1 : (v0 * 4 + v1 / 16) % 4 * 16 = v1 := by omega
      rw [a0, a1, s0, s1]
    · intro c hc
      simp only [List.mem_cons, List.not_mem_nil, or_false] at hc
      rcases hc with rfl | rfl
      · exact isB64Char_of_val h0
      · exact isB64Char_of_val h1
  | case4 => intro bs h; simp at h
  | case5 => intro bs h; simp at h
  | case6 c0 c1 c2 v0 v1 v2 h2 h1 h0 hz =>
    intro bs h
    obtain ⟨s0, l0⟩ := b64sym_of_val h0
    obtain ⟨s1, l1⟩ := b64sym_of_val h1
    obtain ⟨s2, l2⟩ := b64sym_of_val h2
    simp only [Option.some.injEq] at h
    subst h
    have t0 : (UInt8.ofNat (v0 * 4 + v1 / 16)).toNat = v0 * 4 + v1 / 16 :=
      ofNat_toNat_of_lt (by omega)
    have t1 : (UInt8.ofNat (v1 % 16 * 16 + v2 / 4)).toNat = v1 % 16 * 16 + v2 / 4 :=
      ofNat_toNat_of_lt (by omega)
    refine ⟨?_, ?_⟩
    · simp only [b64enc, t0, t1]
      have a0 : (v0 * 4 + v1 / 16) / 4 = v0 := by omega
      have a1 : (v0 * 4 + v1 / 16) % 4 * 16 + (v1 % 16 * 16 + v2 / 4) / 16 = v1 := by omega
      have a2 : (v1 % 16 * 16 + v2 / 4) % 16 * 4 = v2 := by omega
      rw [a0, a1, a2, s0, s1, s2]
    · intro c hc
      simp only [List.mem_cons, List.not_mem_nil, or_false] at hc
      rcases hc with rfl | rfl | rfl
      · exact isB64Char_of_val h0
      · exact isB64Char_of_val h1
      · exact isB64Char_of_val h2
  | case7 => intro bs h; simp at h
  | case8 => intro bs h; simp at h
  | case9 c0 c1 c2 c3 rest v0 v1 v2 v3 r hr h3 h2 h1 h0 ih =>
    intro bs h
    obtain ⟨s0, l0⟩ := b64sym_of_val h0
    obtain ⟨s1, l1⟩ := b64sym_of_val h1
    obtain ⟨s2, l2⟩ := b64sym_of_val h2
    obtain ⟨s3, l3⟩ := b64sym_of_val h3
    obtain ⟨ihe, iha⟩ := ih r hr
    simp only [Option.some.injEq] at h
    subst h
    have t0 : (UInt8.ofNat (v0 * 4 + v1 / 16)).toNat = v0 * 4 + v1 / 16 :=
      ofNat_toNat_of_lt (by omega)
    have t1 : (UInt8.ofNat (v1 % 16 * 16 + v2 / 4)).toNat = v1 % 16 * 16 + v2 / 4 :=
      ofNat_toNat_of_lt (by omega)
    have t2 : (UInt8.ofNat (v2 % 4 * 64 + v3)).toNat = v2 % 4 * 64 + v3 :=
      ofNat_toNat_of_lt (by omega)
    refine ⟨?_, ?_⟩
    · simp only [b64enc, t0, t1, t2]
      have a0 : (v0 * 4 + v1 / 16) / 4 = v0 := by omega
      have a1 : (v0 * 4 + v1 / 16) % 4 * 16 + (v1 % 16 * 16 + v2 / 4) / 16 = v1 := by omega
      have a2 : (v1 % 16 * 16 + v2 / 4) % 16 * 4 + (v2 % 4 * 64 + v3) / 64 = v2 := by omega
      have a3 : (v2 % 4 * 64 + v3) % 64 = v3 := by omega
      rw [a0, a1, a2, a3, s0, s1, s2, s3, ihe]
    · intro c hc
      simp only [List.mem_cons] at hc
      rcases hc with rfl | rfl | rfl | rfl | hc
      · exact isB64Char_of_val h0
      · exact isB64Char_of_val h1
      · exact isB64Char_of_val h2
      · exact isB64Char_of_val h3
      · exact iha c hc
  | case10 => intro bs h; simp at h

/-- Canonicity: the only text the decoder accepts for `bs` is `b64enc bs`. -/
theorem b64enc_dec (s bs : Bytes) : b64dec s = some bs → b64enc bs = s :=
  fun h => (b64dec_spec s bs h).1

/-- Every accepted text consists of alphabet symbols only. -/
theorem b64dec_alphabet (s bs : Bytes) : b64dec s = some bs → ∀ c ∈ s, isB64Char c = true :=
  fun h => (b64dec_spec s bs h).2

/-- The encoder only emits alphabet symbols. -/
theorem b64enc_alphabet (bs : Bytes) : ∀ c ∈ b64enc bs, isB64Char c = true :=
  b64dec_alphabet (b64enc bs) bs (b64dec_enc bs)

/-- Accepted ⇔ canonical encoding of the result. -/
theorem b64dec_eq_some_iff (s bs : Bytes) : b64dec s = some bs ↔ b64enc bs = s :=
  ⟨b64enc_dec s bs, fun h => h ▸ b64dec_enc bs⟩

theorem b64enc_injective {a b : Bytes} (h : b64enc a = b64enc b) : a = b := by
  have := b64dec_enc a
  rw [h, b64dec_enc b] at this
  exact (Option.some.inj this).symm

/-! ### Length -/

theorem b64enc_length (bs : Bytes) : (b64enc bs).length = (4 * bs.length + 2) / 3 := by
  fun_induction b64enc bs with
  | case1 => rfl
  | case2 a => simp
  | case3 a b => simp
  | case4 a b c rest ih => simp only [List.length_cons, ih]; omega

/-- An input whose length is `1 (mod 4)` is never accepted. -/
theorem b64dec_length_mod (s bs : Bytes) (h : b64dec s = some bs) : s.length % 4 ≠ 1 := by
  have := b64enc_dec s bs h
  rw [← this, b64enc_length]; omega

/-- Decoded length as a function of the text length. -/
theorem b64dec_length (s bs : Bytes) (h : b64dec s = some bs) : bs.length = s.length * 3 / 4 := by
  have := b64enc_dec s bs h
  rw [← this, b64enc_length]; omega

/-! ### Characters outside the alphabet, and JSON-safety of the alphabet -/

theorem b64_colon_not_alphabet : isB64Char 58 = false := by decide
theorem b64_eq_not_alphabet : isB64Char 61 = false := by decide
theorem b64_space_not_alphabet : isB64Char 32 = false := by decide
theorem b64_newline_not_alphabet : isB64Char 10 = false := by decide
theorem b64_plus_not_alphabet : isB64Char 43 = false := by decide
theorem b64_slash_not_alphabet : isB64Char 47 = false := by decide
theorem b64_quote_not_alphabet : isB64Char 34 = false := by decide
theorem b64_backslash_not_alphabet : isB64Char 92 = false := by decide

/-- Every alphabet character is printable ASCII and is neither `"` nor `\`, so a JSON string made
    of alphabet characters needs no escaping. -/
theorem isB64Char_printable (c : UInt8) (h : isB64Char c = true) :
    0x20 ≤ c.toNat ∧ c.toNat ≤ 0x7E ∧ c.toNat ≠ 34 ∧ c.toNat ≠ 92 := by
  unfold isB64Char b64val at h
  simp only at h
  split at h
  · omega
  · split at h
    · omega
    · split at h
      · omega
      · split at h
        · omega
        · split at h
          · omega
          · simp at h

/-- Exact description of the alphabet. -/
theorem isB64Char_iff (c : UInt8) :
    isB64Char c = true ↔
      (65 ≤ c.toNat ∧ c.toNat ≤ 90) ∨ (97 ≤ c.toNat ∧ c.toNat ≤ 122) ∨
      (48 ≤ c.toNat ∧ c.toNat ≤ 57) ∨ c.toNat = 45 ∨ c.toNat = 95 := by
  unfold isB64Char b64val
  simp only
  split
  · simp; omega
  · split
    · simp; omega
    · split
      · simp; omega
      · split
        · simp; omega
        · split
          · simp; omega
          · simp; omega

end EnrVerif
