/-
  Length arithmetic for the record encoding (C09): exact length of `encBytes`/`encUint`, the size
  formula of a record, monotonicity in the sequence number, dependence on the signature only through
  its length, and the builder's size bound against the real size.

  Everything lives in `EnrVerif.Sz` so that the names cannot collide with other proof files.
-/
import EnrVerif.Model.Spec
import EnrVerif.Proofs.RlpLemmas

namespace EnrVerif.Sz

/-! ### `encBytes` / `encUint` lengths -/

/-- the one case in which `encBytes` emits no header -/
def IsSingle (bs : Bytes) : Prop := ∃ b, bs = [b] ∧ b.toNat < 0x80

instance (bs : Bytes) : Decidable (IsSingle bs) :=
  match bs with
  | [] => isFalse (by rintro ⟨b, h, _⟩; cases h)
  | [b] =>
    if h : b.toNat < 0x80 then isTrue ⟨b, rfl, h⟩
    else isFalse (by rintro ⟨c, hc, h'⟩; cases hc; exact h h')
  | _ :: _ :: _ => isFalse (by rintro ⟨b, h, _⟩; cases h)

theorem encBytes_length_eq (bs : Bytes) :
    (encBytes bs).length =
      if IsSingle bs then 1 else (encodeHeader false bs.length).length + bs.length := by
  by_cases hs : IsSingle bs
  · obtain ⟨b, rfl, hb⟩ := hs
    rw [if_pos ⟨b, rfl, hb⟩, encBytes_single_lt b hb]
    rfl
  · rw [if_neg hs, encBytes_of_not_single, List.length_append]
    intro b hb
    apply Classical.byContradiction
    intro hlt
    exact hs ⟨b, hb, by omega⟩

theorem not_isSingle_of_length {bs : Bytes} (h : bs.length ≠ 1) : ¬ IsSingle bs := by
  rintro ⟨b, rfl, _⟩
  exact h rfl

/-- The length of `encBytes` depends on the string only through its length, unless that is 1. -/
theorem encBytes_length_of_length (a b : Bytes) (h : a.length = b.length) (h1 : a.length ≠ 1) :
    (encBytes a).length = (encBytes b).length := by
  rw [encBytes_length_eq, encBytes_length_eq, if_neg (not_isSingle_of_length h1),
    if_neg (not_isSingle_of_length (h ▸ h1)), h]

theorem encBytes_length_ge (bs : Bytes) : bs.length ≤ (encBytes bs).length := by
  rw [encBytes_length_eq]
  split
  · rename_i h; obtain ⟨b, rfl, _⟩ := h; simp
  · omega

theorem encBytes_length_pos (bs : Bytes) : 1 ≤ (encBytes bs).length := by
  rw [encBytes_length_eq]
  have := encodeHeader_length_pos false bs.length
  split <;> omega

/-- a 64-byte signature is framed in 66 bytes -/
theorem encBytes_length_64 (sig : Bytes) (h : sig.length = 64) : (encBytes sig).length = 66 := by
  rw [encBytes_length_eq, if_neg (not_isSingle_of_length (by omega)), h,
    encodeHeader_length_lt256 _ _ (by omega) (by omega)]

theorem natToBe_single {n : Nat} {x : UInt8} (h : natToBe n = [x]) : x.toNat = n := by
  have := beToNat_natToBe n
  rw [h] at this
  simpa using this

theorem encUint_length_mono (a b : Nat) (h : a ≤ b) : (encUint a).length ≤ (encUint b).length := by
  unfold encUint
  have hl := natToBe_length_mono a b h
  rw [encBytes_length_eq (natToBe a)]
  split
  · exact encBytes_length_pos _
  · rename_i ha
    rw [encBytes_length_eq (natToBe b)]
    split
    · rename_i hb
      obtain ⟨y, hy, hy80⟩ := hb
      have hbv := natToBe_single hy
      rw [hy] at hl
      simp only [List.length_singleton] at hl
      cases hq : natToBe a with
      | nil => simp [encodeHeader_length_lt56]
      | cons x t =>
        rw [hq] at hl
        simp only [List.length_cons] at hl
        have ht : t = [] := List.eq_nil_of_length_eq_zero (by omega)
        subst ht
        have hxv := natToBe_single hq
        exact absurd ⟨x, hq, by omega⟩ ha
    · have := encodeHeader_length_mono false _ _ hl
      omega

theorem natToBe_length_succ (n : Nat) : (natToBe (n + 1)).length ≤ (natToBe n).length + 1 := by
  apply natToBe_length_le
  have := beToNat_lt (natToBe n)
  rw [beToNat_natToBe] at this
  rw [Nat.pow_succ]
  omega

theorem encodeHeader_length_le_succ (l : Bool) (a b : Nat) (h : a ≤ b) (h1 : b ≤ a + 1) :
    (encodeHeader l b).length ≤ (encodeHeader l a).length + 1 := by
  rcases Nat.lt_or_ge a b with hlt | hge
  · have hb : b = a + 1 := by omega
    subst hb
    rw [encodeHeader_length_eq, encodeHeader_length_eq]
    have h2 := natToBe_length_succ a
    split <;> split
    · omega
    · omega
    · -- a = 55: the header grows from 1 to 2 bytes
      have ha : a = 55 := by omega
      subst ha
      have : (natToBe (55 + 1)).length ≤ 1 := natToBe_length_le 56 1 (by omega)
      omega
    · omega
  · have : a = b := by omega
    subst this; omega

theorem encUint_length_succ (n : Nat) (hn : n + 1 < 2 ^ 64) :
    (encUint (n + 1)).length ≤ (encUint n).length + 1 := by
  unfold encUint
  have hl := natToBe_length_succ n
  have h8 := natToBe_length_le (n + 1) 8 (by rw [← two64]; exact hn)
  have h8' := natToBe_length_le n 8 (by rw [← two64]; omega)
  rw [encBytes_length_eq (natToBe (n + 1))]
  split
  · have := encBytes_length_pos (natToBe n); omega
  · rename_i hb
    rw [encBytes_length_eq (natToBe n)]
    rw [encodeHeader_length_lt56 _ _ (by omega)]
    split
    · rename_i ha
      obtain ⟨x, hx, hx80⟩ := ha
      have hxv := natToBe_single hx
      have h1 : (natToBe (n + 1)).length ≤ 1 := natToBe_length_le (n + 1) 1 (by omega)
      omega
    · rw [encodeHeader_length_lt56 _ _ (by omega)]
      omega

/-! ### header length by ranges -/

theorem hdr_cases (l : Bool) (n : Nat) :
    (n < 56 ∧ (encodeHeader l n).length = 1) ∨
    (56 ≤ n ∧ n < 256 ∧ (encodeHeader l n).length = 2) ∨
    (256 ≤ n ∧ n < 65536 ∧ (encodeHeader l n).length = 3) ∨
    (65536 ≤ n ∧ 1 ≤ (encodeHeader l n).length) := by
  by_cases h1 : n < 56
  · exact Or.inl ⟨h1, encodeHeader_length_lt56 l n h1⟩
  · by_cases h2 : n < 256
    · exact Or.inr (Or.inl ⟨by omega, h2, encodeHeader_length_lt256 l n (by omega) h2⟩)
    · by_cases h3 : n < 65536
      · exact Or.inr (Or.inr (Or.inl ⟨by omega, h3,
          encodeHeader_length_lt65536 l n (by omega) h3⟩))
      · exact Or.inr (Or.inr (Or.inr ⟨by omega, encodeHeader_length_pos l n⟩))

/-- header + payload is monotone in the payload length -/
theorem framed_mono (l : Bool) (a b : Nat) (h : a ≤ b) :
    (encodeHeader l a).length + a ≤ (encodeHeader l b).length + b := by
  have := encodeHeader_length_mono l a b h
  omega

/-! ### the size of a record -/

/-- length of the payload of the outer list: signature item, sequence number, pairs -/
def payloadLen (sig : Bytes) (seq : Nat) (c : Content) : Nat :=
  (encBytes sig).length + (encUint seq).length + (Record.pairsBytes c).length

theorem size_eq (r : Record) :
    r.size = (encodeHeader true (payloadLen r.sig r.seq r.content)).length +
      payloadLen r.sig r.seq r.content := by
  unfold Record.size Record.encode payloadLen
  rw [encList_length]
  simp only [List.length_append]

/-- `size()` does not look at the node id. -/
theorem size_congr (a b : Record) (h1 : a.sig = b.sig) (h2 : a.seq = b.seq)
    (h3 : a.content = b.content) : a.size = b.size := by
  rw [size_eq, size_eq, h1, h2, h3]

/-- For fixed content and signature the size is monotone in the sequence number. -/
theorem size_mono_seq (a b : Record) (hc : a.content = b.content) (hs : a.sig = b.sig)
    (h : a.seq ≤ b.seq) : a.size ≤ b.size := by
  rw [size_eq, size_eq, hc, hs]
  apply framed_mono
  have := encUint_length_mono a.seq b.seq h
  unfold payloadLen
  omega

/-- The size depends on the signature only through its length (a 1-byte signature is the
    exception: `encBytes` frames a byte below `0x80` without a header). -/
theorem size_sig_len (a b : Record) (hl : a.sig.length = b.sig.length) (h1 : a.sig.length ≠ 1)
    (hseq : a.seq = b.seq) (hc : a.content = b.content) : a.size = b.size := by
  rw [size_eq, size_eq, hc, hseq]
  unfold payloadLen
  rw [encBytes_length_of_length a.sig b.sig hl h1]

/-- Same content, signatures of the same length (≠ 1), larger sequence number: larger size. -/
theorem size_mono (a b : Record) (hl : a.sig.length = b.sig.length) (h1 : a.sig.length ≠ 1)
    (hseq : a.seq ≤ b.seq) (hc : a.content = b.content) : a.size ≤ b.size := by
  have e := size_sig_len a { b with seq := a.seq } hl h1 rfl hc
  rw [e]
  exact size_mono_seq _ _ rfl rfl hseq

/-- Incrementing the sequence number adds at most two bytes (one for the number, one for the outer
    header). -/
theorem size_bump_le (r : Record) (h : r.seq + 1 < 2 ^ 64) :
    ({ r with seq := r.seq + 1 } : Record).size ≤ r.size + 2 := by
  rw [size_eq, size_eq]
  simp only
  have hu := encUint_length_succ r.seq h
  have hm := encUint_length_mono r.seq (r.seq + 1) (by omega)
  have hh := encodeHeader_length_le_succ true (payloadLen r.sig r.seq r.content)
    (payloadLen r.sig (r.seq + 1) r.content) (by unfold payloadLen; omega)
    (by unfold payloadLen; omega)
  unfold payloadLen at *
  omega

/-! ### the builder's size bound against the real size -/

/-- the builder's bound: `rlp_content.len() + signature.len() + 8` -/
def builderBound (seq : Nat) (c : Content) (sig : Bytes) : Nat :=
  (encList (encUint seq ++ Record.pairsBytes c)).length + sig.length + 8

theorem builderBound_eq (seq : Nat) (c : Content) (sig : Bytes) :
    builderBound seq c sig =
      (encodeHeader true ((encUint seq).length + (Record.pairsBytes c).length)).length +
        ((encUint seq).length + (Record.pairsBytes c).length) + sig.length + 8 := by
  unfold builderBound
  rw [encList_length, List.length_append]

/-- When the builder accepts, the real size is at least 3 bytes below the builder's bound, so at
    most 297. -/
theorem size_add3_le_builderBound (seq : Nat) (nid : Bytes) (c : Content) (sig : Bytes)
    (h : builderBound seq c sig ≤ 300) :
    (⟨seq, nid, c, sig⟩ : Record).size + 3 ≤ builderBound seq c sig := by
  rw [size_eq, builderBound_eq] at *
  simp only
  unfold payloadLen
  generalize hP : (encUint seq).length + (Record.pairsBytes c).length = P at *
  have hS : (encBytes sig).length ≤ sig.length + 3 := by
    rw [encBytes_length_eq]
    split
    · omega
    · rcases hdr_cases false sig.length with ⟨_, e⟩ | ⟨_, _, e⟩ | ⟨h1, _, _⟩ | ⟨h1, _⟩ <;> omega
  have hP1 := encodeHeader_length_pos true P
  have e : (encBytes sig).length + (encUint seq).length + (Record.pairsBytes c).length
      = (encBytes sig).length + P := by omega
  rw [e]
  rcases hdr_cases true ((encBytes sig).length + P) with ⟨_, e⟩ | ⟨_, _, e⟩ | ⟨_, _, e⟩ | ⟨h1, _⟩ <;>
    omega

/-- The builder's bound exceeds the real size by at most 8. -/
theorem builderBound_le_size_add8 (seq : Nat) (nid : Bytes) (c : Content) (sig : Bytes) :
    builderBound seq c sig ≤ (⟨seq, nid, c, sig⟩ : Record).size + 8 := by
  rw [size_eq, builderBound_eq]
  simp only
  unfold payloadLen
  have hS := encBytes_length_ge sig
  have := encodeHeader_length_mono true ((encUint seq).length + (Record.pairsBytes c).length)
    ((encBytes sig).length + (encUint seq).length + (Record.pairsBytes c).length) (by omega)
  omega

/-- For every signature that is not a single byte below `0x80` the slack is at most 7. -/
theorem builderBound_le_size_add7 (seq : Nat) (nid : Bytes) (c : Content) (sig : Bytes)
    (hs : sig.length ≠ 1) :
    builderBound seq c sig ≤ (⟨seq, nid, c, sig⟩ : Record).size + 7 := by
  rw [size_eq, builderBound_eq]
  simp only
  unfold payloadLen
  have hS : sig.length + 1 ≤ (encBytes sig).length := by
    rw [encBytes_length_eq, if_neg (not_isSingle_of_length hs)]
    have := encodeHeader_length_pos false sig.length
    omega
  have := encodeHeader_length_mono true ((encUint seq).length + (Record.pairsBytes c).length)
    ((encBytes sig).length + (encUint seq).length + (Record.pairsBytes c).length) (by omega)
  omega

/-- With a 64-byte signature: if the builder's bound is exceeded, the real size is at least 296
    (the bound is exactly 5 above the real size in the critical range). -/
theorem size_ge_296_of_builderBound (seq : Nat) (nid : Bytes) (c : Content) (sig : Bytes)
    (h64 : sig.length = 64) (h : builderBound seq c sig > 300) :
    296 ≤ (⟨seq, nid, c, sig⟩ : Record).size := by
  rw [size_eq]
  rw [builderBound_eq] at h
  simp only
  unfold payloadLen
  rw [encBytes_length_64 sig h64]
  generalize hP : (encUint seq).length + (Record.pairsBytes c).length = P at *
  have e : 66 + (encUint seq).length + (Record.pairsBytes c).length = 66 + P := by omega
  rw [e]
  rcases hdr_cases true P with ⟨_, e1⟩ | ⟨_, _, e1⟩ | ⟨_, _, e1⟩ | ⟨h1, _⟩
  · omega
  · rcases hdr_cases true (66 + P) with ⟨_, e2⟩ | ⟨_, _, e2⟩ | ⟨_, _, e2⟩ | ⟨h2, _⟩ <;> omega
  · omega
  · omega

/-- … and the slack is exactly 5 there: a 64-byte-signature record is refused by the builder iff
    its real size exceeds 295 (for sizes up to 300; above that it is refused anyway). -/
theorem builderBound_64_exact (seq : Nat) (nid : Bytes) (c : Content) (sig : Bytes)
    (h64 : sig.length = 64) :
    builderBound seq c sig > 300 ↔ 295 < (⟨seq, nid, c, sig⟩ : Record).size := by
  rw [size_eq, builderBound_eq]
  simp only
  unfold payloadLen
  rw [encBytes_length_64 sig h64]
  generalize hP : (encUint seq).length + (Record.pairsBytes c).length = P at *
  have e : 66 + (encUint seq).length + (Record.pairsBytes c).length = 66 + P := by omega
  rw [e, h64]
  have hm := encodeHeader_length_mono true P (66 + P) (by omega)
  rcases hdr_cases true P with ⟨_, e1⟩ | ⟨_, _, e1⟩ | ⟨_, _, e1⟩ | ⟨h1, _⟩ <;>
  rcases hdr_cases true (66 + P) with ⟨_, e2⟩ | ⟨_, _, e2⟩ | ⟨_, _, e2⟩ | ⟨h2, _⟩ <;> omega

end EnrVerif.Sz
