/-
  RLP framing lemmas: round trips, canonicity (re-encoding), prefix locality and length facts for
  the `alloy-rlp` model in `Model/Rlp.lean`.
-/
import EnrVerif.Model.Rlp
import EnrVerif.Proofs.BeLemmas

namespace EnrVerif

theorem toNat_ofNat_lt256 {n : Nat} (h : n < 256) : (UInt8.ofNat n).toNat = n :=
  UInt8.toNat_ofNat_of_lt' h

/-! ### `hdrFinish` / `hdrLong` -/

theorem hdrFinish_ok (h : Header) (r : Bytes) (hl : h.len ≤ r.length) :
    hdrFinish h r = .ok (h, r) := by
  unfold hdrFinish
  rw [if_neg (by omega)]

theorem hdrFinish_ok_inv {h h' : Header} {r r' : Bytes} (hf : hdrFinish h r = .ok (h', r')) :
    h' = h ∧ r' = r ∧ h.len ≤ r.length := by
  unfold hdrFinish at hf
  split at hf
  · cases hf
  · simp only [Except.ok.injEq, Prod.mk.injEq] at hf
    exact ⟨hf.1.symm, hf.2.symm, by omega⟩

theorem hdrFinish_error {h : Header} {r : Bytes} {e : RlpErr} (hf : hdrFinish h r = .error e) :
    e = .inputTooShort := by
  unfold hdrFinish at hf
  split at hf
  · simp only [Except.error.injEq] at hf; exact hf.symm
  · cases hf

theorem hdrLong_ok (l : Bool) (b0 : UInt8) (t rest : Bytes) (h0 : b0.toNat ≠ 0)
    (h56 : 56 ≤ beToNat (b0 :: t)) (hlen : beToNat (b0 :: t) ≤ rest.length) :
    hdrLong l (t.length + 1) (b0 :: t ++ rest) = .ok (⟨l, beToNat (b0 :: t)⟩, rest) := by
  unfold hdrLong
  have e1 : List.take (t.length + 1) (b0 :: t ++ rest) = b0 :: t :=
    List.take_left' (by simp)
  have e2 : List.drop (t.length + 1) (b0 :: t ++ rest) = rest :=
    List.drop_left' (by simp)
  rw [if_neg (by simp only [List.length_append, List.length_cons]; omega)]
  simp only [e1, e2]
  rw [if_neg h0, if_neg (by omega)]
  exact hdrFinish_ok _ _ hlen

theorem hdrLong_ok_inv {l : Bool} {lol : Nat} {r : Bytes} {h : Header} {rest : Bytes}
    (hd : hdrLong l lol r = .ok (h, rest)) :
    ∃ b0 t, r = b0 :: t ++ rest ∧ t.length + 1 = lol ∧ b0.toNat ≠ 0 ∧
      56 ≤ beToNat (b0 :: t) ∧ h = ⟨l, beToNat (b0 :: t)⟩ ∧ beToNat (b0 :: t) ≤ rest.length := by
  unfold hdrLong at hd
  split at hd
  · cases hd
  · rename_i hlen
    simp only at hd
    split at hd
    · cases hd
    · rename_i b0 t htake
      split at hd
      · cases hd
      · rename_i h0
        split at hd
        · cases hd
        · rename_i h56
          rw [htake] at h56
          obtain ⟨rfl, hr, hl⟩ := hdrFinish_ok_inv hd
          refine ⟨b0, t, ?_, ?_, h0, by omega, ?_, ?_⟩
          · rw [← htake, hr, List.take_append_drop]
          · have := congrArg List.length htake
            simp only [List.length_take, List.length_cons] at this
            omega
          · rw [htake]
          · rw [htake] at hl; rw [hr]; exact hl

theorem hdrLong_error_append {l : Bool} {lol : Nat} {r suf : Bytes} {e : RlpErr}
    (hd : hdrLong l lol r = .error e) (hne : e ≠ .inputTooShort) :
    hdrLong l lol (r ++ suf) = .error e := by
  unfold hdrLong at hd ⊢
  split at hd
  · simp only [Except.error.injEq] at hd; exact absurd hd.symm hne
  · rename_i hlen
    rw [if_neg (by simp only [List.length_append]; omega)]
    have e1 : List.take lol (r ++ suf) = List.take lol r :=
      List.take_append_of_le_length (by omega)
    have e2 : List.drop lol (r ++ suf) = List.drop lol r ++ suf :=
      List.drop_append_of_le_length (by omega)
    simp only [e1, e2] at hd ⊢
    split
    · rename_i htake
      rw [htake] at hd
      exact hd
    · rename_i b0 t htake
      rw [htake] at hd
      simp only at hd
      split
      · rename_i h0; rw [if_pos h0] at hd; exact hd
      · rename_i h0
        rw [if_neg h0] at hd
        split
        · rename_i h56; rw [htake] at h56; rw [if_pos h56] at hd; exact hd
        · rename_i h56
          rw [htake] at h56
          rw [if_neg h56] at hd
          exact absurd (hdrFinish_error hd) hne

/-! ### `encodeHeader` shapes -/

theorem two64 : (2 : Nat) ^ 64 = 256 ^ 8 := by decide

theorem encodeHeader_short (l : Bool) (n : Nat) (h : n < 56) :
    encodeHeader l n = [UInt8.ofNat ((if l then 0xC0 else 0x80) + n)] := by
  unfold encodeHeader
  rw [if_pos h]

theorem encodeHeader_long (l : Bool) (n : Nat) (h : 56 ≤ n) (hn : n < 2 ^ 64) :
    ∃ b0 t, natToBe n = b0 :: t ∧ t.length + 1 ≤ 8 ∧ b0.toNat ≠ 0 ∧ beToNat (b0 :: t) = n ∧
      encodeHeader l n = UInt8.ofNat ((if l then 0xF7 else 0xB7) + (t.length + 1)) :: b0 :: t := by
  have hlen := natToBe_length_le n 8 (by rw [← two64]; exact hn)
  cases hq : natToBe n with
  | nil => have := (natToBe_eq_nil_iff n).1 hq; omega
  | cons b0 t =>
    rw [hq] at hlen
    refine ⟨b0, t, rfl, by simpa using hlen, natToBe_head_ne_zero n b0 t hq, ?_, ?_⟩
    · rw [← hq, beToNat_natToBe]
    · unfold encodeHeader
      rw [if_neg (by omega)]
      simp only [hq, List.length_cons]

theorem decodeHeader_cons (b : UInt8) (rest : Bytes) :
    decodeHeader (b :: rest) =
      if b.toNat < 0x80 then hdrFinish ⟨false, 1⟩ (b :: rest)
      else if b.toNat ≤ 0xB7 then
        if b.toNat - 0x80 = 1 then
          match rest with
          | [] => .error .inputTooShort
          | c :: _ =>
            if c.toNat < 0x80 then .error .nonCanonicalSingleByte
            else hdrFinish ⟨false, 1⟩ rest
        else hdrFinish ⟨false, b.toNat - 0x80⟩ rest
      else if b.toNat ≤ 0xBF then hdrLong false (b.toNat - 0xB7) rest
      else if b.toNat ≤ 0xF7 then hdrFinish ⟨true, b.toNat - 0xC0⟩ rest
      else hdrLong true (b.toNat - 0xF7) rest := rfl

/-! ### Round trip: header -/

/-- General form: the payload need not be split off the rest of the buffer. -/
theorem decodeHeader_encodeHeader' (list : Bool) (n : Nat) (rest : Bytes) (hn : n < 2 ^ 64)
    (hlen : n ≤ rest.length)
    (hcanon : list = false → n = 1 → ∀ c t, rest = c :: t → 0x80 ≤ c.toNat) :
    decodeHeader (encodeHeader list n ++ rest) = .ok (⟨list, n⟩, rest) := by
  by_cases h : n < 56
  · rw [encodeHeader_short list n h]
    simp only [List.cons_append, List.nil_append]
    rw [decodeHeader_cons]
    cases list with
    | false =>
      simp only [Bool.false_eq_true, if_false]
      rw [toNat_ofNat_lt256 (by omega : 0x80 + n < 256)]
      rw [if_neg (by omega), if_pos (by omega)]
      by_cases h1 : n = 1
      · subst h1
        rw [if_pos (by omega)]
        cases rest with
        | nil => simp at hlen
        | cons c t =>
          have := hcanon rfl rfl c t rfl
          simp only
          rw [if_neg (by omega)]
          exact hdrFinish_ok _ _ hlen
      · rw [if_neg (by omega)]
        have : 0x80 + n - 0x80 = n := by omega
        rw [this]
        exact hdrFinish_ok _ _ hlen
    | true =>
      simp only [if_true]
      rw [toNat_ofNat_lt256 (by omega : 0xC0 + n < 256)]
      rw [if_neg (by omega), if_neg (by omega), if_neg (by omega), if_pos (by omega)]
      have : 0xC0 + n - 0xC0 = n := by omega
      rw [this]
      exact hdrFinish_ok _ _ hlen
  · obtain ⟨b0, t, _, hk, h0, hbe, henc⟩ := encodeHeader_long list n (by omega) hn
    rw [henc]
    simp only [List.cons_append]
    rw [decodeHeader_cons]
    cases list with
    | false =>
      simp only [Bool.false_eq_true, if_false]
      rw [toNat_ofNat_lt256 (by omega : 0xB7 + (t.length + 1) < 256)]
      rw [if_neg (by omega), if_neg (by omega), if_pos (by omega)]
      have : 0xB7 + (t.length + 1) - 0xB7 = t.length + 1 := by omega
      rw [this]
      have := hdrLong_ok false b0 t rest h0 (by omega) (by omega)
      rw [hbe] at this
      exact this
    | true =>
      simp only [if_true]
      rw [toNat_ofNat_lt256 (by omega : 0xF7 + (t.length + 1) < 256)]
      rw [if_neg (by omega), if_neg (by omega), if_neg (by omega), if_neg (by omega)]
      have : 0xF7 + (t.length + 1) - 0xF7 = t.length + 1 := by omega
      rw [this]
      have := hdrLong_ok true b0 t rest h0 (by omega) (by omega)
      rw [hbe] at this
      exact this

theorem decodeHeader_encodeHeader (list : Bool) (payload rest : Bytes)
    (hl : payload.length < 2 ^ 64)
    (hcanon : list = false → ¬ (payload.length = 1 ∧ ∃ b, payload = [b] ∧ b.toNat < 0x80)) :
    decodeHeader (encodeHeader list payload.length ++ payload ++ rest) =
      .ok (⟨list, payload.length⟩, payload ++ rest) := by
  rw [List.append_assoc]
  apply decodeHeader_encodeHeader' list payload.length (payload ++ rest) hl (by simp)
  intro hlist h1 c t hct
  have hc := hcanon hlist
  cases payload with
  | nil => simp at h1
  | cons p ps =>
    cases ps with
    | cons _ _ => simp at h1
    | nil =>
      simp only [List.cons_append, List.nil_append, List.cons.injEq] at hct
      rw [← hct.1]
      apply Classical.byContradiction
      intro hlt
      exact hc ⟨rfl, p, rfl, by omega⟩

/-! ### Canonicity: the decoder only accepts what the encoder produces -/

theorem eq_ofNat_of_toNat {b : UInt8} {n : Nat} (h : b.toNat = n) : b = UInt8.ofNat n := by
  rw [← h, UInt8.ofNat_toNat]

theorem encodeHeader_of_be (l : Bool) (b0 : UInt8) (t : Bytes) (h0 : b0.toNat ≠ 0)
    (h56 : 56 ≤ beToNat (b0 :: t)) :
    encodeHeader l (beToNat (b0 :: t)) =
      UInt8.ofNat ((if l then 0xF7 else 0xB7) + (t.length + 1)) :: b0 :: t := by
  unfold encodeHeader
  rw [if_neg (by omega)]
  have : natToBe (beToNat (b0 :: t)) = b0 :: t := by
    apply natToBe_beToNat
    intro c r hc
    simp only [List.cons.injEq] at hc
    rw [← hc.1]; exact h0
  simp only [this, List.length_cons]

theorem beToNat_lt_two64 (bs : Bytes) (h : bs.length ≤ 8) : beToNat bs < 2 ^ 64 := by
  have h1 := beToNat_lt bs
  have h2 : 256 ^ bs.length ≤ 256 ^ 8 := Nat.pow_le_pow_right (by omega) h
  rw [two64]; omega

theorem decodeHeader_single (b : UInt8) (t : Bytes) (h : Header) (rest : Bytes)
    (hb : b.toNat < 0x80) (hd : decodeHeader (b :: t) = .ok (h, rest)) :
    h = ⟨false, 1⟩ ∧ rest = b :: t := by
  rw [decodeHeader_cons, if_pos hb] at hd
  obtain ⟨h1, h2, _⟩ := hdrFinish_ok_inv hd
  exact ⟨h1, h2⟩

theorem decodeHeader_nonsingle (b : UInt8) (t : Bytes) (h : Header) (rest : Bytes)
    (hb : 0x80 ≤ b.toNat) (hd : decodeHeader (b :: t) = .ok (h, rest)) :
    b :: t = encodeHeader h.list h.len ++ rest ∧ h.len < 2 ^ 64 ∧ h.len ≤ rest.length ∧
      (h.list = false → h.len = 1 → ∃ c t', rest = c :: t' ∧ 0x80 ≤ c.toNat) := by
  have hb256 := UInt8.toNat_lt b
  rw [decodeHeader_cons, if_neg (by omega)] at hd
  split at hd
  · rename_i hB7
    split at hd
    · rename_i h1
      split at hd
      · cases hd
      · rename_i c t'
        split at hd
        · cases hd
        · rename_i hc
          obtain ⟨rfl, rfl, hl⟩ := hdrFinish_ok_inv hd
          refine ⟨?_, by simp only; omega, hl, ?_⟩
          · rw [encodeHeader_short _ _ (by simp only; omega)]
            simp only [Bool.false_eq_true, if_false, List.cons_append, List.nil_append,
              List.cons.injEq, and_true]
            exact eq_ofNat_of_toNat (by omega)
          · intro _ _; exact ⟨c, t', rfl, by omega⟩
    · rename_i h1
      obtain ⟨rfl, rfl, hl⟩ := hdrFinish_ok_inv hd
      refine ⟨?_, by simp only; omega, hl, ?_⟩
      · rw [encodeHeader_short _ _ (by simp only; omega)]
        simp only [Bool.false_eq_true, if_false, List.cons_append, List.nil_append,
          List.cons.injEq, and_true]
        exact eq_ofNat_of_toNat (by omega)
      · intro _ h1'; simp only at h1'; omega
  · rename_i hB7
    split at hd
    · rename_i hBF
      obtain ⟨b0, t', rfl, hk, h0, h56, rfl, hl⟩ := hdrLong_ok_inv hd
      refine ⟨?_, beToNat_lt_two64 _ (by simp only [List.length_cons]; omega), hl, ?_⟩
      · simp only
        rw [encodeHeader_of_be _ _ _ h0 h56]
        simp only [Bool.false_eq_true, if_false, List.cons_append, List.cons.injEq, and_true]
        exact eq_ofNat_of_toNat (by omega)
      · intro _ h1'; simp only at h1'; omega
    · rename_i hBF
      split at hd
      · rename_i hF7
        obtain ⟨rfl, rfl, hl⟩ := hdrFinish_ok_inv hd
        refine ⟨?_, by simp only; omega, hl, ?_⟩
        · rw [encodeHeader_short _ _ (by simp only; omega)]
          simp only [if_true, List.cons_append, List.nil_append, List.cons.injEq, and_true]
          exact eq_ofNat_of_toNat (by omega)
        · intro h'; simp at h'
      · rename_i hF7
        obtain ⟨b0, t', rfl, hk, h0, h56, rfl, hl⟩ := hdrLong_ok_inv hd
        refine ⟨?_, beToNat_lt_two64 _ (by simp only [List.length_cons]; omega), hl, ?_⟩
        · simp only
          rw [encodeHeader_of_be _ _ _ h0 h56]
          simp only [if_true, List.cons_append, List.cons.injEq, and_true]
          exact eq_ofNat_of_toNat (by omega)
        · intro h'; simp at h'

theorem decodeHeader_len_lt (buf : Bytes) (h : Header) (rest : Bytes)
    (hd : decodeHeader buf = .ok (h, rest)) : h.len < 2 ^ 64 := by
  cases buf with
  | nil => cases hd
  | cons b t =>
    by_cases hb : b.toNat < 0x80
    · rw [(decodeHeader_single b t h rest hb hd).1]; decide
    · exact (decodeHeader_nonsingle b t h rest (by omega) hd).2.1

/-- Header-level re-encoding.  The hypothesis excludes the single-byte case (first byte below
    `0x80`), where the byte is its own payload; see `decodeHeader_single` for that case. -/
theorem decodeHeader_reencode (buf : Bytes) (h : Header) (rest : Bytes)
    (hd : decodeHeader buf = .ok (h, rest))
    (hns : h.list = true ∨ ∀ b t, buf = b :: t → 0x80 ≤ b.toNat) :
    buf = encodeHeader h.list h.len ++ rest := by
  cases buf with
  | nil => cases hd
  | cons b t =>
    by_cases hb : b.toNat < 0x80
    · rcases hns with hl | hns
      · rw [(decodeHeader_single b t h rest hb hd).1] at hl; cases hl
      · have := hns b t rfl; omega
    · exact (decodeHeader_nonsingle b t h rest (by omega) hd).1

/-! ### `encBytes` / `encList` shapes and `decodeBytes` plumbing -/

theorem encBytes_single_lt (b : UInt8) (h : b.toNat < 0x80) : encBytes [b] = [b] := by
  unfold encBytes
  simp only [if_pos h]

theorem encBytes_of_not_single (bs : Bytes) (h : ∀ b, bs = [b] → 0x80 ≤ b.toNat) :
    encBytes bs = encodeHeader false bs.length ++ bs := by
  unfold encBytes
  split
  · rename_i b
    have := h b rfl
    rw [if_neg (by omega)]
    rfl
  · rfl

theorem decodeBytes_of_header {buf : Bytes} {h : Header} {r : Bytes} (isList : Bool)
    (hd : decodeHeader buf = .ok (h, r)) :
    decodeBytes buf isList =
      if h.list != isList then .error (if isList then .unexpectedString else .unexpectedList)
      else .ok (r.take h.len, r.drop h.len) := by
  unfold decodeBytes
  rw [hd]

theorem decodeBytes_ok_inv {buf : Bytes} {isList : Bool} {p rest : Bytes}
    (hd : decodeBytes buf isList = .ok (p, rest)) :
    ∃ h r, decodeHeader buf = .ok (h, r) ∧ h.list = isList ∧ p = r.take h.len ∧
      rest = r.drop h.len := by
  unfold decodeBytes at hd
  split at hd
  · cases hd
  · rename_i h r hh
    split at hd
    · cases hd
    · rename_i hl
      simp only [Except.ok.injEq, Prod.mk.injEq] at hd
      refine ⟨h, r, hh, ?_, hd.1.symm, hd.2.symm⟩
      simpa using hl

theorem decodeHeader_encBytes (bs rest : Bytes) (hl : bs.length < 2 ^ 64) :
    decodeHeader (encBytes bs ++ rest) = .ok (⟨false, bs.length⟩, bs ++ rest) := by
  by_cases hs : ∃ b, bs = [b] ∧ b.toNat < 0x80
  · obtain ⟨b, rfl, hb⟩ := hs
    rw [encBytes_single_lt b hb]
    simp only [List.cons_append, List.nil_append, List.length_singleton]
    rw [decodeHeader_cons, if_pos hb]
    exact hdrFinish_ok _ _ (by simp)
  · rw [encBytes_of_not_single bs]
    · exact decodeHeader_encodeHeader false bs rest hl
        (fun _ ⟨_, b, h1, h2⟩ => hs ⟨b, h1, h2⟩)
    · intro b hb
      apply Classical.byContradiction
      intro hlt
      exact hs ⟨b, hb, by omega⟩

theorem decodeHeader_encList (payload rest : Bytes) (hl : payload.length < 2 ^ 64) :
    decodeHeader (encList payload ++ rest) = .ok (⟨true, payload.length⟩, payload ++ rest) := by
  unfold encList
  exact decodeHeader_encodeHeader true payload rest hl (fun h => by cases h)

/-! ### Round trips and cross-kind errors for `decodeBytes` -/

theorem decodeBytes_encBytes (bs rest : Bytes) (hl : bs.length < 2 ^ 64) :
    decodeBytes (encBytes bs ++ rest) false = .ok (bs, rest) := by
  rw [decodeBytes_of_header false (decodeHeader_encBytes bs rest hl)]
  simp

theorem decodeBytes_encList (payload rest : Bytes) (hl : payload.length < 2 ^ 64) :
    decodeBytes (encList payload ++ rest) true = .ok (payload, rest) := by
  rw [decodeBytes_of_header true (decodeHeader_encList payload rest hl)]
  simp

theorem decodeBytes_encBytes_true (bs rest : Bytes) (hl : bs.length < 2 ^ 64) :
    decodeBytes (encBytes bs ++ rest) true = .error .unexpectedString := by
  rw [decodeBytes_of_header true (decodeHeader_encBytes bs rest hl)]
  simp

theorem decodeBytes_encList_false (payload rest : Bytes) (hl : payload.length < 2 ^ 64) :
    decodeBytes (encList payload ++ rest) false = .error .unexpectedList := by
  rw [decodeBytes_of_header false (decodeHeader_encList payload rest hl)]
  simp

/-! ### Canonicity for `decodeBytes` -/

theorem decodeBytes_false_reencode (buf bs rest : Bytes)
    (hd : decodeBytes buf false = .ok (bs, rest)) : buf = encBytes bs ++ rest := by
  obtain ⟨h, r, hh, hlist, rfl, rfl⟩ := decodeBytes_ok_inv hd
  cases buf with
  | nil => cases hh
  | cons b t =>
    by_cases hb : b.toNat < 0x80
    · obtain ⟨rfl, rfl⟩ := decodeHeader_single b t h r hb hh
      simp only [List.take_succ_cons, List.take_zero, List.drop_succ_cons, List.drop_zero]
      rw [encBytes_single_lt b hb]
      rfl
    · obtain ⟨henc, _, hlen, hcanon⟩ := decodeHeader_nonsingle b t h r (by omega) hh
      have hcanon := hcanon hlist
      rw [hlist] at henc
      have htl : (List.take h.len r).length = h.len := by
        rw [List.length_take]; omega
      rw [encBytes_of_not_single, htl, List.append_assoc, List.take_append_drop]
      · exact henc
      · intro c hc
        have h1 : h.len = 1 := by
          rw [← htl, hc]; rfl
        obtain ⟨c', t', rfl, hc'⟩ := hcanon h1
        rw [h1] at hc
        simp only [List.take_succ_cons, List.take_zero, List.cons.injEq, and_true] at hc
        rw [← hc]; exact hc'

theorem decodeBytes_true_reencode (buf p rest : Bytes)
    (hd : decodeBytes buf true = .ok (p, rest)) : buf = encList p ++ rest := by
  obtain ⟨h, r, hh, hlist, rfl, rfl⟩ := decodeBytes_ok_inv hd
  have henc := decodeHeader_reencode buf h r hh (Or.inl hlist)
  have hlen := (decodeHeader_rest_le buf h r hh).2
  have htl : (List.take h.len r).length = h.len := by
    rw [List.length_take]; omega
  unfold encList
  rw [htl, List.append_assoc, List.take_append_drop, ← hlist]
  exact henc

/-- The payload returned by `decodeBytes` has exactly the header's length, below `2^64`. -/
theorem decodeBytes_payload_length_lt (buf : Bytes) (l : Bool) (p rest : Bytes)
    (hd : decodeBytes buf l = .ok (p, rest)) : p.length < 2 ^ 64 := by
  obtain ⟨h, r, hh, _, rfl, rfl⟩ := decodeBytes_ok_inv hd
  have := decodeHeader_len_lt buf h r hh
  rw [List.length_take]; omega

/-! ### Integers -/

theorem natToBe_length_lt_two64 (n : Nat) (hn : n < 2 ^ 64) : (natToBe n).length < 2 ^ 64 := by
  have := natToBe_length_le n 8 (by rw [← two64]; exact hn)
  omega

theorem leftPadToNat_natToBe (k n : Nat) (hn : n < 256 ^ k) :
    leftPadToNat k (natToBe n) = .ok n := by
  unfold leftPadToNat
  have hlen := natToBe_length_le n k hn
  rw [if_neg (by omega)]
  split
  · rename_i hq
    rw [(natToBe_eq_nil_iff n).1 hq]
  · rename_i b0 t hq
    rw [if_neg (natToBe_head_ne_zero n b0 t hq), beToNat_natToBe]

theorem leftPadToNat_ok_inv {k : Nat} {bs : Bytes} {n : Nat} (h : leftPadToNat k bs = .ok n) :
    bs = natToBe n ∧ n < 256 ^ k := by
  unfold leftPadToNat at h
  split at h
  · cases h
  · rename_i hlen
    split at h
    · simp only [Except.ok.injEq] at h
      subst h
      exact ⟨natToBe_zero.symm, Nat.pow_pos (by omega)⟩
    · rename_i b0 t
      split at h
      · cases h
      · rename_i h0
        simp only [Except.ok.injEq] at h
        subst h
        refine ⟨?_, ?_⟩
        · symm
          apply natToBe_beToNat
          intro c r hc
          simp only [List.cons.injEq] at hc
          rw [← hc.1]; exact h0
        · have h1 := beToNat_lt (b0 :: t)
          have h2 : 256 ^ (b0 :: t).length ≤ 256 ^ k :=
            Nat.pow_le_pow_right (by omega) (by omega)
          omega

theorem decodeUint_encUint (k n : Nat) (rest : Bytes) (hk : k ≤ 8) (hn : n < 256 ^ k) :
    decodeUint k (encUint n ++ rest) = .ok (n, rest) := by
  have hlen := natToBe_length_le n k hn
  unfold decodeUint encUint
  rw [decodeBytes_encBytes _ _ (by omega)]
  simp only [leftPadToNat_natToBe k n hn]

theorem decodeUint_reencode (k : Nat) (buf : Bytes) (n : Nat) (rest : Bytes)
    (hd : decodeUint k buf = .ok (n, rest)) : buf = encUint n ++ rest ∧ n < 256 ^ k := by
  unfold decodeUint at hd
  split at hd
  · cases hd
  · rename_i bs r hb
    split at hd
    · cases hd
    · rename_i m hm
      simp only [Except.ok.injEq, Prod.mk.injEq] at hd
      obtain ⟨rfl, rfl⟩ := hd
      obtain ⟨rfl, hlt⟩ := leftPadToNat_ok_inv hm
      exact ⟨decodeBytes_false_reencode _ _ _ hb, hlt⟩

theorem encUint_overflow (k n : Nat) (rest : Bytes) (_hk : k ≤ 8) (hn : 256 ^ k ≤ n)
    (hn2 : n < 2 ^ 64) : decodeUint k (encUint n ++ rest) = .error .overflow := by
  have hgt := natToBe_length_gt n k hn
  unfold decodeUint encUint
  rw [decodeBytes_encBytes _ _ (natToBe_length_lt_two64 n hn2)]
  simp only [leftPadToNat, if_pos hgt]

/-! ### Fixed-width strings -/

theorem decodeFixed_encBytes (n : Nat) (bs rest : Bytes) (hlen : bs.length = n)
    (hn : n < 2 ^ 64) : decodeFixed n (encBytes bs ++ rest) = .ok (bs, rest) := by
  unfold decodeFixed
  rw [decodeBytes_encBytes _ _ (by omega)]
  simp only [if_pos hlen]

theorem decodeFixed_reencode (n : Nat) (buf bs rest : Bytes)
    (hd : decodeFixed n buf = .ok (bs, rest)) : buf = encBytes bs ++ rest ∧ bs.length = n := by
  unfold decodeFixed at hd
  split at hd
  · cases hd
  · rename_i p r hb
    split at hd
    · rename_i hlen
      simp only [Except.ok.injEq, Prod.mk.injEq] at hd
      obtain ⟨rfl, rfl⟩ := hd
      exact ⟨decodeBytes_false_reencode _ _ _ hb, hlen⟩
    · cases hd

/-! ### Prefix locality -/

theorem decodeHeader_append (buf suf : Bytes) (h : Header) (rest : Bytes)
    (hd : decodeHeader buf = .ok (h, rest)) :
    decodeHeader (buf ++ suf) = .ok (h, rest ++ suf) := by
  cases buf with
  | nil => cases hd
  | cons b t =>
    by_cases hb : b.toNat < 0x80
    · obtain ⟨rfl, rfl⟩ := decodeHeader_single b t h rest hb hd
      rw [List.cons_append, decodeHeader_cons, if_pos hb]
      exact hdrFinish_ok _ _ (by simp)
    · obtain ⟨henc, hlt, hlen, hcanon⟩ := decodeHeader_nonsingle b t h rest (by omega) hd
      rw [henc, List.append_assoc]
      cases h with
      | mk hlist hl =>
        apply decodeHeader_encodeHeader' hlist hl (rest ++ suf) hlt
          (by simp only [List.length_append]; simp only at hlen; omega)
        intro h1 h2 c t' hct
        obtain ⟨c', t'', rfl, hc'⟩ := hcanon h1 h2
        simp only [List.cons_append, List.cons.injEq] at hct
        rw [← hct.1]; exact hc'

theorem decodeBytes_append (buf suf : Bytes) (l : Bool) (p rest : Bytes)
    (hd : decodeBytes buf l = .ok (p, rest)) :
    decodeBytes (buf ++ suf) l = .ok (p, rest ++ suf) := by
  obtain ⟨h, r, hh, hlist, rfl, rfl⟩ := decodeBytes_ok_inv hd
  have hlen := (decodeHeader_rest_le buf h r hh).2
  rw [decodeBytes_of_header l (decodeHeader_append buf suf h r hh)]
  rw [hlist, List.take_append_of_le_length hlen, List.drop_append_of_le_length hlen]
  simp

/-- If the item alone already decodes, decoding it followed by a suffix gives the same header and
    the same remainder with the suffix appended. -/
theorem decodeHeader_of_append (item suf : Bytes) (h h' : Header) (rest' r : Bytes)
    (hd : decodeHeader (item ++ suf) = .ok (h, rest'))
    (hc : decodeHeader item = .ok (h', r)) : h = h' ∧ rest' = r ++ suf := by
  rw [decodeHeader_append item suf h' r hc] at hd
  simp only [Except.ok.injEq, Prod.mk.injEq] at hd
  exact ⟨hd.1.symm, hd.2.symm⟩

theorem decodeHeader_append_error (item suf : Bytes) (e : RlpErr)
    (hc : decodeHeader item = .error e) (hne : e ≠ .inputTooShort) :
    decodeHeader (item ++ suf) = .error e := by
  cases item with
  | nil =>
    simp only [decodeHeader, Except.error.injEq] at hc
    exact absurd hc.symm hne
  | cons b t =>
    rw [List.cons_append, decodeHeader_cons]
    rw [decodeHeader_cons] at hc
    by_cases h1 : b.toNat < 0x80
    · rw [if_pos h1] at hc
      exact absurd (hdrFinish_error hc) hne
    · rw [if_neg h1] at hc ⊢
      by_cases h2 : b.toNat ≤ 0xB7
      · rw [if_pos h2] at hc ⊢
        by_cases h3 : b.toNat - 0x80 = 1
        · rw [if_pos h3] at hc ⊢
          cases t with
          | nil =>
            simp only [Except.error.injEq] at hc
            exact absurd hc.symm hne
          | cons c t' =>
            simp only [List.cons_append] at hc ⊢
            by_cases h4 : c.toNat < 0x80
            · rw [if_pos h4] at hc ⊢; exact hc
            · rw [if_neg h4] at hc
              exact absurd (hdrFinish_error hc) hne
        · rw [if_neg h3] at hc
          exact absurd (hdrFinish_error hc) hne
      · rw [if_neg h2] at hc ⊢
        by_cases h3 : b.toNat ≤ 0xBF
        · rw [if_pos h3] at hc ⊢
          exact hdrLong_error_append hc hne
        · rw [if_neg h3] at hc ⊢
          by_cases h4 : b.toNat ≤ 0xF7
          · rw [if_pos h4] at hc
            exact absurd (hdrFinish_error hc) hne
          · rw [if_neg h4] at hc ⊢
            exact hdrLong_error_append hc hne

/-- The same for `decodeBytes`: every error other than `inputTooShort` is decided by the bytes
    already present. -/
theorem decodeBytes_append_error (item suf : Bytes) (l : Bool) (e : RlpErr)
    (hc : decodeBytes item l = .error e) (hne : e ≠ .inputTooShort) :
    decodeBytes (item ++ suf) l = .error e := by
  cases hh : decodeHeader item with
  | error e' =>
    unfold decodeBytes at hc ⊢
    rw [hh] at hc
    simp only [Except.error.injEq] at hc
    subst hc
    rw [decodeHeader_append_error item suf e' hh hne]
  | ok v =>
    obtain ⟨h, r⟩ := v
    rw [decodeBytes_of_header l hh] at hc
    rw [decodeBytes_of_header l (decodeHeader_append item suf h r hh)]
    split at hc
    · rename_i hl; rw [if_pos hl]; exact hc
    · cases hc

/-! ### Lengths -/

theorem encodeHeader_length_eq (l : Bool) (n : Nat) :
    (encodeHeader l n).length = if n < 56 then 1 else 1 + (natToBe n).length := by
  unfold encodeHeader
  split
  · rfl
  · simp only [List.length_cons]; omega

theorem encodeHeader_length_pos (l : Bool) (n : Nat) : 0 < (encodeHeader l n).length := by
  rw [encodeHeader_length_eq]; split <;> omega

theorem encodeHeader_ne_nil (l : Bool) (n : Nat) : encodeHeader l n ≠ [] := by
  intro h
  have := encodeHeader_length_pos l n
  rw [h] at this
  simp at this

theorem encodeHeader_length (l : Bool) (n : Nat) (hn : n < 2 ^ 64) :
    (encodeHeader l n).length ≤ 9 := by
  rw [encodeHeader_length_eq]
  have := natToBe_length_le n 8 (by rw [← two64]; exact hn)
  split <;> omega

theorem natToBe_length_mono (a b : Nat) (h : a ≤ b) :
    (natToBe a).length ≤ (natToBe b).length := by
  apply natToBe_length_le
  have := beToNat_lt (natToBe b)
  rw [beToNat_natToBe] at this
  omega

theorem natToBe_length_eq (n k : Nat) (h1 : 256 ^ k ≤ n) (h2 : n < 256 ^ (k + 1)) :
    (natToBe n).length = k + 1 := by
  have := natToBe_length_le n (k + 1) h2
  have := natToBe_length_gt n k h1
  omega

theorem encodeHeader_length_mono (l : Bool) (a b : Nat) (h : a ≤ b) :
    (encodeHeader l a).length ≤ (encodeHeader l b).length := by
  rw [encodeHeader_length_eq, encodeHeader_length_eq]
  have := natToBe_length_mono a b h
  split <;> split <;> omega

theorem encodeHeader_length_lt56 (l : Bool) (n : Nat) (h : n < 56) :
    (encodeHeader l n).length = 1 := by
  rw [encodeHeader_length_eq, if_pos h]

theorem encodeHeader_length_lt256 (l : Bool) (n : Nat) (h1 : 56 ≤ n) (h2 : n < 256) :
    (encodeHeader l n).length = 2 := by
  rw [encodeHeader_length_eq, if_neg (by omega), natToBe_length_eq n 0 (by omega) (by omega)]

theorem encodeHeader_length_lt65536 (l : Bool) (n : Nat) (h1 : 256 ≤ n) (h2 : n < 65536) :
    (encodeHeader l n).length = 3 := by
  rw [encodeHeader_length_eq, if_neg (by omega), natToBe_length_eq n 1 (by omega) (by omega)]

theorem encBytes_ne_nil (bs : Bytes) : encBytes bs ≠ [] := by
  unfold encBytes
  split
  · split
    · simp
    · intro h
      have := congrArg List.length h
      simp at this
  · intro h
    have h1 := congrArg List.length h
    have h2 := encodeHeader_length_pos false bs.length
    simp only [List.length_append, List.length_nil] at h1
    omega

theorem encBytes_length (bs : Bytes) (hl : bs.length < 2 ^ 64) :
    (encBytes bs).length ≤ bs.length + 9 ∧ bs.length ≤ (encBytes bs).length := by
  have h9 := encodeHeader_length false bs.length hl
  unfold encBytes
  split
  · split
    · simp
    · simp only [List.length_append, List.length_singleton] at h9 ⊢
      omega
  · simp only [List.length_append]
    omega

theorem encBytes_length_small (bs : Bytes) (h56 : bs.length < 56) (h1 : bs.length ≠ 1) :
    (encBytes bs).length = bs.length + 1 := by
  rw [encBytes_of_not_single bs (by intro b hb; rw [hb] at h1; simp at h1)]
  rw [List.length_append, encodeHeader_length_lt56 _ _ h56]
  omega

/-- Exact length in every case below 56 bytes: a lone byte below `0x80` is its own encoding. -/
theorem encBytes_length_le_small (bs : Bytes) (h56 : bs.length < 56) :
    (encBytes bs).length ≤ bs.length + 1 ∧ 1 ≤ (encBytes bs).length := by
  unfold encBytes
  split
  · split
    · simp
    · simp only [List.length_append, List.length_singleton,
        encodeHeader_length_lt56 false 1 (by omega)]
      omega
  · simp only [List.length_append, encodeHeader_length_lt56 false bs.length h56]
    omega

theorem encList_length (p : Bytes) :
    (encList p).length = (encodeHeader true p.length).length + p.length := by
  unfold encList
  rw [List.length_append]

theorem encUint_length_le (n : Nat) (hn : n < 2 ^ 64) : (encUint n).length ≤ 9 := by
  have h8 := natToBe_length_le n 8 (by rw [← two64]; exact hn)
  have := (encBytes_length_le_small (natToBe n) (by omega)).1
  unfold encUint
  omega

end EnrVerif
