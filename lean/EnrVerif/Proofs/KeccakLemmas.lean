/-
  Shape lemmas about the Keccak-256 model (`Model/Keccak.lean`): output length, padding.  Nothing
  here is a statement about the cryptographic strength of the function.
-/
import EnrVerif.Model.Keccak
import EnrVerif.Model.Sha512

namespace EnrVerif
open Keccak

theorem laneBytes_length (w : UInt64) : (laneBytes w).length = 8 := rfl

/-- The digest is always 32 bytes, whatever the message. -/
theorem keccak256_length (m : Bytes) : (keccak256 m).length = 32 := by
  simp only [keccak256, Id.run]
  show List.length (laneBytes _ ++ (laneBytes _ ++ (laneBytes _ ++ laneBytes _))) = 32
  simp only [List.length_append, laneBytes_length]

/-- `pad10*1`: the padded message is a whole number of blocks … -/
theorem pad_length_mod (m : Bytes) : (pad m).length % rate = 0 := by
  simp only [pad]
  by_cases h : m.length % rate = rate - 1
  · rw [if_pos h]; simp [rate] at *; omega
  · rw [if_neg h]; simp [rate] at *; omega

/-- … at least one byte longer than the message (so at least one block is absorbed) … -/
theorem pad_length_gt (m : Bytes) : m.length < (pad m).length := by
  simp only [pad]
  by_cases h : m.length % rate = rate - 1
  · rw [if_pos h]; simp
  · rw [if_neg h]; simp

/-- … and starts with the message itself. -/
theorem pad_prefix (m : Bytes) : (pad m).take m.length = m := by
  simp only [pad]
  by_cases h : m.length % rate = rate - 1
  · rw [if_pos h]; simp
  · rw [if_neg h]; simp [List.append_assoc]

/-- Padding loses nothing: two messages of equal length with equal paddings are equal, and messages of
    different length that pad to the same string differ only … never: the padded string determines
    the message once its length is known. -/
theorem pad_injective_of_length (a b : Bytes) (hl : a.length = b.length) (h : pad a = pad b) : a = b := by
  have ha := pad_prefix a
  have hb := pad_prefix b
  rw [h, hl] at ha
  rw [← ha, hb]

theorem pad_at_least_one_block (m : Bytes) : 1 ≤ (pad m).length / rate := by
  have h1 := pad_length_mod m
  have h2 := pad_length_gt m
  simp only [rate] at *
  omega

/-! ### SHA-512 (used by the Ed25519 oracle) -/

theorem wordBytes_length (w : UInt64) : (Sha512.wordBytes w).length = 8 := rfl

/-- The SHA-512 digest is always 64 bytes. -/
theorem sha512_length (m : Bytes) : (sha512 m).length = 64 := by
  simp only [sha512, Id.run]
  show List.length (Sha512.wordBytes _ ++ Sha512.wordBytes _ ++ Sha512.wordBytes _ ++ Sha512.wordBytes _
    ++ Sha512.wordBytes _ ++ Sha512.wordBytes _ ++ Sha512.wordBytes _ ++ Sha512.wordBytes _) = 64
  simp only [List.length_append, wordBytes_length]

end EnrVerif
