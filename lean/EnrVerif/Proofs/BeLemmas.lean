/-
  Big-endian conversion lemmas (`beToNat`, `natToBe`, `natToBeFixed`) and the strict total order
  `bytesLt`.
-/
import EnrVerif.Model.Bytes

namespace EnrVerif

/-- Induction from the right end of a list. -/
theorem list_snoc_induction {α : Type} {P : List α → Prop} (nil : P [])
    (snoc : ∀ as a, P as → P (as ++ [a])) : ∀ l, P l := by
  have key : ∀ r : List α, P r.reverse := by
    intro r
    induction r with
    | nil => exact nil
    | cons a as ih => rw [List.reverse_cons]; exact snoc _ _ ih
  intro l
  have := key l.reverse
  rwa [List.reverse_reverse] at this

theorem toNat_ofNat_mod256 (n : Nat) : (UInt8.ofNat (n % 256)).toNat = n % 256 := by
  rw [UInt8.toNat_ofNat']; omega

/-! ### `beToNat` -/

@[simp] theorem beToNat_nil : beToNat [] = 0 := rfl

theorem beToNat_foldl (acc : Nat) (bs : Bytes) :
    bs.foldl (fun acc b => acc * 256 + b.toNat) acc = acc * 256 ^ bs.length + beToNat bs := by
  induction bs generalizing acc with
  | nil => simp [beToNat]
  | cons b bs ih =>
    simp only [List.foldl_cons, beToNat, List.length_cons]
    rw [ih, ih (0 * 256 + b.toNat)]
    simp only [Nat.zero_mul, Nat.zero_add, Nat.pow_succ]
    grind

theorem beToNat_cons (b : UInt8) (bs : Bytes) :
    beToNat (b :: bs) = b.toNat * 256 ^ bs.length + beToNat bs := by
  have := beToNat_foldl (0 * 256 + b.toNat) bs
  simp only [Nat.zero_mul, Nat.zero_add] at this
  simpa [beToNat] using this

@[simp] theorem beToNat_singleton (b : UInt8) : beToNat [b] = b.toNat := by
  simp [beToNat]

theorem beToNat_append (a b : Bytes) :
    beToNat (a ++ b) = beToNat a * 256 ^ b.length + beToNat b := by
  show List.foldl _ 0 (a ++ b) = _
  rw [List.foldl_append, beToNat_foldl]
  rfl

theorem beToNat_lt (a : Bytes) : beToNat a < 256 ^ a.length := by
  induction a with
  | nil => simp
  | cons b bs ih =>
    rw [beToNat_cons, List.length_cons, Nat.pow_succ]
    have hb := UInt8.toNat_lt b
    have : b.toNat * 256 ^ bs.length ≤ 255 * 256 ^ bs.length :=
      Nat.mul_le_mul_right _ (by omega)
    omega

theorem beToNat_ge_of_head (b0 : UInt8) (rest : Bytes) (h : b0.toNat ≠ 0) :
    256 ^ rest.length ≤ beToNat (b0 :: rest) := by
  rw [beToNat_cons]
  have : 1 * 256 ^ rest.length ≤ b0.toNat * 256 ^ rest.length :=
    Nat.mul_le_mul_right _ (by omega)
  omega

/-! ### `natToBe` -/

theorem natToBeAux_acc (fuel n : Nat) (acc : Bytes) :
    natToBeAux fuel n acc = natToBeAux fuel n [] ++ acc := by
  induction fuel generalizing n acc with
  | zero => simp [natToBeAux]
  | succ f ih =>
    simp only [natToBeAux]
    split
    · simp
    · rw [ih, ih (n / 256) [_]]
      simp

theorem natToBeAux_fuel (f1 f2 n : Nat) (acc : Bytes) (h1 : n < f1) (h2 : n < f2) :
    natToBeAux f1 n acc = natToBeAux f2 n acc := by
  induction f1 generalizing f2 n acc with
  | zero => omega
  | succ f ih =>
    cases f2 with
    | zero => omega
    | succ g =>
      simp only [natToBeAux]
      split
      · rfl
      · apply ih <;> omega

theorem natToBe_zero : natToBe 0 = [] := by
  simp [natToBe, natToBeAux]

theorem natToBe_pos (n : Nat) (h : n ≠ 0) :
    natToBe n = natToBe (n / 256) ++ [UInt8.ofNat (n % 256)] := by
  unfold natToBe
  rw [natToBeAux]
  simp only [h, if_false]
  rw [natToBeAux_acc, natToBeAux_fuel n (n / 256 + 1) (n / 256) [] (by omega) (by omega)]

theorem natToBe_eq_nil_iff (n : Nat) : natToBe n = [] ↔ n = 0 := by
  constructor
  · intro h
    apply Classical.byContradiction
    intro hn
    rw [natToBe_pos n hn] at h
    simp at h
  · rintro rfl; exact natToBe_zero

theorem beToNat_natToBe (n : Nat) : beToNat (natToBe n) = n := by
  induction n using Nat.strongRecOn with
  | _ n ih =>
    by_cases h : n = 0
    · subst h; simp [natToBe_zero]
    · rw [natToBe_pos n h, beToNat_append, ih (n / 256) (by omega)]
      simp only [List.length_singleton, beToNat_singleton, toNat_ofNat_mod256]
      omega

theorem natToBe_head_ne_zero (n : Nat) (b0 : UInt8) (rest : Bytes) :
    natToBe n = b0 :: rest → b0.toNat ≠ 0 := by
  induction n using Nat.strongRecOn generalizing b0 rest with
  | _ n ih =>
    intro hn
    by_cases h : n = 0
    · subst h; simp [natToBe_zero] at hn
    · rw [natToBe_pos n h] at hn
      by_cases h2 : n / 256 = 0
      · rw [h2, natToBe_zero] at hn
        simp only [List.nil_append, List.cons.injEq] at hn
        rw [← hn.1, UInt8.toNat_ofNat']
        omega
      · cases hq : natToBe (n / 256) with
        | nil => exact absurd ((natToBe_eq_nil_iff _).1 hq) h2
        | cons c cs =>
          rw [hq] at hn
          simp only [List.cons_append, List.cons.injEq] at hn
          rw [← hn.1]
          exact ih (n / 256) (by omega) c cs hq

theorem natToBe_beToNat (bs : Bytes) (h : ∀ b0 rest, bs = b0 :: rest → b0.toNat ≠ 0) :
    natToBe (beToNat bs) = bs := by
  induction bs using list_snoc_induction with
  | nil => simp [natToBe_zero]
  | snoc as a ih =>
    rw [beToNat_append]
    simp only [List.length_singleton, beToNat_singleton, Nat.pow_one]
    have ha := UInt8.toNat_lt a
    cases as with
    | nil =>
      have h0 := h a [] rfl
      simp only [beToNat_nil, Nat.zero_mul, Nat.zero_add, List.nil_append]
      rw [natToBe_pos _ h0]
      have : a.toNat / 256 = 0 := by omega
      rw [this, natToBe_zero, Nat.mod_eq_of_lt ha, UInt8.ofNat_toNat]
      rfl
    | cons c cs =>
      have hc := h c (cs ++ [a]) rfl
      have hge := beToNat_ge_of_head c cs hc
      have hpos : 0 < 256 ^ cs.length := Nat.pow_pos (by omega)
      rw [natToBe_pos _ (by omega)]
      have e1 : (beToNat (c :: cs) * 256 + a.toNat) / 256 = beToNat (c :: cs) := by omega
      have e2 : (beToNat (c :: cs) * 256 + a.toNat) % 256 = a.toNat := by omega
      rw [e1, e2, UInt8.ofNat_toNat, ih]
      intro b0 rest hb
      simp only [List.cons.injEq] at hb
      rw [← hb.1]; exact hc

theorem natToBe_length_le (n k : Nat) (h : n < 256 ^ k) : (natToBe n).length ≤ k := by
  cases hq : natToBe n with
  | nil => simp
  | cons c cs =>
    have hc := natToBe_head_ne_zero n c cs hq
    have hge := beToNat_ge_of_head c cs hc
    rw [← hq, beToNat_natToBe] at hge
    have : 256 ^ cs.length < 256 ^ k := by omega
    have := (Nat.pow_lt_pow_iff_right (by omega : 1 < 256)).1 this
    simp only [List.length_cons]; omega

theorem natToBe_length_pos (n : Nat) (h : 0 < n) : 0 < (natToBe n).length := by
  cases hq : natToBe n with
  | nil => have := (natToBe_eq_nil_iff n).1 hq; omega
  | cons c cs => simp

/-- Exact characterisation of the length: `n` needs more than `k` bytes iff `256^k ≤ n`. -/
theorem natToBe_length_gt (n k : Nat) (h : 256 ^ k ≤ n) : k < (natToBe n).length := by
  have h1 := beToNat_lt (natToBe n)
  rw [beToNat_natToBe] at h1
  have : 256 ^ k < 256 ^ (natToBe n).length := by omega
  exact (Nat.pow_lt_pow_iff_right (by omega : 1 < 256)).1 this

/-! ### `natToBeFixed` -/

theorem natToBeFixed_length (w n : Nat) : (natToBeFixed w n).length = w := by
  induction w generalizing n with
  | zero => simp [natToBeFixed]
  | succ w ih => simp [natToBeFixed, ih]

theorem beToNat_natToBeFixed_mod (w n : Nat) : beToNat (natToBeFixed w n) = n % 256 ^ w := by
  induction w generalizing n with
  | zero => simp [natToBeFixed, Nat.mod_one]
  | succ w ih =>
    simp only [natToBeFixed]
    rw [beToNat_append, ih]
    simp only [List.length_singleton, Nat.pow_one, beToNat_singleton, toNat_ofNat_mod256]
    rw [Nat.pow_succ, Nat.mul_comm (256 ^ w) 256, Nat.mod_mul]
    omega

theorem beToNat_natToBeFixed (w n : Nat) (h : n < 256 ^ w) :
    beToNat (natToBeFixed w n) = n := by
  rw [beToNat_natToBeFixed_mod, Nat.mod_eq_of_lt h]

theorem natToBeFixed_beToNat (bs : Bytes) : natToBeFixed bs.length (beToNat bs) = bs := by
  induction bs using list_snoc_induction with
  | nil => simp [natToBeFixed]
  | snoc as a ih =>
    have ha := UInt8.toNat_lt a
    rw [beToNat_append]
    simp only [List.length_append, List.length_singleton, beToNat_singleton, Nat.pow_one,
      natToBeFixed]
    have e1 : (beToNat as * 256 + a.toNat) / 256 = beToNat as := by omega
    have e2 : (beToNat as * 256 + a.toNat) % 256 = a.toNat := by omega
    rw [e1, e2, UInt8.ofNat_toNat, ih]

/-! ### `bytesLt` is a strict total order -/

theorem bytesLt_irrefl (a : Bytes) : bytesLt a a = false := by
  induction a with
  | nil => rfl
  | cons x xs ih => simp [bytesLt, ih]

theorem bytesLt_trans (a b c : Bytes) (hab : bytesLt a b = true) (hbc : bytesLt b c = true) :
    bytesLt a c = true := by
  induction a generalizing b c with
  | nil =>
    cases b with
    | nil => simp [bytesLt] at hab
    | cons y ys =>
      cases c with
      | nil => simp [bytesLt] at hbc
      | cons z zs => simp [bytesLt]
  | cons x xs ih =>
    cases b with
    | nil => simp [bytesLt] at hab
    | cons y ys =>
      cases c with
      | nil => simp [bytesLt] at hbc
      | cons z zs =>
        simp only [bytesLt] at hab hbc ⊢
        split at hab
        · split at hbc
          · rw [if_pos (by omega)]
          · split at hbc
            · simp at hbc
            · rw [if_pos (by omega)]
        · split at hab
          · simp at hab
          · split at hbc
            · rw [if_pos (by omega)]
            · split at hbc
              · simp at hbc
              · rw [if_neg (by omega), if_neg (by omega)]
                exact ih ys zs hab hbc

theorem bytesLt_asymm (a b : Bytes) (hab : bytesLt a b = true) : bytesLt b a = false := by
  cases h : bytesLt b a with
  | false => rfl
  | true =>
    have := bytesLt_trans a b a hab h
    rw [bytesLt_irrefl] at this
    exact this.symm

theorem bytesLt_total (a b : Bytes) : bytesLt a b = true ∨ a = b ∨ bytesLt b a = true := by
  induction a generalizing b with
  | nil =>
    cases b with
    | nil => exact Or.inr (Or.inl rfl)
    | cons y ys => exact Or.inl rfl
  | cons x xs ih =>
    cases b with
    | nil => exact Or.inr (Or.inr rfl)
    | cons y ys =>
      simp only [bytesLt]
      by_cases h1 : x.toNat < y.toNat
      · left; rw [if_pos h1]
      · by_cases h2 : y.toNat < x.toNat
        · right; right; rw [if_pos h2]
        · rw [if_neg h1, if_neg h2, if_neg h2, if_neg h1]
          have hxy : x = y := UInt8.toNat_inj.1 (by omega)
          subst hxy
          rcases ih ys with h | h | h
          · exact Or.inl h
          · exact Or.inr (Or.inl (by rw [h]))
          · exact Or.inr (Or.inr h)

/-- `bytesLt a b = false` and `bytesLt b a = false` force equality (trichotomy, other direction). -/
theorem bytesLt_antisymm (a b : Bytes) (h1 : bytesLt a b = false) (h2 : bytesLt b a = false) :
    a = b := by
  rcases bytesLt_total a b with h | h | h
  · rw [h] at h1; cases h1
  · exact h
  · rw [h] at h2; cases h2

end EnrVerif
