/-
  Helper lemmas about the update methods (`prepareG`, `prepare`, `step`), the builder and the
  record invariant `Valid`.  The property theorems of C03, C05, C06, C07 and C10 (`Props/`) are
  short corollaries of what is proved here.

  Organisation:
   1. the shape of `step` (which of its four exits was taken);
   2. `opStage`: the content stage of an update, independent of the sequence number, and the
      factorisation `prepareG = opStage ; finishPrepare`;
   3. error kinds of the stage (`checkReserved`, `insertAll`);
   4. `ContentOK` is preserved by the stage and by storing the public key;
   5. inversion of a successful `prepareG`, and the invariant after a successful `step`;
   6. the builder;
   7. accessors of valid records.
-/
import EnrVerif.Proofs.CodecTheorems

set_option linter.unusedVariables false

namespace EnrVerif

/-! ### 1. the shape of `step` -/

theorem step_prepare_error {S : Scheme} {r : Record} {op : Op S} {pk : S.PK} {e : EnrErr}
    (o : Option Bytes) (h : prepare S r op pk = .error e) : step S r op pk o = (.err e, r) := by
  unfold step; rw [h]

theorem step_none {S : Scheme} {r : Record} {op : Op S} {pk : S.PK} {p : Prepared}
    (h : prepare S r op pk = .ok p) : step S r op pk none = (.err .signingError, r) := by
  unfold step; rw [h]

theorem step_some {S : Scheme} {r : Record} {op : Op S} {pk : S.PK} {p : Prepared} (sig : Bytes)
    (h : prepare S r op pk = .ok p) :
    step S r op pk (some sig) =
      if ({ p.enr with sig := sig, nodeId := nodeIdOf S pk } : Record).size > MAX_ENR_SIZE
      then (.err .exceedsMaxSize, r)
      else (.ok p.ret, { p.enr with sig := sig, nodeId := nodeIdOf S pk }) := by
  unfold step; rw [h]

/-- The four exits of `step`. -/
theorem step_cases (S : Scheme) (r : Record) (op : Op S) (pk : S.PK) (o : Option Bytes) :
    (∃ e, prepare S r op pk = .error e ∧ step S r op pk o = (.err e, r)) ∨
    (∃ p, prepare S r op pk = .ok p ∧ o = none ∧ step S r op pk o = (.err .signingError, r)) ∨
    (∃ p sig, prepare S r op pk = .ok p ∧ o = some sig ∧
      ({ p.enr with sig := sig, nodeId := nodeIdOf S pk } : Record).size > MAX_ENR_SIZE ∧
      step S r op pk o = (.err .exceedsMaxSize, r)) ∨
    (∃ p sig, prepare S r op pk = .ok p ∧ o = some sig ∧
      ({ p.enr with sig := sig, nodeId := nodeIdOf S pk } : Record).size ≤ MAX_ENR_SIZE ∧
      step S r op pk o = (.ok p.ret, { p.enr with sig := sig, nodeId := nodeIdOf S pk })) := by
  cases hp : prepare S r op pk with
  | error e => exact Or.inl ⟨e, rfl, step_prepare_error o hp⟩
  | ok p =>
    cases o with
    | none => exact Or.inr (Or.inl ⟨p, rfl, rfl, step_none hp⟩)
    | some sig =>
      by_cases hs : ({ p.enr with sig := sig, nodeId := nodeIdOf S pk } : Record).size > MAX_ENR_SIZE
      · exact Or.inr (Or.inr (Or.inl ⟨p, sig, rfl, rfl, hs, by rw [step_some sig hp, if_pos hs]⟩))
      · exact Or.inr (Or.inr (Or.inr ⟨p, sig, rfl, rfl, Nat.le_of_not_gt hs,
          by rw [step_some sig hp, if_neg hs]⟩))

/-- A successful `step`: `prepare` succeeded, the signer answered, the final size check passed. -/
theorem step_ok_inv {S : Scheme} {r : Record} {op : Op S} {pk : S.PK} {o : Option Bytes}
    {ret : Ret} {r' : Record} (h : step S r op pk o = (.ok ret, r')) :
    ∃ p sig, prepare S r op pk = .ok p ∧ o = some sig ∧ ret = p.ret ∧
      r' = { p.enr with sig := sig, nodeId := nodeIdOf S pk } ∧ r'.size ≤ MAX_ENR_SIZE := by
  rcases step_cases S r op pk o with ⟨e, _, hs⟩ | ⟨p, _, _, hs⟩ | ⟨p, sig, _, _, _, hs⟩ |
      ⟨p, sig, hp, ho, hsz, hs⟩
  · rw [hs] at h; simp at h
  · rw [hs] at h; simp at h
  · rw [hs] at h; simp at h
  · rw [hs] at h
    simp only [Prod.mk.injEq, Res.ok.injEq] at h
    obtain ⟨h1, h2⟩ := h
    subst h1 h2
    exact ⟨p, sig, hp, ho, rfl, rfl, hsz⟩

/-- A failed `step` returns the record it was given. -/
theorem step_err_snd {S : Scheme} {r : Record} {op : Op S} {pk : S.PK} {o : Option Bytes}
    {e : EnrErr} (h : (step S r op pk o).1 = .err e) : (step S r op pk o).2 = r := by
  rcases step_cases S r op pk o with ⟨e, _, hs⟩ | ⟨p, _, _, hs⟩ | ⟨p, sig, _, _, _, hs⟩ |
      ⟨p, sig, hp, ho, hsz, hs⟩
  · rw [hs]
  · rw [hs]
  · rw [hs]
  · rw [hs] at h; simp at h

theorem step_fst_ne_panic (S : Scheme) (r : Record) (op : Op S) (pk : S.PK) (o : Option Bytes)
    (s : PanicSite) : (step S r op pk o).1 ≠ .panic s := by
  rcases step_cases S r op pk o with ⟨e, _, hs⟩ | ⟨p, _, _, hs⟩ | ⟨p, sig, _, _, _, hs⟩ |
      ⟨p, sig, hp, ho, hsz, hs⟩ <;> rw [hs] <;> simp

/-- Either the step succeeded, or the record is unchanged. -/
theorem step_ok_or_unchanged (S : Scheme) (r : Record) (op : Op S) (pk : S.PK) (o : Option Bytes) :
    (∃ ret, step S r op pk o = (.ok ret, (step S r op pk o).2)) ∨
    (∃ e, (step S r op pk o).1 = .err e ∧ (step S r op pk o).2 = r) := by
  rcases step_cases S r op pk o with ⟨e, _, hs⟩ | ⟨p, _, _, hs⟩ | ⟨p, sig, _, _, _, hs⟩ |
      ⟨p, sig, hp, ho, hsz, hs⟩
  · exact Or.inr ⟨e, by rw [hs], by rw [hs]⟩
  · exact Or.inr ⟨_, by rw [hs], by rw [hs]⟩
  · exact Or.inr ⟨_, by rw [hs], by rw [hs]⟩
  · exact Or.inl ⟨p.ret, by rw [hs]⟩

/-! ### 2. the content stage of an update -/

/-- stage of `insert_raw_rlp` and of every typed setter built on it -/
def stageInsert (c : Content) (key raw : Bytes) (mkRet : Option Bytes → Ret) :
    Except EnrErr (Content × Ret × Bool) :=
  match checkReserved key raw with
  | .error e => .error e
  | .ok () => .ok (Map.insert c key raw, mkRet (Map.lookup c key), true)

/-- stage of `remove_insert` -/
def stageRemoveInsert (c : Content) (rm : List Bytes) (ins : List (Bytes × Bytes))
    (mkRet : List (Option Bytes) → List (Option Bytes) → Ret) :
    Except EnrErr (Content × Ret × Bool) :=
  match insertAll (removeAll c rm).1 ins with
  | .error e => .error e
  | .ok (c2, inserted) => .ok (c2, mkRet (removeAll c rm).2 inserted, false)

/-- stage of `set_socket` -/
def stageSocket (c : Content) (ip : Bytes) (port : Nat) (isTcp : Bool) : Content :=
  if ip.length = 4 then
    Map.insert (Map.insert c kIp (encBytes ip)) (if isTcp then kTcp else kUdp) (encUint port)
  else
    Map.insert (Map.insert c kIp6 (encBytes ip)) (if isTcp then kTcp6 else kUdp6) (encUint port)

/-- What an update does to the content before the signer's public key is stored, the value it
    returns on success, and whether the code checks the size before signing.  It does not look at
    the sequence number, the node id or the signature. -/
def opStage (S : Scheme) (c : Content) : Op S → Except EnrErr (Content × Ret × Bool)
  | .setSeq _ => .ok (c, .unit, false)
  | .insert key v => stageInsert c key v.enc .prevRaw
  | .insertRaw key raw => stageInsert c key raw .prevRaw
  | .setIp ip =>
    if ip.length = 4 then stageInsert c kIp (encBytes ip) (prevIp 4)
    else stageInsert c kIp6 (encBytes ip) (prevIp 16)
  | .setUdp4 p => stageInsert c kUdp (encUint p) prevPort
  | .setUdp6 p => stageInsert c kUdp6 (encUint p) prevPort
  | .setTcp4 p => stageInsert c kTcp (encUint p) prevPort
  | .setTcp6 p => stageInsert c kTcp6 (encUint p) prevPort
  | .removeUdp4 => .ok (Map.erase c kUdp, .unit, false)
  | .removeUdp6 => .ok (Map.erase c kUdp6, .unit, false)
  | .removeTcp => .ok (Map.erase c kTcp, .unit, false)
  | .removeTcp6 => .ok (Map.erase c kTcp6, .unit, false)
  | .setClientInfo name version build =>
    stageInsert c kClient (Val.strs (match build with
      | none => [name, version]
      | some b => [name, version, b])).enc (fun _ => .unit)
  | .setUdpSocket ip port => .ok (stageSocket c ip port false, .unit, true)
  | .setTcpSocket ip port => .ok (stageSocket c ip port true, .unit, true)
  | .removeUdpSocket => stageRemoveInsert c [kIp, kUdp] [] (fun _ _ => .unit)
  | .removeUdp6Socket => stageRemoveInsert c [kIp6, kUdp6] [] (fun _ _ => .unit)
  | .removeTcpSocket => stageRemoveInsert c [kIp, kTcp] [] (fun _ _ => .unit)
  | .removeTcp6Socket => stageRemoveInsert c [kIp6, kTcp6] [] (fun _ _ => .unit)
  | .removeKey key => .ok (Map.erase c key, .unit, false)
  | .removeInsert rm ins => stageRemoveInsert c rm ins .prevLists
  | .setPublicKey pk' => stageInsert c (S.enrKey pk') (encBytes (S.encodePub pk')) (fun _ => .unit)

/-- the continuation of the stage for every update other than `set_seq` -/
def afterStage (S : Scheme) (r : Record) (pk : S.PK) (chk : Bool) :
    Except EnrErr (Content × Ret × Bool) → Except EnrErr Prepared
  | .error e => .error e
  | .ok (c, ret, sc) => finishPrepare S { r with content := withPubkey S c pk } pk (chk && sc) ret

theorem prepInsertRaw_eq (S : Scheme) (r : Record) (key raw : Bytes) (pk : S.PK) (chk : Bool)
    (mkRet : Option Bytes → Ret) :
    prepInsertRaw S r key raw pk chk mkRet =
      afterStage S r pk chk (stageInsert r.content key raw mkRet) := by
  unfold prepInsertRaw stageInsert
  cases checkReserved key raw with
  | error e => rfl
  | ok u => cases u; simp only [afterStage, Bool.and_true]

theorem prepRemoveKey_eq (S : Scheme) (r : Record) (key : Bytes) (pk : S.PK) (chk : Bool) :
    prepRemoveKey S r key pk =
      afterStage S r pk chk (.ok (Map.erase r.content key, .unit, false)) := by
  simp only [prepRemoveKey, afterStage, Bool.and_false]

theorem prepRemoveInsert_eq (S : Scheme) (r : Record) (rm : List Bytes) (ins : List (Bytes × Bytes))
    (pk : S.PK) (chk : Bool) (mkRet : List (Option Bytes) → List (Option Bytes) → Ret) :
    prepRemoveInsert S r rm ins pk mkRet =
      afterStage S r pk chk (stageRemoveInsert r.content rm ins mkRet) := by
  unfold prepRemoveInsert stageRemoveInsert
  cases hra : removeAll r.content rm with
  | mk c1 removed =>
    simp only
    cases insertAll c1 ins with
    | error e => rfl
    | ok x => cases x; simp only [afterStage, Bool.and_false]

theorem prepSetSocket_eq (S : Scheme) (r : Record) (ip : Bytes) (port : Nat) (isTcp : Bool)
    (pk : S.PK) (chk : Bool) :
    prepSetSocket S r ip port isTcp pk chk =
      afterStage S r pk chk (.ok (stageSocket r.content ip port isTcp, .unit, true)) := by
  simp only [prepSetSocket, afterStage, stageSocket, Bool.and_true]

/-- `prepareG` = content stage, then store the key / size check / bump / pre-sign checks. -/
theorem prepareG_eq_stage (S : Scheme) (r : Record) (op : Op S) (pk : S.PK) (chk : Bool)
    (hop : op.isSetSeq = false) :
    prepareG S r op pk chk = afterStage S r pk chk (opStage S r.content op) := by
  cases op with
  | setSeq s => simp [Op.isSetSeq] at hop
  | setIp ip =>
    simp only [prepareG, opStage]
    split <;> exact prepInsertRaw_eq ..
  | insert | insertRaw | setUdp4 | setUdp6 | setTcp4 | setTcp6 | setClientInfo | setPublicKey =>
    simp only [prepareG, opStage]; exact prepInsertRaw_eq ..
  | removeUdp4 | removeUdp6 | removeTcp | removeTcp6 | removeKey => exact prepRemoveKey_eq ..
  | setUdpSocket | setTcpSocket => exact prepSetSocket_eq ..
  | removeUdpSocket | removeUdp6Socket | removeTcpSocket | removeTcp6Socket | removeInsert =>
    simp only [prepareG, opStage]; exact prepRemoveInsert_eq ..

theorem prepareG_setSeq (S : Scheme) (r : Record) (s : Nat) (pk : S.PK) (chk : Bool) :
    prepareG S r (.setSeq s) pk chk =
      match preSign S { r with seq := s, content := withPubkey S r.content pk } pk with
      | .error e => .error e
      | .ok () => .ok ⟨{ r with seq := s, content := withPubkey S r.content pk }, .unit⟩ := rfl

/-! ### 3. error kinds -/

/-- the errors of the value checks: a malformed or ill-typed value, or a wrong identity scheme -/
def EnrErr.IsValueErr (e : EnrErr) : Prop := e = .unsupportedId ∨ ∃ x, e = .invalidRlp x

theorem EnrErr.IsValueErr.ne_signingError {e : EnrErr} (h : e.IsValueErr) : e ≠ .signingError := by
  rcases h with rfl | ⟨x, rfl⟩ <;> simp

theorem EnrErr.IsValueErr.ne_seqTooHigh {e : EnrErr} (h : e.IsValueErr) : e ≠ .seqTooHigh := by
  rcases h with rfl | ⟨x, rfl⟩ <;> simp

theorem checkReserved_error_kind {k v : Bytes} {e : EnrErr} (h : checkReserved k v = .error e) :
    e.IsValueErr := by
  have fin : ∀ rest : Bytes,
      (if rest.isEmpty = true then Except.ok () else Except.error (EnrErr.invalidRlp .unexpectedLength)
        : Except EnrErr Unit) = .error e → e.IsValueErr := by
    intro rest hh
    split at hh
    · simp at hh
    · simp only [Except.error.injEq] at hh; exact Or.inr ⟨_, hh.symm⟩
  have inv : ∀ x : RlpErr, (Except.error (EnrErr.invalidRlp x) : Except EnrErr Unit) = .error e →
      e.IsValueErr := by
    intro x hh
    simp only [Except.error.injEq] at hh; exact Or.inr ⟨_, hh.symm⟩
  unfold checkReserved at h
  simp only at h
  split at h
  · split at h
    · exact inv _ h
    · exact fin _ h
  · split at h
    · split at h
      · exact inv _ h
      · split at h
        · exact fin _ h
        · simp only [Except.error.injEq] at h; exact Or.inl h.symm
    · split at h
      · split at h
        · exact inv _ h
        · exact fin _ h
      · split at h
        · split at h
          · exact inv _ h
          · exact fin _ h
        · split at h
          · split at h
            · exact inv _ h
            · exact fin _ h
          · split at h
            · exact inv _ h
            · exact fin _ h

theorem insertAll_error_kind {c : Content} {ins : List (Bytes × Bytes)} {e : EnrErr}
    (h : insertAll c ins = .error e) : e.IsValueErr := by
  induction ins generalizing c with
  | nil => simp [insertAll] at h
  | cons kv rest ih =>
    obtain ⟨k, value⟩ := kv
    unfold insertAll at h
    split at h
    · simp only [Except.error.injEq] at h; exact Or.inl h.symm
    · simp only at h
      split at h
      · rename_i e' hc
        simp only [Except.error.injEq] at h; subst h
        exact checkReserved_error_kind hc
      · split at h
        · rename_i e' hi
          simp only [Except.error.injEq] at h; subst h
          exact ih hi
        · simp at h

theorem stageInsert_error_kind {c : Content} {key raw : Bytes} {mkRet : Option Bytes → Ret}
    {e : EnrErr} (h : stageInsert c key raw mkRet = .error e) : e.IsValueErr := by
  unfold stageInsert at h
  split at h
  · rename_i e' hc
    simp only [Except.error.injEq] at h; subst h
    exact checkReserved_error_kind hc
  · simp at h

theorem stageRemoveInsert_error_kind {c : Content} {rm : List Bytes} {ins : List (Bytes × Bytes)}
    {mkRet : List (Option Bytes) → List (Option Bytes) → Ret}
    {e : EnrErr} (h : stageRemoveInsert c rm ins mkRet = .error e) : e.IsValueErr := by
  unfold stageRemoveInsert at h
  split at h
  · rename_i e' hc
    simp only [Except.error.injEq] at h; subst h
    exact insertAll_error_kind hc
  · simp at h

/-- The content stage fails only with a value error (`InvalidRlp(_)` or `UnsupportedIdentityScheme`). -/
theorem opStage_error_kind {S : Scheme} {c : Content} {op : Op S} {e : EnrErr}
    (h : opStage S c op = .error e) : e.IsValueErr := by
  cases op with
  | setIp ip =>
    simp only [opStage] at h
    split at h <;> exact stageInsert_error_kind h
  | insert | insertRaw | setUdp4 | setUdp6 | setTcp4 | setTcp6 | setClientInfo | setPublicKey =>
    simp only [opStage] at h; exact stageInsert_error_kind h
  | removeUdpSocket | removeUdp6Socket | removeTcpSocket | removeTcp6Socket | removeInsert =>
    simp only [opStage] at h; exact stageRemoveInsert_error_kind h
  | _ => simp [opStage] at h

/-- At the largest sequence number the tail of an update fails: with `ExceedsMaxSize` if the size
    check that precedes the increment fails, else with `SequenceNumberTooHigh`. -/
theorem finishPrepare_seq_max (S : Scheme) (n : Record) (pk : S.PK) (sc : Bool) (ret : Ret)
    (h : n.seq + 1 = 2 ^ 64) :
    finishPrepare S n pk sc ret =
      .error (if sc && n.size > MAX_ENR_SIZE then .exceedsMaxSize else .seqTooHigh) := by
  unfold finishPrepare bumpSeq
  by_cases hs : (sc && decide (n.size > MAX_ENR_SIZE)) = true
  · simp only [hs, if_true]
  · simp only [hs, if_false, h, Nat.lt_irrefl]
    rfl

theorem finishPrepare_ok_inv {S : Scheme} {n : Record} {pk : S.PK} {sc : Bool} {ret : Ret}
    {p : Prepared} (h : finishPrepare S n pk sc ret = .ok p) :
    p.ret = ret ∧ p.enr = { n with seq := n.seq + 1 } ∧ n.seq + 1 < 2 ^ 64 ∧
      preSign S p.enr pk = .ok () ∧ (sc = true → n.size ≤ MAX_ENR_SIZE) := by
  unfold finishPrepare at h
  split at h
  · simp at h
  · rename_i hsz
    split at h
    · simp at h
    · rename_i n1 hb
      unfold bumpSeq at hb
      split at hb
      · rename_i hlt
        simp only [Except.ok.injEq] at hb
        subst hb
        split at h
        · simp at h
        · rename_i hps
          simp only [Except.ok.injEq] at h
          subst h
          refine ⟨rfl, rfl, hlt, hps, ?_⟩
          intro hsc
          subst hsc
          simp only [Bool.true_and, decide_eq_true_eq] at hsz
          omega
      · simp at hb

/-! ### 4. `ContentOK` is preserved -/

theorem Map.mem_insert {c : Content} {k v k' v' : Bytes} (h : (k', v') ∈ Map.insert c k v) :
    (k', v') = (k, v) ∨ (k', v') ∈ c := by
  induction c with
  | nil => simp [Map.insert] at h; exact Or.inl (by simp [h])
  | cons kv rest ih =>
    obtain ⟨k0, v0⟩ := kv
    unfold Map.insert at h
    split at h
    · rcases List.mem_cons.mp h with h | h
      · exact Or.inl h
      · exact Or.inr (List.mem_cons_of_mem _ h)
    · split at h
      · rcases List.mem_cons.mp h with h | h
        · exact Or.inl h
        · exact Or.inr h
      · rcases List.mem_cons.mp h with h | h
        · exact Or.inr (by rw [h]; exact List.mem_cons_self)
        · rcases ih h with h | h
          · exact Or.inl h
          · exact Or.inr (List.mem_cons_of_mem _ h)

theorem Map.mem_erase {c : Content} {k k' v' : Bytes} (h : (k', v') ∈ Map.erase c k) :
    (k', v') ∈ c := by
  induction c with
  | nil => simp [Map.erase] at h
  | cons kv rest ih =>
    obtain ⟨k0, v0⟩ := kv
    unfold Map.erase at h
    split at h
    · exact List.mem_cons_of_mem _ h
    · rcases List.mem_cons.mp h with h | h
      · rw [h]; exact List.mem_cons_self
      · exact List.mem_cons_of_mem _ (ih h)

theorem contentOK_insert {c : Content} {k v : Bytes} (hc : ContentOK c) (hk : k.length < 2 ^ 64)
    (hv : ValueOK k v) : ContentOK (Map.insert c k v) := by
  refine ⟨Map.sorted_insert c k v hc.1, ?_⟩
  intro k' v' hm
  rcases Map.mem_insert hm with h | h
  · simp only [Prod.mk.injEq] at h
    obtain ⟨rfl, rfl⟩ := h
    exact ⟨hk, hv⟩
  · exact hc.2 k' v' h

theorem contentOK_erase {c : Content} {k : Bytes} (hc : ContentOK c) :
    ContentOK (Map.erase c k) :=
  ⟨Map.sorted_erase c k hc.1, fun k' v' hm => hc.2 k' v' (Map.mem_erase hm)⟩

theorem contentOK_removeAll {c : Content} {rm : List Bytes} (hc : ContentOK c) :
    ContentOK (removeAll c rm).1 := by
  induction rm generalizing c with
  | nil => exact hc
  | cons k ks ih =>
    simp only [removeAll]
    exact ih (contentOK_erase hc)

theorem contentOK_insertAll {c c' : Content} {ins : List (Bytes × Bytes)}
    {out : List (Option Bytes)} (hc : ContentOK c)
    (hk : ∀ k v, (k, v) ∈ ins → k.length < 2 ^ 64)
    (h : insertAll c ins = .ok (c', out)) : ContentOK c' := by
  induction ins generalizing c c' out with
  | nil =>
    simp only [insertAll, Except.ok.injEq, Prod.mk.injEq] at h
    rw [← h.1]; exact hc
  | cons kv rest ih =>
    obtain ⟨k, value⟩ := kv
    unfold insertAll at h
    split at h
    · simp at h
    · simp only at h
      split at h
      · simp at h
      · rename_i hchk
        split at h
        · simp at h
        · rename_i c2 out2 hi
          simp only [Except.ok.injEq, Prod.mk.injEq] at h
          rw [← h.1]
          refine ih (contentOK_insert hc (hk k value List.mem_cons_self)
            (checkReserved_valueOK _ _ hchk)) ?_ hi
          intro k' v' hm
          exact hk k' v' (List.mem_cons_of_mem _ hm)

theorem kId_length : kId.length < 2 ^ 64 := by decide
theorem kIp_length : kIp.length < 2 ^ 64 := by decide
theorem kIp6_length : kIp6.length < 2 ^ 64 := by decide
theorem kUdp_length : kUdp.length < 2 ^ 64 := by decide
theorem kUdp6_length : kUdp6.length < 2 ^ 64 := by decide
theorem kTcp_length : kTcp.length < 2 ^ 64 := by decide
theorem kTcp6_length : kTcp6.length < 2 ^ 64 := by decide
theorem kClient_length : kClient.length < 2 ^ 64 := by decide

theorem valueOK_id : ValueOK kId (encBytes vV4) := by
  unfold ValueOK; rw [if_pos rfl]

theorem valueOK_port {k : Bytes} (hk : isPortKey k = true) {p : Nat} (hp : p < 65536) :
    ValueOK k (encUint p) := by
  unfold ValueOK
  rw [if_neg (isPortKey_ne_kId hk), if_pos hk]
  exact ⟨p, hp, rfl⟩

theorem valueOK_ip4 {ip : Bytes} (h : ip.length = 4) : ValueOK kIp (encBytes ip) := by
  unfold ValueOK
  rw [if_neg (by decide), if_neg (by decide), if_pos rfl]
  exact ⟨ip, h, rfl⟩

theorem valueOK_ip6 {ip : Bytes} (h : ip.length = 16) : ValueOK kIp6 (encBytes ip) := by
  unfold ValueOK
  rw [if_neg (by decide), if_neg (by decide), if_neg (by decide), if_pos rfl]
  exact ⟨ip, h, rfl⟩

/-- The entry stored for a public key is well typed (for a lawful scheme and a key whose encoding
    has a length that fits). -/
theorem valueOK_pub {S : Scheme} (hL : S.Lawful) (pk : S.PK) (hk : KeyOK S pk) :
    ValueOK (S.enrKey pk) (pubValue S pk) := by
  obtain ⟨h1, h2, h3, h4⟩ := hL.key_not_reserved pk
  have hl := hk.1
  unfold ValueOK pubValue
  rw [if_neg h1, if_neg (by rw [h2]; decide), if_neg h3, if_neg h4]
  split
  · exact ⟨_, hl, rfl⟩
  · exact Or.inl ⟨_, hl, rfl⟩

theorem contentOK_withPubkey {S : Scheme} (hL : S.Lawful) {c : Content} (pk : S.PK)
    (hk : KeyOK S pk) (hc : ContentOK c) : ContentOK (withPubkey S c pk) :=
  contentOK_insert hc hk.2 (valueOK_pub hL pk hk)

theorem contentOK_stageSocket {c : Content} {ip : Bytes} {port : Nat} (isTcp : Bool)
    (hc : ContentOK c) (hip : ip.length = 4 ∨ ip.length = 16) (hp : port < 65536) :
    ContentOK (stageSocket c ip port isTcp) := by
  unfold stageSocket
  split
  · rename_i h4
    refine contentOK_insert (contentOK_insert hc kIp_length (valueOK_ip4 h4)) ?_ (valueOK_port ?_ hp)
    · cases isTcp <;> decide
    · cases isTcp <;> decide
  · rename_i h4
    have h16 : ip.length = 16 := by omega
    refine contentOK_insert (contentOK_insert hc kIp6_length (valueOK_ip6 h16)) ?_ (valueOK_port ?_ hp)
    · cases isTcp <;> decide
    · cases isTcp <;> decide

theorem contentOK_stageInsert {c c' : Content} {key raw : Bytes} {mkRet : Option Bytes → Ret}
    {ret : Ret} {sc : Bool} (hc : ContentOK c) (hk : key.length < 2 ^ 64)
    (h : stageInsert c key raw mkRet = .ok (c', ret, sc)) : ContentOK c' := by
  unfold stageInsert at h
  split at h
  · simp at h
  · rename_i hchk
    simp only [Except.ok.injEq, Prod.mk.injEq] at h
    rw [← h.1]
    exact contentOK_insert hc hk (checkReserved_valueOK _ _ hchk)

theorem contentOK_stageRemoveInsert {c c' : Content} {rm : List Bytes} {ins : List (Bytes × Bytes)}
    {mkRet : List (Option Bytes) → List (Option Bytes) → Ret}
    {ret : Ret} {sc : Bool} (hc : ContentOK c) (hk : ∀ k v, (k, v) ∈ ins → k.length < 2 ^ 64)
    (h : stageRemoveInsert c rm ins mkRet = .ok (c', ret, sc)) : ContentOK c' := by
  unfold stageRemoveInsert at h
  split at h
  · simp at h
  · rename_i c2 inserted hi
    simp only [Except.ok.injEq, Prod.mk.injEq] at h
    rw [← h.1]
    exact contentOK_insertAll (contentOK_removeAll hc) hk hi

/-- The content stage of a well-formed call keeps the content well typed and sorted. -/
theorem opStage_contentOK {S : Scheme} (hL : S.Lawful) {c c' : Content} {op : Op S} {ret : Ret}
    {sc : Bool} (hc : ContentOK c) (hwf : op.WF) (h : opStage S c op = .ok (c', ret, sc)) :
    ContentOK c' := by
  cases op with
  | setSeq s =>
    simp only [opStage, Except.ok.injEq, Prod.mk.injEq] at h
    rw [← h.1]; exact hc
  | insert key v => exact contentOK_stageInsert hc hwf.1 h
  | insertRaw key raw => exact contentOK_stageInsert hc hwf h
  | setIp ip =>
    simp only [opStage] at h
    split at h
    · exact contentOK_stageInsert hc kIp_length h
    · exact contentOK_stageInsert hc kIp6_length h
  | setUdp4 p => exact contentOK_stageInsert hc kUdp_length h
  | setUdp6 p => exact contentOK_stageInsert hc kUdp6_length h
  | setTcp4 p => exact contentOK_stageInsert hc kTcp_length h
  | setTcp6 p => exact contentOK_stageInsert hc kTcp6_length h
  | setClientInfo n v b =>
    simp only [opStage] at h; exact contentOK_stageInsert hc kClient_length h
  | setPublicKey pk' =>
    simp only [opStage] at h; exact contentOK_stageInsert hc hwf.2 h
  | removeUdp4 | removeUdp6 | removeTcp | removeTcp6 | removeKey =>
    simp only [opStage, Except.ok.injEq, Prod.mk.injEq] at h
    rw [← h.1]; exact contentOK_erase hc
  | setUdpSocket ip port =>
    simp only [opStage, Except.ok.injEq, Prod.mk.injEq] at h
    rw [← h.1]; exact contentOK_stageSocket false hc hwf.1 hwf.2
  | setTcpSocket ip port =>
    simp only [opStage, Except.ok.injEq, Prod.mk.injEq] at h
    rw [← h.1]; exact contentOK_stageSocket true hc hwf.1 hwf.2
  | removeUdpSocket | removeUdp6Socket | removeTcpSocket | removeTcp6Socket =>
    simp only [opStage] at h
    exact contentOK_stageRemoveInsert hc (fun k v hm => absurd hm List.not_mem_nil) h
  | removeInsert rm ins =>
    exact contentOK_stageRemoveInsert hc (fun k v hm => (hwf k v hm).1) h

/-! ### 5. inversion of a successful `prepareG`; the invariant after a successful `step` -/

theorem checkSigningKey_ok_inv {S : Scheme} (hL : S.Lawful) {c : Content} {pk : S.PK}
    (h : checkSigningKey S c pk = .ok ()) : S.enrToPublic c = .ok pk := by
  unfold checkSigningKey at h
  split at h
  · rename_i k hk
    split at h
    · rename_i heq
      rw [hk, hL.pub_inj k pk heq.1 heq.2]
    · simp at h
  · simp at h

theorem preSign_ok_inv {S : Scheme} {n : Record} {pk : S.PK} (h : preSign S n pk = .ok ()) :
    n.id = some vV4 ∧ checkSigningKey S n.content pk = .ok () := by
  unfold preSign at h
  split at h
  · rename_i i hi
    split at h
    · rename_i hv
      rw [hi, hv]; exact ⟨rfl, h⟩
    · simp at h
  · simp at h

/-- With well-typed content, `id() == "v4"` means the stored `id` entry is the canonical one. -/
theorem lookup_id_of_id {n : Record} (hc : ContentOK n.content) (h : n.id = some vV4) :
    Map.lookup n.content kId = some (encBytes vV4) := by
  unfold Record.id Record.getBytes Record.getRaw at h
  split at h
  · simp at h
  · rename_i v hv
    have hm := Map.lookup_mem _ _ _ hv
    have hval := (hc.2 kId v hm).2
    unfold ValueOK at hval
    rw [if_pos rfl] at hval
    rw [hv, hval]

/-- What a successful `prepareG` did: the content stage succeeded, the signer's key was stored,
    the sequence number was set (`set_seq`) or incremented without overflow (every other update),
    the pre-sign checks passed; node id and signature are still the old ones. -/
theorem prepareG_ok_inv {S : Scheme} {r : Record} {op : Op S} {pk : S.PK} {chk : Bool}
    {p : Prepared} (h : prepareG S r op pk chk = .ok p) :
    ∃ c ret sc, opStage S r.content op = .ok (c, ret, sc) ∧ p.ret = ret ∧
      p.enr = { r with seq := p.enr.seq, content := withPubkey S c pk } ∧
      preSign S p.enr pk = .ok () ∧
      (op.isSetSeq = false → p.enr.seq = r.seq + 1 ∧ r.seq + 1 < 2 ^ 64) ∧
      (∀ s, op = .setSeq s → p.enr.seq = s) ∧
      (chk = true → sc = true →
        ({ r with content := withPubkey S c pk } : Record).size ≤ MAX_ENR_SIZE) := by
  by_cases hop : op.isSetSeq = false
  · rw [prepareG_eq_stage S r op pk chk hop] at h
    cases hs : opStage S r.content op with
    | error e => rw [hs] at h; simp [afterStage] at h
    | ok x =>
      obtain ⟨c, ret, sc⟩ := x
      rw [hs] at h
      simp only [afterStage] at h
      obtain ⟨h1, h2, h3, h4, h5⟩ := finishPrepare_ok_inv h
      refine ⟨c, ret, sc, rfl, h1, ?_, h4, fun _ => ⟨by rw [h2], h3⟩, ?_, ?_⟩
      · rw [h2]
      · intro s hs'; subst hs'; simp [Op.isSetSeq] at hop
      · intro hc hsc
        apply h5
        rw [hc, hsc]; rfl
  · cases op with
    | setSeq s =>
      rw [prepareG_setSeq] at h
      split at h
      · simp at h
      · rename_i hps
        simp only [Except.ok.injEq] at h
        subst h
        refine ⟨r.content, .unit, false, rfl, rfl, rfl, hps, fun hh => by simp [Op.isSetSeq] at hh,
          ?_, fun _ hh => by simp at hh⟩
        intro s' hs'
        simp only [Op.setSeq.injEq] at hs'
        exact hs'
    | _ => simp [Op.isSetSeq] at hop

theorem rlpContent_congr (a b : Record) (h1 : a.seq = b.seq) (h2 : a.content = b.content) :
    a.rlpContent = b.rlpContent := by
  unfold Record.rlpContent; rw [h1, h2]

/-- The record an update commits is valid, provided the signature it got verifies. -/
theorem prepareG_valid {S : Scheme} (hL : S.Lawful) {r : Record} {op : Op S} {pk : S.PK}
    {chk : Bool} {p : Prepared} (hv : Valid S r) (hwf : op.WF) (hk : KeyOK S pk)
    (hp : prepareG S r op pk chk = .ok p) (sig : Bytes)
    (hsig : S.verify pk p.enr.rlpContent sig = true) (hlen : sig.length < 2 ^ 64)
    (hsz : ({ p.enr with sig := sig, nodeId := nodeIdOf S pk } : Record).size ≤ MAX_ENR_SIZE) :
    Valid S { p.enr with sig := sig, nodeId := nodeIdOf S pk } := by
  obtain ⟨c, ret, sc, hst, _, henr, hps, hseq, hset, _⟩ := prepareG_ok_inv hp
  have hc : ContentOK c := opStage_contentOK hL hv.content hwf hst
  have hcontent : p.enr.content = withPubkey S c pk := by rw [henr]
  have hc' : ContentOK p.enr.content := by rw [hcontent]; exact contentOK_withPubkey hL pk hk hc
  obtain ⟨hid, hck⟩ := preSign_ok_inv hps
  refine ⟨?_, hlen, hc', lookup_id_of_id hc' hid, hsz, pk, checkSigningKey_ok_inv hL hck, rfl, hsig⟩
  show p.enr.seq < 2 ^ 64
  by_cases hop : op.isSetSeq = false
  · obtain ⟨h1, h2⟩ := hseq hop
    rw [h1]; exact h2
  · cases op with
    | setSeq s => rw [hset s rfl]; exact hwf
    | _ => simp [Op.isSetSeq] at hop

/-- `signRequest` is the payload of the prepared record. -/
theorem signRequest_of_prepare {S : Scheme} {r : Record} {op : Op S} {pk : S.PK} {p : Prepared}
    (h : prepare S r op pk = .ok p) : signRequest S r op pk = some p.enr.rlpContent := by
  unfold signRequest; rw [h]

/-- The facts about a successful step used by C05/C10. -/
theorem step_ok_facts {S : Scheme} (hL : S.Lawful) {r : Record} {op : Op S} {pk : S.PK}
    {o : Option Bytes} {ret : Ret} {r' : Record} (hv : Valid S r) (hc : CallOK S r ⟨op, pk, o⟩)
    (h : step S r op pk o = (.ok ret, r')) :
    Valid S r' ∧ S.enrToPublic r'.content = .ok pk ∧ r'.nodeId = nodeIdOf S pk ∧
      (∀ sig, o = some sig → r'.sig = sig) ∧
      Map.lookup r'.content (S.enrKey pk) = some (pubValue S pk) := by
  obtain ⟨p, sig, hp, ho, _, hr', hsz⟩ := step_ok_inv h
  have hso := hc.2.2 _ (signRequest_of_prepare hp) sig ho
  rw [hr'] at hsz
  have hvalid := prepareG_valid hL hv hc.1 hc.2.1 hp sig hso.1 hso.2 hsz
  obtain ⟨c, ret', sc, _, _, henr, hps, _⟩ := prepareG_ok_inv hp
  subst hr'
  refine ⟨hvalid, checkSigningKey_ok_inv hL (preSign_ok_inv hps).2, rfl, ?_, ?_⟩
  · intro sig' hs'
    rw [ho] at hs'
    simp only [Option.some.injEq] at hs'
    exact hs'
  · show Map.lookup p.enr.content (S.enrKey pk) = _
    rw [henr]
    exact Map.lookup_insert_self _ _ _

/-- The invariant along arbitrary histories. -/
theorem run_valid' {S : Scheme} (hL : S.Lawful) (cs : List (Call S)) :
    ∀ r : Record, Valid S r → RunOK S r cs → Valid S (run S r cs) := by
  induction cs with
  | nil => intro r hv _; exact hv
  | cons c cs ih =>
    intro r hv hr
    obtain ⟨hc, hrest⟩ := hr
    simp only [run]
    apply ih _ _ hrest
    rcases step_ok_or_unchanged S r c.op c.pk c.oracle with ⟨ret, hs⟩ | ⟨e, _, hs⟩
    · exact (step_ok_facts hL hv hc hs).1
    · rw [hs]; exact hv

/-! ### 5b. the sequence number at its maximum -/

/-- At `seq = 2^64 - 1` every update other than `set_seq` fails before the signer is asked:
    with a value error from the content stage, else with `ExceedsMaxSize` if the size check that
    precedes the increment fails, else with `SequenceNumberTooHigh`. -/
theorem prepareG_seq_max {S : Scheme} (r : Record) (op : Op S) (pk : S.PK) (chk : Bool)
    (h : r.seq + 1 = 2 ^ 64) (hop : op.isSetSeq = false) :
    (∃ e, opStage S r.content op = .error e ∧ e.IsValueErr ∧ prepareG S r op pk chk = .error e) ∨
    (∃ c ret sc, opStage S r.content op = .ok (c, ret, sc) ∧
      prepareG S r op pk chk = .error
        (if (chk && sc) && ({ r with content := withPubkey S c pk } : Record).size > MAX_ENR_SIZE
         then .exceedsMaxSize else .seqTooHigh)) := by
  rw [prepareG_eq_stage S r op pk chk hop]
  cases hs : opStage S r.content op with
  | error e => exact Or.inl ⟨e, rfl, opStage_error_kind hs, rfl⟩
  | ok x =>
    obtain ⟨c, ret, sc⟩ := x
    refine Or.inr ⟨c, ret, sc, rfl, ?_⟩
    simp only [afterStage]
    exact finishPrepare_seq_max S _ pk _ ret h

/-- the sequence number after a successful step -/
theorem step_ok_seq {S : Scheme} {r : Record} {op : Op S} {pk : S.PK} {o : Option Bytes}
    {ret : Ret} {r' : Record} (h : step S r op pk o = (.ok ret, r')) :
    (op.isSetSeq = false → r'.seq = r.seq + 1 ∧ r.seq + 1 < 2 ^ 64) ∧
    (∀ s, op = .setSeq s → r'.seq = s) := by
  obtain ⟨p, sig, hp, _, _, hr', _⟩ := step_ok_inv h
  obtain ⟨_, _, _, _, _, _, _, hseq, hset, _⟩ := prepareG_ok_inv hp
  subst hr'
  exact ⟨hseq, hset⟩

/-- `step` at the largest sequence number: an error of one of three kinds, record unchanged. -/
theorem step_seq_max {S : Scheme} (r : Record) (op : Op S) (pk : S.PK) (o : Option Bytes)
    (h : r.seq + 1 = 2 ^ 64) (hop : op.isSetSeq = false) :
    ∃ e, step S r op pk o = (.err e, r) ∧
      (e.IsValueErr ∨ e = .exceedsMaxSize ∨ e = .seqTooHigh) := by
  rcases prepareG_seq_max r op pk true h hop with ⟨e, _, hk, hp⟩ | ⟨c, ret, sc, _, hp⟩
  · exact ⟨e, step_prepare_error o hp, Or.inl hk⟩
  · refine ⟨_, step_prepare_error o hp, Or.inr ?_⟩
    split
    · exact Or.inl rfl
    · exact Or.inr rfl

/-- … and it is `SequenceNumberTooHigh` when the content stage succeeds and the record that
    would be signed passes the size check made before the increment (if the update makes one). -/
theorem step_seq_max_kind {S : Scheme} (r : Record) (op : Op S) (pk : S.PK) (o : Option Bytes)
    (h : r.seq + 1 = 2 ^ 64) (hop : op.isSetSeq = false) {c : Content} {ret : Ret} {sc : Bool}
    (hst : opStage S r.content op = .ok (c, ret, sc))
    (hsz : sc = true → ({ r with content := withPubkey S c pk } : Record).size ≤ MAX_ENR_SIZE) :
    step S r op pk o = (.err .seqTooHigh, r) := by
  rcases prepareG_seq_max r op pk true h hop with ⟨e, hst', _, _⟩ | ⟨c', ret', sc', hst', hp⟩
  · rw [hst] at hst'; simp at hst'
  · rw [hst] at hst'
    simp only [Except.ok.injEq, Prod.mk.injEq] at hst'
    obtain ⟨rfl, rfl, rfl⟩ := hst'
    rw [step_prepare_error o hp]
    split
    · rename_i hh
      simp only [Bool.true_and, Bool.and_eq_true, decide_eq_true_eq] at hh
      have := hsz hh.1
      omega
    · rfl

/-! ### 6. the builder -/

theorem checkAll_valueOK {c : Content} (h : Builder.checkAll c = .ok ()) :
    ∀ k v, (k, v) ∈ c → ValueOK k v := by
  induction c with
  | nil => intro k v hm; simp at hm
  | cons kv rest ih =>
    obtain ⟨k0, v0⟩ := kv
    unfold Builder.checkAll at h
    split at h
    · simp at h
    · rename_i hchk
      intro k v hm
      rcases List.mem_cons.mp hm with hm | hm
      · simp only [Prod.mk.injEq] at hm
        rw [hm.1, hm.2]; exact checkReserved_valueOK _ _ hchk
      · exact ih h k v hm

theorem Builder.prepare_ok_inv {S : Scheme} {b b' : Builder} {pk : S.PK}
    (h : Builder.prepare S b pk = .ok b') :
    b' = { b with content := withPubkey S (Map.insert b.content kId (encBytes vV4)) pk } ∧
    Builder.checkAll b'.content = .ok () ∧ checkSigningKey S b'.content pk = .ok () := by
  unfold Builder.prepare at h
  simp only at h
  split at h
  · simp at h
  · rename_i hca
    split at h
    · simp at h
    · rename_i hck
      simp only [Except.ok.injEq] at h
      subst h
      exact ⟨rfl, hca, hck⟩

/-- a string of fewer than 65536 bytes has a header of at most 3 bytes -/
theorem encodeHeader_length_le3 (l : Bool) (n : Nat) (h : n < 65536) :
    (encodeHeader l n).length ≤ 3 := by
  by_cases h1 : n < 56
  · rw [encodeHeader_length_lt56 l n h1]; omega
  · by_cases h2 : n < 256
    · rw [encodeHeader_length_lt256 l n (by omega) h2]; omega
    · rw [encodeHeader_length_lt65536 l n (by omega) h]; omega

theorem encBytes_length_le3 (bs : Bytes) (h : bs.length < 65536) :
    (encBytes bs).length ≤ bs.length + 3 := by
  have hh := encodeHeader_length_le3 false bs.length h
  unfold encBytes
  split
  · split
    · simp
    · simp [encodeHeader_length_lt56 false 1 (by omega)]
  · simp only [List.length_append]; omega

/-- The builder's size check (`rlp_content().len() + signature.len() + 8 ≤ 300`) bounds the size
    of the encoded record. -/
theorem size_le_of_builder_check (r : Record)
    (h : r.rlpContent.length + r.sig.length + 8 ≤ MAX_ENR_SIZE) : r.size ≤ MAX_ENR_SIZE := by
  unfold Record.size Record.encode
  unfold Record.rlpContent at h
  rw [encList_length] at h ⊢
  simp only [MAX_ENR_SIZE] at h ⊢
  have hp := encodeHeader_length_pos true (encUint r.seq ++ Record.pairsBytes r.content).length
  have hs := encBytes_length_le3 r.sig (by omega)
  simp only [List.length_append] at h hp hs ⊢
  have hh := encodeHeader_length_le3 true
    ((encBytes r.sig).length + (encUint r.seq).length + (Record.pairsBytes r.content).length)
    (by omega)
  omega

theorem Builder.addRaw_wf {b : Builder} {k : Bytes} (v : Bytes) (hb : b.WF)
    (hk : k.length < 2 ^ 64) : (b.addRaw k v).WF := by
  obtain ⟨h1, h2, h3⟩ := hb
  refine ⟨h1, Map.sorted_insert _ _ _ h2, ?_⟩
  intro k' v' hm
  rcases Map.mem_insert hm with hm | hm
  · simp only [Prod.mk.injEq] at hm; rw [hm.1]; exact hk
  · exact h3 k' v' hm

theorem Builder.empty_wf : Builder.WF {} :=
  ⟨by decide, trivial, fun k v hm => absurd hm List.not_mem_nil⟩

theorem Builder.setSeq_wf {b : Builder} {s : Nat} (hb : b.WF) (hs : s < 2 ^ 64) :
    (b.setSeq s).WF := ⟨hs, hb.2.1, hb.2.2⟩

/-- A successfully built record is valid and carries the signer's key. -/
theorem build_ok_facts {S : Scheme} (hL : S.Lawful) {b : Builder} {pk : S.PK} {o : Option Bytes}
    {r : Record} (hb : b.WF) (hk : KeyOK S pk)
    (hso : ∀ b', Builder.prepare S b pk = .ok b' → SigOK S pk b'.rlpContent o)
    (h : Builder.build S b pk o = .ok r) :
    Valid S r ∧ S.enrToPublic r.content = .ok pk ∧ r.nodeId = nodeIdOf S pk := by
  unfold Builder.build at h
  split at h
  · simp at h
  · rename_i b' hp
    split at h
    · simp at h
    · rename_i sig
      split at h
      · simp at h
      · rename_i hsz
        simp only [Res.ok.injEq] at h
        obtain ⟨hb', hca, hck⟩ := Builder.prepare_ok_inv hp
        have hsig := hso b' hp sig rfl
        have hpub := checkSigningKey_ok_inv hL hck
        have hcont : b'.content = withPubkey S (Map.insert b.content kId (encBytes vV4)) pk := by
          rw [hb']
        have hseq : b'.seq = b.seq := by rw [hb']
        have hsorted : Map.Sorted b'.content := by
          rw [hcont]; exact Map.sorted_insert _ _ _ (Map.sorted_insert _ _ _ hb.2.1)
        have hcok : ContentOK b'.content := by
          refine ⟨hsorted, fun k v hm => ⟨?_, checkAll_valueOK hca k v hm⟩⟩
          rw [hcont] at hm
          rcases Map.mem_insert hm with hm | hm
          · simp only [Prod.mk.injEq] at hm; rw [hm.1]; exact hk.2
          · rcases Map.mem_insert hm with hm | hm
            · simp only [Prod.mk.injEq] at hm; rw [hm.1]; exact kId_length
            · exact hb.2.2 k v hm
        have hid : Map.lookup b'.content kId = some (encBytes vV4) := by
          rw [hcont]
          unfold withPubkey
          rw [Map.lookup_insert_ne _ _ _ _ (fun hh => (hL.key_not_reserved pk).1 hh.symm)]
          exact Map.lookup_insert_self _ _ _
        subst h
        refine ⟨⟨?_, hsig.2, hcok, hid, ?_, pk, hpub, rfl, hsig.1⟩, hpub, rfl⟩
        · show b'.seq < 2 ^ 64
          rw [hseq]; exact hb.1
        · apply size_le_of_builder_check
          exact Nat.le_of_not_gt hsz

/-! ### 7. accessors of valid records -/

theorem verify_of_Valid {S : Scheme} {r : Record} (h : Valid S r) : r.verify S = .ok true := by
  obtain ⟨pk, hpk, _, hv⟩ := h.authentic
  exact verify_of_valid S r pk h.id_v4 hpk hv

theorem publicKey_of_Valid {S : Scheme} {r : Record} (h : Valid S r) :
    ∃ pk, r.publicKey S = .ok pk ∧ S.enrToPublic r.content = .ok pk ∧ r.nodeId = nodeIdOf S pk := by
  obtain ⟨pk, hpk, hn, _⟩ := h.authentic
  exact ⟨pk, by unfold Record.publicKey; rw [hpk], hpk, hn⟩

theorem publicKey_ok_inv {S : Scheme} {r : Record} {pk : S.PK} (h : r.publicKey S = .ok pk) :
    S.enrToPublic r.content = .ok pk := by
  unfold Record.publicKey at h
  split at h
  · rename_i pk' hpk
    simp only [Res.ok.injEq] at h
    rw [hpk, h]
  · simp at h

/-- `get` on a stored item: the header decodes and the whole payload is there. -/
theorem get_of_isItem {r : Record} {k v : Bytes} (hl : Map.lookup r.content k = some v)
    (hi : IsItem v) : ∃ payload, r.get k = .ok (some payload) := by
  unfold Record.get Record.getRaw
  rw [hl]
  rcases hi with ⟨bs, hlen, rfl⟩ | ⟨p, hlen, rfl⟩
  · have hd := decodeHeader_encBytes bs [] hlen
    rw [List.append_nil] at hd
    simp only [hd, List.append_nil, Nat.lt_irrefl, if_false]
    exact ⟨_, rfl⟩
  · have hd := decodeHeader_encList p [] hlen
    rw [List.append_nil] at hd
    simp only [hd, List.append_nil, Nat.lt_irrefl, if_false]
    exact ⟨_, rfl⟩

theorem get_no_panic_of_contentOK {r : Record} (hc : ContentOK r.content) (k : Bytes)
    (s : PanicSite) : r.get k ≠ .panic s := by
  cases hl : Map.lookup r.content k with
  | none => unfold Record.get Record.getRaw; rw [hl]; simp
  | some v =>
    have hm := Map.lookup_mem _ _ _ hl
    obtain ⟨payload, hg⟩ := get_of_isItem hl (valueOK_isItem k v (hc.2 k v hm).2)
    rw [hg]; simp

end EnrVerif
