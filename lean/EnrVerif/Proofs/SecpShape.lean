/-
  Shape lemmas about the secp256k1 model that need no curve arithmetic: modular powers stay reduced,
  and decompression is stable — the compressed form of a decompressed point decompresses to the same
  point (the other root has the other parity because `p` is odd).
-/
import EnrVerif.Model.Secp256k1
import EnrVerif.Proofs.BeLemmas

namespace EnrVerif
open Secp
set_option maxRecDepth 8000

theorem powModBits_lt (b e m : Nat) (hm : 0 < m) : ∀ (i acc : Nat), acc < m → powModBits b e m i acc < m := by
  intro i
  induction i with
  | zero => intro acc h; simpa [powModBits] using h
  | succ i ih =>
    intro acc h
    simp only [powModBits]
    apply ih
    split
    · exact Nat.mod_lt _ hm
    · exact Nat.mod_lt _ hm

theorem powMod_lt (b e m : Nat) (hm : 1 < m) : powMod b e m < m := by
  unfold powMod
  exact powModBits_lt _ _ _ (by omega) _ _ (Nat.mod_lt _ (by omega))

theorem p_pos : 1 < p := by decide
theorem p_odd : p % 2 = 1 := by decide
theorem p_lt : p < 256 ^ 32 := by decide

theorem fsqrtCandidate_lt (a : Nat) : fsqrtCandidate a < p := powMod_lt _ _ _ p_pos

/-- decompressing the abscissa of a decompressed point with that point's own parity gives it back -/
theorem liftX_redecode (x : Nat) (odd : Bool) (P : Pt) (h : liftX x odd = some P) :
    P.x = x ∧ x < p ∧ liftX P.x (P.y % 2 == 1) = some P := by
  unfold liftX at h
  split at h
  · cases h
  · rename_i hx
    simp only at h
    split at h
    · cases h
    · rename_i hsq
      have hP : P = ⟨x, if (fsqrtCandidate (fadd (fmul (fmul x x) x) 7) % 2 == 1) == odd then
          fsqrtCandidate (fadd (fmul (fmul x x) x) 7) else fsub 0 (fsqrtCandidate (fadd (fmul (fmul x x) x) 7))⟩ := by
        simpa using h.symm
      refine ⟨by rw [hP], by omega, ?_⟩
      generalize hb : fsqrtCandidate (fadd (fmul (fmul x x) x) 7) = beta at hP hsq
      have hbl : beta < p := hb ▸ fsqrtCandidate_lt _
      subst hP
      simp only
      simp only [liftX, hx, ↓reduceIte, hb]
      rw [if_neg hsq]
      congr 2
      have hp := p_odd
      by_cases hc : (beta % 2 == 1) = odd
      · simp only [hc, beq_self_eq_true, if_true]
      · have hc' : ((beta % 2 == 1) == odd) = false := by simpa using hc
        simp only [hc', Bool.false_eq_true, if_false]
        by_cases h0 : beta = 0
        · subst h0; simp [fsub]
        · have hg : fsub 0 beta = p - beta := by
            unfold fsub; rw [Nat.zero_add, Nat.mod_eq_of_lt (by omega)]
          rw [hg]
          have : ((beta % 2 == 1) == ((p - beta) % 2 == 1)) = false := by
            have : (p - beta) % 2 ≠ beta % 2 := by omega
            rcases Nat.mod_two_eq_zero_or_one beta with hb0 | hb1
            · have : (p - beta) % 2 = 1 := by omega
              simp [hb0, this]
            · have : (p - beta) % 2 = 0 := by omega
              simp [hb1, this]
          simp [this]
/-- a key in compressed form decodes to a point whose compressed form decodes to the same point -/
theorem decodePubK256_compress_of_liftX (x : Nat) (odd : Bool) (P : Pt) (h : liftX x odd = some P) :
    decodePubK256 (compress P) = some P := by
  obtain ⟨hx, hlt, hre⟩ := liftX_redecode x odd P h
  have hlen : (natToBeFixed 32 P.x).length = 32 := natToBeFixed_length 32 P.x
  have hval : beToNat (natToBeFixed 32 P.x) = P.x :=
    beToNat_natToBeFixed 32 P.x (by have := p_lt; omega)
  unfold compress
  by_cases hy : P.y % 2 = 0
  · rw [if_pos hy]
    simp only [decodePubK256]
    have : (P.y % 2 == 1) = false := by simp [hy]
    rw [this] at hre
    simp [hlen, hval, hre]
  · rw [if_neg hy]
    simp only [decodePubK256]
    have : (P.y % 2 == 1) = true := by
      have : P.y % 2 = 1 := by omega
      simp [this]
    rw [this] at hre
    simp [hlen, hval, hre]

end EnrVerif
