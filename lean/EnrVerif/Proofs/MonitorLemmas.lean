/-
  Lemmas behind `Props/C05Monitor.lean`: the per-record predicates of the runtime monitor
  (`Model/Monitor.lean`) hold of every `Valid` record, and the driver's memoised scheme
  (`Driver.memo`) does not change them.
-/
import EnrVerif.Model.Driver
import EnrVerif.Proofs.StepLemmas

namespace EnrVerif
open Monitor

/-! ### each decision on a valid record -/

theorem sizeOk_of_Valid {S : Scheme} {r : Record} (h : Valid S r) : sizeOk r = true := by
  have := h.size_le
  unfold MAX_ENR_SIZE at this
  simpa [sizeOk] using this

theorem idOk_of_Valid {S : Scheme} {r : Record} (h : Valid S r) : idOk r = true := by
  unfold idOk
  rw [getBytes_kId_of_lookup r h.id_v4]
  exact beq_self_eq_true _

theorem nodeIdOk_of_eq (S : Scheme) (pk : S.PK) (r : Record) (h : r.nodeId = nodeIdOf S pk) :
    nodeIdOk S pk r = true := by
  unfold nodeIdOk
  rw [h]
  exact beq_self_eq_true _

theorem redecode_of_Valid {S : Scheme} {r : Record} (h : Valid S r) :
    redecode S r = .identical := by
  unfold redecode
  rw [encode_decode S r h]
  simp

theorem redecodeOk_of_Valid {S : Scheme} {r : Record} (h : Valid S r) : redecodeOk S r = true := by
  unfold redecodeOk
  rw [redecode_of_Valid h]

/-- the decisions, one by one, for the key the record carries -/
theorem monitor_decisions_of_Valid {S : Scheme} {r : Record} (h : Valid S r) :
    sizeOk r = true ∧ ∃ pk, S.enrToPublic r.content = .ok pk ∧
      S.verify pk r.rlpContent r.sig = true ∧ idOk r = true ∧ nodeIdOk S pk r = true ∧
      redecode S r = .identical := by
  obtain ⟨pk, hpk, hn, hv⟩ := h.authentic
  exact ⟨sizeOk_of_Valid h, pk, hpk, hv, idOk_of_Valid h, nodeIdOk_of_eq S pk r hn,
    redecode_of_Valid h⟩

/-- no alarm on a valid record -/
theorem recordFlags_of_Valid {S : Scheme} {r : Record} (h : Valid S r) : recordFlags S r = [] := by
  obtain ⟨hs, pk, hpk, hv, hi, hn, hd⟩ := monitor_decisions_of_Valid h
  unfold recordFlags
  rw [hpk]
  simp only [hs, hv, hi, hn, hd, flagUnless, Redecode.flags, if_true, List.append_nil]

/-- … and conversely: no alarm means that every decision came out well (the list is empty only if
    each of its parts is) -/
theorem recordFlags_nil_iff (S : Scheme) (r : Record) :
    recordFlags S r = [] ↔
      sizeOk r = true ∧ ∃ pk, S.enrToPublic r.content = .ok pk ∧
        S.verify pk r.rlpContent r.sig = true ∧ idOk r = true ∧ nodeIdOk S pk r = true ∧
        redecode S r = .identical := by
  unfold recordFlags
  cases hpk : S.enrToPublic r.content with
  | error e => simp
  | ok pk =>
    cases hs : sizeOk r <;> cases hv : S.verify pk r.rlpContent r.sig <;> cases hi : idOk r <;>
      cases hn : nodeIdOk S pk r <;> cases hd : redecode S r <;>
      simp [flagUnless, Redecode.flags, hv, hn]

/-! ### the memoised scheme -/

/-- `memo` with a correct entry answers every verification as `S` does -/
theorem memo_verify (S : Scheme) [DecidableEq S.PK] (pk : S.PK) (msg sig : Bytes) (v : Bool)
    (hv : v = S.verify pk msg sig) (p : S.PK) (m g : Bytes) :
    (Driver.memo S pk msg sig v).verify p m g = S.verify p m g := by
  show (if p = pk ∧ m = msg ∧ g = sig then v else S.verify p m g) = S.verify p m g
  split
  · next h =>
    obtain ⟨rfl, rfl, rfl⟩ := h
    exact hv
  · rfl

/-- … so it is the same scheme -/
theorem memo_eq (S : Scheme) [DecidableEq S.PK] (pk : S.PK) (msg sig : Bytes) (v : Bool)
    (hv : v = S.verify pk msg sig) : Driver.memo S pk msg sig v = S := by
  have hf : (fun p m g => if p = pk ∧ m = msg ∧ g = sig then v else S.verify p m g) = S.verify := by
    funext p m g
    exact memo_verify S pk msg sig v hv p m g
  unfold Driver.memo
  rw [hf]

theorem redecode_memo (S : Scheme) [DecidableEq S.PK] (pk : S.PK) (msg sig : Bytes) (v : Bool)
    (hv : v = S.verify pk msg sig) (r : Record) :
    redecode (Driver.memo S pk msg sig v) r = redecode S r := by
  rw [memo_eq S pk msg sig v hv]

theorem recordFlags_memo (S : Scheme) [DecidableEq S.PK] (pk : S.PK) (msg sig : Bytes) (v : Bool)
    (hv : v = S.verify pk msg sig) (r : Record) :
    recordFlags (Driver.memo S pk msg sig v) r = recordFlags S r := by
  rw [memo_eq S pk msg sig v hv]

/-! ### the driver's `checkRecord` makes exactly the decisions of `recordFlags`

`checkRecord` threads the driver state through the decisions, asks the one-entry verification cache
of the state instead of `S.verify`, and decodes under the memoised scheme.  Under the cache
invariant `CacheOK` (what the cache holds is a true statement about the scheme in use) the number of
`PROP … FAIL` lines it prints is the number of `recordFlags`, plus one if the implementation's
`size()` is not the length of its encoding (the one per-record predicate that needs the observation);
the invariant is kept, and the scheme handed on is the scheme itself. -/

namespace Driver
open Monitor

/-- the verification the state remembers is a true statement about `d.S` -/
def CacheOK (d : DS) (s : St) : Prop :=
  ∀ p m g v, s.lastVerify = some (p, m, g, v) →
    ∀ pk : d.S.PK, d.toB pk = p → d.S.verify pk m g = v

/-- nothing remembered: the initial state -/
theorem cacheOK_init (d : DS) : CacheOK d {} := by
  intro p m g v h
  cases h

theorem CacheOK.congr {d : DS} {s s' : St} (h : s'.lastVerify = s.lastVerify) (hc : CacheOK d s) :
    CacheOK d s' := by
  unfold CacheOK
  rw [h]
  exact hc

theorem nProp_chk (s : St) : s.chk.nProp = s.nProp := rfl
theorem nProp_prop (s : St) (c p x : String) : (s.prop c p x).nProp = s.nProp + 1 := rfl
theorem nProp_cmp (s : St) (f m i : String) : (s.cmp f m i).nProp = s.nProp := by
  unfold St.cmp; split <;> rfl
theorem lastVerify_chk (s : St) : s.chk.lastVerify = s.lastVerify := rfl
theorem lastVerify_prop (s : St) (c p x : String) : (s.prop c p x).lastVerify = s.lastVerify := rfl
theorem lastVerify_cmp (s : St) (f m i : String) : (s.cmp f m i).lastVerify = s.lastVerify := by
  unfold St.cmp; split <;> rfl

/-- every scheme the driver knows represents public keys by their bytes -/
theorem mkDS_toB_inj (name : String) (d : DS) (h : mkDS name = some d) :
    ∀ a b : d.S.PK, d.toB a = d.toB b → a = b := by
  unfold mkDS at h
  split at h <;> cases h <;> (intro a b hab; exact hab)

/-- the cached verification answers as `S.verify` does, prints nothing and keeps the invariant -/
theorem verifyCached_spec (d : DS) (hinj : ∀ a b : d.S.PK, d.toB a = d.toB b → a = b) (s : St)
    (hc : CacheOK d s) (pk : d.S.PK) (msg sig : Bytes) :
    (s.verifyCached d.S d.toB pk msg sig).2 = d.S.verify pk msg sig ∧
    (s.verifyCached d.S d.toB pk msg sig).1.nProp = s.nProp ∧
    CacheOK d (s.verifyCached d.S d.toB pk msg sig).1 := by
  have fresh : ∀ s' : St, s'.lastVerify = some (d.toB pk, msg, sig, d.S.verify pk msg sig) →
      CacheOK d s' := by
    intro s' hs' p' m' g' v' h' pk' hpk'
    rw [hs'] at h'
    simp only [Option.some.injEq, Prod.mk.injEq] at h'
    obtain ⟨h1, h2, h3, h4⟩ := h'
    subst h2 h3 h4
    rw [hinj pk' pk (hpk'.trans h1.symm)]
  unfold St.verifyCached
  split
  · next p m g v hl =>
    split
    · next hcond =>
      simp only [Bool.and_eq_true, beq_iff_eq] at hcond
      obtain ⟨⟨hp, hm⟩, hg⟩ := hcond
      refine ⟨?_, rfl, hc⟩
      subst hm hg
      exact (hc p m g v hl pk hp.symm).symm
    · exact ⟨rfl, rfl, fresh _ rfl⟩
  · exact ⟨rfl, rfl, fresh _ rfl⟩

/-- `checkRecord` and `recordFlags` decide alike. -/
theorem checkRecord_spec (d : DS) (hinj : ∀ a b : d.S.PK, d.toB a = d.toB b → a = b) (s : St)
    (o : Obs) (what : String) (hc : CacheOK d s) :
    (checkRecord d s o what).1.nProp = s.nProp + (recordFlags d.S o.toRec).length +
      (if o.enc == "panic" || o.size == toString (o.enc.length / 2) then 0 else 1) ∧
    CacheOK d (checkRecord d s o what).1 ∧ (checkRecord d s o what).2.1 = d.S := by
  unfold checkRecord
  extract_lets S r s1 s2 s3 s4
  have h4n : s4.nProp = s.nProp + (flagUnless (sizeOk r) "C09" "size_le_300").length +
      (if o.enc == "panic" || o.size == toString (o.enc.length / 2) then 0 else 1) := by
    simp only [s4, s3, s2, s1, flagUnless]
    cases sizeOk r <;> cases (o.enc == "panic" || o.size == toString (o.enc.length / 2)) <;>
      simp [nProp_chk, nProp_prop, nProp_cmp]
  have h4c : s4.lastVerify = s.lastVerify := by
    simp only [s4, s3, s2, s1]
    cases sizeOk r <;> cases (o.enc == "panic" || o.size == toString (o.enc.length / 2)) <;>
      simp [lastVerify_chk, lastVerify_prop, lastVerify_cmp]
  have hc4 : CacheOK d s4 := hc.congr h4c
  clear_value s4
  clear s3 s2 s1
  have hr : r = o.toRec := rfl
  clear_value r
  subst hr
  unfold S
  clear S
  unfold recordFlags
  cases hpk : d.S.enrToPublic o.toRec.content with
  | error e =>
    simp only [nProp_prop, List.length_append, List.length_cons, List.length_nil, h4n]
    exact ⟨by omega, hc4.congr (lastVerify_prop _ _ _ _), trivial⟩
  | ok pk =>
    obtain ⟨hv, hn, hc5⟩ := verifyCached_spec d hinj s4 hc4 pk o.toRec.rlpContent o.toRec.sig
    rcases hx : s4.verifyCached d.S d.toB pk o.toRec.rlpContent o.toRec.sig with ⟨s5, v⟩
    rw [hx] at hv hn hc5
    simp only at hv hn hc5
    simp only [hx]
    rw [@redecode_memo d.S d.deq pk _ _ v hv, ← hv]
    refine ⟨?_, hc5.congr ?_, @memo_eq d.S d.deq pk _ _ v hv⟩
    · cases v <;> cases idOk o.toRec <;> cases nodeIdOk d.S pk o.toRec <;>
        cases redecode d.S o.toRec <;>
        simp [flagUnless, Redecode.flags, nProp_chk, nProp_prop, hn, h4n] <;> omega
    · cases v <;> cases idOk o.toRec <;> cases nodeIdOk d.S pk o.toRec <;>
        cases redecode d.S o.toRec <;>
        simp [lastVerify_chk, lastVerify_prop]

/-- On a record that is valid in the model, whose `size()` is the length of its encoding,
    `checkRecord` prints no `PROP … FAIL` line. -/
theorem checkRecord_quiet (d : DS) (hinj : ∀ a b : d.S.PK, d.toB a = d.toB b → a = b) (s : St)
    (o : Obs) (what : String) (hc : CacheOK d s) (hval : Valid d.S o.toRec)
    (hsz : (o.enc == "panic" || o.size == toString (o.enc.length / 2)) = true) :
    (checkRecord d s o what).1.nProp = s.nProp := by
  have h := (checkRecord_spec d hinj s o what hc).1
  rw [recordFlags_of_Valid hval, if_pos hsz] at h
  exact h

end Driver

end EnrVerif
