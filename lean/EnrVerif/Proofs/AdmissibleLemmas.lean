/-
  Soundness of the driver's C08 predicate "the reported error kind matches one of the causes that
  apply" (`Driver.admissibleErrs`, `Model/Driver.lean`): when the implementation behaves like the
  model, the predicate never fires.

  `admissibleErrs d r op pk oracle signerCalled signerFailed` is the list of error-kind strings the
  driver accepts for an update call.  The theorems below show that the error kind of the MODEL's own
  `step` is always in that list, for every scheme, record, operation, key and signer's answer —
  with the flags the driver computes from a signer's log that agrees with the model (the signer is
  asked exactly when `prepare` succeeds, and "failed" means it answered `none`).

  No hypothesis on the record (`Valid` is not needed) or on the scheme (`Lawful` is not needed).
-/
import EnrVerif.Model.Driver
import EnrVerif.Proofs.StepLemmas

set_option linter.unusedVariables false

namespace EnrVerif
open EnrVerif.Driver

/-! ### the parts of `admissibleErrs` -/

/-- value errors of every pair / value handed in (the driver's `valueErrs`) -/
def valueErrs {S : Scheme} (op : Op S) : List String :=
  match op with
  | .insertRaw k raw => (match checkReserved k raw with | .error e => [enrErrStr e] | .ok _ => [])
  | .insert k v => (match checkReserved k v.enc with | .error e => [enrErrStr e] | .ok _ => [])
  | .removeInsert _ ins => ins.filterMap fun (k, v) =>
      if k = kId ∧ v ≠ vV4 then some "UnsupportedIdentityScheme"
      else match checkReserved k (encBytes v) with | .error e => some (enrErrStr e) | .ok _ => none
  | _ => []

def seqMaxErrs {S : Scheme} (r : Record) (op : Op S) : List String :=
  if op.isSetSeq then [] else if r.seq + 1 < 2 ^ 64 then [] else ["SequenceNumberTooHigh"]

def faultErrs (signerFailed : Bool) : List String :=
  if signerFailed then ["SigningError"] else []

/-- the record just below the largest sequence number -/
def recLow (r : Record) : Record := if r.seq + 1 < 2 ^ 64 then r else { r with seq := r.seq - 1 }

def errOf (x : Except EnrErr Prepared) : List String :=
  match x with
  | .error e => [enrErrStr e]
  | .ok _ => []

def preErrs (S : Scheme) (r : Record) (op : Op S) (pk : S.PK) : List String :=
  errOf (prepareG S r op pk false) ++ errOf (prepareG S r op pk true) ++
    errOf (prepareG S (recLow r) op pk false) ++ errOf (prepareG S (recLow r) op pk true)

def finalErrs (S : Scheme) (r : Record) (op : Op S) (pk : S.PK) (oracle : Option Bytes)
    (signerCalled : Bool) : List String :=
  match prepareG S (recLow r) op pk false, oracle with
  | .ok p, some sg =>
    let n : Record := { p.enr with sig := sg, nodeId := nodeIdOf S pk }
    if signerCalled && n.size > MAX_ENR_SIZE then ["ExceedsMaxSize"] else []
  | _, _ => []

/-- the size of the result estimated before signing (signature as long as the present one) -/
def estimateErrs (S : Scheme) (r : Record) (op : Op S) (pk : S.PK) : List String :=
  match prepareG S (recLow r) op pk false with
  | .ok p =>
    let n : Record := { p.enr with sig := r.sig, nodeId := nodeIdOf S pk }
    if n.size > MAX_ENR_SIZE then ["ExceedsMaxSize"] else []
  | .error _ => []

/-- `admissibleErrs` in terms of its parts. -/
theorem admissibleErrs_eq (d : DS) (r : Record) (op : Op d.S) (pk : d.S.PK) (oracle : Option Bytes)
    (sc sf : Bool) :
    admissibleErrs d r op pk oracle sc sf =
      if !(valueErrs op).isEmpty then valueErrs op ++ bypassCauses d.S r op pk ++ seqMaxErrs r op ++ faultErrs sf ++
        openCauses d.S op pk
      else preErrs d.S r op pk ++ finalErrs d.S r op pk oracle sc ++ seqMaxErrs r op ++
        faultErrs sf ++ estimateErrs d.S r op pk ++ openCauses d.S op pk := by
  cases op <;> rfl

/-! ### membership in the parts -/

theorem mem_admissible_of_fault (d : DS) (r : Record) (op : Op d.S) (pk : d.S.PK)
    (oracle : Option Bytes) (sc : Bool) :
    "SigningError" ∈ admissibleErrs d r op pk oracle sc true := by
  rw [admissibleErrs_eq]
  have hf : "SigningError" ∈ faultErrs true := by simp [faultErrs]
  split
  · exact List.mem_append_left _ (List.mem_append_right _ hf)
  · exact List.mem_append_left _ (List.mem_append_left _ (List.mem_append_right _ hf))

theorem mem_admissible_of_valueErrs (d : DS) (r : Record) (op : Op d.S) (pk : d.S.PK)
    (oracle : Option Bytes) (sc sf : Bool) (s : String) (h : s ∈ valueErrs op) :
    s ∈ admissibleErrs d r op pk oracle sc sf := by
  rw [admissibleErrs_eq]
  have hne : (!(valueErrs op).isEmpty) = true := by
    cases hv : valueErrs op with
    | nil => rw [hv] at h; simp at h
    | cons a t => rfl
  rw [if_pos hne]
  exact List.mem_append_left _ (List.mem_append_left _ (List.mem_append_left _ (List.mem_append_left _ h)))

theorem mem_admissible_of_preErrs (d : DS) (r : Record) (op : Op d.S) (pk : d.S.PK)
    (oracle : Option Bytes) (sc sf : Bool) (s : String) (hv : valueErrs op = [])
    (h : s ∈ preErrs d.S r op pk) : s ∈ admissibleErrs d r op pk oracle sc sf := by
  rw [admissibleErrs_eq, hv]
  simp only [List.isEmpty_nil, Bool.not_true, Bool.false_eq_true, if_false]
  exact List.mem_append_left _ (List.mem_append_left _ (List.mem_append_left _ (List.mem_append_left _ (List.mem_append_left _ h))))

theorem mem_admissible_of_finalErrs (d : DS) (r : Record) (op : Op d.S) (pk : d.S.PK)
    (oracle : Option Bytes) (sc sf : Bool) (s : String) (hv : valueErrs op = [])
    (h : s ∈ finalErrs d.S r op pk oracle sc) : s ∈ admissibleErrs d r op pk oracle sc sf := by
  rw [admissibleErrs_eq, hv]
  simp only [List.isEmpty_nil, Bool.not_true, Bool.false_eq_true, if_false]
  exact List.mem_append_left _ (List.mem_append_left _ (List.mem_append_left _ (List.mem_append_left _ (List.mem_append_right _ h))))

/-! ### value errors: the driver's list against the model's loop -/

/-- the driver's per-pair check of `remove_insert` -/
def pairErr (kv : Bytes × Bytes) : Option String :=
  match kv with
  | (k, v) =>
    if k = kId ∧ v ≠ vV4 then some "UnsupportedIdentityScheme"
    else match checkReserved k (encBytes v) with | .error e => some (enrErrStr e) | .ok _ => none

theorem valueErrs_removeInsert {S : Scheme} (rm : List Bytes) (ins : List (Bytes × Bytes)) :
    valueErrs (Op.removeInsert (S := S) rm ins) = ins.filterMap pairErr := rfl

/-- the error of the insertion loop is the error of one of the pairs -/
theorem insertAll_error_mem {c : Content} {ins : List (Bytes × Bytes)} {e : EnrErr}
    (h : insertAll c ins = .error e) : enrErrStr e ∈ ins.filterMap pairErr := by
  induction ins generalizing c with
  | nil => simp [insertAll] at h
  | cons kv rest ih =>
    obtain ⟨k, value⟩ := kv
    unfold insertAll at h
    rw [List.filterMap_cons]
    split at h
    · rename_i hid
      simp only [Except.error.injEq] at h
      subst h
      have hp : pairErr (k, value) = some "UnsupportedIdentityScheme" := if_pos hid
      rw [hp]
      exact List.mem_cons_self
    · rename_i hid
      simp only at h
      split at h
      · rename_i e' hc
        simp only [Except.error.injEq] at h
        subst h
        have hp : pairErr (k, value) = some (enrErrStr e') := by
          show (if k = kId ∧ value ≠ vV4 then some "UnsupportedIdentityScheme"
            else match checkReserved k (encBytes value) with
              | .error e => some (enrErrStr e)
              | .ok _ => none) = _
          rw [if_neg hid, hc]
        rw [hp]
        exact List.mem_cons_self
      · rename_i hc
        split at h
        · rename_i e' hi
          simp only [Except.error.injEq] at h
          subst h
          have := ih hi
          split
          · exact this
          · exact List.mem_cons_of_mem _ this
        · simp at h

/-- when the insertion loop succeeds no pair has a value error -/
theorem insertAll_ok_filterMap {c : Content} {ins : List (Bytes × Bytes)}
    {x : Content × List (Option Bytes)} (h : insertAll c ins = .ok x) :
    ins.filterMap pairErr = [] := by
  induction ins generalizing c x with
  | nil => rfl
  | cons kv rest ih =>
    obtain ⟨k, value⟩ := kv
    unfold insertAll at h
    split at h
    · simp at h
    · rename_i hid
      simp only at h
      split at h
      · simp at h
      · rename_i hc
        split at h
        · simp at h
        · rename_i c' out hi
          have hp : pairErr (k, value) = none := by
            show (if k = kId ∧ value ≠ vV4 then some "UnsupportedIdentityScheme"
              else match checkReserved k (encBytes value) with
                | .error e => some (enrErrStr e)
                | .ok _ => none) = _
            rw [if_neg hid, hc]
          rw [List.filterMap_cons, hp]
          exact ih hi

/-- If the driver's value-error list is not empty, the model's `prepareG` fails and its error kind
    is in the list. -/
theorem prepareG_error_mem_valueErrs {S : Scheme} (r : Record) (op : Op S) (pk : S.PK) (chk : Bool)
    (hv : valueErrs op ≠ []) :
    ∃ e, prepareG S r op pk chk = .error e ∧ enrErrStr e ∈ valueErrs op := by
  cases op with
  | insertRaw k raw =>
    simp only [valueErrs] at hv ⊢
    simp only [prepareG, prepInsertRaw]
    cases hc : checkReserved k raw with
    | error e => exact ⟨e, rfl, by simp⟩
    | ok u => rw [hc] at hv; simp at hv
  | insert k v =>
    simp only [valueErrs] at hv ⊢
    simp only [prepareG, prepInsertRaw]
    cases hc : checkReserved k v.enc with
    | error e => exact ⟨e, rfl, by simp⟩
    | ok u => rw [hc] at hv; simp at hv
  | removeInsert rm ins =>
    rw [valueErrs_removeInsert] at hv ⊢
    simp only [prepareG, prepRemoveInsert]
    cases hi : insertAll (removeAll r.content rm).1 ins with
    | error e => exact ⟨e, rfl, insertAll_error_mem hi⟩
    | ok x => exact absurd (insertAll_ok_filterMap hi) hv
  | _ => exact absurd rfl hv

/-- a `prepareG` that succeeds means the driver's value-error list is empty -/
theorem valueErrs_nil_of_prepareG_ok {S : Scheme} {r : Record} {op : Op S} {pk : S.PK} {chk : Bool}
    {p : Prepared} (h : prepareG S r op pk chk = .ok p) : valueErrs op = [] := by
  cases hv : valueErrs op with
  | nil => rfl
  | cons a t =>
    obtain ⟨e, he, _⟩ := prepareG_error_mem_valueErrs r op pk chk (by rw [hv]; simp)
    rw [he] at h
    simp at h

/-! ### dropping the size check that precedes signing -/

theorem finishPrepare_ok_weaken {S : Scheme} {n : Record} {pk : S.PK} {sc : Bool} {ret : Ret}
    {p : Prepared} (h : finishPrepare S n pk sc ret = .ok p) :
    finishPrepare S n pk false ret = .ok p := by
  unfold finishPrepare at h ⊢
  split at h
  · simp at h
  · simp only [Bool.false_and, Bool.false_eq_true, if_false]
    exact h

/-- An update that passes with the pre-sign size check passes, with the same result, without it. -/
theorem prepareG_ok_weaken {S : Scheme} {r : Record} {op : Op S} {pk : S.PK} {p : Prepared}
    (h : prepareG S r op pk true = .ok p) : prepareG S r op pk false = .ok p := by
  by_cases hop : op.isSetSeq = false
  · rw [prepareG_eq_stage S r op pk _ hop] at h ⊢
    cases hs : opStage S r.content op with
    | error e => rw [hs] at h; simp [afterStage] at h
    | ok x =>
      obtain ⟨c, ret, sc⟩ := x
      rw [hs] at h
      simp only [afterStage, Bool.false_and] at h ⊢
      exact finishPrepare_ok_weaken h
  · cases op with
    | setSeq s => exact h
    | _ => simp [Op.isSetSeq] at hop

/-- The record "just below the maximum" gives the same prepared record whenever the update gets
    as far as the signer. -/
theorem prepareG_recLow {S : Scheme} {r : Record} {op : Op S} {pk : S.PK} {chk : Bool}
    {p : Prepared} (h : prepareG S r op pk chk = .ok p) :
    prepareG S (recLow r) op pk chk = .ok p := by
  by_cases hlt : r.seq + 1 < 2 ^ 64
  · unfold recLow; rw [if_pos hlt]; exact h
  · by_cases hop : op.isSetSeq = false
    · obtain ⟨_, _, _, _, _, _, _, hseq, _⟩ := prepareG_ok_inv h
      exact absurd (hseq hop).2 hlt
    · cases op with
      | setSeq s => unfold recLow; rw [if_neg hlt]; exact h
      | _ => simp [Op.isSetSeq] at hop

/-! ### soundness -/

/-- `prepare` failed (the signer is never asked): the model's error kind is accepted, whatever the
    flags. -/
theorem admissible_of_prepare_error (d : DS) (r : Record) (op : Op d.S) (pk : d.S.PK)
    (oracle : Option Bytes) (sc sf : Bool) (e : EnrErr) (h : prepare d.S r op pk = .error e) :
    enrErrStr e ∈ admissibleErrs d r op pk oracle sc sf := by
  unfold prepare at h
  by_cases hv : valueErrs op = []
  · apply mem_admissible_of_preErrs d r op pk oracle sc sf _ hv
    unfold preErrs
    rw [h]
    exact List.mem_append_left _ (List.mem_append_left _ (List.mem_append_right _ (by simp [errOf])))
  · obtain ⟨e', he', hm⟩ := prepareG_error_mem_valueErrs r op pk true hv
    rw [he'] at h
    simp only [Except.error.injEq] at h
    subst h
    exact mem_admissible_of_valueErrs d r op pk oracle sc sf _ hm

/-- `prepare` succeeded, the signer answered, and the final size check refused: accepted when the
    driver knows the signer was called. -/
theorem admissible_of_final_size (d : DS) (r : Record) (op : Op d.S) (pk : d.S.PK) (sig : Bytes)
    (sf : Bool) (p : Prepared) (hp : prepare d.S r op pk = .ok p)
    (hsz : ({ p.enr with sig := sig, nodeId := nodeIdOf d.S pk } : Record).size > MAX_ENR_SIZE) :
    "ExceedsMaxSize" ∈ admissibleErrs d r op pk (some sig) true sf := by
  unfold prepare at hp
  apply mem_admissible_of_finalErrs d r op pk (some sig) true sf _ (valueErrs_nil_of_prepareG_ok hp)
  unfold finalErrs
  rw [prepareG_recLow (prepareG_ok_weaken hp)]
  simp only [Bool.true_and, decide_eq_true_eq]
  rw [if_pos hsz]
  exact List.mem_singleton.mpr rfl

/-- **Soundness, `prepare` succeeded** (the signer was asked; `oracle = none` means it failed):
    the model's own error kind is accepted. -/
theorem admissible_sound_prepared (d : DS) (r r' : Record) (op : Op d.S) (pk : d.S.PK)
    (oracle : Option Bytes) (e : EnrErr) (p : Prepared) (hp : prepare d.S r op pk = .ok p)
    (h : step d.S r op pk oracle = (.err e, r')) :
    enrErrStr e ∈ admissibleErrs d r op pk oracle true oracle.isNone := by
  rcases step_cases d.S r op pk oracle with ⟨e', hp', _⟩ | ⟨p', _, ho, hs⟩ | ⟨p', sig, hp', ho, hsz, hs⟩ |
      ⟨p', sig, _, _, _, hs⟩
  · rw [hp] at hp'; simp at hp'
  · rw [hs] at h
    simp only [Prod.mk.injEq, Res.err.injEq] at h
    rw [← h.1, ho]
    exact mem_admissible_of_fault d r op pk none true
  · rw [hs] at h
    simp only [Prod.mk.injEq, Res.err.injEq] at h
    rw [← h.1, ho]
    exact admissible_of_final_size d r op pk sig _ p' hp' hsz
  · rw [hs] at h; simp at h

/-- **Soundness, `prepare` failed** (the signer is never asked). -/
theorem admissible_sound_unprepared (d : DS) (r r' : Record) (op : Op d.S) (pk : d.S.PK)
    (oracle : Option Bytes) (e e0 : EnrErr) (hp : prepare d.S r op pk = .error e0)
    (h : step d.S r op pk oracle = (.err e, r')) :
    enrErrStr e ∈ admissibleErrs d r op pk oracle false false := by
  rw [step_prepare_error oracle hp] at h
  simp only [Prod.mk.injEq, Res.err.injEq] at h
  rw [← h.1]
  exact admissible_of_prepare_error d r op pk oracle false false e0 hp

/-- **Soundness, in one statement**: with the flags a signer's log that agrees with the model
    yields (`signerCalled` = the update reaches the signer, `signerFailed` = it does and the answer
    is `none`), the error kind of the model's `step` is always accepted. -/
theorem admissible_sound (d : DS) (r r' : Record) (op : Op d.S) (pk : d.S.PK)
    (oracle : Option Bytes) (e : EnrErr) (h : step d.S r op pk oracle = (.err e, r')) :
    enrErrStr e ∈ admissibleErrs d r op pk oracle (signRequest d.S r op pk).isSome
      ((signRequest d.S r op pk).isSome && oracle.isNone) := by
  cases hp : prepare d.S r op pk with
  | error e0 =>
    have hr : signRequest d.S r op pk = none := by unfold signRequest; rw [hp]
    rw [hr]
    exact admissible_sound_unprepared d r r' op pk oracle e e0 hp h
  | ok p =>
    rw [signRequest_of_prepare hp]
    simp only [Option.isSome_some, Bool.true_and]
    exact admissible_sound_prepared d r r' op pk oracle e p hp h

/-- the signer's answer `handleStep` hands to the model: the first answer of the log -/
def logOracle (log : List (Bytes × Option Bytes)) : Option Bytes :=
  match log with
  | (_, a) :: _ => a
  | [] => none

/-- The flags as `handleStep` computes them from the signer's log: `signerCalled = !log.isEmpty`,
    `signerFailed = log.any (·.2.isNone)`, `oracle` = the first answer.  If the log agrees with the
    model (one entry exactly when the update reaches the signer), the driver's C08 check
    `adm.contains (resKind res)` passes for the model's own error kind. -/
theorem admissible_sound_log (d : DS) (r r' : Record) (op : Op d.S) (pk : d.S.PK)
    (log : List (Bytes × Option Bytes)) (e : EnrErr)
    (hlog : log.length = if (signRequest d.S r op pk).isSome then 1 else 0)
    (h : step d.S r op pk (logOracle log) = (.err e, r')) :
    (admissibleErrs d r op pk (logOracle log)
      (!log.isEmpty) (log.any (·.2.isNone))).contains (enrErrStr e) = true := by
  rw [List.contains_iff_mem]
  have := admissible_sound d r r' op pk _ e h
  cases hr : (signRequest d.S r op pk).isSome with
  | false =>
    rw [hr] at hlog this
    simp only [Bool.false_eq_true, if_false, List.length_eq_zero_iff] at hlog
    subst hlog
    exact this
  | true =>
    rw [hr] at hlog this
    simp only [if_true] at hlog
    cases log with
    | nil => simp at hlog
    | cons x t =>
      cases t with
      | cons y t' => simp at hlog
      | nil =>
        obtain ⟨m, a⟩ := x
        simp only [logOracle, Bool.true_and, List.isEmpty_cons, Bool.not_false, List.any_cons,
          List.any_nil, Bool.or_false] at this ⊢
        exact this

#print axioms admissibleErrs_eq
#print axioms prepareG_error_mem_valueErrs
#print axioms prepareG_ok_weaken
#print axioms prepareG_recLow
#print axioms admissible_of_prepare_error
#print axioms admissible_of_final_size
#print axioms admissible_sound_prepared
#print axioms admissible_sound_unprepared
#print axioms admissible_sound
#print axioms admissible_sound_log

end EnrVerif
