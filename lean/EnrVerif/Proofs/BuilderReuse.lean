/-
  Reusing a builder.

  `Builder::build(&mut self, key)` stores the identity scheme (`id = "v4"`) and the signer's public
  key INTO the builder before it validates and signs.  The builder can therefore be used again
  (after a failed or a successful build, with the same or with another key); what it then holds is
  `Builder.afterBuild S b pk` (`Model/Mutators.lean`).

  Proved here, for a builder with sorted content (the state invariant `Builder.WF`):
   * the mutation is invisible to a second build with the same key (`prepare_afterBuild_same`,
     `build_afterBuild_same`) and to a build with another key that uses the same entry name
     (`prepare_afterBuild_other`, `build_afterBuild_other`): the other key's entry overwrites the
     first one;
   * the mutation is idempotent (`afterBuild_idem`) and keeps the invariant (`afterBuild_wf`,
     `afterBuilds_wf`);
   * a record built from a reused builder is `Valid` (`build_reused_valid`, `build_reused_valid'`).

  None of the equalities needs a law of the key type: when the entry name of the key happens to be
  `"id"` the two insertions collapse instead of commuting, and the equalities still hold.
-/
import EnrVerif.Proofs.StepLemmas

set_option linter.unusedVariables false

namespace EnrVerif

/-! ### the content after `build` has stamped it -/

/-- "insert `id = v4`, then the signer's public key": what `build` does to the content before it
    validates it. -/
def stamp (S : Scheme) (c : Content) (pk : S.PK) : Content :=
  withPubkey S (Map.insert c kId (encBytes vV4)) pk

theorem afterBuild_content (S : Scheme) (b : Builder) (pk : S.PK) :
    (Builder.afterBuild S b pk).content = stamp S b.content pk := rfl

theorem afterBuild_seq (S : Scheme) (b : Builder) (pk : S.PK) :
    (Builder.afterBuild S b pk).seq = b.seq := rfl

theorem afterBuild_eq (S : Scheme) (b : Builder) (pk : S.PK) :
    Builder.afterBuild S b pk = { b with content := stamp S b.content pk } := rfl

theorem stamp_sorted (S : Scheme) (c : Content) (pk : S.PK) (hs : Map.Sorted c) :
    Map.Sorted (stamp S c pk) :=
  Map.sorted_insert _ _ _ (Map.sorted_insert _ _ _ hs)

/-- Stamping a stamped content with a key of the same entry name gives what stamping the original
    content with that key gives. -/
theorem stamp_stamp (S : Scheme) (c : Content) (pk pk' : S.PK) (hs : Map.Sorted c)
    (hk : S.enrKey pk = S.enrKey pk') : stamp S (stamp S c pk) pk' = stamp S c pk' := by
  unfold stamp withPubkey
  rw [← hk]
  by_cases hid : S.enrKey pk = kId
  · -- the entry name is "id": every insertion hits the same key
    rw [hid]
    simp only [Map.insert_insert_same]
  · rw [Map.insert_comm (Map.insert c kId (encBytes vV4)) (S.enrKey pk) (pubValue S pk) kId
        (encBytes vV4) (Map.sorted_insert _ _ _ hs) hid]
    simp only [Map.insert_insert_same]

theorem stamp_idem (S : Scheme) (c : Content) (pk : S.PK) (hs : Map.Sorted c) :
    stamp S (stamp S c pk) pk = stamp S c pk := stamp_stamp S c pk pk hs rfl

/-- `Builder.prepare` looks at the builder only through its sequence number and the stamped
    content. -/
theorem Builder.prepare_congr (S : Scheme) (b1 b2 : Builder) (pk : S.PK) (hseq : b1.seq = b2.seq)
    (hc : stamp S b1.content pk = stamp S b2.content pk) :
    Builder.prepare S b1 pk = Builder.prepare S b2 pk := by
  obtain ⟨s1, c1⟩ := b1
  obtain ⟨s2, c2⟩ := b2
  simp only at hseq hc
  subst hseq
  unfold Builder.prepare
  unfold stamp at hc
  simp only [hc]

theorem Builder.build_congr (S : Scheme) (b1 b2 : Builder) (pk : S.PK) (o : Option Bytes)
    (h : Builder.prepare S b1 pk = Builder.prepare S b2 pk) :
    Builder.build S b1 pk o = Builder.build S b2 pk o := by
  unfold Builder.build
  rw [h]

/-! ### the invariant -/

/-- `build` keeps the builder's state invariant. -/
theorem afterBuild_wf (S : Scheme) (b : Builder) (pk : S.PK) (hb : b.WF) (hk : KeyOK S pk) :
    (Builder.afterBuild S b pk).WF := by
  obtain ⟨h1, h2, h3⟩ := hb
  refine ⟨h1, stamp_sorted S b.content pk h2, ?_⟩
  intro k v hm
  rw [afterBuild_content] at hm
  unfold stamp withPubkey at hm
  rcases Map.mem_insert hm with hm | hm
  · simp only [Prod.mk.injEq] at hm; rw [hm.1]; exact hk.2
  · rcases Map.mem_insert hm with hm | hm
    · simp only [Prod.mk.injEq] at hm; rw [hm.1]; exact kId_length
    · exact h3 k v hm

/-- … after any number of earlier builds with any keys. -/
theorem afterBuilds_wf (S : Scheme) (pks : List S.PK) :
    ∀ b : Builder, b.WF → (∀ pk ∈ pks, KeyOK S pk) → (pks.foldl (Builder.afterBuild S) b).WF := by
  induction pks with
  | nil => intro b hb _; exact hb
  | cons pk pks ih =>
    intro b hb hk
    simp only [List.foldl_cons]
    exact ih _ (afterBuild_wf S b pk hb (hk pk List.mem_cons_self))
      (fun p hp => hk p (List.mem_cons_of_mem _ hp))

/-! ### the builder's own mutation is invisible -/

/-- A second `build` with the same key validates exactly the content the first one validated:
    same outcome, same content to be signed. -/
theorem prepare_afterBuild_same (S : Scheme) (b : Builder) (pk : S.PK)
    (hs : Map.Sorted b.content) :
    Builder.prepare S (Builder.afterBuild S b pk) pk = Builder.prepare S b pk :=
  Builder.prepare_congr S _ _ pk rfl (stamp_idem S b.content pk hs)

/-- A second build with the same key gives exactly what the first would give. -/
theorem build_afterBuild_same (S : Scheme) (b : Builder) (pk : S.PK) (o : Option Bytes)
    (hs : Map.Sorted b.content) :
    Builder.build S (Builder.afterBuild S b pk) pk o = Builder.build S b pk o :=
  Builder.build_congr S _ _ pk o (prepare_afterBuild_same S b pk hs)

/-- A build with another key of the same entry name: the other key's entry overwrites the first
    one, so the earlier build left no trace.  (`hL` is not used by the proof: the equality holds for
    every key type.) -/
theorem prepare_afterBuild_other (S : Scheme) (hL : S.Lawful) (b : Builder) (pk pk' : S.PK)
    (hs : Map.Sorted b.content) (hk : S.enrKey pk = S.enrKey pk') :
    Builder.prepare S (Builder.afterBuild S b pk) pk' = Builder.prepare S b pk' :=
  Builder.prepare_congr S _ _ pk' rfl (stamp_stamp S b.content pk pk' hs hk)

theorem build_afterBuild_other (S : Scheme) (hL : S.Lawful) (b : Builder) (pk pk' : S.PK)
    (o : Option Bytes) (hs : Map.Sorted b.content) (hk : S.enrKey pk = S.enrKey pk') :
    Builder.build S (Builder.afterBuild S b pk) pk' o = Builder.build S b pk' o :=
  Builder.build_congr S _ _ pk' o (prepare_afterBuild_other S hL b pk pk' hs hk)

/-- The mutation is idempotent. -/
theorem afterBuild_idem (S : Scheme) (b : Builder) (pk : S.PK) (hs : Map.Sorted b.content) :
    Builder.afterBuild S (Builder.afterBuild S b pk) pk = Builder.afterBuild S b pk := by
  rw [afterBuild_eq S (Builder.afterBuild S b pk) pk, afterBuild_content,
    stamp_idem S b.content pk hs]
  rfl

/-- … and a later build with a key of the same entry name replaces an earlier one. -/
theorem afterBuild_afterBuild_other (S : Scheme) (b : Builder) (pk pk' : S.PK)
    (hs : Map.Sorted b.content) (hk : S.enrKey pk = S.enrKey pk') :
    Builder.afterBuild S (Builder.afterBuild S b pk) pk' = Builder.afterBuild S b pk' := by
  rw [afterBuild_eq S (Builder.afterBuild S b pk) pk', afterBuild_content,
    stamp_stamp S b.content pk pk' hs hk]
  rfl

/-- When `build` reaches the signer, the content it signs (and, on success, returns) is the
    content it leaves behind in the builder. -/
theorem prepare_ok_eq_afterBuild (S : Scheme) (b b' : Builder) (pk : S.PK)
    (h : Builder.prepare S b pk = .ok b') : b' = Builder.afterBuild S b pk :=
  (Builder.prepare_ok_inv h).1

theorem build_ok_content (S : Scheme) (b : Builder) (pk : S.PK) (o : Option Bytes) (r : Record)
    (h : Builder.build S b pk o = .ok r) :
    r.content = (Builder.afterBuild S b pk).content ∧ r.seq = b.seq := by
  unfold Builder.build at h
  split at h
  · simp at h
  · rename_i b' hp
    split at h
    · simp at h
    · split at h
      · simp at h
      · simp only [Res.ok.injEq] at h
        subst h
        rw [prepare_ok_eq_afterBuild S b b' pk hp]
        exact ⟨rfl, rfl⟩

/-! ### records built from a reused builder -/

/-- A record built, with any key `pk'`, from a builder on which `build` was called before with
    `pk` (whatever that call returned) is valid and carries `pk'`. -/
theorem build_reused_valid (S : Scheme) (hL : S.Lawful) (b : Builder) (pk pk' : S.PK)
    (o : Option Bytes) (r : Record) (hb : b.WF) (hk : KeyOK S pk) (hk' : KeyOK S pk')
    (hso : ∀ b', Builder.prepare S (Builder.afterBuild S b pk) pk' = .ok b' →
      SigOK S pk' b'.rlpContent o)
    (h : Builder.build S (Builder.afterBuild S b pk) pk' o = .ok r) :
    Valid S r ∧ S.enrToPublic r.content = .ok pk' ∧ r.nodeId = nodeIdOf S pk' :=
  build_ok_facts hL (afterBuild_wf S b pk hb hk) hk' hso h

/-- … after any number of earlier builds with any keys. -/
theorem build_reused_valid' (S : Scheme) (hL : S.Lawful) (b : Builder) (pks : List S.PK)
    (pk' : S.PK) (o : Option Bytes) (r : Record) (hb : b.WF) (hk : ∀ pk ∈ pks, KeyOK S pk)
    (hk' : KeyOK S pk')
    (hso : ∀ b', Builder.prepare S (pks.foldl (Builder.afterBuild S) b) pk' = .ok b' →
      SigOK S pk' b'.rlpContent o)
    (h : Builder.build S (pks.foldl (Builder.afterBuild S) b) pk' o = .ok r) :
    Valid S r ∧ S.enrToPublic r.content = .ok pk' ∧ r.nodeId = nodeIdOf S pk' :=
  build_ok_facts hL (afterBuilds_wf S pks b hb hk) hk' hso h

/-- Same key again: the `SigOK` hypothesis can be stated on the original builder, and the record is
    the one the first build would have returned for this signature. -/
theorem build_reused_same_valid (S : Scheme) (hL : S.Lawful) (b : Builder) (pk : S.PK)
    (o : Option Bytes) (r : Record) (hb : b.WF) (hk : KeyOK S pk)
    (hso : ∀ b', Builder.prepare S b pk = .ok b' → SigOK S pk b'.rlpContent o)
    (h : Builder.build S (Builder.afterBuild S b pk) pk o = .ok r) :
    Builder.build S b pk o = .ok r ∧ Valid S r ∧ S.enrToPublic r.content = .ok pk ∧
      r.nodeId = nodeIdOf S pk := by
  rw [build_afterBuild_same S b pk o hb.2.1] at h
  exact ⟨h, build_ok_facts hL hb hk hso h⟩

/-! ### a key with another entry name stays behind

  The equalities above need `S.enrKey pk = S.enrKey pk'`.  With a key type that has two entry
  names (`CombinedKey`: `"secp256k1"` and `"ed25519"`) an earlier build with a key of the other
  kind leaves its entry in the builder, and the record built next carries both entries.  The
  lookup facts: -/

theorem afterBuild_lookup_key (S : Scheme) (b : Builder) (pk : S.PK) :
    Map.lookup (Builder.afterBuild S b pk).content (S.enrKey pk) = some (pubValue S pk) :=
  Map.lookup_insert_self _ _ _

theorem afterBuild_lookup_id (S : Scheme) (hL : S.Lawful) (b : Builder) (pk : S.PK) :
    Map.lookup (Builder.afterBuild S b pk).content kId = some (encBytes vV4) := by
  rw [afterBuild_content]
  unfold stamp withPubkey
  rw [Map.lookup_insert_ne _ _ _ _ (fun hh => (hL.key_not_reserved pk).1 hh.symm)]
  exact Map.lookup_insert_self _ _ _

theorem afterBuild_lookup_other (S : Scheme) (b : Builder) (pk : S.PK) (k : Bytes)
    (h1 : k ≠ S.enrKey pk) (h2 : k ≠ kId) :
    Map.lookup (Builder.afterBuild S b pk).content k = Map.lookup b.content k := by
  rw [afterBuild_content]
  unfold stamp withPubkey
  rw [Map.lookup_insert_ne _ _ _ _ h1, Map.lookup_insert_ne _ _ _ _ h2]

/-- The first key's entry survives a build with a key of another entry name. -/
theorem afterBuild_other_name_stays (S : Scheme) (b : Builder) (pk pk' : S.PK)
    (hne : S.enrKey pk ≠ S.enrKey pk') (hid : S.enrKey pk ≠ kId) :
    Map.lookup (Builder.afterBuild S (Builder.afterBuild S b pk) pk').content (S.enrKey pk) =
      some (pubValue S pk) := by
  rw [afterBuild_lookup_other S _ pk' _ hne hid]
  exact afterBuild_lookup_key S b pk

#print axioms stamp_stamp
#print axioms afterBuild_wf
#print axioms afterBuilds_wf
#print axioms prepare_afterBuild_same
#print axioms build_afterBuild_same
#print axioms prepare_afterBuild_other
#print axioms build_afterBuild_other
#print axioms afterBuild_idem
#print axioms afterBuild_afterBuild_other
#print axioms build_ok_content
#print axioms build_reused_valid
#print axioms build_reused_valid'
#print axioms build_reused_same_valid
#print axioms afterBuild_lookup_id
#print axioms afterBuild_other_name_stays

end EnrVerif
