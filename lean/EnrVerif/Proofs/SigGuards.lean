/-
  C01, crypto-guard part: "every alteration … including the high-S twin of its ECDSA signature, is
  rejected", and wrong-length signatures.

  These lemmas only use the explicit guards of `Secp.ecdsaVerifyPrehash` and `Ed.verify`; the curve
  equations (`Secp.ecdsaCore`, `Ed.verifyCore`) are never unfolded.
-/
import EnrVerif.Model.Schemes
import EnrVerif.Proofs.BeLemmas

namespace EnrVerif

/-! ### numeric facts about the group orders -/

theorem Secp.n_odd : Secp.n % 2 = 1 := by decide
theorem Secp.n_lt : Secp.n < 256 ^ 32 := by decide
theorem Secp.n_pos : 0 < Secp.n := by decide

/-! ### secp256k1 / ECDSA -/

/-- a signature that is not exactly 64 bytes long is rejected -/
theorem ecdsa_len (P : Secp.Pt) (d sig : Bytes) (h : sig.length ≠ 64) :
    Secp.ecdsaVerifyPrehash P d sig = false := by
  unfold Secp.ecdsaVerifyPrehash
  rw [if_pos h]

theorem verifyV4_len (P : Secp.Pt) (msg sig : Bytes) (h : sig.length ≠ 64) :
    Secp.verifyV4 P msg sig = false :=
  ecdsa_len P _ sig h

theorem secpVerify_len (pk msg sig : Bytes) (h : sig.length ≠ 64) :
    secpVerify pk msg sig = false := by
  unfold secpVerify
  split
  · exact verifyV4_len _ msg sig h
  · rfl

/-- `r` or `s` outside `[1, n)` is rejected -/
theorem ecdsa_range (P : Secp.Pt) (d sig : Bytes)
    (h : beToNat (sig.take 32) = 0 ∨ Secp.n ≤ beToNat (sig.take 32) ∨
         beToNat (sig.drop 32) = 0 ∨ Secp.n ≤ beToNat (sig.drop 32)) :
    Secp.ecdsaVerifyPrehash P d sig = false := by
  unfold Secp.ecdsaVerifyPrehash
  split
  · rfl
  · simp only
    rw [if_pos h]

/-- high `s` (`n/2 < s`) is rejected -/
theorem ecdsa_high (P : Secp.Pt) (d sig : Bytes) (h : Secp.n / 2 < beToNat (sig.drop 32)) :
    Secp.ecdsaVerifyPrehash P d sig = false := by
  unfold Secp.ecdsaVerifyPrehash
  split
  · rfl
  · simp only
    split
    · rfl
    · first
      | rfl
      | rw [if_pos h]

/-- The high-S twin `(r, n - s)` of a low-S signature `(r, s)` is rejected, whatever the curve
    equation says. -/
theorem ecdsa_highS (P : Secp.Pt) (d rb sb : Bytes) (hr : rb.length = 32) (_hs : sb.length = 32)
    (hpos : 0 < beToNat sb) (hlow : beToNat sb ≤ Secp.n / 2) :
    Secp.ecdsaVerifyPrehash P d (rb ++ natToBeFixed 32 (Secp.n - beToNat sb)) = false := by
  apply ecdsa_high
  have hd : (rb ++ natToBeFixed 32 (Secp.n - beToNat sb)).drop 32 =
      natToBeFixed 32 (Secp.n - beToNat sb) := by
    rw [← hr]; exact List.drop_left
  rw [hd, beToNat_natToBeFixed _ _ (by have := Secp.n_lt; omega)]
  have := Secp.n_odd
  omega

/-- … and the twin really is a different byte string (so the pair `(sig, twin)` is a genuine
    malleability candidate that the verifier refuses). -/
theorem ecdsa_highS_ne (rb sb : Bytes) (_hr : rb.length = 32) (_hs : sb.length = 32)
    (hlow : beToNat sb ≤ Secp.n / 2) :
    rb ++ natToBeFixed 32 (Secp.n - beToNat sb) ≠ rb ++ sb := by
  intro h
  have h2 := List.append_cancel_left h
  have h3 := congrArg beToNat h2
  rw [beToNat_natToBeFixed _ _ (by have := Secp.n_lt; omega)] at h3
  have := Secp.n_odd
  omega

/-- `secpVerify` (all three secp256k1-capable key types) rejects the high-S twin. -/
theorem secpVerify_highS (pk msg rb sb : Bytes) (hr : rb.length = 32) (hs : sb.length = 32)
    (hpos : 0 < beToNat sb) (hlow : beToNat sb ≤ Secp.n / 2) :
    secpVerify pk msg (rb ++ natToBeFixed 32 (Secp.n - beToNat sb)) = false := by
  unfold secpVerify
  split
  · exact ecdsa_highS _ _ rb sb hr hs hpos hlow
  · rfl

/-! ### ed25519 -/

theorem ed_len (A : Ed.EdPub) (msg sig : Bytes) (h : sig.length ≠ 64) :
    Ed.verify A msg sig = false := by
  unfold Ed.verify
  rw [if_pos h]

/-- a non-canonical scalar `s ≥ ℓ` is rejected -/
theorem ed_noncanonical_s (A : Ed.EdPub) (msg sig : Bytes) (_hl : sig.length = 64)
    (h : Ed.ℓ ≤ Ed.leToNat (sig.drop 32)) : Ed.verify A msg sig = false := by
  unfold Ed.verify
  split
  · rfl
  · simp only
    rw [if_pos h]

theorem leToNat_natToLeFixed (w v : Nat) (h : v < 256 ^ w) :
    Ed.leToNat (Ed.natToLeFixed w v) = v := by
  unfold Ed.leToNat Ed.natToLeFixed
  rw [List.reverse_reverse, beToNat_natToBeFixed w v h]

/-- The malleability twin `(R, s + ℓ)` of an ed25519 signature `(R, s)` is rejected, whatever the
    group equation says. -/
theorem ed_twin_rejected (A : Ed.EdPub) (msg rb : Bytes) (s : Nat) (hr : rb.length = 32)
    (hs : s + Ed.ℓ < 256 ^ 32) :
    Ed.verify A msg (rb ++ Ed.natToLeFixed 32 (s + Ed.ℓ)) = false := by
  have hd : (rb ++ Ed.natToLeFixed 32 (s + Ed.ℓ)).drop 32 = Ed.natToLeFixed 32 (s + Ed.ℓ) := by
    rw [← hr]; exact List.drop_left
  apply ed_noncanonical_s
  · rw [List.length_append, hr]
    unfold Ed.natToLeFixed
    rw [List.length_reverse, natToBeFixed_length]
  · rw [hd, leToNat_natToLeFixed _ _ hs]
    omega

theorem edVerify_len (pk msg sig : Bytes) (h : sig.length ≠ 64) : edVerify pk msg sig = false := by
  unfold edVerify
  split
  · exact ed_len _ msg sig h
  · rfl

theorem edVerify_noncanonical_s (pk msg sig : Bytes) (hl : sig.length = 64)
    (h : Ed.ℓ ≤ Ed.leToNat (sig.drop 32)) : edVerify pk msg sig = false := by
  unfold edVerify
  split
  · exact ed_noncanonical_s _ msg sig hl h
  · rfl

/-! ### lifted to the schemes -/

theorem k256S_verify_len (pk msg sig : Bytes) (h : sig.length ≠ 64) :
    k256S.verify pk msg sig = false := secpVerify_len pk msg sig h

theorem libsecpS_verify_len (pk msg sig : Bytes) (h : sig.length ≠ 64) :
    libsecpS.verify pk msg sig = false := secpVerify_len pk msg sig h

theorem edS_verify_len (pk msg sig : Bytes) (h : sig.length ≠ 64) :
    edS.verify pk msg sig = false := edVerify_len pk msg sig h

theorem combS_verify_len (pk msg sig : Bytes) (h : sig.length ≠ 64) :
    combS.verify pk msg sig = false := by
  show (if pk.length = 33 then secpVerify pk msg sig else edVerify pk msg sig) = false
  split
  · exact secpVerify_len pk msg sig h
  · exact edVerify_len pk msg sig h

theorem k256S_verify_highS (pk msg rb sb : Bytes) (hr : rb.length = 32) (hs : sb.length = 32)
    (hpos : 0 < beToNat sb) (hlow : beToNat sb ≤ Secp.n / 2) :
    k256S.verify pk msg (rb ++ natToBeFixed 32 (Secp.n - beToNat sb)) = false :=
  secpVerify_highS pk msg rb sb hr hs hpos hlow

theorem libsecpS_verify_highS (pk msg rb sb : Bytes) (hr : rb.length = 32) (hs : sb.length = 32)
    (hpos : 0 < beToNat sb) (hlow : beToNat sb ≤ Secp.n / 2) :
    libsecpS.verify pk msg (rb ++ natToBeFixed 32 (Secp.n - beToNat sb)) = false :=
  secpVerify_highS pk msg rb sb hr hs hpos hlow

/-- CombinedKey with a secp256k1 (33-byte) public key rejects the high-S twin. -/
theorem combS_verify_highS (pk msg rb sb : Bytes) (hpk : pk.length = 33)
    (hr : rb.length = 32) (hs : sb.length = 32)
    (hpos : 0 < beToNat sb) (hlow : beToNat sb ≤ Secp.n / 2) :
    combS.verify pk msg (rb ++ natToBeFixed 32 (Secp.n - beToNat sb)) = false := by
  show (if pk.length = 33 then secpVerify pk msg _ else edVerify pk msg _) = false
  rw [if_pos hpk]
  exact secpVerify_highS pk msg rb sb hr hs hpos hlow

theorem edS_verify_noncanonical_s (pk msg sig : Bytes) (hl : sig.length = 64)
    (h : Ed.ℓ ≤ Ed.leToNat (sig.drop 32)) : edS.verify pk msg sig = false :=
  edVerify_noncanonical_s pk msg sig hl h

end EnrVerif

section Axioms
open EnrVerif
#print axioms ecdsa_len
#print axioms secpVerify_len
#print axioms ecdsa_range
#print axioms ecdsa_high
#print axioms ecdsa_highS
#print axioms ecdsa_highS_ne
#print axioms secpVerify_highS
#print axioms ed_len
#print axioms ed_noncanonical_s
#print axioms ed_twin_rejected
#print axioms edVerify_len
#print axioms k256S_verify_len
#print axioms libsecpS_verify_len
#print axioms edS_verify_len
#print axioms combS_verify_len
#print axioms k256S_verify_highS
#print axioms libsecpS_verify_highS
#print axioms combS_verify_highS
#print axioms edS_verify_noncanonical_s
end Axioms
