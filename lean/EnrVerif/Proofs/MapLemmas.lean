/-
  Lemmas about the sorted association-list model of `BTreeMap<Vec<u8>, Bytes>`.

  The order facts about `bytesLt` needed here are proved locally under the `lt_` prefix so that this
  file depends only on the model.
-/
import EnrVerif.Model.Map

namespace EnrVerif.Map

/-! ### Order facts for `bytesLt` -/

theorem lt_irrefl (a : Bytes) : bytesLt a a = false := by
  induction a with
  | nil => rfl
  | cons x xs ih => simp [bytesLt, ih]

theorem lt_trans {a b c : Bytes} :
    bytesLt a b = true → bytesLt b c = true → bytesLt a c = true := by
  induction a generalizing b c with
  | nil => cases b <;> cases c <;> simp [bytesLt]
  | cons x xs ih =>
    cases b with
    | nil => simp [bytesLt]
    | cons y ys =>
      cases c with
      | nil => simp [bytesLt]
      | cons z zs =>
        simp only [bytesLt]
        intro h1 h2
        by_cases hxy : x.toNat < y.toNat
        · by_cases hyz : y.toNat < z.toNat
          · have : x.toNat < z.toNat := by omega
            simp [this]
          · by_cases hzy : z.toNat < y.toNat
            · simp [hyz, hzy] at h2
            · have : x.toNat < z.toNat := by omega
              simp [this]
        · by_cases hyx : y.toNat < x.toNat
          · simp [hxy, hyx] at h1
          · simp only [hxy, hyx, if_false] at h1
            by_cases hyz : y.toNat < z.toNat
            · have : x.toNat < z.toNat := by omega
              simp [this]
            · by_cases hzy : z.toNat < y.toNat
              · simp [hyz, hzy] at h2
              · simp only [hyz, hzy, if_false] at h2
                have h3 : ¬ x.toNat < z.toNat := by omega
                have h4 : ¬ z.toNat < x.toNat := by omega
                simp only [h3, h4, if_false]
                exact ih h1 h2

theorem lt_asymm {a b : Bytes} : bytesLt a b = true → bytesLt b a = false := by
  intro h
  cases h' : bytesLt b a with
  | false => rfl
  | true =>
    have := lt_trans h h'
    rw [lt_irrefl] at this
    exact absurd this (by decide)

theorem lt_total (a b : Bytes) : bytesLt a b = true ∨ a = b ∨ bytesLt b a = true := by
  induction a generalizing b with
  | nil => cases b <;> simp [bytesLt]
  | cons x xs ih =>
    cases b with
    | nil => simp [bytesLt]
    | cons y ys =>
      simp only [bytesLt]
      by_cases hxy : x.toNat < y.toNat
      · simp [hxy]
      · by_cases hyx : y.toNat < x.toNat
        · simp [hxy, hyx]
        · have hxe : x = y := UInt8.toNat_inj.mp (by omega)
          subst hxe
          simp only [hxy, if_false]
          rcases ih ys with h | h | h
          · exact Or.inl h
          · exact Or.inr (Or.inl (by rw [h]))
          · exact Or.inr (Or.inr h)

theorem lt_ne {a b : Bytes} : bytesLt a b = true → a ≠ b := by
  intro h e
  subst e
  rw [lt_irrefl] at h
  exact absurd h (by decide)

/-! ### `Sorted` -/

theorem sortedB_iff (c : Content) : sortedB c = true ↔ Sorted c := by
  fun_induction sortedB c with
  | case1 => simp [Sorted]
  | case2 => simp [Sorted]
  | case3 k1 v1 k2 v2 rest ih => simp [Sorted, ih]

instance (c : Content) : Decidable (Sorted c) := decidable_of_iff _ (sortedB_iff c)

theorem Sorted_tail {p : Bytes × Bytes} {c : Content} : Sorted (p :: c) → Sorted c := by
  cases c with
  | nil => intro _; trivial
  | cons q c => obtain ⟨k, v⟩ := p; obtain ⟨k2, v2⟩ := q; exact fun h => h.2

@[simp] theorem keys_nil : keys [] = [] := rfl
@[simp] theorem keys_cons (p : Bytes × Bytes) (c : Content) : keys (p :: c) = p.1 :: keys c := rfl
@[simp] theorem keys_append (a b : Content) : keys (a ++ b) = keys a ++ keys b := by
  simp [keys]

theorem Sorted_cons_iff (k v : Bytes) (c : Content) :
    Sorted ((k, v) :: c) ↔ (∀ k' ∈ keys c, bytesLt k k' = true) ∧ Sorted c := by
  induction c generalizing k v with
  | nil => simp [Sorted]
  | cons q c ih =>
    obtain ⟨k2, v2⟩ := q
    simp only [Sorted, keys_cons, List.mem_cons, forall_eq_or_imp]
    constructor
    · intro ⟨h1, h2⟩
      refine ⟨⟨h1, ?_⟩, h2⟩
      intro k' hk'
      exact lt_trans h1 (((ih k2 v2).mp h2).1 k' hk')
    · intro ⟨⟨h1, _⟩, h2⟩
      exact ⟨h1, h2⟩

/-! ### membership / lookup -/

theorem mem_keys_iff_lookup (c : Content) (k : Bytes) : k ∈ keys c ↔ (lookup c k).isSome := by
  induction c with
  | nil => simp [lookup]
  | cons p c ih =>
    obtain ⟨k0, v0⟩ := p
    simp only [keys_cons, List.mem_cons, lookup]
    by_cases h : k0 = k
    · simp [h]
    · have h' : ¬ k = k0 := fun e => h e.symm
      simp [h, h', ih]

theorem lookup_eq_none_iff (c : Content) (k : Bytes) : lookup c k = none ↔ k ∉ keys c := by
  rw [mem_keys_iff_lookup]
  cases lookup c k <;> simp

theorem lookup_none_of_forall_lt (c : Content) (k : Bytes) :
    (∀ k' ∈ keys c, bytesLt k k' = true) → lookup c k = none := by
  intro h
  rw [lookup_eq_none_iff]
  intro hk
  have := h k hk
  rw [lt_irrefl] at this
  exact absurd this (by decide)

theorem lookup_mem (c : Content) (k v : Bytes) : lookup c k = some v → (k, v) ∈ c := by
  induction c with
  | nil => simp [lookup]
  | cons p c ih =>
    obtain ⟨k0, v0⟩ := p
    simp only [lookup]
    by_cases h : k0 = k
    · subst h
      simp only [if_true, Option.some.injEq]
      intro e; subst e
      exact List.mem_cons_self
    · simp only [h, if_false]
      intro e
      exact List.mem_cons_of_mem _ (ih e)

theorem mem_keys_of_mem {c : Content} {k v : Bytes} : (k, v) ∈ c → k ∈ keys c := by
  intro h
  exact List.mem_map.mpr ⟨(k, v), h, rfl⟩

theorem mem_lookup (c : Content) (k v : Bytes) : Sorted c → (k, v) ∈ c → lookup c k = some v := by
  induction c with
  | nil => simp
  | cons p c ih =>
    obtain ⟨k0, v0⟩ := p
    intro hs hm
    rw [Sorted_cons_iff] at hs
    simp only [lookup]
    rcases List.mem_cons.mp hm with e | hm'
    · injection e with e1 e2
      subst e1; subst e2
      simp
    · have hne : k0 ≠ k := lt_ne (hs.1 k (mem_keys_of_mem hm'))
      simp only [hne, if_false]
      exact ih hs.2 hm'

/-! ### insert -/

theorem lookup_insert_self (c : Content) (k v : Bytes) : lookup (insert c k v) k = some v := by
  induction c with
  | nil => simp [insert, lookup]
  | cons p c ih =>
    obtain ⟨k0, v0⟩ := p
    simp only [insert]
    by_cases h : k0 = k
    · simp [h, lookup]
    · by_cases h2 : bytesLt k k0 = true
      · simp [h, h2, lookup]
      · simp [h, h2, lookup, ih]

theorem lookup_insert_ne (c : Content) (k v k' : Bytes) :
    k' ≠ k → lookup (insert c k v) k' = lookup c k' := by
  intro hne
  have hne' : ¬ k = k' := fun e => hne e.symm
  induction c with
  | nil => simp [insert, lookup, hne']
  | cons p c ih =>
    obtain ⟨k0, v0⟩ := p
    simp only [insert]
    by_cases h : k0 = k
    · subst h
      simp [lookup, hne']
    · by_cases h2 : bytesLt k k0 = true
      · simp [h, h2, lookup, hne']
      · simp [h, h2, lookup, ih]

theorem mem_keys_insert (c : Content) (k v k' : Bytes) :
    k' ∈ keys (insert c k v) ↔ k' = k ∨ k' ∈ keys c := by
  induction c with
  | nil => simp [insert]
  | cons p c ih =>
    obtain ⟨k0, v0⟩ := p
    simp only [insert]
    by_cases h : k0 = k
    · subst h
      simp
    · cases h2 : bytesLt k k0 with
      | true => simp [h]
      | false =>
        simp only [h, if_false, Bool.false_eq_true, keys_cons, List.mem_cons, ih]
        constructor
        · rintro (h | h | h) <;> simp [h]
        · rintro (h | h | h) <;> simp [h]

theorem sorted_insert (c : Content) (k v : Bytes) : Sorted c → Sorted (insert c k v) := by
  induction c with
  | nil => intro _; simp [insert, Sorted]
  | cons p c ih =>
    obtain ⟨k0, v0⟩ := p
    intro hs
    simp only [insert]
    by_cases h : k0 = k
    · subst h
      simp only [if_true]
      rw [Sorted_cons_iff] at hs ⊢
      exact hs
    · cases h2 : bytesLt k k0 with
      | true =>
        simp only [h, if_false, if_true]
        exact ⟨h2, hs⟩
      | false =>
        simp only [h, if_false, Bool.false_eq_true]
        rw [Sorted_cons_iff] at hs ⊢
        refine ⟨?_, ih hs.2⟩
        intro k' hk'
        rcases (mem_keys_insert c k v k').mp hk' with e | hm
        · subst e
          rcases lt_total k0 k' with h3 | h3 | h3
          · exact h3
          · exact absurd h3 h
          · rw [h2] at h3; exact absurd h3 (by decide)
        · exact hs.1 k' hm

/-- Without `Sorted c` the length formula is false: inserting key `[1]` into the unsorted list
    `[[5], [1]]` prepends a duplicate. -/
example : (insert [([5], []), ([1], [])] [1] []).length = 3 ∧
    (lookup [([5], []), ([1], [])] [1]).isSome = true := by decide

theorem length_insert (c : Content) (k v : Bytes) : Sorted c →
    (insert c k v).length = if (lookup c k).isSome then c.length else c.length + 1 := by
  induction c with
  | nil => intro _; simp [insert, lookup]
  | cons p c ih =>
    obtain ⟨k0, v0⟩ := p
    intro hs
    simp only [insert, lookup]
    by_cases h : k0 = k
    · simp [h]
    · cases h2 : bytesLt k k0 with
      | true =>
        have hn : lookup c k = none := by
          apply lookup_none_of_forall_lt
          intro k' hk'
          exact lt_trans h2 (((Sorted_cons_iff _ _ _).mp hs).1 k' hk')
        simp [h, hn]
      | false =>
        simp only [h, if_false, Bool.false_eq_true, List.length_cons, ih (Sorted_tail hs)]
        split <;> rfl

theorem insert_insert_same (c : Content) (k v w : Bytes) :
    insert (insert c k v) k w = insert c k w := by
  induction c with
  | nil => simp [insert]
  | cons p c ih =>
    obtain ⟨k0, v0⟩ := p
    by_cases h : k0 = k
    · simp [insert, h]
    · by_cases h2 : bytesLt k k0 = true
      · simp [insert, h, h2]
      · simp [insert, h, h2, ih]

theorem insert_idem (c : Content) (k v : Bytes) :
    lookup c k = some v → Sorted c → insert c k v = c := by
  induction c with
  | nil => simp [lookup]
  | cons p c ih =>
    obtain ⟨k0, v0⟩ := p
    intro hl hs
    simp only [lookup] at hl
    simp only [insert]
    by_cases h : k0 = k
    · subst h
      simp only [if_true, Option.some.injEq] at hl
      simp [hl]
    · simp only [h, if_false] at hl
      have hk : k ∈ keys c := (mem_keys_iff_lookup c k).mpr (by simp [hl])
      have h2 : bytesLt k k0 = false := lt_asymm (((Sorted_cons_iff _ _ _).mp hs).1 k hk)
      simp [h, h2, ih hl (Sorted_tail hs)]

/-! ### erase -/

theorem mem_keys_erase_subset (c : Content) (k k' : Bytes) :
    k' ∈ keys (erase c k) → k' ∈ keys c := by
  induction c with
  | nil => simp [erase]
  | cons p c ih =>
    obtain ⟨k0, v0⟩ := p
    simp only [erase]
    by_cases h : k0 = k
    · simp only [h, if_true, keys_cons, List.mem_cons]
      exact Or.inr
    · simp only [h, if_false, keys_cons, List.mem_cons]
      rintro (e | hm)
      · exact Or.inl e
      · exact Or.inr (ih hm)

theorem lookup_erase_self (c : Content) (k : Bytes) : Sorted c → lookup (erase c k) k = none := by
  induction c with
  | nil => intro _; simp [erase, lookup]
  | cons p c ih =>
    obtain ⟨k0, v0⟩ := p
    intro hs
    rw [Sorted_cons_iff] at hs
    simp only [erase]
    by_cases h : k0 = k
    · subst h
      simp only [if_true]
      exact lookup_none_of_forall_lt _ _ hs.1
    · simp [h, lookup, ih hs.2]

theorem lookup_erase_ne (c : Content) (k k' : Bytes) :
    k' ≠ k → lookup (erase c k) k' = lookup c k' := by
  intro hne
  induction c with
  | nil => simp [erase]
  | cons p c ih =>
    obtain ⟨k0, v0⟩ := p
    simp only [erase]
    by_cases h : k0 = k
    · subst h
      have : ¬ k0 = k' := fun e => hne e.symm
      simp [lookup, this]
    · simp [h, lookup, ih]

theorem sorted_erase (c : Content) (k : Bytes) : Sorted c → Sorted (erase c k) := by
  induction c with
  | nil => intro _; simp [erase, Sorted]
  | cons p c ih =>
    obtain ⟨k0, v0⟩ := p
    intro hs
    rw [Sorted_cons_iff] at hs
    simp only [erase]
    by_cases h : k0 = k
    · simp only [h, if_true]
      exact hs.2
    · simp only [h, if_false]
      rw [Sorted_cons_iff]
      exact ⟨fun k' hk' => hs.1 k' (mem_keys_erase_subset c k k' hk'), ih hs.2⟩

theorem erase_of_not_mem (c : Content) (k : Bytes) : lookup c k = none → erase c k = c := by
  induction c with
  | nil => simp [erase]
  | cons p c ih =>
    obtain ⟨k0, v0⟩ := p
    simp only [lookup, erase]
    by_cases h : k0 = k
    · simp [h]
    · simp only [h, if_false]
      intro hl
      rw [ih hl]

/-- `erase ∘ insert` on an absent key is the identity (no sortedness needed). -/
theorem erase_insert_of_not_mem' (c : Content) (k v : Bytes) :
    lookup c k = none → erase (insert c k v) k = c := by
  induction c with
  | nil => simp [insert, erase]
  | cons p c ih =>
    obtain ⟨k0, v0⟩ := p
    simp only [lookup, insert]
    by_cases h : k0 = k
    · simp [h]
    · simp only [h, if_false]
      intro hl
      by_cases h2 : bytesLt k k0 = true
      · simp [h2, erase]
      · simp [h2, erase, h, ih hl]

theorem erase_insert_of_not_mem (c : Content) (k v : Bytes) :
    Sorted c → lookup c k = none → erase (insert c k v) k = c :=
  fun _ => erase_insert_of_not_mem' c k v

/-! ### extensionality -/

theorem ext_of_sorted (a b : Content) :
    Sorted a → Sorted b → (∀ k, lookup a k = lookup b k) → a = b := by
  induction a generalizing b with
  | nil =>
    intro _ _ h
    cases b with
    | nil => rfl
    | cons q b =>
      obtain ⟨k2, v2⟩ := q
      have := h k2
      simp [lookup] at this
  | cons p a ih =>
    obtain ⟨k1, v1⟩ := p
    intro hsa hsb h
    cases b with
    | nil =>
      have := h k1
      simp [lookup] at this
    | cons q b =>
      obtain ⟨k2, v2⟩ := q
      rw [Sorted_cons_iff] at hsa hsb
      have na : lookup a k1 = none := lookup_none_of_forall_lt _ _ hsa.1
      have nb : lookup b k2 = none := lookup_none_of_forall_lt _ _ hsb.1
      rcases lt_total k1 k2 with hlt | heq | hgt
      · exfalso
        have h1 := h k1
        have hne : ¬ k2 = k1 := fun e => lt_ne hlt e.symm
        have : lookup b k1 = none :=
          lookup_none_of_forall_lt _ _ (fun k' hk' => lt_trans hlt (hsb.1 k' hk'))
        simp [lookup, hne, this] at h1
      · subst heq
        have h1 := h k1
        simp only [lookup, if_true, Option.some.injEq] at h1
        subst h1
        congr 1
        apply ih b hsa.2 hsb.2
        intro k
        by_cases hk : k1 = k
        · subst hk; rw [na, nb]
        · have := h k
          simpa [lookup, hk] using this
      · exfalso
        have h2 := h k2
        have hne : ¬ k1 = k2 := fun e => lt_ne hgt e.symm
        have : lookup a k2 = none :=
          lookup_none_of_forall_lt _ _ (fun k' hk' => lt_trans hgt (hsa.1 k' hk'))
        simp [lookup, hne, this] at h2

theorem insert_comm (c : Content) (k v k' v' : Bytes) :
    Sorted c → k ≠ k' → insert (insert c k v) k' v' = insert (insert c k' v') k v := by
  intro hs hne
  apply ext_of_sorted
  · exact sorted_insert _ _ _ (sorted_insert _ _ _ hs)
  · exact sorted_insert _ _ _ (sorted_insert _ _ _ hs)
  · intro x
    by_cases hx : x = k'
    · subst hx
      rw [lookup_insert_self, lookup_insert_ne _ _ _ _ (Ne.symm hne), lookup_insert_self]
    · by_cases hx2 : x = k
      · subst hx2
        rw [lookup_insert_ne _ _ _ _ hx, lookup_insert_self, lookup_insert_self]
      · rw [lookup_insert_ne _ _ _ _ hx, lookup_insert_ne _ _ _ _ hx2,
          lookup_insert_ne _ _ _ _ hx2, lookup_insert_ne _ _ _ _ hx]

/-! ### appending a maximal key -/

theorem insert_last (c : Content) (k v : Bytes) :
    Sorted c → (∀ k' ∈ keys c, bytesLt k' k = true) → insert c k v = c ++ [(k, v)] := by
  induction c with
  | nil => intro _ _; simp [insert]
  | cons p c ih =>
    obtain ⟨k0, v0⟩ := p
    intro hs hlt
    have h0 : bytesLt k0 k = true := hlt k0 (by simp)
    have hne : k0 ≠ k := lt_ne h0
    have h2 : bytesLt k k0 = false := lt_asymm h0
    simp only [insert, hne, h2, if_false, List.cons_append]
    rw [ih (Sorted_tail hs) (fun k' hk' => hlt k' (by simp [hk']))]
    simp

theorem sorted_append_last (c : Content) (k v : Bytes) :
    Sorted c → (∀ k' ∈ keys c, bytesLt k' k = true) → Sorted (c ++ [(k, v)]) := by
  intro hs hlt
  rw [← insert_last c k v hs hlt]
  exact sorted_insert c k v hs

/-- If `c ++ [(k, v)]` is sorted, every key of `c` is strictly below `k`. -/
theorem keys_lt_of_last (c : Content) (k v : Bytes) :
    Sorted (c ++ [(k, v)]) → ∀ k' ∈ keys c, bytesLt k' k = true := by
  induction c with
  | nil => intro _ k' hk'; simp at hk'
  | cons p c ih =>
    obtain ⟨k0, v0⟩ := p
    intro hs k' hk'
    rw [List.cons_append, Sorted_cons_iff] at hs
    simp only [keys_cons, List.mem_cons] at hk'
    rcases hk' with e | hm
    · subst e
      exact hs.1 k (by simp)
    · exact ih hs.2 k' hm

theorem sorted_of_append_last (c : Content) (k v : Bytes) :
    Sorted (c ++ [(k, v)]) → Sorted c := by
  induction c with
  | nil => intro _; trivial
  | cons p c ih =>
    obtain ⟨k0, v0⟩ := p
    intro hs
    rw [List.cons_append, Sorted_cons_iff] at hs
    rw [Sorted_cons_iff]
    exact ⟨fun k' hk' => hs.1 k' (by simp [hk']), ih hs.2⟩

theorem sorted_append_last_iff (c : Content) (k v : Bytes) :
    Sorted (c ++ [(k, v)]) ↔ Sorted c ∧ ∀ k' ∈ keys c, bytesLt k' k = true :=
  ⟨fun h => ⟨sorted_of_append_last c k v h, keys_lt_of_last c k v h⟩,
   fun h => sorted_append_last c k v h.1 h.2⟩

end EnrVerif.Map
